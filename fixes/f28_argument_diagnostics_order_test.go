// demonstration for "fix: check the arguments of a call in the order of the parameters" (property C16) - place in src/parser/
package parser

import (
	"fmt"
	"testing"

	"github.com/DDP-Projekt/Kompilierer/src/ddperror"
)

func firstDiagnostics(src string, runs int) map[string]int {
	seen := map[string]int{}
	for i := 0; i < runs; i++ {
		first := ""
		Parse(Options{FileName: "t.ddp", Source: []byte(src), ErrorHandler: func(e ddperror.Error) {
			if e.Level == ddperror.LEVEL_ERROR && first == "" {
				first = fmt.Sprintf("%d %s", e.Code, e.Msg)
			}
		}})
		seen[first]++
	}
	return seen
}

func TestFixArgumentDiagnosticsAreRepeatable(t *testing.T) {
	call := "Die Funktion foo mit den Parametern a und b vom Typ Zahl und Zahl, gibt nichts zurück, macht:\n\tDie Zahl z ist a plus b.\nUnd kann so benutzt werden:\n\t\"foo <a> <b>\"\n\nfoo \"x\" 'y'.\n"
	if seen := firstDiagnostics(call, 80); len(seen) != 1 {
		t.Errorf("call with two wrongly typed arguments: the first diagnostic differs between runs: %v", seen)
	}
	lit := "Wir nennen die Kombination aus\n\tder Zahl x mit Standardwert 0,\n\tder Zahl y mit Standardwert 0,\neinen Punkt, und erstellen sie so:\n\t\"ein Punkt mit x <x> und y <y>\"\n\nDer Punkt p ist ein Punkt mit x \"a\" und y 'b'.\n"
	if seen := firstDiagnostics(lit, 80); len(seen) != 1 {
		t.Errorf("Kombination literal with two wrongly typed fields: the first diagnostic differs between runs: %v", seen)
	}
	unres := "Die Funktion foo mit den Parametern a und b vom Typ Zahl und Zahl, gibt nichts zurück, macht:\n\tDie Zahl z ist a plus b.\nUnd kann so benutzt werden:\n\t\"foo <a> <b>\"\n\nfoo (u1 plus 1) (u2 plus 1).\n"
	if seen := firstDiagnostics(unres, 80); len(seen) != 1 {
		t.Errorf("call with two unresolved names: the first diagnostic differs between runs: %v", seen)
	}
}
