// demonstration for "fix: bitwise operators and shifts with Byte operands" (property C02) - place in src/compiler/
package compiler

import (
	"bytes"
	"testing"

	"github.com/DDP-Projekt/Kompilierer/src/ddperror"
)

func TestFix13BitwiseWithBytes(t *testing.T) {
	for _, src := range []string{
		"Der Byte b ist 5 als Byte.\nDie Zahl z ist 3 logisch und b.\n",
		"Der Byte b ist 5 als Byte.\nDie Zahl z ist b logisch oder 3.\n",
		"Der Byte b ist 5 als Byte.\nDer Byte c ist b logisch kontra b.\n",
		"Der Byte b ist 5 als Byte.\nDer Byte c ist b um 2 Bit nach Links verschoben.\n",
		"Der Byte b ist 5 als Byte.\nDie Zahl z ist 8 um b Bit nach Rechts verschoben.\n",
	} {
		var out bytes.Buffer
		errs := 0
		var err error
		func() {
			defer func() {
				if r := recover(); r != nil {
					t.Errorf("%q: internal compiler error: %.160v", src, r)
				}
			}()
			_, err = Compile(Options{FileName: "t.ddp", Source: []byte(src), To: &out, OutputType: OutputObj,
				ErrorHandler: func(e ddperror.Error) { errs++; t.Log(e.Msg) }, Log: func(string, ...any) {}, LinkInModules: false, LinkInListDefs: false})
		}()
		if errs != 0 {
			t.Errorf("%q: rejected by the frontend", src)
			continue
		}
		if err != nil {
			t.Errorf("%q: code generation failed for an accepted program: %.200v", src, err)
		}
	}
}
