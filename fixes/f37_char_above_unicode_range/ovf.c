#include <locale.h>
#include <stdio.h>
#include <stdint.h>
#include <stddef.h>
size_t utf8_char_to_string(char *s, int32_t c);
int main(){ setlocale(LC_ALL,"C.UTF-8"); char temp[5]; size_t n=utf8_char_to_string(temp, 0x200000); printf("%zd\n",(ssize_t)n); return 0; }
