// demonstration for "fix: sort imported declarations by a total order on their position" (property C16) - place in src/ast/
package ast

import (
	"fmt"
	"testing"

	"github.com/DDP-Projekt/Kompilierer/src/token"
)

func TestFixImportedDeclOrderIsRepeatable(t *testing.T) {
	mk := func(name string, line, col uint) *VarDecl {
		return &VarDecl{NameTok: token.Token{Literal: name}, IsPublic: true, Range: token.Range{Start: token.Position{Line: line, Column: col}, End: token.Position{Line: line, Column: col + 1}}}
	}
	seen := map[string]int{}
	for i := 0; i < 300; i++ {
		mod := &Module{PublicDecls: map[string]Declaration{}}
		for _, d := range []*VarDecl{mk("a", 1, 50), mk("b", 2, 10), mk("c", 3, 30), mk("d", 4, 5), mk("e", 5, 60)} {
			mod.PublicDecls[d.Name()] = d
		}
		order := ""
		IterateImportedDecls(&ImportStmt{Modules: []*Module{mod}}, func(name string, decl Declaration, tok token.Token) bool {
			order += name
			return true
		})
		seen[order]++
	}
	if len(seen) != 1 || seen["abcde"] == 0 {
		t.Errorf("public declarations are visited in %d different orders (want only source order abcde): %s", len(seen), fmt.Sprint(seen))
	}
}
