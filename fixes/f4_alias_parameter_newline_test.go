// demonstration for "fix: count line breaks inside an alias parameter" (properties C13, C07) - place in src/scanner/
package scanner

import (
	"testing"

	"github.com/DDP-Projekt/Kompilierer/src/ddperror"
	"github.com/DDP-Projekt/Kompilierer/src/token"
)

func TestFixAliasParameterCountsLineBreaks(t *testing.T) {
	alias := token.Token{Type: token.STRING, Literal: "\"foo <a\nb> bar\"", Range: token.Range{Start: token.Position{Line: 1, Column: 1}, End: token.Position{Line: 2, Column: 8}}}
	toks, err := ScanAlias(alias, ddperror.EmptyHandler)
	if err != nil {
		t.Fatal(err)
	}
	for _, tok := range toks {
		if tok.Literal == "bar" && tok.Range.Start.Line != 2 {
			t.Errorf("token `bar` follows a line break but is reported at %s", tok.Range)
		}
	}
}
