// demonstration for "fix: scanner errors mark the module as faulty" (property C07/C19) - place in src/parser/
package parser

import (
	"testing"

	"github.com/DDP-Projekt/Kompilierer/src/ddperror"
)

func TestFixScannerErrorsMarkModuleFaulty(t *testing.T) {
	for _, src := range []string{
		"Der Buchstabe c ist 'abc'.\n",                      // SYN_MALFORMED_LITERAL from the scanner
		"Die Zahl x ist 1. die Zahl y ist 2.\n",             // capitalisation error from the scanner
		"Der Text t ist \"a\\qb\".\n",                       // unknown escape sequence
	} {
		errors := 0
		mod, err := Parse(Options{FileName: "t.ddp", Source: []byte(src), ErrorHandler: func(e ddperror.Error) {
			if e.Level == ddperror.LEVEL_ERROR {
				errors++
			}
		}})
		if err != nil {
			t.Fatal(err)
		}
		if errors > 0 && !mod.Ast.Faulty {
			t.Errorf("%q: %d error-level diagnostics were delivered but the module is not marked faulty", src, errors)
		}
		if errors == 0 {
			t.Errorf("%q: expected a scanner diagnostic", src)
		}
	}
}
