// demonstration for "fix: range of the Wurzel expression ..." (property C07) - place in src/parser/
package parser

import (
	"testing"

	"github.com/DDP-Projekt/Kompilierer/src/ast"
	"github.com/DDP-Projekt/Kompilierer/src/ddperror"
)

func TestFixWurzelRangeIsOrdered(t *testing.T) {
	mod, err := Parse(Options{FileName: "t.ddp", Source: []byte("Die Kommazahl x ist die 2. Wurzel von 9.\n"), ErrorHandler: ddperror.EmptyHandler})
	if err != nil {
		t.Fatal(err)
	}
	decl := mod.Ast.Statements[0].(*ast.DeclStmt).Decl.(*ast.VarDecl)
	r := decl.InitVal.GetRange()
	if r.Start.IsBehind(r.End) {
		t.Errorf("range of the Wurzel expression has Start behind End: %s", r)
	}
	// as a diagnostic: `Der Text t ist die 2. Wurzel von 9.` reports the initialiser with that range; the renderer must be able to print it
	src := []byte("Der Text t ist die 2. Wurzel von 9.\n")
	func() {
		defer func() {
			if rec := recover(); rec != nil {
				t.Errorf("excerpt renderer panicked: %v", rec)
			}
		}()
		var sink discard
		Parse(Options{FileName: "t.ddp", Source: src, ErrorHandler: ddperror.MakeAdvancedHandler("t.ddp", src, sink)})
	}()
}

type discard struct{}

func (discard) Write(p []byte) (int, error) { return len(p), nil }
