// demonstration for "fix: do not compile a faulty main module when modules are not linked in" (property C07) - place in src/compiler/
package compiler

import (
	"bytes"
	"strings"
	"testing"

	"github.com/DDP-Projekt/Kompilierer/src/ddperror"
)

func TestFixFaultyModuleIsNotCompiledWithoutModuleLinking(t *testing.T) {
	errors := 0
	var out bytes.Buffer
	var err error
	func() {
		defer func() {
			if r := recover(); r != nil {
				t.Errorf("code generation was entered for a faulty module and crashed: %v", r)
			}
		}()
		_, err = Compile(Options{FileName: "t.ddp", Source: []byte("Die Zahl x ist \"a\".\n"), To: &out, OutputType: OutputIR,
			ErrorHandler:  func(e ddperror.Error) { errors++ },
			Log:           func(string, ...any) {},
			LinkInModules: false, LinkInListDefs: false})
	}()
	if errors == 0 {
		t.Fatal("expected a type error diagnostic")
	}
	if err == nil || !strings.Contains(err.Error(), "Fehlerhafter Quellcode") {
		t.Errorf("Compile of a faulty module with LinkInModules=false: err = %v, %d bytes of IR written; want the 'Fehlerhafter Quellcode' refusal", err, out.Len())
	}
}
