// demonstrations for the four lowering fixes (property C02) - place in src/compiler/
//   f9  'falls' expression over primitive operands with differing temporary flags
//   f10 plus/minus/mal of a Zahl and a Byte is a Zahl
//   f11 Betrag of a Byte yields a Zahl
//   f12 cast of a Variable to Byte loads a Byte
package compiler

import (
	"bytes"
	"testing"

	"github.com/DDP-Projekt/Kompilierer/src/ddperror"
)

func compileToObject(t *testing.T, src string) {
	t.Helper()
	var out bytes.Buffer
	errs := 0
	var err error
	func() {
		defer func() {
			if r := recover(); r != nil {
				t.Errorf("internal compiler error for a program the frontend accepts: %.160v", r)
			}
		}()
		_, err = Compile(Options{FileName: "t.ddp", Source: []byte(src), To: &out, OutputType: OutputObj,
			ErrorHandler: func(e ddperror.Error) { errs++; t.Log(e.Msg) }, Log: func(string, ...any) {}, LinkInModules: false, LinkInListDefs: false})
	}()
	if errs != 0 {
		t.Logf("the frontend rejected the program (%d diagnostics) - nothing to compile", errs)
		return
	}
	if err != nil {
		t.Errorf("code generation failed for an accepted program: %.200v", err)
	}
}

func TestFix09FallsOverPrimitives(t *testing.T) {
	compileToObject(t, "Die Zahl x ist 1.\nDie Zahl y ist x, falls wahr, ansonsten (die Länge von \"abc\").\n")
}

func TestFix10MixedZahlByteArithmetic(t *testing.T) {
	// accepted by the unfixed checker (element type Byte) although the generator computes a Zahl; the fixed checker types it as Zahl
	compileToObject(t, "Der Byte b ist 5 als Byte.\nDie Byte Liste l ist eine Liste, die aus (1 plus b) besteht.\n")
	compileToObject(t, "Der Byte b ist 5 als Byte.\nDie Zahlen Liste l ist eine Liste, die aus (1 plus b), (b minus 1), (b mal 3) besteht.\n")
}

func TestFix11BetragOfByte(t *testing.T) {
	compileToObject(t, "Der Byte b ist 5 als Byte.\nDie Zahlen Liste l ist eine Liste, die aus (der Betrag von b) besteht.\n")
}

func TestFix12CastVariableToByte(t *testing.T) {
	compileToObject(t, "Die Variable v ist 5 als Byte.\nDer Byte b ist v als Byte.\n")
}
