// demonstration for "fix: list literals with a count for variables whose type is an alias of a list type" (properties C03, C14) - place in src/parser/
package parser

import (
	"testing"

	"github.com/DDP-Projekt/Kompilierer/src/ddperror"
)

func TestFixListAliasCountLiteral(t *testing.T) {
	errs := 0
	defer func() {
		if r := recover(); r != nil {
			t.Fatalf("the parser crashed on a valid program: %v", r)
		}
	}()
	_, err := Parse(Options{FileName: "t.ddp", Source: []byte("Wir nennen eine Zahlen Liste auch eine ZL.\nDie ZL x ist 5 Mal 0.\n"), ErrorHandler: func(e ddperror.Error) { errs++; t.Log(e.Msg) }})
	if err != nil {
		t.Fatal(err)
	}
	if errs != 0 {
		t.Errorf("%d diagnostics for a valid program", errs)
	}
}
