/* minimal stand-in for Duden/Ausgabe (libddpstdlib.a cannot be built in this sandbox) - used by triage programs only */
#include "DDP/ddptypes.h"
#include <stdio.h>
void Schreibe_Zahl(ddpint p1) { printf(DDP_INT_FMT "\n", p1); }
void Schreibe_Kommazahl(ddpfloat p1) { printf("%g\n", p1); }
void Schreibe_Wahrheitswert(ddpbool p1) { printf(p1 ? "wahr\n" : "falsch\n"); }
void Schreibe_Buchstabe(ddpchar p1) { printf("%d\n", (int)p1); }
void Schreibe_Text(ddpstring *p1) { printf("%s\n", p1->str ? p1->str : ""); }
