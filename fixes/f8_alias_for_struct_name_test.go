// demonstration for "fix: alias declaration for a name that is neither a variable nor a function" (property C03) - place in src/parser/
package parser

import (
	"testing"

	"github.com/DDP-Projekt/Kompilierer/src/ddperror"
)

func TestFixAliasDeclForStructName(t *testing.T) {
	errs := 0
	defer func() {
		if r := recover(); r != nil {
			t.Fatalf("the parser crashed on malformed input: %.300v", r)
		}
	}()
	src := "Wir nennen die Kombination aus\n\tder Zahl x mit Standardwert 0,\neinen Punkt.\n\nDer Alias \"foo\" steht für die Funktion Punkt.\n"
	_, err := Parse(Options{FileName: "t.ddp", Source: []byte(src), ErrorHandler: func(e ddperror.Error) { errs++; t.Log(e.Msg) }})
	if err != nil {
		t.Fatal(err)
	}
	if errs == 0 {
		t.Errorf("expected a diagnostic")
	}
}
