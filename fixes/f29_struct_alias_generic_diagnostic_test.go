// demonstration for "fix: name the first ununified type parameter in alphabetical order" (property C16) - place in src/parser/
package parser

import (
	"fmt"
	"testing"

	"github.com/DDP-Projekt/Kompilierer/src/ddperror"
)

func firstDiagnosticsF29(src string, runs int) map[string]int {
	seen := map[string]int{}
	for i := 0; i < runs; i++ {
		first := ""
		Parse(Options{FileName: "t.ddp", Source: []byte(src), ErrorHandler: func(e ddperror.Error) {
			if e.Level == ddperror.LEVEL_ERROR && first == "" {
				first = fmt.Sprintf("%d %s", e.Code, e.Msg)
			}
		}})
		seen[first]++
	}
	return seen
}

func TestFixStructAliasGenericDiagnosticIsRepeatable(t *testing.T) {
	src := "Wir nennen die generische Kombination aus\n\tdem T x,\n\tdem R y,\n\tdem S z,\neinen Tripel, und erstellen sie so:\n\t\"das leere Tripel\"\n"
	seen := firstDiagnosticsF29(src, 120)
	if len(seen) != 1 {
		t.Errorf("alias that unifies none of three type parameters: the reported one differs between runs: %v", seen)
	}
}
