// demonstration for "fix: negation of a Byte" (property C02) - place in src/compiler/
package compiler

import (
	"bytes"
	"strings"
	"testing"

	"github.com/DDP-Projekt/Kompilierer/src/ddperror"
)

func TestFixNegateByteCompiles(t *testing.T) {
	var out bytes.Buffer
	errs := 0
	var err error
	func() {
		defer func() {
			if r := recover(); r != nil {
				t.Errorf("internal compiler error for a program the frontend accepts: %.200v", r)
			}
		}()
		_, err = Compile(Options{FileName: "t.ddp", Source: []byte("Der Byte b ist 5 als Byte.\nDie Zahl z ist -b.\n"), To: &out, OutputType: OutputIR,
			ErrorHandler: func(e ddperror.Error) { errs++; t.Log(e.Msg) }, Log: func(string, ...any) {}, LinkInModules: false, LinkInListDefs: false})
	}()
	if errs != 0 {
		t.Fatalf("the frontend rejected the program (%d diagnostics)", errs)
	}
	if err != nil {
		t.Errorf("Compile failed: %.200v", err)
	} else if !strings.Contains(out.String(), "zext i8") {
		t.Errorf("expected the Byte to be widened before negation")
	}
}
