// demonstration for "fix: pass dependencies to gcc in sorted order" (property C16) - place in cmd/internal/linker/
package linker

import (
	"fmt"
	"strings"
	"testing"

	"github.com/DDP-Projekt/Kompilierer/src/compiler"
)

func TestFixLinkerOrderIsRepeatable(t *testing.T) {
	// the reported unexpected dependency
	seen := map[string]int{}
	for i := 0; i < 60; i++ {
		_, err := LinkDDPFiles(Options{InputFile: "in.o", OutputFile: "out", MainFile: "main.o",
			Dependencies: &compiler.Result{Dependencies: map[string]struct{}{"/x/a.zzz": {}, "/x/b.yyy": {}, "/x/c.xxx": {}}}})
		seen[fmt.Sprint(err)]++
	}
	if len(seen) != 1 {
		t.Errorf("which dependency the error names differs between runs: %v", seen)
	}
	// the gcc command line (logged before gcc is run; gcc itself fails on the missing files, which does not matter here)
	cmds := map[string]int{}
	for i := 0; i < 40; i++ {
		LinkDDPFiles(Options{InputFile: "in.o", OutputFile: "/nonexistent-dir/out", MainFile: "main.o",
			Dependencies: &compiler.Result{Dependencies: map[string]struct{}{"/d1/liba.a": {}, "/d2/libb.a": {}, "/d3/libc.a": {}, "/o/x.o": {}, "/o/y.o": {}}},
			Log: func(f string, a ...any) {
				if s := fmt.Sprintf(f, a...); strings.Contains(s, "-l:liba.a") {
					cmds[s]++
				}
			}})
	}
	if len(cmds) != 1 {
		t.Errorf("the gcc command line differs between runs (%d variants)", len(cmds))
	}
}
