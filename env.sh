# source this: environment for building/running the checker offline
export PATH=/opt/veriftools/go1.26.8/bin:$PATH
export GOTOOLCHAIN=local GOFLAGS=-mod=mod GOPROXY=off
unset GOWORK
export CGO_CPPFLAGS="$(/usr/lib/llvm-14/bin/llvm-config --cppflags 2>/dev/null || echo -I/usr/lib/llvm-14/include)"
