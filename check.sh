#!/bin/bash
# usage: ./check.sh <property> [quick|thorough]
# Static check of one property against /repo's current working tree (sources are re-loaded and re-type-checked on every run).
cd "$(dirname "$0")"
. ./env.sh
if [ ! -x bin/ddpverif ] || [ -n "$(find checker -newer bin/ddpverif -name '*.go' 2>/dev/null | head -1)" ]; then
  (cd checker && go build -o ../bin/ddpverif .) || { echo "cannot build checker"; exit 2; }
fi
tier="${2:-${VERIF_TIER:-quick}}"
exec bin/ddpverif --tier "$tier" "$1"
