#!/bin/bash
# usage: ./check.sh <property> [quick|thorough]
# Static check of one property against /repo's current working tree (sources are re-loaded and re-type-checked on every run).
# thorough = the analysis over the extended class sets, plus a self-test of the rules: every recorded breaking change
# (mutants/<property>/*.diff, seeded/<property>-*/patch.diff) is applied to a scratch copy of /repo outside /repo and /verif,
# the check must report it, the copy is removed at once; every recorded behaviour-preserving edit (mutants/<property>/*_SILENT*,
# refactorings/*.diff) is replayed the same way and the check must stay silent. Patches that no longer apply to an edited tree are skipped and counted.
cd "$(dirname "$0")"
. ./env.sh
if [ ! -x bin/ddpverif ] || [ -n "$(find checker -newer bin/ddpverif -name '*.go' 2>/dev/null | head -1)" ]; then
  (cd checker && go build -o ../bin/ddpverif .) || { echo "cannot build checker"; exit 2; }
fi
tier="${2:-${VERIF_TIER:-quick}}"
prop="$1"
if [ "$tier" != "thorough" ] || [[ "$prop" == X* ]]; then
  exec bin/ddpverif --tier "$tier" "$prop"
fi
bin/ddpverif --tier thorough "$prop"; code=$?
# ---- rule self-test (never changes the verdict on /repo) ----
# a seeded change that the later fix: commits made inapplicable has a patch.rebased.diff (same change on the current tree);
# seeds recorded as not decided by the rules (meta.json detected_by starts with "missed" or "superseded") are not replayed
# behaviour-preserving edits: those that touch a file the property is anchored in (properties.jsonl); the full cross product
# of all edits and all checks is what tools/refactor_check.sh runs
refs=$(python3 /verif/tools/relevant_refactorings.py "$prop")
patches=$(ls mutants/"$prop"/*.diff mutants/"$prop"/*.patch 2>/dev/null; printf '%s\n' $refs
  for d in seeded/"$prop"-*/; do [ -d "$d" ] || continue
    if python3 -c "import json,sys; m=json.load(open('$d/meta.json')); sys.exit(0 if str(m.get('detected_by','')).lower().startswith(('missed','superseded')) else 1)" 2>/dev/null; then continue; fi
    if [ -f "$d/patch.rebased.diff" ]; then echo "$d/patch.rebased.diff"; else echo "$d/patch.diff"; fi
  done)
if [ -n "$patches" ]; then
  res=$(printf '%s\n' $patches | xargs -P 8 -I{} sh -c 'out=$(GOMAXPROCS=4 GOGC=400 VERIF_TIER=quick /verif/tools/mutant.sh '"$prop"' {} 2>&1); rc=$?; echo "{} $rc"')
  fired=0; silent=0; skipped=0; expected_silent=0; miss=""
  while read -r p rc; do
    [ -z "$p" ] && continue
    case "$p" in *SILENT*|refactorings/*) if [ "$rc" = 1 ]; then expected_silent=$((expected_silent+1)); else miss="$miss $p(fired-on-a-behaviour-preserving-edit)"; fi; continue;; esac
    case "$rc" in 0) fired=$((fired+1));; 2) skipped=$((skipped+1));; *) silent=$((silent+1)); miss="$miss $p";; esac
  done <<< "$res"
  echo "self-test $prop: $fired recorded breaking changes reported, $expected_silent behaviour-preserving edits left alone, $skipped patches no longer apply, $silent missed${miss:+ ($miss )}"
  python3 - "$prop" "$fired" "$expected_silent" "$skipped" "$silent" "$miss" <<'PY'
import json,sys
p,f,e,s,m,miss=sys.argv[1:7]
fn='/verif/evidence/%s.json'%p
try:
    d=json.load(open(fn))
    d['coverage']['rule_self_test']={'breaking_changes_reported':int(f),'behaviour_preserving_edits_left_alone':int(e),'patches_not_applicable':int(s),'missed':int(m),'missed_list':miss.split()}
    json.dump(d,open(fn,'w'),ensure_ascii=False,indent=1)
except Exception as ex:
    print('self-test: evidence not updated:',ex)
PY
fi
exit $code
