#!/usr/bin/env python3
# usage: tools/claim.py <id> <technique> <text> <note>   (adds/replaces the claim, drops it from not_applicable, regenerates MANIFEST)
import json,sys,subprocess
pid,tech,text,note=sys.argv[1:5]
d=json.load(open('/verif/tools/claims.json'))
d['checks']=[c for c in d['checks'] if c['id']!=pid]
d['checks'].append({"id":pid,"design_ref":"DESIGN.md §3 "+pid,"technique":tech,"text":text,"note":note})
d['checks'].sort(key=lambda c:c['id'])
d['not_applicable']=[n for n in d['not_applicable'] if n['property_id']!=pid]
json.dump(d,open('/verif/tools/claims.json','w'),ensure_ascii=False,indent=1)
subprocess.check_call(['python3','/verif/tools/gen_manifest.py'])
