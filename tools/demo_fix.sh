#!/bin/bash
# usage: tools/demo_fix.sh <test-file> <pkg-dir> : runs the demonstration test on the clean scratch worktree (/tmp/cleanwt) and on the fixed one (/tmp/fixwt)
. /verif/env.sh; export CGO_LDFLAGS="-L/usr/lib/llvm-14/lib -lLLVM-14"
t="$(readlink -f "$1")"; pkg="$2"; run="$3"
for wt in /tmp/cleanwt /tmp/fixwt; do
  cp "$t" $wt/$pkg/zz_fixdemo_test.go
  echo "== $wt"; (cd $wt && go test -vet=off -count=1 -run "${run:-TestFix}" ./$pkg/ 2>&1 | grep -v "^ok\|^FAIL$" | head -12; echo "status: ${PIPESTATUS[0]}")
  rm -f $wt/$pkg/zz_fixdemo_test.go
done
