#!/usr/bin/env python3
# usage: relevant_refactorings.py <property>  -> the recorded behaviour-preserving edits that touch a file the property is anchored in
import json,sys,glob,re
prop=sys.argv[1]; files=set()
for l in open('/verif/properties.jsonl'):
    if l.strip():
        p=json.loads(l)
        if p['id']==prop: files=set(p['anchors'].get('files',[]))
for d in sorted(glob.glob('/verif/refactorings/*.diff')):
    touched=set(re.findall(r'^\+\+\+ b/(\S+)',open(d,errors='replace').read(),re.M))
    if touched & files: print(d[len('/verif/'):])
