#!/bin/bash
# validates MANIFEST.json and every evidence file against the schemas
python3-vt - <<'PY'
import json,jsonschema,glob
jsonschema.validate(json.load(open('/verif/MANIFEST.json')),json.load(open('/root/.vp/MANIFEST.schema.json')))
print('manifest valid')
s=json.load(open('/root/.vp/EVIDENCE.schema.json'))
for f in sorted(glob.glob('/verif/evidence/*.json')):
    jsonschema.validate(json.load(open(f)),s); print(f,'valid')
PY
