#!/bin/bash
# runs every claimed check (quick, or $1=thorough) and prints one line each
cd /verif
for p in $(python3 -c "import json;print(' '.join(c['property_id'] for c in json.load(open('/verif/MANIFEST.json'))['checks']))"); do
  out=$(./check.sh $p ${1:-quick} 2>&1); code=$?
  echo "$p exit=$code $(echo "$out" | tail -1)"
  echo "$out" | grep "^VIOLATION" | head -3
done
