#!/bin/bash
# usage: tools/keep_seed.sh <seed-id> <agent-out-dir> <property> <caught-by|MISSED> "<needs>" "<what I ran>"
id="$1"; src="$2"; prop="$3"; caught="$4"; needs="$5"; ran="$6"
d=/verif/seeded/$id; mkdir -p $d
cp "$src/patch.diff" $d/; cp -r "$src/demo" $d/ 2>/dev/null; cp "$src/README.md" $d/ 2>/dev/null
python3 - "$id" "$prop" "$caught" "$needs" "$ran" <<'PY'
import json,sys
id,prop,caught,needs,ran=sys.argv[1:6]
json.dump({"id":id,"breaks_property":prop,"needs_to_manifest":needs,"confirmed_by":ran,"detected_by":caught},open(f"/verif/seeded/{id}/meta.json","w"),indent=1,ensure_ascii=False)
PY
echo kept $d
