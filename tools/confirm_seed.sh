#!/bin/bash
# usage: tools/confirm_seed.sh <worktree> <seed-dir>
# Confirms a seeded change: patch applies, tree builds, suite passes, demo test(s) fail with it and pass without it.
# Demo files: every *_test.go in <seed-dir>/demo is copied into the directory of the package named in its package clause.
wt="$1"; seed="$(readlink -f "$2")"
. /verif/env.sh
export CGO_LDFLAGS="-L/usr/lib/llvm-14/lib -lLLVM-14"
cd "$wt" || exit 2
git checkout -q -- . && git clean -fdq
declare -A DIRS=( [ddptypes]=src/ddptypes [parser]=src/parser [alias_trie]=src/parser/alias_trie [ordered_map]=src/parser/ordered_map [scanner]=src/scanner [compiler]=src/compiler [typechecker]=src/parser/typechecker [resolver]=src/parser/resolver [ast]=src/ast [token]=src/token [ddperror]=src/ddperror [main]=cmd/kddp [linker]=cmd/internal/linker [annotators]=src/ast/annotators )
place() { pk=""; for f in "$seed"/demo/*_test.go; do p=$(grep -m1 '^package ' "$f" | awk '{print $2}'); p=${p%_test}; d=${DIRS[$p]}; ip=$(head -3 "$f" | grep -o 'intended path: *[^ ]*' | sed 's/intended path: *//'); [ -n "$ip" ] && d=$(dirname "$ip"); [ -z "$d" ] && { echo "unknown package $p"; exit 2; }; cp "$f" "$d/"; pk="$pk ./$d/"; done; pk=$(echo $pk | tr ' ' '\n' | sort -u | tr '\n' ' '); }
echo "## $seed"
place
if timeout 600 go test -vet=off -count=1 $pk > /tmp/cs.$$ 2>&1; then echo "clean tree: demo PASS (expected)"; else echo "clean tree: demo FAIL (unexpected)"; tail -20 /tmp/cs.$$; fi
git clean -fdq
git apply "$seed/patch.diff" || { echo "patch does not apply"; exit 2; }
go build ./src/... ./cmd/... && echo "patched: build ok" || echo "patched: BUILD FAILS"
if go test -vet=off -count=1 ./src/... > /tmp/cs.$$ 2>&1; then echo "patched: suite PASS (expected)"; else echo "patched: suite FAIL (unexpected)"; grep -v "^ok\|no test files" /tmp/cs.$$ | tail; fi
place
if (ulimit -v 8000000; timeout 600 go test -vet=off -count=1 $pk > /tmp/cs.$$ 2>&1); then echo "patched: demo PASS (unexpected)"; else echo "patched: demo FAIL (expected)"; grep -m3 -- "--- FAIL\|panic\|fatal error\|FAIL" /tmp/cs.$$; fi
rm -f /tmp/cs.$$
git checkout -q -- . && git clean -fdq
