#!/bin/bash
# usage: tools/confirm_seed.sh <worktree> <seed-dir> <pkg-dir-relative> [more demo dest dirs...]
# Confirms a seeded change: patch applies, tree builds, suite passes, demo test(s) fail with it and pass without it.
# Demo files: every *_test.go in <seed-dir>/demo is copied to <pkg-dir-relative>.
wt="$1"; seed="$(readlink -f "$2")"; pkg="$3"
. /verif/env.sh
export CGO_LDFLAGS="-L/usr/lib/llvm-14/lib -lLLVM-14"
cd "$wt" || exit 2
git checkout -q -- . && git clean -fdq
echo "## $seed"
cp "$seed"/demo/*_test.go "$pkg"/ || exit 2
if go test -vet=off -count=1 ./"$pkg"/ > /tmp/cs.$$ 2>&1; then echo "clean tree: demo PASS (expected)"; else echo "clean tree: demo FAIL (unexpected)"; tail -20 /tmp/cs.$$; fi
git clean -fdq
git apply "$seed/patch.diff" || { echo "patch does not apply"; exit 2; }
go build ./src/... ./cmd/... && echo "patched: build ok" || echo "patched: BUILD FAILS"
if go test -vet=off -count=1 ./src/... > /tmp/cs.$$ 2>&1; then echo "patched: suite PASS (expected)"; else echo "patched: suite FAIL (unexpected)"; grep -v "^ok\|no test files" /tmp/cs.$$ | tail; fi
cp "$seed"/demo/*_test.go "$pkg"/
if go test -vet=off -count=1 ./"$pkg"/ > /tmp/cs.$$ 2>&1; then echo "patched: demo PASS (unexpected)"; else echo "patched: demo FAIL (expected)"; grep -m3 -- "--- FAIL\|panic" /tmp/cs.$$; fi
rm -f /tmp/cs.$$
git checkout -q -- . && git clean -fdq
