#!/bin/bash
# usage: tools/mutant.sh <property> <patch-file> [--build]
# Replays a recorded breaking change against the property's check without touching /repo:
# the patch is applied to a scratch copy of /repo (outside /repo and /verif, removed on exit); the changed Go files are handed to
# the checker as a go/packages overlay on /repo (positions stay /repo-relative, the build cache stays warm), changed C/DDP library
# files are read from the copy. Exit 0 = the check fired, 1 = it stayed silent, 2 = the patch does not apply / does not type-check.
prop="$1"; patch="$(readlink -f "$2")"; build="$3"
. /verif/env.sh
S="$(mktemp -d "${TMPDIR:-/tmp}/ddpmut.XXXXXX")"
trap 'rm -rf "$S"' EXIT
mkdir -p "$S/repo" "$S/verif"
rsync -a --exclude .git /repo/ "$S/repo/"
cp /verif/known_findings.json "$S/verif/"
(cd "$S/repo" && patch -p1 -s --no-backup-if-mismatch -r - < "$patch" >/dev/null 2>&1) || { echo "PATCH DOES NOT APPLY"; exit 2; }
if [ "$build" = "--build" ]; then
  (cd "$S/repo" && CGO_LDFLAGS="-L/usr/lib/llvm-14/lib -lLLVM-14" go build ./src/... ./cmd/... 2>&1 | tail -5) || { echo "MUTANT DOES NOT BUILD"; exit 2; }
fi
python3 - "$S" <<'PY'
import sys,os,json,filecmp
S=sys.argv[1]; ov={}
for root,dirs,files in os.walk(S+'/repo'):
    for f in files:
        p=os.path.join(root,f); rel=os.path.relpath(p,S+'/repo'); o=os.path.join('/repo',rel)
        if f.endswith('.go') and (not os.path.exists(o) or not filecmp.cmp(p,o,shallow=False)):
            ov[o]=p
json.dump(ov,open(S+'/overlay.json','w'))
PY
out="$(VERIF_TIER=${VERIF_TIER:-quick} VERIF_OVERLAY="$S/overlay.json" VERIF_C_REPO="$S/repo" VERIF_DIR="$S/verif" ${VERIF_BIN:-/verif/bin/ddpverif} "$prop" 2>&1)"
code=$?
echo "$out" | grep -B1 "^VIOLATION\|LOAD FAILED\|PANIC" | grep -v "^--" | sed "s#$S/##g" | head -${MUT_LINES:-12}
if echo "$out" | grep -q "LOAD FAILED"; then exit 2; fi
if [ $code -eq 1 ] && echo "$out" | grep -q "^VIOLATION"; then exit 0; fi
echo "SILENT (exit $code)"; exit 1
