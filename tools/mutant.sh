#!/bin/bash
# usage: tools/mutant.sh <property> <patch-file> [--build]
# Applies the patch to a scratch copy of /repo (outside /repo and /verif), runs the property's check against the copy,
# prints the VIOLATION lines, removes the copy. Exit 0 = the check fired, 1 = it stayed silent, 2 = patch/build problem.
prop="$1"; patch="$(readlink -f "$2")"; build="$3"
. /verif/env.sh
S="$(mktemp -d "${TMPDIR:-/tmp}/ddpmut.XXXXXX")"
trap 'rm -rf "$S"' EXIT
mkdir -p "$S/repo" "$S/verif"
rsync -a --exclude .git /repo/ "$S/repo/"
cp /verif/known_findings.json "$S/verif/"
(cd "$S/repo" && patch -p1 -s < "$patch") || { echo "PATCH DOES NOT APPLY"; exit 2; }
if [ "$build" = "--build" ]; then
  (cd "$S/repo" && CGO_LDFLAGS="-L/usr/lib/llvm-14/lib -lLLVM-14" go build ./src/... ./cmd/... 2>&1 | tail -5) || { echo "MUTANT DOES NOT BUILD"; exit 2; }
fi
out="$(VERIF_REPO="$S/repo" VERIF_DIR="$S/verif" /verif/bin/ddpverif "$prop" 2>&1)"
code=$?
echo "$out" | grep -B1 "^VIOLATION\|LOAD FAILED\|PANIC" | grep -v "^--" | sed "s#$S/##g" | head -${MUT_LINES:-12}
if [ $code -eq 1 ] && echo "$out" | grep -q "^VIOLATION"; then exit 0; fi
echo "SILENT (exit $code)"; exit 1
