#!/bin/bash
# usage: tools/confirm_run.sh <worktree> <seed-dir> '<command with {wt} and {kddp}>'
# Confirms a seeded change whose demonstration is a script: exit 0 on the clean tree, non-zero with the patch; suite passes with the patch.
wt="$1"; seed="$(readlink -f "$2")"; cmd="$3"
. /verif/env.sh; export CGO_LDFLAGS="-L/usr/lib/llvm-14/lib -lLLVM-14"
cd "$wt" || exit 2
git checkout -q -- . && git clean -fdqx
echo "## $seed"
runit() { k="$seed/../kddp.$1"; (cd "$wt" && go build -o "$k" ./cmd/kddp) || return 99; c="${cmd//\{wt\}/$wt}"; c="${c//\{kddp\}/$k}"; (cd "$seed/demo" && KDDP="$k" timeout 900 bash -c "$c") > "$seed/../run.$1.log" 2>&1; rc=$?; rm -f "$k"; return $rc; }
runit clean; rc=$?; if [ $rc -eq 0 ]; then echo "clean tree: demo PASS (expected)"; else echo "clean tree: demo FAIL rc=$rc (unexpected)"; tail -5 "$seed/../run.clean.log"; fi
git clean -fdqx; git apply "$seed/patch.diff" || { echo "patch does not apply"; exit 2; }
go build ./src/... ./cmd/... && echo "patched: build ok" || echo "patched: BUILD FAILS"
if go test -vet=off -count=1 ./src/... > /tmp/cr.$$ 2>&1; then echo "patched: suite PASS (expected)"; else echo "patched: suite FAIL (unexpected)"; fi; rm -f /tmp/cr.$$
runit patched; rc=$?; if [ $rc -ne 0 ]; then echo "patched: demo FAIL rc=$rc (expected)"; tail -4 "$seed/../run.patched.log"; else echo "patched: demo PASS (unexpected)"; fi
git checkout -q -- . && git clean -fdqx
