#!/bin/bash
# TRIAGE ONLY: run upstream's golden programs (tests/testdata/kddp/<name>) against a source tree and compare with expected.txt.
# usage: tools/run_golden.sh <repo-dir> <name>... ; env RUN_WRAP (e.g. valgrind) is passed on
repo="$(readlink -f "$1")"; shift
. /verif/env.sh; export CGO_LDFLAGS="-L/usr/lib/llvm-14/lib -lLLVM-14"
key=$( (cd "$repo" && git rev-parse HEAD 2>/dev/null; git -C "$repo" diff 2>/dev/null; echo "$repo") | sha1sum | cut -c1-12)
C="${TMPDIR:-/tmp}/ddprun-cache/$key"
if [ ! -x "$C/kddp" ]; then /verif/tools/run_ddp.sh "$repo" /verif/fixes/f14_byte_durch_kommazahl.ddp /verif/fixes/run/ausgabe.c >/dev/null 2>&1; fi
if [ ! -f "$C/libstd.a" ]; then
  mkdir -p "$C/std"
  for f in "$repo"/lib/stdlib/source/DDP/*.c; do b=$(basename "$f" .c); case $b in regex|compression|winapi-path) continue;; esac
    gcc -O1 -c -I"$repo/lib/stdlib/include" -I"$repo/lib/runtime/include" "$f" -o "$C/std/$b.o" 2>/dev/null || echo "skip $b"; done
  ar rcs "$C/libstd.a" "$C"/std/*.o
fi
for name in "$@"; do
  d="$repo/tests/testdata/kddp/$name"; W=$(mktemp -d)
  cp -r "$d"/. "$W/"; main=$(ls "$W"/*.ddp | head -1)
  (cd "$W" && DDPPATH="$C/ddp" "$C/kddp" kompiliere "$(basename "$main")" -o p.o --list-defs-linken=false $KFLAGS >/dev/null 2>comp.err) || { echo "$name: COMPILE FAILED $(head -2 "$W/comp.err")"; rm -rf "$W"; continue; }
  (cd "$W" && gcc -o p p.o "$C/listdefs.o" "$C/libstd.a" "$C/runtime/libddpruntime.a" "$C/runtime/source/main.o" -lm 2>link.err) || { echo "$name: LINK FAILED $(head -2 "$W/link.err")"; rm -rf "$W"; continue; }
  (cd "$W" && ${RUN_WRAP:-} ./p > out.txt 2> err.txt < /dev/null); rc=$?
  if diff -q "$W/out.txt" "$d/expected.txt" >/dev/null; then r=same; else r=DIFFERENT; fi
  echo "$name: exit=$rc output=$r stderr_lines=$(wc -l < "$W/err.txt")"
  [ -n "$SHOW_ERR" ] && head -${SHOW_ERR} "$W/err.txt"
  [ -n "$KEEP" ] && mkdir -p "$KEEP" && cp "$W/out.txt" "$KEEP/$name.out"; rm -rf "$W"
done
