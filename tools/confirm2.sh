#!/bin/bash
# usage: tools/confirm2.sh <ID>   (round-2 seeds: /tmp/s2/<ID> worktree with the agent's change, /tmp/s2/out/<ID>/patch.diff)
# Confirms: the patch is exactly the worktree's diff and applies to /repo's HEAD, the tree builds, the pinned suite passes.
id="$1"; wt=${SEEDROOT:-/tmp/s2}/$id; out=${SEEDROOT:-/tmp/s2}/out/$id
. /verif/env.sh; export CGO_LDFLAGS="-L/usr/lib/llvm-14/lib -lLLVM-14"
cd $wt || exit 2
git diff > /tmp/confirm2.$$.diff
if diff -q /tmp/confirm2.$$.diff $out/patch.diff >/dev/null; then echo "patch.diff == worktree diff"; else echo "patch.diff differs from the worktree diff (using patch.diff)"; git checkout -q -- . ; git clean -fdq; git apply $out/patch.diff || { echo "PATCH DOES NOT APPLY"; exit 2; }; fi
rm -f /tmp/confirm2.$$.diff
go build ./src/... ./cmd/... && echo "build ok" || { echo "BUILD FAILS"; exit 2; }
if go test -vet=off -count=1 ./src/... > /tmp/confirm2.$$.log 2>&1; then echo "suite PASS with the change"; else echo "suite FAILS with the change"; grep -v "^ok\|no test files" /tmp/confirm2.$$.log | tail -5; fi
rm -f /tmp/confirm2.$$.log
(cd /repo && git apply --check $out/patch.diff 2>/dev/null && echo "applies to /repo HEAD" || echo "does NOT apply to /repo HEAD")
