#!/bin/bash
# TRIAGE ONLY (never used by a registered check): compile and run a DDP program against a given source tree.
# usage: tools/run_ddp.sh <repo-dir> <program.ddp> [extern.c ...] [-- kddp flags]   (STD=1 links the Duden C library, RUN_WRAP=valgrind...)
# Builds kddp and the C runtime of <repo-dir> into a scratch directory (cached per tree state in $TMPDIR/ddprun-cache).
repo="$(readlink -f "$1")"; prog="$(readlink -f "$2")"; shift 2
cs=(); flags=()
while [ $# -gt 0 ]; do if [ "$1" = "--" ]; then shift; flags=("$@"); break; fi; cs+=("$(readlink -f "$1")"); shift; done
. /verif/env.sh; export CGO_LDFLAGS="-L/usr/lib/llvm-14/lib -lLLVM-14"
key=$( (cd "$repo" && git rev-parse HEAD 2>/dev/null; git -C "$repo" diff 2>/dev/null; echo "$repo") | sha1sum | cut -c1-12)
C="${TMPDIR:-/tmp}/ddprun-cache/$key"
if [ ! -x "$C/kddp" ]; then
  mkdir -p "$C" && (cd "$repo" && go build -o "$C/kddp" ./cmd/kddp) || exit 2
  cp -r "$repo/lib/runtime" "$C/runtime" && make -C "$C/runtime" clean >/dev/null 2>&1
  make -C "$C/runtime" libddpruntime.a source/main.o >/dev/null 2>"$C/make.err" || { cat "$C/make.err"; exit 2; }
  mkdir -p "$C/ddp" && ln -sfn "$repo/lib/stdlib/Duden" "$C/ddp/Duden"
  (cd "$C" && DDPPATH="$C/ddp" ./kddp dump-list-defs -o listdefs --object) || exit 2
fi
std=()
if [ -n "$STD" ]; then
  if [ ! -f "$C/libstd.a" ]; then
    mkdir -p "$C/std"
    for f in "$repo"/lib/stdlib/source/DDP/*.c; do b=$(basename "$f" .c); case $b in regex|compression|winapi-path) continue;; esac
      gcc -O1 -c -I"$repo/lib/stdlib/include" -I"$repo/lib/runtime/include" "$f" -o "$C/std/$b.o" 2>/dev/null || echo "skip $b"; done
    ar rcs "$C/libstd.a" "$C"/std/*.o
  fi
  std=("$C/libstd.a")
fi
W=$(mktemp -d); trap 'rm -rf "$W"' EXIT
cp "$prog" "$W/p.ddp"; objs=()
for f in "${cs[@]}"; do cp "$f" "$W/"; gcc -O2 -c -I"$C/runtime/include" "$f" -o "$W/$(basename "$f" .c).o" || exit 2; objs+=("$W/$(basename "$f" .c).o"); done
cd "$W" && DDPPATH="$C/ddp" "$C/kddp" kompiliere p.ddp -o p.o --list-defs-linken=false "${flags[@]}" || exit 3
gcc -o p p.o "${objs[@]}" "$C/listdefs.o" "${std[@]}" "$C/runtime/libddpruntime.a" "$C/runtime/source/main.o" -lm || exit 2
${RUN_WRAP:-} ./p; rc=$?; echo "[exit status $rc]"
