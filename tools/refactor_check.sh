#!/bin/bash
# usage: tools/refactor_check.sh <patch-file> [property ...]
# False-alarm test: applies a BEHAVIOUR-PRESERVING patch to a scratch copy of /repo (outside /repo and /verif, removed on exit)
# and runs every claimed check (or the named ones) against it through the overlay. Prints one line per check that fires;
# exit 0 = every check stayed silent, 1 = at least one check fired (a false alarm to be repaired in the machinery), 2 = patch problem.
patch="$(readlink -f "$1")"; shift
. /verif/env.sh
S="$(mktemp -d "${TMPDIR:-/tmp}/ddpref.XXXXXX")"
trap 'rm -rf "$S"' EXIT
mkdir -p "$S/repo" "$S/verif"
rsync -a --exclude .git /repo/ "$S/repo/"
cp /verif/known_findings.json "$S/verif/"
(cd "$S/repo" && patch -p1 -s --no-backup-if-mismatch -r - < "$patch" >/dev/null 2>&1) || { echo "PATCH DOES NOT APPLY"; exit 2; }
python3 - "$S" <<'PY'
import sys,os,json,filecmp
S=sys.argv[1]; ov={}
for root,dirs,files in os.walk(S+'/repo'):
    for f in files:
        p=os.path.join(root,f); rel=os.path.relpath(p,S+'/repo'); o=os.path.join('/repo',rel)
        if f.endswith('.go') and (not os.path.exists(o) or not filecmp.cmp(p,o,shallow=False)):
            ov[o]=p
json.dump(ov,open(S+'/overlay.json','w'))
PY
props="$*"
if [ -z "$props" ]; then
  groups=("C18 C19 C15" "C16 C12 C03 C01 C04" "C05 C13 C02 C07 C08" "C14 C20 C09 C10 C11 C06")
  all=$(python3 -c "import json;print(' '.join(sorted(c['property_id'] for c in json.load(open('/verif/MANIFEST.json'))['checks'])))")
  [ "$(echo ${groups[*]} | tr ' ' '\n' | sort | tr '\n' ' ' | sed 's/ $//')" = "$all" ] || { echo "refactor_check.sh: group list out of date"; exit 2; }
else
  groups=("$props")
fi
export S
i=0
for g in "${groups[@]}"; do
  i=$((i+1)); mkdir -p "$S/v$i"; cp "$S/verif/known_findings.json" "$S/v$i/"
  ( VERIF_TIER=${VERIF_TIER:-quick} VERIF_OVERLAY="$S/overlay.json" VERIF_C_REPO="$S/repo" VERIF_DIR="$S/v$i" ${VERIF_BIN:-/verif/bin/ddpverif} --multi $g > "$S/out$i.txt" 2>&1 ) &
done
wait
cat "$S"/out*.txt | grep -B1 "^VIOLATION\|LOAD FAILED\|PANIC\|^FIRED" | grep -v "^--" | sed "s#$S/##g" | head -${MUT_LINES:-30} > "$S/result.txt"
cat "$S/result.txt"
if grep -q "^FIRED\|LOAD FAILED\|unknown property" "$S/result.txt" "$S"/out*.txt; then exit 1; fi
echo "ALL SILENT"; exit 0
