mkm () 
{ 
    python3 - "$@" <<'EOF'
import sys,difflib
prop,name,f,old,new=sys.argv[1:6]
s=open('/repo/'+f).read()
assert s.count(old)>=1,(name,'not found')
t=s.replace(old,new,1)
import os; os.makedirs('/verif/mutants/'+prop,exist_ok=True)
open('/verif/mutants/%s/%s.diff'%(prop,name),'w').write(''.join(difflib.unified_diff(s.splitlines(1),t.splitlines(1),'a/'+f,'b/'+f)))
EOF

}
