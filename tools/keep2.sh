#!/bin/bash
# usage: tools/keep2.sh <ID> <suffix> "<detected_by or MISSED …>" "<needs to manifest>"
id="$1"; suf="$2"; det="$3"; needs="$4"; src=${SEEDROOT:-/tmp/s2}/out/$id; d=/verif/seeded/$id-$suf
mkdir -p $d/demo; cp $src/patch.diff $d/; cp $src/README.md $d/ 2>/dev/null
for f in $src/*; do case "$(basename $f)" in patch.diff|README.md) ;; *) [ -f "$f" ] && [ $(stat -c %s "$f") -lt 200000 ] && cp "$f" $d/demo/;; esac; done
python3 - "$id-$suf" "$id" "$det" "$needs" <<'PY'
import json,sys
sid,prop,det,needs=sys.argv[1:5]
json.dump({"id":sid,"round":2,"breaks_property":prop,"needs_to_manifest":needs,"confirmed_by":"tools/confirm2.sh in the agent's scratch worktree: patch equals the worktree diff and applies to /repo HEAD, go build ok, go test ./src/... passes with the change; the demonstration program was run by hand with tools/run_ddp.sh on /repo (clean) and on the changed tree and shows the recorded difference","detected_by":det},open('/verif/seeded/%s/meta.json'%sid,'w'),indent=1,ensure_ascii=False)
PY
echo kept $d
