#!/bin/bash
# usage: tools/ovsetup.sh <patch> <scratch-dir>   -> prints the env assignments to run bin/ddpverif against the patched copy
patch="$(readlink -f "$1")"; S="$2"
rm -rf "$S"; mkdir -p "$S/repo" "$S/verif"
rsync -a --exclude .git /repo/ "$S/repo/"
cp /verif/known_findings.json "$S/verif/"
(cd "$S/repo" && patch -p1 -s --no-backup-if-mismatch -r - < "$patch") || { echo "PATCH DOES NOT APPLY"; exit 2; }
python3 - "$S" <<'PY'
import sys,os,json,filecmp
S=sys.argv[1]; ov={}
for root,dirs,files in os.walk(S+'/repo'):
    for f in files:
        p=os.path.join(root,f); rel=os.path.relpath(p,S+'/repo'); o=os.path.join('/repo',rel)
        if f.endswith('.go') and (not os.path.exists(o) or not filecmp.cmp(p,o,shallow=False)):
            ov[o]=p
json.dump(ov,open(S+'/overlay.json','w'))
PY
echo "VERIF_OVERLAY=$S/overlay.json VERIF_C_REPO=$S/repo VERIF_DIR=$S/verif"
