#!/usr/bin/env python3
# Generates /verif/MANIFEST.json from the table below (kept in one place so it stays valid).
import json, os
claimed = json.load(open(os.path.join(os.path.dirname(__file__), 'claims.json')))
checks = []
for c in claimed['checks']:
    pid = c['id']
    checks.append({
        "property_id": pid,
        "quick_cmd": f"./check.sh {pid} quick",
        "thorough_cmd": f"./check.sh {pid} thorough",
        "evidence_file": f"/verif/evidence/{pid}.json",
        "replay_cmd_template": "cat {path}",
        "engine": "ddpverif",
        "level_claimed": {"category": "other", "text": c['text'], "design_ref": c['design_ref']},
        "level_note": c['note'],
        "technique": c['technique'],
    })
m = {
    "version": 1,
    "setup_cmd": ". ./env.sh && cd checker && go build -o ../bin/ddpverif .",
    "hooks": {
        "guard": "verif",
        "enable": "no hooks are needed: the checks read /repo's sources; nothing is built with a tag",
        "baseline_off_cmd": "cd /repo && . /verif/env.sh && CGO_LDFLAGS='-L/usr/lib/llvm-14/lib -lLLVM-14' go test -vet=off -count=1 ./src/...",
        "source_commits": claimed.get('source_commits', []),
        "add_only": True,
    },
    "engines": [{"name": "ddpverif", "path": "/verif/checker", "serves_properties": [c['id'] for c in claimed['checks']],
                 "kind_free_text": "repository-specific static analyser (go/packages + go/types typed AST, go/cfg must-dataflow, go/ssa, VTA call graph; clang AST for the C runtime)"}],
    "checks": checks,
    "notes": claimed.get('notes', ''),
    "not_applicable": claimed['not_applicable'],
}
json.dump(m, open('/verif/MANIFEST.json', 'w'), indent=1, ensure_ascii=False)
print("wrote MANIFEST.json with", len(checks), "checks,", len(m['not_applicable']), "not applicable")
