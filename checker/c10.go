package main

import (
	"fmt"
	"go/ast"
	"go/token"
	"go/types"
	"sort"
	"strings"

	"golang.org/x/tools/go/cfg"
)

func init() { registry["C10"] = checkC10 }

func checkC10(c *Check) {
	L := c.L
	c.Expl = "Structural clauses of 'modules expose exactly their public names and initialise once, in order': every write of a module's PublicDecls is control-dependent on the declaration being public, and imports read nothing but PublicDecls (R10.1); an imported (non-main) module compiles only declarations, imports and function definitions (R10.2); the init call of an imported module is emitted only on a miss in the set of already initialised modules, the module is then recorded, and modules are visited in post-order (imports first) over slices with a visited set (R10.3); the circular-import guard (R10.4, = R3.5); the module part of mangled symbol names and of the init/dispose names is derived from the module's unique path key (R10.5). Not decided: the file order of directory imports; hash collisions."
	// ---------------- R10.1 ----------------
	r1 := c.Rule("R10.1", "PublicDecls is written only for public declarations; imports read only PublicDecls", 2)
	// R10.1c: every kind of declaration is entered (the "all of them" half): the static types stored by the writes found
	// for R10.1 - looked at through helper parameters, i.e. the argument types at the helper's call sites - cover every
	// concrete type that implements ast.Declaration
	r1c := c.Rule("R10.1c", "every kind of declaration (constant, variable, function, Kombination, type alias, type definition) has a path that enters it into PublicDecls", 6)
	storedKinds := map[string]bool{}
	var kindsOf func(fi *FuncInfo, e ast.Expr, depth int)
	kindsOf = func(fi *FuncInfo, e ast.Expr, depth int) {
		info := fi.Pkg.TypesInfo
		t := info.TypeOf(e)
		if t == nil {
			return
		}
		if _, isIface := t.Underlying().(*types.Interface); !isIface {
			if p, ok := t.(*types.Pointer); ok {
				t = p.Elem()
			}
			if n, ok := t.(*types.Named); ok {
				storedKinds[n.Obj().Name()] = true
			}
			return
		}
		// an interface-typed parameter of the enclosing function: the kinds are those passed by the callers
		id, ok := ast.Unparen(e).(*ast.Ident)
		if !ok || depth > 3 {
			return
		}
		obj := info.Uses[id]
		idx, k := -1, 0
		for _, f := range fi.Decl.Type.Params.List {
			for _, n := range f.Names {
				if info.Defs[n] == obj {
					idx = k
				}
				k++
			}
		}
		if idx < 0 {
			return
		}
		for _, cs := range L.CallSites(fi.Obj) {
			if idx < len(cs.Call.Args) {
				kindsOf(cs.Fn, cs.Call.Args[idx], depth+1)
			}
		}
	}
	for _, fi := range L.sortedFuncs() {
		if fi.Decl.Body == nil {
			continue
		}
		info := fi.Pkg.TypesInfo
		var stack []ast.Node
		ast.Inspect(fi.Decl.Body, func(n ast.Node) bool {
			if n == nil {
				stack = stack[:len(stack)-1]
				return true
			}
			stack = append(stack, n)
			as, ok := n.(*ast.AssignStmt)
			if !ok || len(as.Lhs) != 1 {
				return true
			}
			ix, ok := as.Lhs[0].(*ast.IndexExpr)
			if !ok {
				return true
			}
			v := fieldOf(info, ix.X)
			if v == nil || !nameIs(v, "PublicDecls") {
				return true
			}
			// enclosing conditions must include a positive test of IsPublic / Public() of the stored declaration
			guarded := false
			for i, s := range stack {
				is, ok := s.(*ast.IfStmt)
				if !ok || i+1 >= len(stack) {
					continue
				}
				inThen := stack[i+1] == ast.Node(is.Body)
				if !inThen {
					continue
				}
				// positive conjunct mentioning IsPublic or Public()
				var conj []ast.Expr
				var split func(e ast.Expr)
				split = func(e ast.Expr) {
					e = ast.Unparen(e)
					if be, ok := e.(*ast.BinaryExpr); ok && be.Op == token.LAND {
						split(be.X)
						split(be.Y)
						return
					}
					conj = append(conj, e)
				}
				split(is.Cond)
				for _, cj := range conj {
					if sel, ok := cj.(*ast.SelectorExpr); ok && sel.Sel.Name == "IsPublic" {
						guarded = true
					}
					if call, ok := cj.(*ast.CallExpr); ok {
						if fn := Callee(info, call); fn != nil && nameIs(fn, "Public") {
							guarded = true
						}
					}
				}
			}
			r1.Decide(guarded, L.QName(fi.Obj)+"|PublicDecls[k] = d", as.Pos(), "inside `if d.IsPublic && ...`", "a declaration is entered into the module's public table without a test that it is public: importers see a private name")
			kindsOf(fi, as.Rhs[0], 0)
			return true
		})
	}
	if ap := L.ByRel["src/ast"]; ap != nil {
		var declIface *types.Interface
		if o := ap.Types.Scope().Lookup("Declaration"); o != nil {
			declIface, _ = o.Type().Underlying().(*types.Interface)
		}
		if declIface == nil {
			r1c.Und("ast.Declaration", token.NoPos, "interface not found")
		} else {
			for _, name := range ap.Types.Scope().Names() {
				tn, ok := ap.Types.Scope().Lookup(name).(*types.TypeName)
				if !ok || tn.IsAlias() || name == "BadDecl" {
					continue
				}
				if _, isIface := tn.Type().Underlying().(*types.Interface); isIface {
					continue
				}
				if !types.Implements(types.NewPointer(tn.Type()), declIface) {
					continue
				}
				r1c.Decide(storedKinds[name], "ast."+name, tn.Pos(), "a write of PublicDecls stores a value of this kind", "no write of PublicDecls stores a *ast."+name+": public declarations of this kind are never visible to importers")
			}
		}
	} else {
		r1c.Und("src/ast", token.NoPos, "package not loaded")
	}
	if fi := L.Fn("src/ast.IterateImportedDecls"); fi != nil {
		info := fi.Pkg.TypesInfo
		bad := ""
		ast.Inspect(fi.Decl.Body, func(n ast.Node) bool {
			if sel, ok := n.(*ast.SelectorExpr); ok {
				if v := fieldOf(info, sel); v != nil && v.Pkg() != nil && nameIs(v.Pkg(), "ast") {
					switch canonName(v) {
					case "Ast", "Symbols", "Statements":
						bad = v.Name()
					}
				}
			}
			return true
		})
		r1.Decide(bad == "", "ast.IterateImportedDecls|reads only PublicDecls", fi.Decl.Pos(), "imported declarations are taken from PublicDecls only", "IterateImportedDecls reads Module."+bad+": private declarations of the imported module can become visible")
	} else {
		r1.Und("ast.IterateImportedDecls", token.NoPos, "function not found")
	}

	// ---------------- R10.2 ----------------
	r2 := c.Rule("R10.2", "imported modules compile only declarations, imports and function definitions", 1)
	if fi := L.Fn("src/compiler.(*compiler).compile"); fi != nil {
		info := fi.Pkg.TypesInfo
		found := false
		ast.Inspect(fi.Decl.Body, func(n ast.Node) bool {
			ts, ok := n.(*ast.TypeSwitchStmt)
			if !ok {
				return true
			}
			var got []string
			visitsInDefault := false
			for _, cl := range ts.Body.List {
				cc := cl.(*ast.CaseClause)
				visits := false
				for _, st := range cc.Body {
					ast.Inspect(st, func(m ast.Node) bool {
						if call, ok := m.(*ast.CallExpr); ok {
							if fn := Callee(info, call); fn != nil && nameIs(fn, "visitNode") {
								visits = true
							}
						}
						return true
					})
				}
				if cc.List == nil {
					visitsInDefault = visits
					continue
				}
				if visits {
					for _, e := range cc.List {
						got = append(got, L.Src(e))
					}
				}
			}
			sort.Strings(got)
			if len(got) == 0 {
				return true
			}
			found = true
			want := "*ast.DeclStmt *ast.FuncDef *ast.ImportStmt"
			r2.Decide(strings.Join(got, " ") == want && !visitsInDefault, "compiler.(*compiler).compile|statements compiled for imported modules", ts.Pos(), want, "an imported module compiles the statement kinds {"+strings.Join(got, " ")+"} (default arm compiles: "+map[bool]string{true: "yes", false: "no"}[visitsInDefault]+"): top-level statements of imported modules would be executed")
			return true
		})
		if !found {
			r2.Bad("compiler.(*compiler).compile|statements compiled for imported modules", fi.Decl.Pos(), "no statement-kind filter for imported modules found: their top-level statements are compiled")
		}
	} else {
		r2.Und("compiler.(*compiler).compile", token.NoPos, "function not found")
	}

	// ---------------- R10.3 ----------------
	r3 := c.Rule("R10.3", "one init call per imported module, emitted on a miss and recorded; modules visited imports-first", 3)
	if fi := L.Fn("src/compiler.(*compiler).VisitImportStmt"); fi != nil {
		info := fi.Pkg.TypesInfo
		// the callback given to IterateModuleImports
		var cb *ast.FuncLit
		ast.Inspect(fi.Decl.Body, func(n ast.Node) bool {
			if call, ok := n.(*ast.CallExpr); ok {
				if fn := Callee(info, call); fn != nil && nameIs(fn, "IterateModuleImports") && len(call.Args) == 2 {
					cb, _ = call.Args[1].(*ast.FuncLit)
				}
			}
			return true
		})
		if cb == nil {
			r3.Bad("compiler.(*compiler).VisitImportStmt|IterateModuleImports", fi.Decl.Pos(), "imported modules are not traversed with ast.IterateModuleImports (dependencies-first, once per module)")
		} else {
			g := L.CFGBody(fi.Pkg, cb.Body)
			// bit0: passed the miss edge of importedModules lookup
			mf := &mustFlow{G: g, Init: 0, Transfer: func(n ast.Node, s uint32) uint32 { return s },
				Edge: func(b *cfg.Block, i int, s uint32) uint32 {
					if len(b.Nodes) == 0 {
						return s
					}
					if id, ok := b.Nodes[len(b.Nodes)-1].(*ast.Ident); ok {
						// `if _, already := c.importedModules[m]; already { return }`
						for _, n := range b.Nodes {
							if as, ok := n.(*ast.AssignStmt); ok && len(as.Lhs) == 2 && len(as.Rhs) == 1 {
								if ix, ok := as.Rhs[0].(*ast.IndexExpr); ok {
									if v := fieldOf(info, ix.X); v != nil && nameIs(v, "importedModules") {
										if okId, ok := as.Lhs[1].(*ast.Ident); ok && info.Defs[okId] == info.Uses[id] && i == 1 {
											return s | 1
										}
									}
								}
							}
						}
					}
					return s
				}}
			mf.Run()
			callOK, recorded, foundCall := true, false, false
			for _, b := range g.Blocks {
				for i, n := range b.Nodes {
					callsIn(n, func(call *ast.CallExpr) {
						if fn := Callee(info, call); fn != nil && nameIs(fn, "NewCall") && len(call.Args) >= 1 && isModuleInitFunc(info, fi.Decl.Body, call.Args[0]) {
							foundCall = true
							if mf.StateAt(b, i)&1 == 0 {
								callOK = false
							}
						}
					})
					if as, ok := n.(*ast.AssignStmt); ok && len(as.Lhs) == 1 {
						if ix, ok := as.Lhs[0].(*ast.IndexExpr); ok {
							if v := fieldOf(info, ix.X); v != nil && nameIs(v, "importedModules") && mf.StateAt(b, i)&1 != 0 {
								recorded = true
							}
						}
					}
				}
			}
			deferredOK, deferredWhy := false, ""
			if !foundCall {
				// the call may be emitted after the traversal, from a slice that the callback fills on a miss: accepted when the slice is
				// only appended to under the miss and is iterated in the order it was filled (nothing sorts or otherwise reorders it)
				var sliceObj types.Object
				for _, b := range g.Blocks {
					for i, n := range b.Nodes {
						if as, ok := n.(*ast.AssignStmt); ok && len(as.Lhs) == 1 && len(as.Rhs) == 1 {
							if call, ok := as.Rhs[0].(*ast.CallExpr); ok {
								if id, ok := call.Fun.(*ast.Ident); ok && id.Name == "append" && len(call.Args) == 2 && mf.StateAt(b, i)&1 != 0 {
									if lid, ok := as.Lhs[0].(*ast.Ident); ok {
										sliceObj = info.Uses[lid]
									}
								}
							}
						}
					}
				}
				if sliceObj != nil {
					ranged, reordered := false, ""
					ast.Inspect(fi.Decl.Body, func(n ast.Node) bool {
						switch x := n.(type) {
						case *ast.RangeStmt:
							if id, ok := ast.Unparen(x.X).(*ast.Ident); ok && info.Uses[id] == sliceObj {
								ast.Inspect(x.Body, func(m ast.Node) bool {
									if call, ok := m.(*ast.CallExpr); ok {
										if fn := Callee(info, call); fn != nil && nameIs(fn, "NewCall") && len(call.Args) >= 1 && isModuleInitFunc(info, fi.Decl.Body, call.Args[0]) {
											ranged = true
										}
									}
									return true
								})
							}
						case *ast.CallExpr:
							if fn := Callee(info, x); fn != nil && fn.Pkg() != nil && (fn.Pkg().Path() == "sort" || fn.Pkg().Path() == "slices") && strings.Contains(strings.ToLower(fn.Name()), "sort") || (fn != nil && nameIs(fn, "Reverse")) {
								for _, a := range x.Args {
									if id, ok := ast.Unparen(a).(*ast.Ident); ok && info.Uses[id] == sliceObj {
										reordered = fn.Name()
									}
								}
							}
						}
						return true
					})
					foundCall = ranged
					if ranged && reordered == "" {
						deferredOK = true
					} else if ranged {
						deferredWhy = "the modules collected in dependencies-first order are reordered (" + reordered + ") before their module_init calls are emitted: a module can be initialised before a module it imports, so its initialisers read default values"
					}
				}
			}
			if deferredWhy != "" {
				r3.Bad("compiler.(*compiler).VisitImportStmt|init call on a miss", cb.Pos(), deferredWhy)
			} else if deferredOK {
				r3.OK("compiler.(*compiler).VisitImportStmt|init call on a miss", cb.Pos(), "modules missed in importedModules are collected in traversal order and their module_init calls emitted in that order")
			} else {
				r3.Decide(foundCall && callOK, "compiler.(*compiler).VisitImportStmt|init call on a miss", cb.Pos(), "module_init is called only after the importedModules miss", "the module_init call is not dominated by a miss in importedModules: a module reachable over two import paths is initialised twice (or never)")
			}
			r3.Decide(recorded, "compiler.(*compiler).VisitImportStmt|module recorded", cb.Pos(), "the module is entered into importedModules after its init call was emitted", "the module is not recorded in importedModules after the miss: it is initialised again by the next import that reaches it")
		}
	} else {
		r3.Und("compiler.(*compiler).VisitImportStmt", token.NoPos, "function not found")
	}
	// the traversal itself is decided by evaluating ast.IterateModuleImports (engine E2, maps as references) on small
	// import graphs with a recording callback: every module reachable from the root is visited exactly once, after
	// every module it imports (chain, diamond, a module imported twice by one importer, diamond with a dependency
	// between the siblings, two import statements)
	if fi := L.Fn("src/ast.IterateModuleImports"); fi != nil {
		type graph struct {
			name  string
			edges map[string][][]string // module -> import statements -> modules
			root  string
		}
		graphs := []graph{
			{"chain A→B→C", map[string][][]string{"A": {{"B"}}, "B": {{"C"}}, "C": nil}, "A"},
			{"diamond A→{B,C}→D", map[string][][]string{"A": {{"B"}, {"C"}}, "B": {{"D"}}, "C": {{"D"}}, "D": nil}, "A"},
			{"module imported twice", map[string][][]string{"A": {{"B"}, {"B"}}, "B": nil}, "A"},
			{"directory import A→{B,C}, C→B", map[string][][]string{"A": {{"C", "B"}}, "C": {{"B"}}, "B": nil}, "A"},
			{"siblings depend on each other A→{B,C}, B→C", map[string][][]string{"A": {{"B"}, {"C"}}, "B": {{"C"}}, "C": nil}, "A"},
			// a statement that starts with "*" is a directory import (IsDirectoryImport), whatever the number of modules found
			{"directory import inside an imported module A→B, B→dir{C,D}", map[string][][]string{"A": {{"B"}}, "B": {{"*", "C", "D"}}, "C": nil, "D": nil}, "A"},
			{"directory with one module A→B, B→dir{C}", map[string][][]string{"A": {{"B"}}, "B": {{"*", "C"}}, "C": nil}, "A"},
		}
		var bad []string
		und := ""
		for _, g := range graphs {
			in := NewInterp(L)
			in.RefMaps = true
			in.MaxDepth = 12
			mods := map[string]*Obj{}
			var names []string
			for n := range g.edges {
				names = append(names, n)
			}
			sort.Strings(names)
			for _, n := range names {
				m := newObj("ast.Module")
				m.set("FileName", StrV(n))
				mods[n] = m
			}
			for _, n := range names {
				imps := SliceV{}
				for _, st := range g.edges[n] {
					is := newObj("ast.ImportStmt")
					ms := SliceV{}
					dir := len(st) > 1
					for _, t := range st {
						if t == "*" {
							dir = true
							continue
						}
						ms.Elems = append(ms.Elems, mods[t])
					}
					is.set("IsDirectoryImport", boolV(dir))
					is.set("Modules", ms)
					imps.Elems = append(imps.Elems, is)
				}
				mods[n].set("Imports", imps)
			}
			var order []string
			cb := NativeV{F: func(args []Val) Val {
				if len(args) == 1 {
					if o, ok := args[0].(*Obj); ok {
						if s, ok := o.get("FileName").(StrV); ok {
							order = append(order, string(s))
						}
					}
				}
				return TupleV(nil)
			}}
			runs, _ := in.RunAll(4, func() {
				order = nil
				in.CallFunc(fi, nil, []Val{mods[g.root], cb})
			})
			if runs != 1 {
				und = "the traversal of '" + g.name + "' depends on something the evaluation does not know"
				continue
			}
			for _, ev := range in.Events {
				if ev.Kind == "panic" {
					und = "panic while evaluating '" + g.name + "': " + ev.Msg
				}
			}
			pos := map[string]int{}
			for i, n := range order {
				if _, dup := pos[n]; dup {
					bad = append(bad, fmt.Sprintf("%s: %s is visited twice (%v)", g.name, n, order))
				}
				pos[n] = i
			}
			for _, n := range names {
				if _, ok := pos[n]; !ok {
					bad = append(bad, fmt.Sprintf("%s: %s is never visited (%v)", g.name, n, order))
					continue
				}
				for _, st := range g.edges[n] {
					for _, t := range st {
						if t == "*" {
							continue
						}
						if pt, ok := pos[t]; ok && pt > pos[n] {
							bad = append(bad, fmt.Sprintf("%s: %s is visited before %s, which it imports (%v)", g.name, n, t, order))
						}
					}
				}
			}
		}
		switch {
		case len(bad) > 0:
			r3.Bad("ast.iterateModuleImportsRec|post-order with visited set", fi.Decl.Pos(), strings.Join(firstN(uniq(bad), 3), "; ")+": a module's initialiser can run before those of the modules it imports, or more than once")
		case und != "":
			r3.Und("ast.iterateModuleImportsRec|post-order with visited set", fi.Decl.Pos(), und)
		default:
			r3.OK("ast.iterateModuleImportsRec|post-order with visited set", fi.Decl.Pos(), fmt.Sprintf("%d import graphs evaluated: every reachable module exactly once, imports first", len(graphs)))
		}
	} else {
		r3.Und("ast.IterateModuleImports", token.NoPos, "function not found")
	}

	// ---------------- R10.7 who enumerates another module's public declarations ----------------
	// `Binde a und b aus "m" ein` makes visible exactly the listed names: the only place that walks over a module's whole
	// PublicDecls table is ast.IterateImportedDecls, which consults the import's symbol list. Any other enumeration
	// (range, maps.Keys/Values) of a PublicDecls table - e.g. to register aliases and operator overloads - bypasses it.
	r7 := c.Rule("R10.7", "a module's PublicDecls table is enumerated only by ast.IterateImportedDecls (which honours the import's symbol list)", 1)
	nEnum := 0
	for _, fi := range L.sortedFuncs() {
		if fi.Decl.Body == nil {
			continue
		}
		info := fi.Pkg.TypesInfo
		isPub := func(e ast.Expr) bool {
			v := fieldOf(info, e)
			return v != nil && nameIs(v, "PublicDecls") && isMapType(info.TypeOf(e))
		}
		ast.Inspect(fi.Decl.Body, func(n ast.Node) bool {
			var at ast.Node
			switch x := n.(type) {
			case *ast.RangeStmt:
				if isPub(x.X) {
					at = x
				}
			case *ast.CallExpr:
				if fn := Callee(info, x); fn != nil && fn.Pkg() != nil && (fn.Pkg().Path() == "maps" || fn.Pkg().Path() == "golang.org/x/exp/maps") && len(x.Args) >= 1 && isPub(x.Args[0]) {
					switch fn.Name() {
					case "Keys", "Values", "All", "Collect":
						at = x
					}
				}
			}
			if at == nil {
				return true
			}
			nEnum++
			q := L.QName(fi.Obj)
			r7.Decide(q == "ast.IterateImportedDecls", q+"|enumerates PublicDecls", at.Pos(), "the one enumeration, which filters by the import's symbol list", "a module's public declarations are enumerated outside ast.IterateImportedDecls: whatever is done for each of them here (aliases, operator overloads, symbols) is done for names the import statement did not list")
			return true
		})
	}
	if nEnum == 0 {
		r7.Und("ast.IterateImportedDecls|enumerates PublicDecls", token.NoPos, "no enumeration of a PublicDecls table found")
	}

	// ---------------- R10.6 (shared with C04 R4.3b) ----------------
	// an imported name that is already declared in the importer (by the importer itself or by an earlier import) is a
	// reported clash on every path; it is never dropped silently (uses would bind to the module imported first)
	r6 := c.Rule("R10.6", "a public name imported twice from different sources is a reported clash, never dropped silently", 1)
	{
		sub := NewCheck("C10", c.Tier, L)
		checkRedeclarationAlwaysReported(sub)
		for _, sr := range sub.rules {
			for _, in := range sr.Inst {
				if strings.Contains(in.Key, "VisitImportStmt") {
					r6.AddAt(in.Status, strings.TrimPrefix(in.Key, sr.ID+"|"), in.Pos, in.Msg)
				}
			}
		}
	}

	// ---------------- R10.4 ----------------
	r4 := c.Rule("R10.4", "modules that import each other are detected through the placeholder in the module map", 2)
	checkImportMemo(c, r4)
	for _, in := range r4.Inst {
		in.Rule = "R10.4"
		in.Key = strings.Replace(in.Key, "R3.5|", "R10.4|", 1)
	}

	// ---------------- R10.5 ----------------
	// anchor-free: the naming functions are the receiver-less functions of the generator that take a *ast.Module and
	// return only strings (getHashableModuleName, getModuleInitDisposeName, mangledNameBase today); in each of them the
	// module may only be read through its FileName field or be handed to another naming function
	r5 := c.Rule("R10.5", "the module part of mangled names and init/dispose names derives from the module's unique path (Module.FileName)", 2)
	isModulePtr := func(t types.Type) bool {
		p, ok := t.(*types.Pointer)
		return ok && strings.HasSuffix(p.Elem().String(), "/src/ast.Module")
	}
	naming := map[*types.Func]*FuncInfo{}
	L.ForEachFunc([]string{"src/compiler"}, func(fi *FuncInfo) {
		sig := fi.Obj.Type().(*types.Signature)
		if sig.Recv() != nil || sig.Results().Len() == 0 {
			return
		}
		for i := 0; i < sig.Results().Len(); i++ {
			if b, ok := sig.Results().At(i).Type().Underlying().(*types.Basic); !ok || b.Kind() != types.String {
				return
			}
		}
		for i := 0; i < sig.Params().Len(); i++ {
			if isModulePtr(sig.Params().At(i).Type()) {
				naming[fi.Obj] = fi
			}
		}
	})
	readsFileName := false
	for _, fi := range L.sortedFuncs() {
		if naming[fi.Obj] == nil {
			continue
		}
		info := fi.Pkg.TypesInfo
		sig := fi.Obj.Type().(*types.Signature)
		var modParam types.Object
		for i := 0; i < sig.Params().Len(); i++ {
			if isModulePtr(sig.Params().At(i).Type()) {
				modParam = sig.Params().At(i)
			}
		}
		okUse, n, other := true, 0, ""
		var stack []ast.Node
		ast.Inspect(fi.Decl.Body, func(m ast.Node) bool {
			if m == nil {
				stack = stack[:len(stack)-1]
				return true
			}
			stack = append(stack, m)
			id, ok := m.(*ast.Ident)
			if !ok || info.Uses[id] != modParam {
				return true
			}
			n++
			switch p := stack[len(stack)-2].(type) {
			case *ast.CallExpr:
				if fn := Callee(info, p); fn != nil && naming[fn.Origin()] != nil {
					return true
				}
				okUse, other = false, "a call of "+L.Src(p.Fun)
			case *ast.SelectorExpr:
				if v := fieldOf(info, p); v != nil && nameIs(v, "FileName") {
					readsFileName = true
					return true
				}
				okUse, other = false, "Module."+p.Sel.Name
			default:
				okUse, other = false, "another use of the module"
			}
			return true
		})
		r5.Decide(okUse && n > 0, "compiler."+fi.Obj.Name()+"|module identity", fi.Decl.Pos(), "the module enters the name only through Module.FileName (the absolute path under which the module is registered) or another naming function", "the per-module name is derived from "+other+" instead of (only) Module.FileName: same-named declarations of different modules can get the same symbol names")
	}
	if len(naming) > 0 && !readsFileName {
		r5.Bad("compiler|module identity source", token.NoPos, "no naming function reads Module.FileName: the module part of symbol names does not derive from the module's unique path")
	}
}
