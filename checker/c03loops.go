package main

import (
	"go/ast"
	"go/token"
	"go/types"

	"golang.org/x/tools/go/cfg"
)

// R3.4c: variable-controlled loops. A `for cond { ... }` without a post statement whose condition is built only from
// local variables, constants and len() (no call that could make progress by itself) can only end if one of those
// variables changes: on every path from the loop body back to the condition one of the condition's local variables is
// assigned (must-dataflow on go/cfg; the back edges are the edges into the condition block from blocks reachable from
// the body). A `continue` that skips the increment of a hand-written index loop makes the frontend hang.
func checkVariableLoops(c *Check) {
	L := c.L
	r := c.Rule("R3.4c", "a loop controlled only by local variables changes one of them on every path back to its condition", 3)
	L.ForEachFunc(c03Pkgs, func(fi *FuncInfo) {
		info := fi.Pkg.TypesInfo
		var loops []*ast.ForStmt
		ast.Inspect(fi.Decl.Body, func(n ast.Node) bool {
			if fs, ok := n.(*ast.ForStmt); ok && fs.Cond != nil && fs.Post == nil {
				loops = append(loops, fs)
			}
			return true
		})
		for _, fs := range loops {
			// condition variables; loops whose condition calls something (other than len/cap) are cursor loops (R3.4)
			vars := map[types.Object]bool{}
			pure := true
			ast.Inspect(fs.Cond, func(n ast.Node) bool {
				switch x := n.(type) {
				case *ast.CallExpr:
					if id, ok := ast.Unparen(x.Fun).(*ast.Ident); ok {
						if _, isB := info.Uses[id].(*types.Builtin); isB && (id.Name == "len" || id.Name == "cap") {
							return true
						}
					}
					if tv, ok := info.Types[x.Fun]; ok && tv.IsType() {
						return true // conversion
					}
					pure = false
				case *ast.Ident:
					if v, ok := info.Uses[x].(*types.Var); ok && !v.IsField() && v.Pkg() != nil && v.Parent() != v.Pkg().Scope() {
						vars[v] = true
					}
				case *ast.SelectorExpr:
					if _, isField := info.Uses[x.Sel].(*types.Var); isField {
						pure = false // state behind a pointer: progress may come from a callee
					}
				case *ast.UnaryExpr:
					if x.Op == token.ARROW {
						pure = false
					}
				}
				return true
			})
			if !pure || len(vars) == 0 {
				continue
			}
			body := fi.Decl.Body
			if fl := enclosingFuncLit(fi.Decl.Body, fs); fl != nil {
				body = fl.Body
			}
			g := L.CFGBody(fi.Pkg, body)
			var head *cfg.Block
			for _, b := range g.Blocks {
				if len(b.Nodes) > 0 && b.Nodes[len(b.Nodes)-1] == ast.Node(fs.Cond) {
					head = b
				}
			}
			key := L.QName(fi.Obj) + "|loop " + normSrc(L, info, fs.Cond)
			if head == nil || len(head.Succs) != 2 {
				r.Und(key, fs.Pos(), "the loop's condition block was not found in the control-flow graph")
				continue
			}
			// blocks of the loop: reachable from the body entry without passing the head
			inLoop := map[*cfg.Block]bool{}
			var dfs func(b *cfg.Block)
			dfs = func(b *cfg.Block) {
				if b == head || inLoop[b] {
					return
				}
				inLoop[b] = true
				for _, s := range b.Succs {
					dfs(s)
				}
			}
			dfs(head.Succs[0])
			writes := func(n ast.Node) bool {
				w := false
				ast.Inspect(n, func(m ast.Node) bool {
					switch x := m.(type) {
					case *ast.FuncLit:
						return false
					case *ast.AssignStmt:
						for _, l := range x.Lhs {
							if id, ok := ast.Unparen(l).(*ast.Ident); ok {
								o := info.Uses[id]
								if o == nil {
									o = info.Defs[id]
								}
								if vars[o] {
									w = true
								}
							}
						}
					case *ast.IncDecStmt:
						if id, ok := ast.Unparen(x.X).(*ast.Ident); ok && vars[info.Uses[id]] {
							w = true
						}
					case *ast.UnaryExpr:
						if x.Op == token.AND {
							if id, ok := ast.Unparen(x.X).(*ast.Ident); ok && vars[info.Uses[id]] {
								w = true // address taken: may be changed through the pointer
							}
						}
					case *ast.CallExpr:
						// the iteration consumed input: the loop is (also) a cursor loop, whose progress and exit at the end of
						// the input are the business of R3.4 / R13.2, not of this rule
						if fn := Callee(info, x); fn != nil && nameIs(fn, "advance") {
							w = true
						}
					}
					return true
				})
				return w
			}
			mf := &mustFlow{G: g, Init: 0, Transfer: func(n ast.Node, s uint32) uint32 {
				if writes(n) {
					return s | 1
				}
				return s
			}, Edge: func(b *cfg.Block, i int, s uint32) uint32 {
				if b == head && i == 0 {
					return s &^ 1 // a new iteration starts: nothing changed yet
				}
				return s
			}}
			mf.Run()
			okAll, back := true, 0
			for _, b := range g.Blocks {
				if !b.Live || !inLoop[b] {
					continue
				}
				for _, s := range b.Succs {
					if s == head {
						back++
						if mf.StateAt(b, len(b.Nodes))&1 == 0 {
							okAll = false
						}
					}
				}
			}
			if back == 0 {
				r.OK(key, fs.Pos(), "no path leads back to the condition")
				continue
			}
			r.Decide(okAll, key, fs.Pos(), "every path back to the condition assigns one of its variables", "there is a path through the loop body back to the condition on which none of the condition's variables is assigned (a continue that skips the increment): the loop never ends and the frontend hangs on such input")
		}
	})
}

// R3.7: error recovery only moves forward. The statement loops of the parser terminate because every statement consumes at
// least one token and because the recovery after a reported error (synchronize) never steps back: if it did, the statement that
// raised the error would be parsed again from the same token, for ever. Decided over the call graph: in synchronize and in
// everything it can reach, the only writes of the parser's cursor are increments.
func checkRecoveryMovesForward(c *Check, L *Loaded) {
	r := c.Rule("R3.7", "error recovery (synchronize and everything it calls) moves the token cursor only forwards", 1)
	fi := L.Fn("src/parser.(*parser).synchronize")
	if fi == nil {
		r.Und("parser.(*parser).synchronize", token.NoPos, "function not found")
		return
	}
	entry := L.SSAFunc(fi)
	if entry == nil {
		r.Und("parser.(*parser).synchronize", fi.Decl.Pos(), "no SSA form")
		return
	}
	reach := L.Reachable(entry)
	writes := L.FieldWrites(func(v *types.Var) bool { return isField(v, "parser", "parser", "cur") })
	if len(writes) == 0 {
		r.Und("parser.parser.cur", token.NoPos, "no writer of the cursor field found (field renamed?)")
		return
	}
	n := 0
	for _, w := range writes {
		f := L.SSAFunc(w.Fn)
		if f == nil || !reach[f] {
			continue
		}
		n++
		inc, isInc := w.Node.(*ast.IncDecStmt)
		r.Decide(isInc && inc.Tok == token.INC, "parser.(*parser).synchronize|cursor write in "+L.QName(w.Fn.Obj), w.Node.Pos(), "the cursor is incremented", "the recovery after a reported error can move the cursor backwards or to a stored position ("+L.Src(w.Node)+"): the statement that raised the error is parsed again from the same token and the statement loops never end")
	}
	if n == 0 {
		r.Und("parser.(*parser).synchronize|cursor writes", fi.Decl.Pos(), "synchronize reaches no write of the cursor: it cannot make progress")
	}
}
