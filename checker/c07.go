package main

import (
	"fmt"
	"go/ast"
	"go/token"
	"go/types"
	"sort"
	"strings"

	"golang.org/x/tools/go/cfg"
)

func init() { registry["C07"] = checkC07 }

func checkC07(c *Check) {
	L := c.L
	c.Expl = "Structural clauses of 'failure is reported faithfully': the user's error handler is only ever invoked through the wrapper that records error-level diagnostics, and never handed on raw (R7.1); the errored/Faulty flags have closed writer sets, Faulty := errored is the last diagnostic-capable step of parse, resolver/typechecker mark the module before delivering (R7.2); every path into code generation passes a Faulty test whose positive edge returns an error (R7.3); the CLI returns every Compile/Link error and exits non-zero (R7.4); AST node literals carry a range, locally acquired range operands are in acquisition order, no empty range reaches a diagnostic (R7.5); the scanner's line accounting (R7.6 = R13.2), on which every range depends. Not decided: ranges built from stored nodes or alias-local coordinates, rendering."
	E := NewEffects(L)
	pp := L.ByRel["src/parser"]
	info := pp.TypesInfo

	checkC07HandlerOnly(c)
	checkC07ImportErrors(c)
	checkCapturedDiagnostics(c)
	checkDiagnosticRangeOrigin(c)
	checkSilentEvaluation(c, c.Rule("R7.8", "a trial type check (EvaluateSilent) leaves the shared diagnostic state as it found it", 1))
	_, isWrapper := handlerHelpers(c)
	// ---------------- R7.2 flag writers ----------------
	r2 := c.Rule("R7.2", "errored/Faulty have closed writer sets; Faulty := errored is the last diagnostic-capable step; checker phases mark before delivering", 8)
	for _, w := range L.FieldWrites(func(v *types.Var) bool { return isField(v, "parser", "parser", "errored") }) {
		q := L.QName(w.Fn.Obj)
		if w.InLit {
			r2.Decide(w.Rhs != nil && L.Src(w.Rhs) == "false", q+"|errored init", w.Node.Pos(), "initialised false", "errored initialised to something other than false")
			continue
		}
		// must be inside a wrapper literal
		okw := false
		ast.Inspect(w.Fn.Decl, func(n ast.Node) bool {
			if fl, ok := n.(*ast.FuncLit); ok && fl.Pos() <= w.Node.Pos() && w.Node.Pos() < fl.End() && isWrapper(fl) {
				okw = true
			}
			return true
		})
		r2.Decide(okw && w.Rhs != nil && L.Src(w.Rhs) == "true", q+"|errored write", w.Node.Pos(), "set to true only for LEVEL_ERROR inside the handler wrapper", "parser.errored written outside `if err.Level == LEVEL_ERROR { errored = true }` of the handler wrapper: warnings fail the compilation or errors do not")
	}
	// what each writer may store, by kind of value (not by the text of the expression, so local and receiver names are free):
	// a constant, the parser's errored flag, the flag itself or-ed with something (monotone), or a value saved from the flag
	// earlier in the same function (the restore of a trial evaluation, whose soundness is R7.8's business)
	faultyWriters := map[string]string{
		"parser.(*parser).parse": "the parser's errored flag", "parser.newParser": "false", "parser.Parse": "the flag itself or-ed with something",
		"resolver.(*Resolver).err": "true", "resolver.(*Resolver).VisitBadDecl": "true", "resolver.(*Resolver).VisitBadExpr": "true", "resolver.(*Resolver).VisitBadStmt": "true",
		"typechecker.(*Typechecker).err": "true", "typechecker.(*Typechecker).EvaluateSilent": "a value saved from the flag",
	}
	readsFaulty := func(info *types.Info, e ast.Expr) bool {
		found := false
		ast.Inspect(e, func(n ast.Node) bool {
			if sel, ok := n.(*ast.SelectorExpr); ok && isField(fieldOf(info, sel), "ast", "Ast", "Faulty") {
				found = true
			}
			return true
		})
		return found
	}
	valueKind := func(w fieldWrite) string {
		info := w.Fn.Pkg.TypesInfo
		if w.Rhs == nil {
			return "?"
		}
		rhs := ast.Unparen(w.Rhs)
		if tv := info.Types[rhs]; tv.Value != nil {
			return tv.Value.String()
		}
		if isField(fieldOf(info, rhs), "parser", "parser", "errored") {
			return "the parser's errored flag"
		}
		if be, ok := rhs.(*ast.BinaryExpr); ok && be.Op == token.LOR && (readsFaulty(info, be.X) || readsFaulty(info, be.Y)) {
			return "the flag itself or-ed with something"
		}
		if id, ok := rhs.(*ast.Ident); ok {
			if v, isVar := info.Uses[id].(*types.Var); isVar && !v.IsField() {
				if d := singleDef(info, w.Fn.Decl.Body, v); d != nil && readsFaulty(info, d) {
					return "a value saved from the flag"
				}
				// saved in a tuple definition: a, b, c := x, flag, y
				saved := false
				ast.Inspect(w.Fn.Decl.Body, func(n ast.Node) bool {
					if as, ok := n.(*ast.AssignStmt); ok && as.Tok == token.DEFINE && len(as.Lhs) == len(as.Rhs) {
						for i, l := range as.Lhs {
							if lid, ok := l.(*ast.Ident); ok && info.Defs[lid] == v && readsFaulty(info, as.Rhs[i]) {
								saved = true
							}
						}
					}
					return true
				})
				if saved {
					return "a value saved from the flag"
				}
			}
		}
		return "another value (" + L.Src(w.Rhs) + ")"
	}
	nFaulty := 0
	for _, w := range L.FieldWrites(func(v *types.Var) bool { return isField(v, "ast", "Ast", "Faulty") }) {
		q := L.QName(w.Fn.Obj)
		want, ok := faultyWriters[q]
		nFaulty++
		got := valueKind(w)
		r2.Decide(ok && got == want, q+"|Faulty write", w.Node.Pos(), "Faulty = "+want, "Ast.Faulty written outside its writer table or with an unexpected value ("+got+"): the flag no longer means 'an error-level diagnostic was delivered'")
	}
	if nFaulty < 6 {
		r2.Und("ast.Ast.Faulty", token.NoPos, "fewer Faulty writers than expected found")
	}
	// parse(): no diagnostic can be delivered after Faulty = p.errored
	if fi := L.Fn("src/parser.(*parser).parse"); fi != nil {
		g := L.CFG(fi)
		// forward may-analysis: bit 1 = Faulty already assigned on some path reaching here
		reached := map[*cfg.Block]bool{}
		var assignBlock *cfg.Block
		assignIdx := -1
		for _, b := range g.Blocks {
			for i, n := range b.Nodes {
				if as, ok := n.(*ast.AssignStmt); ok && len(as.Lhs) == 1 && isField(fieldOf(info, as.Lhs[0]), "ast", "Ast", "Faulty") {
					assignBlock, assignIdx = b, i
				}
			}
		}
		if assignBlock == nil {
			r2.Bad("parser.(*parser).parse|Faulty := errored", fi.Decl.Pos(), "parse does not set Faulty from errored")
		} else {
			var late []string
			visit := func(n ast.Node) {
				callsIn(n, func(call *ast.CallExpr) {
					if eff, _ := E.CallEffects(info, call); eff&effHandler != 0 {
						late = append(late, L.Src(call.Fun))
					}
				})
			}
			for i := assignIdx + 1; i < len(assignBlock.Nodes); i++ {
				visit(assignBlock.Nodes[i])
			}
			var dfs func(b *cfg.Block)
			dfs = func(b *cfg.Block) {
				if reached[b] {
					return
				}
				reached[b] = true
				for _, n := range b.Nodes {
					visit(n)
				}
				for _, s := range b.Succs {
					dfs(s)
				}
			}
			for _, s := range assignBlock.Succs {
				dfs(s)
			}
			r2.Decide(len(late) == 0, "parser.(*parser).parse|Faulty := errored is last", assignBlock.Nodes[assignIdx].Pos(), "no diagnostic-capable call follows the assignment", "after Faulty := errored, parse still calls "+strings.Join(late, ", ")+", which can deliver an error: the module stays non-faulty although an error was reported")
		}
	} else {
		r2.Und("parser.(*parser).parse", token.NoPos, "function not found")
	}
	// resolver.err / typechecker.err: Faulty = true dominates the handler invocation
	for _, nm := range []string{"src/parser/resolver.(*Resolver).err", "src/parser/typechecker.(*Typechecker).err"} {
		fi := L.Fn(nm)
		if fi == nil {
			r2.Und(nm, token.NoPos, "function not found")
			continue
		}
		finfo := fi.Pkg.TypesInfo
		g := L.CFG(fi)
		mf := &mustFlow{G: g, Init: 0, Transfer: func(n ast.Node, s uint32) uint32 {
			if as, ok := n.(*ast.AssignStmt); ok && len(as.Lhs) == 1 && isField(fieldOf(finfo, as.Lhs[0]), "ast", "Ast", "Faulty") && L.Src(as.Rhs[0]) == "true" {
				return s | 1
			}
			return s
		}}
		mf.Run()
		okd, found := true, false
		for _, b := range g.Blocks {
			for i, n := range b.Nodes {
				callsIn(n, func(call *ast.CallExpr) {
					if isHandlerType(finfo.TypeOf(call.Fun)) {
						found = true
						if mf.StateAt(b, i)&1 == 0 {
							okd = false
						}
					}
				})
			}
		}
		r2.Decide(found && okd, L.QName(fi.Obj)+"|mark before deliver", fi.Decl.Pos(), "Faulty = true on every path to the handler invocation", "a diagnostic is delivered on a path that did not set Faulty = true first")
	}

	// ---------------- R7.3 faulty modules are not compiled ----------------
	r3 := c.Rule("R7.3", "every call of (*compiler).compile is dominated by the negative edge of a Faulty test whose positive edge returns an error", 2)
	if comp := L.Fn("src/compiler.(*compiler).compile"); comp != nil {
		for _, cs := range L.CallSites(comp.Obj) {
			finfo := cs.Fn.Pkg.TypesInfo
			g := L.CFG(cs.Fn)
			mf := &mustFlow{G: g, Init: 0, Transfer: func(n ast.Node, s uint32) uint32 { return s },
				Edge: func(b *cfg.Block, i int, s uint32) uint32 {
					if len(b.Nodes) == 0 {
						return s
					}
					cond, ok := b.Nodes[len(b.Nodes)-1].(ast.Expr)
					if !ok {
						return s
					}
					neg := false
					cond = ast.Unparen(cond)
					if u, ok := cond.(*ast.UnaryExpr); ok && u.Op == token.NOT {
						neg = true
						cond = ast.Unparen(u.X)
					}
					if isField(fieldOf(finfo, cond), "ast", "Ast", "Faulty") {
						// edge on which Faulty is false
						if (i == 1) != neg {
							// the other edge must return a non-nil error
							other := b.Succs[1-i]
							if blockReturnsError(finfo, other) {
								return s | 1
							}
						}
					}
					return s
				}}
			mf.Run()
			okc := false
			for _, b := range g.Blocks {
				for i, n := range b.Nodes {
					callsIn(n, func(call *ast.CallExpr) {
						if call == cs.Call {
							okc = mf.StateAt(b, i)&1 != 0
						}
					})
				}
			}
			r3.Decide(okc, L.QName(cs.Fn.Obj)+"|compile guarded by Faulty", cs.Call.Pos(), "dominated by `if mod.Ast.Faulty { return error }`", "code generation is entered without a Faulty test on this path: a module with reported errors is compiled (internal error or a bogus executable)")
		}
	} else {
		r3.Und("compiler.(*compiler).compile", token.NoPos, "function not found")
	}

	// ---------------- R7.4 exit status ----------------
	r4 := c.Rule("R7.4", "the CLI returns every Compile/Link error and exits non-zero on error and on panic", 4)
	mp := L.ByRel["cmd/kddp"]
	minfo := mp.TypesInfo
	for _, f := range mp.Syntax {
		ast.Inspect(f, func(n ast.Node) bool {
			call, ok := n.(*ast.CallExpr)
			if !ok {
				return true
			}
			fn := Callee(minfo, call)
			if fn == nil || fn.Pkg() == nil {
				return true
			}
			q := fn.Pkg().Name() + "." + fn.Name()
			switch q {
			case "os.Exit":
				encl := enclosingFuncName(L, mp.Syntax, call.Pos())
				if encl == "main" || encl == "handle_panics" {
					v, isConst := constInt(minfo, call.Args[0])
					r4.Decide(isConst && v != 0, "main."+encl+"|os.Exit", call.Pos(), "exits non-zero", "the error/panic path exits with status 0")
				}
			case "compiler.Compile", "linker.LinkDDPFiles":
				// result error must be tested and returned
				okr := errIsReturned(L, minfo, mp.Syntax, call)
				r4.Decide(okr, "main|error of "+q+" returned", call.Pos(), "`if err != nil { return <non-nil> }`", "the error of "+q+" is not returned to the command runner: kddp exits 0 although compilation/linking failed")
			}
			return true
		})
	}
	if fi := L.Fn("cmd/kddp.main"); fi != nil {
		// main: the error of rootCmd.Execute() is tested against nil and the non-nil arm reaches os.Exit
		// (`if err := rootCmd.Execute(); err != nil {...}` or the two-statement form; the variable's name does not matter)
		okm := false
		var errObj types.Object
		ast.Inspect(fi.Decl.Body, func(n ast.Node) bool {
			if as, ok := n.(*ast.AssignStmt); ok && len(as.Lhs) == 1 && len(as.Rhs) == 1 {
				if call, ok := ast.Unparen(as.Rhs[0]).(*ast.CallExpr); ok {
					if fn := Callee(minfo, call); fn != nil && nameIs(fn, "Execute") {
						if id, ok := as.Lhs[0].(*ast.Ident); ok {
							errObj = minfo.Defs[id]
							if errObj == nil {
								errObj = minfo.Uses[id]
							}
						}
					}
				}
			}
			return true
		})
		ast.Inspect(fi.Decl.Body, func(n ast.Node) bool {
			is, ok := n.(*ast.IfStmt)
			if !ok || errObj == nil {
				return true
			}
			be, ok := ast.Unparen(is.Cond).(*ast.BinaryExpr)
			if !ok || be.Op != token.NEQ {
				return true
			}
			tests := false
			for _, p := range [][2]ast.Expr{{be.X, be.Y}, {be.Y, be.X}} {
				if id, ok := ast.Unparen(p[0]).(*ast.Ident); ok && minfo.Uses[id] == errObj && minfo.Types[p[1]].IsNil() {
					tests = true
				}
			}
			if tests {
				ast.Inspect(is.Body, func(m ast.Node) bool {
					if call, ok := m.(*ast.CallExpr); ok {
						if fn := Callee(minfo, call); fn != nil && fn.Pkg() != nil && nameIs(fn.Pkg(), "os") && nameIs(fn, "Exit") {
							okm = true
						}
					}
					return true
				})
			}
			return true
		})
		r4.Decide(okm, "main.main|Execute error exits", fi.Decl.Pos(), "a command error leads to os.Exit", "main does not exit through os.Exit when the command returns an error")
	}

	// ---------------- R7.5 ranges ----------------
	checkRanges(c)

	// ---------------- R7.6 ----------------
	saved := len(c.rules)
	checkNewlineAccounting(c, map[*types.Func]runeSet{})
	for _, r := range c.rules[saved:] {
		r.ID = "R7.6"
		r.Desc = "scanner line accounting (every token range depends on it) - same rule as R13.2"
		for _, in := range r.Inst {
			in.Rule = "R7.6"
			in.Key = strings.Replace(in.Key, "R13.2|", "R7.6|", 1)
		}
	}
}

func blockReturnsError(info *types.Info, b *cfg.Block) bool {
	for _, n := range b.Nodes {
		if ret, ok := n.(*ast.ReturnStmt); ok && len(ret.Results) > 0 {
			last := ret.Results[len(ret.Results)-1]
			if tv := info.Types[last]; !tv.IsNil() {
				return true
			}
		}
	}
	return false
}

func enclosingFuncName(L *Loaded, files []*ast.File, pos token.Pos) string {
	for _, f := range files {
		for _, d := range f.Decls {
			if fd, ok := d.(*ast.FuncDecl); ok && fd.Pos() <= pos && pos < fd.End() {
				return fd.Name.Name
			}
		}
	}
	return ""
}

// errIsReturned: the call's error result is bound to a variable that is tested `!= nil` in an if statement whose body returns a non-nil last result.
func errIsReturned(L *Loaded, info *types.Info, files []*ast.File, call *ast.CallExpr) bool {
	ok := false
	for _, f := range files {
		ast.Inspect(f, func(n ast.Node) bool {
			// forms: `x, err := call; if err != nil {return ..}` and `if x, err := call; err != nil { return ... }`
			check := func(as *ast.AssignStmt, is *ast.IfStmt) {
				if as == nil || len(as.Rhs) != 1 || as.Rhs[0] != ast.Expr(call) || is == nil {
					return
				}
				errId, _ := as.Lhs[len(as.Lhs)-1].(*ast.Ident)
				if errId == nil {
					return
				}
				obj := info.Defs[errId]
				if obj == nil {
					obj = info.Uses[errId]
				}
				be, isBin := ast.Unparen(is.Cond).(*ast.BinaryExpr)
				if !isBin || be.Op != token.NEQ {
					return
				}
				id, _ := ast.Unparen(be.X).(*ast.Ident)
				if id == nil || info.Uses[id] != obj || !info.Types[be.Y].IsNil() {
					return
				}
				for _, st := range is.Body.List {
					if ret, isRet := st.(*ast.ReturnStmt); isRet && len(ret.Results) > 0 && !info.Types[ret.Results[len(ret.Results)-1]].IsNil() {
						ok = true
					}
				}
			}
			switch s := n.(type) {
			case *ast.IfStmt:
				if as, isAs := s.Init.(*ast.AssignStmt); isAs {
					check(as, s)
				}
			case *ast.BlockStmt:
				for i, st := range s.List {
					if as, isAs := st.(*ast.AssignStmt); isAs && i+1 < len(s.List) {
						if is, isIf := s.List[i+1].(*ast.IfStmt); isIf {
							check(as, is)
						}
					}
				}
			}
			return true
		})
	}
	return ok
}

// ---- R7.5 ----

func checkRanges(c *Check) {
	L := c.L
	pp := L.ByRel["src/parser"]
	info := pp.TypesInfo
	ra := c.Rule("R7.5a", "every AST node literal built by the parser sets its Range", 60)
	rb := c.Rule("R7.5b", "locally acquired operands of a range are in acquisition order (start token/node acquired before the end)", 20)
	rc := c.Rule("R7.5c", "no empty token.Range{} reaches a diagnostic", 0)
	checkC07RangeAfterRewind(c, rb)

	hasRangeField := func(t types.Type) bool {
		if p, ok := t.(*types.Pointer); ok {
			t = p.Elem()
		}
		nt, ok := t.(*types.Named)
		if !ok || nt.Obj().Pkg() == nil || !nameIs(nt.Obj().Pkg(), "ast") {
			return false
		}
		st, ok := nt.Underlying().(*types.Struct)
		if !ok {
			return false
		}
		for i := 0; i < st.NumFields(); i++ {
			if st.Field(i).Name() == "Range" && st.Field(i).Type().String() == modPath+"src/token.Range" {
				return true
			}
		}
		return false
	}
	L.ForEachFunc([]string{"src/parser"}, func(fi *FuncInfo) {
		q := L.QName(fi.Obj)
		// later assignments `x.Range = ...` in the same function count as setting it
		laterSet := map[types.Object]bool{}
		ast.Inspect(fi.Decl.Body, func(n ast.Node) bool {
			if as, ok := n.(*ast.AssignStmt); ok {
				for _, l := range as.Lhs {
					if sel, ok := l.(*ast.SelectorExpr); ok && sel.Sel.Name == "Range" {
						if id, ok := sel.X.(*ast.Ident); ok {
							laterSet[info.Uses[id]] = true
						}
					}
				}
			}
			return true
		})
		var stack []ast.Node
		ast.Inspect(fi.Decl.Body, func(n ast.Node) bool {
			if n == nil {
				stack = stack[:len(stack)-1]
				return true
			}
			stack = append(stack, n)
			cl, ok := n.(*ast.CompositeLit)
			if !ok || !hasRangeField(info.TypeOf(cl)) {
				return true
			}
			tn := strings.TrimPrefix(types.TypeString(info.TypeOf(cl), func(p *types.Package) string { return p.Name() }), "*")
			set := false
			for _, el := range cl.Elts {
				if kv, ok := el.(*ast.KeyValueExpr); ok {
					if id, ok := kv.Key.(*ast.Ident); ok && id.Name == "Range" {
						set = true
					}
				} else {
					set = true // positional literal sets every field
				}
			}
			if !set {
				// `x := &ast.T{...}` followed by `x.Range = ...`
				for i := len(stack) - 2; i >= 0 && i >= len(stack)-4; i-- {
					if as, ok := stack[i].(*ast.AssignStmt); ok {
						for _, l := range as.Lhs {
							if id, ok := l.(*ast.Ident); ok {
								obj := info.Defs[id]
								if obj == nil {
									obj = info.Uses[id]
								}
								if laterSet[obj] {
									set = true
								}
							}
						}
					}
				}
			}
			if !set {
				nested := false
				for i := len(stack) - 2; i >= 0; i-- {
					if outer, ok := stack[i].(*ast.CompositeLit); ok && hasRangeField(info.TypeOf(outer)) {
						nested = true
					}
				}
				if nested {
					ra.Ex(q+"|"+tn+" literal (synthesised child)", cl.Pos(), "child node synthesised by a desugaring inside a node that carries the range; the checker reports operand errors on the operands and whole-expression errors on the enclosing node")
					return true
				}
			}
			ra.Decide(set, q+"|"+tn+" literal", cl.Pos(), "Range set", "AST node "+tn+" is built without a Range: a diagnostic about it points at line 0, outside the file")
			return true
		})
	})

	// R7.5b
	parserRecv := func(call *ast.CallExpr) bool {
		sel, ok := ast.Unparen(call.Fun).(*ast.SelectorExpr)
		if !ok {
			return false
		}
		t := info.TypeOf(sel.X)
		if t == nil {
			return false
		}
		if p, ok := t.(*types.Pointer); ok {
			t = p.Elem()
		}
		nt, ok := t.(*types.Named)
		return ok && nameIs(nt.Obj(), "parser") && nt.Obj().Pkg() == pp.Types
	}
	L.ForEachFunc([]string{"src/parser"}, func(fi *FuncInfo) {
		q := L.QName(fi.Obj)
		// does the function rewind the cursor?
		rewinds := false
		ast.Inspect(fi.Decl.Body, func(n ast.Node) bool {
			switch s := n.(type) {
			case *ast.AssignStmt:
				for _, l := range s.Lhs {
					if isField(fieldOf(info, l), "parser", "parser", "cur") {
						rewinds = true
					}
				}
			case *ast.CallExpr:
				if fn := Callee(info, s); fn != nil && (nameIs(fn, "decrease") || nameIs(fn, "retreat")) {
					rewinds = true
				}
			}
			return true
		})
		// acquisition position of an operand: (pos, ok). Direct cursor reads are acquired where they stand.
		var acq func(e ast.Expr, usePos token.Pos, depth int) (token.Pos, bool)
		acq = func(e ast.Expr, usePos token.Pos, depth int) (token.Pos, bool) {
			e = ast.Unparen(e)
			if u, ok := e.(*ast.UnaryExpr); ok && u.Op == token.AND {
				e = ast.Unparen(u.X)
			}
			if st, ok := e.(*ast.StarExpr); ok {
				e = ast.Unparen(st.X)
			}
			switch x := e.(type) {
			case *ast.CallExpr:
				if parserRecv(x) {
					fn := Callee(info, x)
					if fn != nil && (nameIs(fn, "previous") || nameIs(fn, "peek") || nameIs(fn, "advance")) {
						return x.Pos(), true
					}
					if fn != nil && nameIs(fn, "peekN") {
						return token.NoPos, false
					}
					return x.Pos(), true // a production: consumed up to here
				}
				// X.GetRange(), X.Token(): acquisition of X
				if sel, ok := ast.Unparen(x.Fun).(*ast.SelectorExpr); ok && (sel.Sel.Name == "GetRange" || sel.Sel.Name == "Token") && len(x.Args) == 0 {
					return acq(sel.X, usePos, depth)
				}
			case *ast.SelectorExpr: // x.GetRange().Start, tok.Range.Start ...
				if x.Sel.Name == "Start" || x.Sel.Name == "End" || x.Sel.Name == "Range" {
					return acq(x.X, usePos, depth)
				}
			case *ast.Ident:
				obj := info.Uses[x]
				if obj == nil || depth > 2 {
					return token.NoPos, false
				}
				// last assignment lexically before the use
				var last *ast.AssignStmt
				var lastRhs ast.Expr
				n := 0
				ast.Inspect(fi.Decl.Body, func(m ast.Node) bool {
					as, ok := m.(*ast.AssignStmt)
					if !ok {
						return true
					}
					for i, l := range as.Lhs {
						if id, ok := l.(*ast.Ident); ok && (info.Defs[id] == obj || info.Uses[id] == obj) {
							n++
							if as.End() <= usePos && len(as.Rhs) == len(as.Lhs) {
								last, lastRhs = as, as.Rhs[i]
							}
						}
					}
					return true
				})
				if last == nil {
					return token.NoPos, false
				}
				if _, ok := acq(lastRhs, last.Pos(), depth+1); ok {
					// composite of earlier things (e.g. lhs = &BinaryExpr{...}) is not a direct acquisition
					if _, isCall := ast.Unparen(lastRhs).(*ast.CallExpr); isCall {
						return last.Pos(), true
					}
				}
				if cl, ok := ast.Unparen(lastRhs).(*ast.UnaryExpr); ok && cl.Op == token.AND {
					if _, isLit := cl.X.(*ast.CompositeLit); isLit {
						// node built from earlier pieces: its start is not later than this point, its end neither - only usable as start
						return token.NoPos, false
					}
				}
			}
			return token.NoPos, false
		}
		decide := func(kind string, node ast.Node, a, b ast.Expr) {
			if rewinds {
				rb.Info(q+"|"+kind, node.Pos(), "function rewinds the cursor; range operand order not decided")
				return
			}
			pa, oka := acq(a, node.Pos(), 0)
			pb, okb := acq(b, node.Pos(), 0)
			if !oka || !okb {
				return // non-local operand: not decided, never reported
			}
			rb.Decide(pa <= pb, q+"|"+kind+"("+trunc(L.Src(a), 30)+", "+trunc(L.Src(b), 30)+")", node.Pos(), "start operand acquired before end operand", "the range's start operand ("+L.Src(a)+") is acquired after its end operand ("+L.Src(b)+"): Start lies behind End and the excerpt renderer cannot print it")
		}
		ast.Inspect(fi.Decl.Body, func(n ast.Node) bool {
			switch x := n.(type) {
			case *ast.CallExpr:
				if fn := Callee(info, x); fn != nil && nameIs(fn, "NewRange") && fn.Pkg() != nil && nameIs(fn.Pkg(), "token") && len(x.Args) == 2 {
					decide("NewRange", x, x.Args[0], x.Args[1])
				}
			case *ast.CompositeLit:
				if t := info.TypeOf(x); t != nil && t.String() == modPath+"src/token.Range" {
					var s, e ast.Expr
					for _, el := range x.Elts {
						if kv, ok := el.(*ast.KeyValueExpr); ok {
							switch kv.Key.(*ast.Ident).Name {
							case "Start":
								s = kv.Value
							case "End":
								e = kv.Value
							}
						}
					}
					if s != nil && e != nil {
						decide("Range", x, s, e)
					}
				}
			}
			return true
		})
	})

	// R7.5c
	exemptC := map[string]string{
		"compiler.compileWithImportsRec":               "diagnostic for a failing filepath.Abs (environment failure, no source position exists)",
		"compiler.(*compiler).addExternalDependencies": "diagnostic for a failing filepath.Abs (environment failure, no source position exists)",
	}
	for _, rel := range pipelinePkgs {
		L.ForEachFunc([]string{rel}, func(fi *FuncInfo) {
			finfo := fi.Pkg.TypesInfo
			ast.Inspect(fi.Decl.Body, func(n ast.Node) bool {
				call, ok := n.(*ast.CallExpr)
				if !ok {
					return true
				}
				fn := Callee(finfo, call)
				if fn == nil || !nameIs(fn, "New") || fn.Pkg() == nil || !nameIs(fn.Pkg(), "ddperror") {
					return true
				}
				for _, a := range call.Args {
					if cl, ok := ast.Unparen(a).(*ast.CompositeLit); ok && len(cl.Elts) == 0 {
						if t := finfo.TypeOf(cl); t != nil && t.String() == modPath+"src/token.Range" {
							q := L.QName(fi.Obj)
							if why, ok := exemptC[q]; ok {
								rc.Ex(q+"|ddperror.New(token.Range{})", call.Pos(), why)
							} else {
								rc.Bad(q+"|ddperror.New(token.Range{})", call.Pos(), "diagnostic created with an empty range (line 0): it does not lie inside the file")
							}
						}
					}
				}
				return true
			})
		})
	}
	_ = sort.Strings
}

// handlerHelpers builds the recognisers shared by R7.1/R7.2/R19.4.
func handlerHelpers(c *Check) (isRaw func(fi *FuncInfo, e ast.Expr) bool, isWrapper func(fl *ast.FuncLit) bool) {
	L := c.L
	pp := L.ByRel["src/parser"]
	info := pp.TypesInfo
	// ---------------- R7.1 raw handler provenance ----------------
	isRaw = func(fi *FuncInfo, e ast.Expr) bool {
		e = ast.Unparen(e)
		if v := fieldOf(info, e); v != nil && nameIs(v, "ErrorHandler") && v.Pkg() == pp.Types {
			return true // parser.Options.ErrorHandler
		}
		if id, ok := e.(*ast.Ident); ok && nameIs(fi.Obj, "newParser") {
			if v, ok := info.Uses[id].(*types.Var); ok && nameIs(v, "errorHandler") && isHandlerType(v.Type()) && !v.IsField() {
				return true
			}
		}
		return false
	}
	// flagsIntoFaulty: local variables that are read by an assignment to Ast.Faulty (their truth reaches the flag)
	flagsIntoFaulty := map[types.Object]bool{}
	for _, w := range L.FieldWrites(func(v *types.Var) bool { return isField(v, "ast", "Ast", "Faulty") }) {
		if w.Rhs != nil {
			ast.Inspect(w.Rhs, func(n ast.Node) bool {
				if id, ok := n.(*ast.Ident); ok {
					if v, ok := w.Fn.Pkg.TypesInfo.Uses[id].(*types.Var); ok && !v.IsField() {
						flagsIntoFaulty[v] = true
					}
				}
				return true
			})
		}
	}
	isWrapper = func(fl *ast.FuncLit) bool {
		// contains `F = true` under `if <..>.Level == ddperror.LEVEL_ERROR`, F being parser.errored or a local that flows into Faulty
		ok := false
		ast.Inspect(fl.Body, func(n ast.Node) bool {
			is, isIf := n.(*ast.IfStmt)
			if !isIf {
				return true
			}
			if be, isBin := ast.Unparen(is.Cond).(*ast.BinaryExpr); isBin && be.Op == token.EQL && strings.HasSuffix(L.Src(be.X), ".Level") && strings.HasSuffix(L.Src(be.Y), "LEVEL_ERROR") {
				for _, st := range is.Body.List {
					if as, isAs := st.(*ast.AssignStmt); isAs && len(as.Lhs) == 1 && L.Src(as.Rhs[0]) == "true" {
						if v := fieldOf(info, as.Lhs[0]); v != nil && nameIs(v, "errored") {
							ok = true
						}
						if id, isId := as.Lhs[0].(*ast.Ident); isId && flagsIntoFaulty[info.Uses[id]] {
							ok = true
						}
					}
				}
			}
			return true
		})
		return ok
	}
	return
}

// checkC07HandlerOnly is R7.1 (also used as R19.4).
func checkC07HandlerOnly(c *Check) {
	L := c.L
	pp := L.ByRel["src/parser"]
	info := pp.TypesInfo
	isRaw, isWrapper := handlerHelpers(c)
	r1 := c.Rule("R7.1", "the user-supplied handler is invoked only inside the errored-recording wrapper and never passed on raw", 3)
	L.ForEachFunc([]string{"src/parser"}, func(fi *FuncInfo) {
		var stack []ast.Node
		ast.Inspect(fi.Decl, func(n ast.Node) bool {
			if n == nil {
				stack = stack[:len(stack)-1]
				return true
			}
			stack = append(stack, n)
			e, ok := n.(ast.Expr)
			if !ok || !isRaw(fi, e) {
				return true
			}
			if id, isId := n.(*ast.Ident); isId && info.Defs[id] != nil {
				return true
			}
			q := L.QName(fi.Obj)
			parent := stack[len(stack)-2]
			// skip the selector's own sub-nodes: only consider the full raw expression
			if sel, isSel := parent.(*ast.SelectorExpr); isSel && sel.Sel == n {
				return true
			}
			switch p := parent.(type) {
			case *ast.BinaryExpr:
				if p.Op == token.EQL || p.Op == token.NEQ {
					return true // nil test
				}
			case *ast.AssignStmt:
				for _, l := range p.Lhs {
					if l == e {
						return true // default assignment to the raw slot itself
					}
				}
			case *ast.CallExpr:
				if p.Fun == e {
					// invocation: must be inside the wrapper literal
					inWrapper := false
					for i := len(stack) - 1; i >= 0; i-- {
						if fl, isFl := stack[i].(*ast.FuncLit); isFl && isWrapper(fl) {
							inWrapper = true
						}
					}
					r1.Decide(inWrapper, q+"|raw handler invoked", p.Pos(), "invoked inside the wrapper that sets errored on LEVEL_ERROR", "the user's handler is invoked outside the wrapper that records error-level diagnostics: an error can be delivered without failing the compilation")
					return true
				}
				if fn := Callee(info, p); fn != nil && nameIs(fn, "newParser") {
					r1.OK(q+"|raw handler passed to newParser", p.Pos(), "newParser wraps it (its own uses are checked)")
					return true
				}
			}
			if q == "parser.(*Options).ToScannerOptions" {
				// projection into scanner.Options: decided at its call sites (the handler must be replaced by a wrapper before scanning)
				for _, cs := range L.CallSites(fi.Obj) {
					okw := false
					cq := L.QName(cs.Fn.Obj)
					if as, isAs := parentOf(cs.Fn.Decl.Body, cs.Call).(*ast.AssignStmt); isAs && len(as.Lhs) == 1 {
						if id, isId := as.Lhs[0].(*ast.Ident); isId {
							obj := cs.Fn.Pkg.TypesInfo.Defs[id]
							ast.Inspect(cs.Fn.Decl.Body, func(m ast.Node) bool {
								if a2, isA2 := m.(*ast.AssignStmt); isA2 && len(a2.Lhs) == 1 && a2.Pos() > as.Pos() {
									if sel, isSel := a2.Lhs[0].(*ast.SelectorExpr); isSel && sel.Sel.Name == "ErrorHandler" {
										if x, isX := sel.X.(*ast.Ident); isX && cs.Fn.Pkg.TypesInfo.Uses[x] == obj {
											if fl, isFl := a2.Rhs[0].(*ast.FuncLit); isFl && isWrapper(fl) {
												okw = true
											}
										}
									}
								}
								return true
							})
						}
					}
					r1.Decide(okw, cq+"|scanner options get a wrapped handler", cs.Call.Pos(), "the scanner's handler is replaced by a wrapper that records error-level diagnostics", "the scanner is given the user's handler without the errored-recording wrapper: error-level diagnostics delivered by the scanner do not mark the module faulty")
				}
				return true
			}
			r1.Bad(q+"|raw handler escapes", e.Pos(), "the user's handler is handed on without the errored-recording wrapper ("+trunc(L.Src(parent), 80)+"): error-level diagnostics delivered through it do not mark the module faulty")
			return true
		})
	})

}

// R7.7: a failure of the file system while an import is resolved is reported: every WalkDir callback in the frontend tests
// its error parameter, and the branch taken for an error delivers a diagnostic.
func checkC07ImportErrors(c *Check) {
	L := c.L
	r := c.Rule("R7.7", "errors of reading an imported directory are reported as diagnostics", 1)
	n := 0
	L.ForEachFunc(c03Pkgs, func(fi *FuncInfo) {
		info := fi.Pkg.TypesInfo
		ast.Inspect(fi.Decl.Body, func(x ast.Node) bool {
			call, ok := x.(*ast.CallExpr)
			if !ok || len(call.Args) != 2 {
				return true
			}
			fn := Callee(info, call)
			if fn == nil || !nameIs(fn, "WalkDir") || fn.Pkg() == nil || (fn.Pkg().Path() != "path/filepath" && fn.Pkg().Path() != "io/fs") {
				return true
			}
			fl, ok := call.Args[1].(*ast.FuncLit)
			if !ok {
				return true
			}
			var params []*ast.Ident
			for _, f := range fl.Type.Params.List {
				params = append(params, f.Names...)
			}
			if len(params) != 3 {
				return true
			}
			errObj := info.Defs[params[2]]
			n++
			key := L.QName(fi.Obj) + "|WalkDir callback"
			reported := false
			ast.Inspect(fl.Body, func(y ast.Node) bool {
				is, ok := y.(*ast.IfStmt)
				if !ok {
					return true
				}
				be, ok := ast.Unparen(is.Cond).(*ast.BinaryExpr)
				if !ok || be.Op != token.NEQ {
					return true
				}
				id, ok := ast.Unparen(be.X).(*ast.Ident)
				if !ok || info.Uses[id] != errObj || !info.Types[be.Y].IsNil() {
					return true
				}
				ast.Inspect(is.Body, func(z ast.Node) bool {
					if c2, ok := z.(*ast.CallExpr); ok {
						if f2 := Callee(info, c2); f2 != nil {
							q := L.QName(f2)
							if q == "parser.(*parser).err" || q == "parser.(*parser).errVal" {
								reported = true
							}
						}
					}
					return true
				})
				return true
			})
			r.Decide(reported, key, fl.Pos(), "the error parameter is tested and the error branch reports a diagnostic", "the callback never reports its error parameter: importing a directory that does not exist (or cannot be read) is accepted without a diagnostic, the module is not marked faulty and code generation fails later")
			return true
		})
	})
	if n == 0 {
		r.Und("directory import", token.NoPos, "no WalkDir callback found in the frontend")
	}
}

// R7.5d: a range built from a saved start position and the token before the cursor is only well-formed while the cursor is
// past that start: no path may rewind the cursor to the saved position between consuming tokens and building the range.
func checkC07RangeAfterRewind(c *Check, r *Rule) {
	L := c.L
	pp := L.ByRel["src/parser"]
	info := pp.TypesInfo
	n := 0
	L.ForEachFunc(c03Pkgs, func(fi *FuncInfo) {
		if fi.Pkg != pp {
			return
		}
		// saved positions: locals defined as `x := p.cur`
		saved := map[types.Object]bool{}
		ast.Inspect(fi.Decl.Body, func(x ast.Node) bool {
			if as, ok := x.(*ast.AssignStmt); ok && as.Tok == token.DEFINE && len(as.Lhs) == 1 && len(as.Rhs) == 1 {
				if sel, ok := ast.Unparen(as.Rhs[0]).(*ast.SelectorExpr); ok && selName(info, sel) == "cur" {
					if id, ok := as.Lhs[0].(*ast.Ident); ok && info.Defs[id] != nil {
						saved[info.Defs[id]] = true
					}
				}
			}
			return true
		})
		if len(saved) == 0 {
			return
		}
		isRewind := func(nd ast.Node) types.Object {
			as, ok := nd.(*ast.AssignStmt)
			if !ok || as.Tok != token.ASSIGN || len(as.Lhs) != 1 || len(as.Rhs) != 1 {
				return nil
			}
			sel, ok := ast.Unparen(as.Lhs[0]).(*ast.SelectorExpr)
			if !ok || sel.Sel.Name != "cur" {
				return nil
			}
			if id, ok := ast.Unparen(as.Rhs[0]).(*ast.Ident); ok && saved[info.Uses[id]] {
				return info.Uses[id]
			}
			return nil
		}
		g := L.CFG(fi)
		// fact (per function, one saved position is the common case): bit 1 = the cursor has been rewound to a saved position and
		// nothing was consumed since
		mf := &mustFlow{G: g, Init: 0, Transfer: func(nd ast.Node, s uint32) uint32 { return s }}
		// may-analysis encoded as must over the complement: run a forward may-dataflow by hand
		in := map[*cfg.Block]bool{}
		changed := true
		consumes := func(nd ast.Node) bool {
			f := false
			callsIn(nd, func(call *ast.CallExpr) {
				if fn := Callee(info, call); fn != nil {
					switch canonName(fn) {
					case "advance", "matchAny", "matchSeq", "consumeSeq", "consumeAny", "checkAlias", "Search", "expression", "assigneable":
						f = true
					}
				}
			})
			return f
		}
		for changed {
			changed = false
			for _, b := range g.Blocks {
				if !b.Live {
					continue
				}
				st := in[b]
				for _, nd := range b.Nodes {
					if isRewind(nd) != nil {
						st = true
					} else if consumes(nd) {
						st = false
					}
				}
				for _, sc := range b.Succs {
					if st && !in[sc] {
						in[sc] = true
						changed = true
					}
				}
			}
		}
		_ = mf
		for _, b := range g.Blocks {
			if !b.Live {
				continue
			}
			st := in[b]
			for _, nd := range b.Nodes {
				// ranges NewRange(&p.tokens[saved], p.previous()) inside this node, evaluated with the state before the node's own effects
				ast.Inspect(nd, func(y ast.Node) bool {
					call, ok := y.(*ast.CallExpr)
					if !ok || len(call.Args) != 2 {
						return true
					}
					fn := Callee(info, call)
					if fn == nil || !nameIs(fn, "NewRange") {
						return true
					}
					a0 := types.ExprString(call.Args[0])
					a1 := types.ExprString(call.Args[1])
					usesSaved := false
					ast.Inspect(call.Args[0], func(z ast.Node) bool {
						if id, ok := z.(*ast.Ident); ok && saved[info.Uses[id]] {
							usesSaved = true
						}
						return true
					})
					if !usesSaved || !strings.Contains(a1, "previous()") {
						return true
					}
					n++
					key := L.QName(fi.Obj) + "|range from a saved position to the token before the cursor"
					if n > 1 {
						key += fmt.Sprintf(" #%d", n)
					}
					if st {
						r.Bad(key, call.Pos(), "NewRange("+a0+", "+a1+") is built on a path on which the cursor was rewound to the saved position and nothing was consumed since: the token before the cursor lies before the start, the range is empty or reversed (the excerpt renderer panics on it)")
					} else {
						r.OK(key, call.Pos(), "the cursor is past the saved position on every path")
					}
					return true
				})
				if isRewind(nd) != nil {
					st = true
				} else if consumes(nd) {
					st = false
				}
			}
		}
	})
}

// R7.9: a parse with captured diagnostics (expressionOrErr swaps the handler for a closure that keeps the error) leaves the
// parser in panic mode although nothing was delivered. On every path from such a call to the next call that can deliver a
// diagnostic (effect summaries, engine E3), and to every exit, panic mode is reset (must-dataflow on go/cfg). Otherwise
// the captured error's re-delivery and every resolver/type-checker diagnostic of the statement are suppressed and the
// module is not marked faulty.
func checkCapturedDiagnostics(c *Check) {
	L := c.L
	r := c.Rule("R7.9", "after a parse with captured diagnostics panic mode is reset before anything can be reported", 1)
	pp := L.ByRel["src/parser"]
	info := pp.TypesInfo
	capt := L.Fn("src/parser.(*parser).expressionOrErr")
	if capt == nil {
		r.Und("parser.(*parser).expressionOrErr", token.NoPos, "function not found")
		return
	}
	E := NewEffects(L)
	sites := L.CallSites(capt.Obj)
	if len(sites) == 0 {
		r.Und("parser.(*parser).expressionOrErr|callers", token.NoPos, "no caller found")
		return
	}
	seen := map[*FuncInfo]bool{}
	for _, cs := range sites {
		fi := cs.Fn
		if seen[fi] {
			continue
		}
		seen[fi] = true
		g := L.CFG(fi)
		isReset := func(n ast.Node) bool {
			as, ok := n.(*ast.AssignStmt)
			if !ok || len(as.Lhs) != len(as.Rhs) {
				return false
			}
			for i, l := range as.Lhs {
				if v := fieldOf(info, l); v != nil && nameIs(v, "panicMode") {
					if tv := info.Types[as.Rhs[i]]; tv.Value != nil && tv.Value.String() == "false" {
						return true
					}
				}
			}
			return false
		}
		mf := &mustFlow{G: g, Init: 1, Transfer: func(n ast.Node, s uint32) uint32 {
			callsIn(n, func(call *ast.CallExpr) {
				if Callee(info, call) == capt.Obj {
					s &^= 1
				}
			})
			if isReset(n) {
				s |= 1
			}
			return s
		}}
		mf.Run()
		var bad []string
		for _, b := range g.Blocks {
			if !b.Live {
				continue
			}
			for i, n := range b.Nodes {
				st := mf.StateAt(b, i)
				// state before the node, updated call by call inside it
				callsIn(n, func(call *ast.CallExpr) {
					fn := Callee(info, call)
					if fn == capt.Obj {
						st &^= 1
						return
					}
					if eff, _ := E.CallEffects(info, call); eff&effHandler != 0 && st&1 == 0 {
						bad = append(bad, L.Pos(call.Pos())+": "+L.Src(call.Fun)+" can report a diagnostic while the parser is still in the panic mode left by the captured parse")
					}
				})
			}
			if len(b.Succs) == 0 && mf.StateAt(b, len(b.Nodes))&1 == 0 {
				bad = append(bad, L.Pos(posOf(b))+": the function is left in the panic mode of the captured parse")
			}
		}
		r.Decide(len(bad) == 0, L.QName(fi.Obj)+"|panic mode reset after expressionOrErr", cs.Call.Pos(), "reset on every path before the next reporting call and before every exit", strings.Join(firstN(uniq(bad), 3), "; ")+": the captured error's re-delivery and the resolver's and type checker's diagnostics for this statement are suppressed; nothing is reported, the module is not marked faulty and an ill-formed program is compiled")
	}
}

// R7.10: a diagnostic of the resolver or the type checker carries a range of the module that is being checked. The range
// handed to the error helper derives from the visited node (a parameter of the visitor, or the receiver's state), never
// from a declaration that was just looked up in the symbol table: that declaration may have been imported, its tokens lie
// in another file, and the diagnostic - which names the current file - then points outside this file's text (the excerpt
// renderer indexes past the end of the file).
func checkDiagnosticRangeOrigin(c *Check) {
	L := c.L
	r := c.Rule("R7.10", "ranges of resolver and type-checker diagnostics derive from the visited node, not from a looked-up declaration", 20)
	for _, rel := range []string{"src/parser/resolver", "src/parser/typechecker"} {
		L.ForEachFunc([]string{rel}, func(fi *FuncInfo) {
			info := fi.Pkg.TypesInfo
			n := 0
			ast.Inspect(fi.Decl.Body, func(nd ast.Node) bool {
				call, ok := nd.(*ast.CallExpr)
				if !ok {
					return true
				}
				fn := Callee(info, call)
				if fn == nil || !(nameIs(fn, "err") || nameIs(fn, "errExpr")) || len(call.Args) < 2 {
					return true
				}
				if sig, ok := fn.Type().(*types.Signature); !ok || sig.Recv() == nil {
					return true
				}
				rangeArg := call.Args[1]
				// the variable the range is read from
				var origin func(e ast.Expr, depth int) string
				origin = func(e ast.Expr, depth int) string {
					for {
						switch x := ast.Unparen(e).(type) {
						case *ast.SelectorExpr:
							e = x.X
							continue
						case *ast.CallExpr:
							if sel, ok := ast.Unparen(x.Fun).(*ast.SelectorExpr); ok && len(x.Args) == 0 {
								e = sel.X // a getter on the node: node.Token(), node.GetRange()
								continue
							}
							if f2 := Callee(info, x); f2 != nil && strings.HasPrefix(canonName(f2), "Lookup") {
								return "looked up"
							}
							return "other"
						case *ast.UnaryExpr:
							e = x.X
							continue
						case *ast.StarExpr:
							e = x.X
							continue
						}
						break
					}
					id, ok := ast.Unparen(e).(*ast.Ident)
					if !ok || depth > 4 {
						return "other"
					}
					v, ok := info.Uses[id].(*types.Var)
					if !ok {
						return "other"
					}
					if isParamOf(info, fi, id) {
						return "visited node"
					}
					if src, _ := tupleDef(info, fi.Decl.Body, v); src != nil {
						if f2 := Callee(info, src); f2 != nil && strings.HasPrefix(canonName(f2), "Lookup") {
							return "looked up"
						}
						return "other"
					}
					if d := singleDef(info, fi.Decl.Body, v); d != nil {
						return origin(d, depth+1)
					}
					return "other"
				}
				n++
				o := origin(rangeArg, 0)
				key := fmt.Sprintf("%s|range of diagnostic #%d", L.QName(fi.Obj), n)
				r.Decide(o != "looked up", key, call.Pos(), "derives from "+o, "the diagnostic's range is taken from a declaration obtained by a symbol-table lookup ("+L.Src(rangeArg)+"): when that declaration was imported, the range lies in another file than the one the diagnostic names, and the message points at unrelated text or the excerpt renderer fails")
				return true
			})
		})
	}
}
