package main

import (
	"go/ast"
	"go/token"
	"go/types"
	"sort"
	"strings"

	"golang.org/x/tools/go/ssa"
)

// Effect kinds of order-sensitive sinks.
const (
	effHandler = 1 << iota // invokes a ddperror.Handler (a diagnostic is delivered)
	effEmit                // creates LLVM IR (llir builder)
	effIO                  // writes to a stream / runs a process / touches the file system
)

func effString(e int) string {
	var p []string
	if e&effHandler != 0 {
		p = append(p, "diagnostic")
	}
	if e&effEmit != 0 {
		p = append(p, "ir-emission")
	}
	if e&effIO != 0 {
		p = append(p, "io")
	}
	return strings.Join(p, "+")
}

type Effects struct {
	L      *Loaded
	direct map[*ssa.Function]int
	reach  map[*ssa.Function]int
	fns    []*ssa.Function // functions with syntax, for position lookup
}

func isHandlerType(t types.Type) bool {
	nt, ok := t.(*types.Named)
	return ok && nameIs(nt.Obj(), "Handler") && nt.Obj().Pkg() != nil && nameIs(nt.Obj().Pkg(), "ddperror")
}

func NewEffects(L *Loaded) *Effects {
	E := &Effects{L: L, direct: map[*ssa.Function]int{}, reach: map[*ssa.Function]int{}}
	cg := L.CallGraph()
	for fn := range cg.Nodes {
		if fn == nil {
			continue
		}
		if fn.Syntax() != nil {
			E.fns = append(E.fns, fn)
		}
		d := 0
		if fn.Pkg == nil && fn.Object() != nil && fn.Object().Pkg() != nil {
			// external function without body in SSA? (all deps are loaded with syntax, so bodies exist)
		}
		if obj := fn.Object(); obj != nil && obj.Pkg() != nil {
			p := obj.Pkg().Path()
			n := obj.Name()
			switch {
			case p == "fmt" && (strings.HasPrefix(n, "Print") || strings.HasPrefix(n, "Fprint")):
				d |= effIO
			case p == "os" && (n == "WriteFile" || n == "Create" || n == "Remove" || n == "RemoveAll" || n == "Mkdir" || n == "MkdirAll"):
				d |= effIO
			case p == "os/exec":
				d |= effIO
			case p == "log":
				d |= effIO
			case p == "os" && fn.Signature.Recv() != nil && strings.HasPrefix(n, "Write"):
				d |= effIO
			}
		}
		for _, b := range fn.Blocks {
			for _, in := range b.Instrs {
				ci, ok := in.(ssa.CallInstruction)
				if !ok {
					continue
				}
				cc := ci.Common()
				if !cc.IsInvoke() && isHandlerType(cc.Value.Type()) {
					d |= effHandler
				}
				if sc := cc.StaticCallee(); sc != nil && sc.Object() != nil && sc.Object().Pkg() != nil {
					if strings.HasPrefix(sc.Object().Pkg().Path(), "github.com/llir/llvm/ir") && strings.HasPrefix(sc.Object().Name(), "New") {
						d |= effEmit
					}
				}
			}
		}
		E.direct[fn] = d
		E.reach[fn] = d
	}
	// propagate callee effects to callers with a worklist over reverse edges. Only functions of this module propagate:
	// calls into libraries contribute their *direct* sinks only (library-internal dynamic dispatch - fmt calling String()
	// methods, io.Writer - would otherwise connect everything to everything).
	inModule := func(fn *ssa.Function) bool {
		for f := fn; f != nil; f = f.Parent() {
			if f.Pkg != nil {
				return strings.HasPrefix(f.Pkg.Pkg.Path(), modPath)
			}
			if o := f.Object(); o != nil && o.Pkg() != nil {
				return strings.HasPrefix(o.Pkg().Path(), modPath)
			}
			if f.Origin() != nil && f.Origin() != f {
				f = f.Origin()
				if f.Pkg != nil {
					return strings.HasPrefix(f.Pkg.Pkg.Path(), modPath)
				}
			}
		}
		return false
	}
	var work []*ssa.Function
	for fn, d := range E.direct {
		if d != 0 {
			work = append(work, fn)
		}
	}
	for len(work) > 0 {
		fn := work[len(work)-1]
		work = work[:len(work)-1]
		n := cg.Nodes[fn]
		if n == nil {
			continue
		}
		push := func(caller *ssa.Function) {
			if caller == nil || !inModule(caller) {
				return
			}
			if nr := E.reach[caller] | E.reach[fn]; nr != E.reach[caller] {
				E.reach[caller] = nr
				work = append(work, caller)
			}
		}
		for _, e := range n.In {
			push(e.Caller.Func)
		}
		if inModule(fn) {
			push(fn.Parent()) // a closure's effects count for the function that creates it
		}
	}
	sort.Slice(E.fns, func(i, j int) bool { return E.fns[i].Syntax().Pos() < E.fns[j].Syntax().Pos() })
	return E
}

// innermost SSA function whose syntax contains pos.
func (E *Effects) FuncAt(pos token.Pos) *ssa.Function {
	var best *ssa.Function
	for _, fn := range E.fns {
		s := fn.Syntax()
		if s.Pos() <= pos && pos < s.End() {
			if best == nil || (best.Syntax().Pos() <= s.Pos() && s.End() <= best.Syntax().End()) {
				best = fn
			}
		}
	}
	return best
}

// CallEffects returns the sink kinds reachable through the call expression, and names of sample callees.
func (E *Effects) CallEffects(info *types.Info, call *ast.CallExpr) (int, []string) {
	eff := 0
	var names []string
	if isHandlerType(info.TypeOf(call.Fun)) {
		eff |= effHandler
		names = append(names, "ddperror.Handler value")
	}
	fn := E.FuncAt(call.Lparen)
	if fn == nil {
		return eff, names
	}
	if n := E.L.CallGraph().Nodes[fn]; n != nil {
		for _, e := range n.Out {
			if e.Site != nil && e.Site.Pos() == call.Lparen {
				r := E.reach[e.Callee.Func]
				eff |= r
				if r != 0 && len(names) < 3 {
					names = append(names, e.Callee.Func.String())
				}
			}
		}
	}
	return eff, names
}
