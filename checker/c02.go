package main

import (
	"fmt"
	"go/ast"
	"go/token"
	"go/types"
	"golang.org/x/tools/go/cfg"
	"sort"
	"strings"
)

func init() { registry["C02"] = checkC02 }

// genNode builds the AST node object handed to a generator visitor for one cell.
func genNode(kind string, op Val, names []string, ds []*DT) *Obj {
	n := newObj(kind)
	if op != nil {
		n.set("Operator", op)
	}
	n.set("OverloadedBy", NilV{})
	fields := map[string]string{"lhs": "Lhs", "mid": "Mid", "rhs": "Rhs"}
	for i, nm := range names {
		x := astNode("ast.Ident", nm, ds[i], toGen(ds[i]))
		x.set("temp", Unk{"isTemp"})
		n.set(fields[nm], x)
	}
	return n
}

type cellVerdict struct {
	Key     string
	Chk     *ChkCell
	Gen     *GenCell
	Classes []*DT
	Op      string
	Method  string
}

// computeAdmittedGenCells runs the generator on every cell the checker admits.
func computeAdmittedGenCells(L *Loaded, t *CellTables) []cellVerdict {
	in, mk := newGeneratorInterp(L)
	var out []cellVerdict
	run := func(keys []string, m map[string]*ChkCell, method, kind string, names []string) {
		for _, k := range keys {
			c := m[k]
			adm, dec := c.Admitted()
			if !dec || !adm {
				continue
			}
			ds := t.coords[k]
			hasVoid := false
			for _, d := range ds {
				if d.Kind == "VOID" {
					hasVoid = true
				}
			}
			if hasVoid {
				continue // 'nichts'-typed operands/targets are outside the class set for lowering
			}
			var node *Obj
			if method == "VisitCastExpr" {
				node = genNode(kind, nil, names, ds[1:])
				node.set("TargetType", TypeV{ds[0]})
			} else {
				node = genNode(kind, opVal(t.ops[k]), names, ds)
			}
			g := runGenerator(L, in, mk, method, node)
			opn := ""
			if o, ok := t.ops[k]; ok {
				opn = o.Name
			}
			out = append(out, cellVerdict{Key: k, Chk: c, Gen: g, Classes: ds, Op: opn, Method: method})
		}
	}
	run(t.keysU, t.Unary, "VisitUnaryExpr", "ast.UnaryExpr", []string{"rhs"})
	run(t.keysB, t.Binary, "VisitBinaryExpr", "ast.BinaryExpr", []string{"lhs", "rhs"})
	run(t.keysT, t.Ternary, "VisitTernaryExpr", "ast.TernaryExpr", []string{"lhs", "mid", "rhs"})
	run(t.keysC, t.Cast, "VisitCastExpr", "ast.CastExpr", []string{"lhs"})
	return out
}

// groupKey collapses alias/typedef coordinates into their generator classes so that one defect of the lowering is one finding.
func groupKey(v cellVerdict) string {
	var p []string
	ds := v.Classes
	if v.Method == "VisitCastExpr" {
		p = append(p, "to "+toGen(ds[0]).String())
		ds = ds[1:]
	}
	for _, d := range ds {
		p = append(p, toGen(d).String())
	}
	op := v.Op
	if op == "" {
		op = "CAST"
	}
	return op + " (" + strings.Join(p, ", ") + ")"
}

func checkC02(c *Check) {
	L := c.L
	c.Expl = "Structural clauses of 'every accepted program is compiled completely', decided cell-wise by evaluating the checker's and the generator's operator tables abstractly (engine E2: partial evaluation of the Visit* methods over operator constants and operand type classes, with a typed model of ddptypes' predicates and of the llir builder): every cell the checker admits has a lowering that does not reach c.err/panic (R2.1), leaves the IR class the checker's result type maps to (R2.2) and builds only well-typed IR (R2.3); every operator/node enum is covered by the String(), checker and generator switches (R2.4); every runtime symbol the generator declares is defined by the C runtime, libc/libm or the generator itself (R2.5). Bounds: the type classes listed in coverage.classes; user-defined overloads lower to calls and are out of scope. Not decided: assignment/argument/return contexts, struct and generic lowering, 'LLVM accepts the module' as a whole."
	checkC02Phis(c, L)
	checkC02Returns(c, L)
	checkC02StatementContexts(c, L)
	checkStructTypesDeclaredBeforeUse(c, c.Rule("R2.9", "a Kombination type is declared in the module before its IR type is read", 1))
	t := computeCheckerTables(L, c.Tier)
	cells := computeAdmittedGenCells(L, t)
	r1 := c.Rule("R2.1", "every checker-admitted operator cell has a lowering (no c.err / panic)", 100)
	r2 := c.Rule("R2.2", "the generator leaves the IR class of the checker's result type", 100)
	r3 := c.Rule("R2.3", "lowerings build only well-typed IR (builder operand classes agree)", 100)
	und := 0
	type agg struct {
		msg   string
		keys  []string
		first token.Pos
	}
	bad1, bad2, bad3 := map[string]*agg{}, map[string]*agg{}, map[string]*agg{}
	addBad := func(m map[string]*agg, gk, key, msg string) {
		a := m[gk]
		if a == nil {
			a = &agg{msg: msg}
			m[gk] = a
		}
		a.keys = append(a.keys, key)
	}
	ok1, ok2, ok3 := 0, 0, 0
	for _, v := range cells {
		gk := groupKey(v)
		if !v.Gen.Exh || len(v.Gen.Outcomes) == 0 {
			und++
			continue
		}
		var cerr, faults []string
		for _, o := range v.Gen.Outcomes {
			cerr = append(cerr, o.CErr...)
			cerr = append(cerr, o.Panics...)
			faults = append(faults, o.Faults...)
		}
		if len(cerr) > 0 {
			addBad(bad1, gk, v.Key, "the checker admits this combination but the generator aborts: "+uniq(cerr)[0])
			continue
		}
		ok1++
		if len(faults) > 0 {
			addBad(bad3, gk, v.Key, "ill-typed IR: "+strings.Join(uniq(faults), "; "))
		} else {
			ok3++
		}
		// result type agreement
		want := v.Chk.Result()
		if want == nil {
			continue
		}
		wg := toGen(want)
		mismatch := ""
		for _, o := range v.Gen.Outcomes {
			if o.RetType == nil {
				continue // not tracked on this path
			}
			if !genSame(o.RetType, wg) {
				mismatch = fmt.Sprintf("checker result %s (→ %s) but the generator records type %s", want, wg, o.RetType)
			} else if o.Ret != nil && o.Ret.Class != "?" && o.Ret.Class != "int-const" && wg.irClass() != "ptr" && o.Ret.Class != wg.irClass() {
				mismatch = fmt.Sprintf("checker result %s (→ %s) but the generated value has IR type %s", want, wg.irClass(), o.Ret.Class)
			}
		}
		if mismatch != "" {
			addBad(bad2, gk, v.Key, mismatch)
		} else {
			ok2++
		}
	}
	emit := func(r *Rule, m map[string]*agg, okn int, what string) {
		var gks []string
		for k := range m {
			gks = append(gks, k)
		}
		sort.Strings(gks)
		for _, gk := range gks {
			a := m[gk]
			r.add(Bad, gk, token.NoPos, fmt.Sprintf("%s [%d cell(s), e.g. %s]", a.msg, len(a.keys), a.keys[0]))
		}
		for i := 0; i < okn; i++ {
			// discharged cells are counted, not listed one by one
		}
		if okn > 0 {
			in := r.add(OK, "admitted cells", token.NoPos, what)
			in.N = okn
		}
	}
	emit(r1, bad1, ok1, "admitted cells whose lowering completes")
	emit(r2, bad2, ok2, "admitted cells whose generator result type equals the checker's")
	emit(r3, bad3, ok3, "admitted cells with well-typed IR")
	// make the instance counts reflect the number of cells
	c.extra["cells_total"] = len(t.keysU) + len(t.keysB) + len(t.keysT) + len(t.keysC)
	c.extra["cells_admitted"] = len(cells)
	c.extra["cells_generator_undecided"] = und
	var cls []string
	for _, d := range t.Classes {
		cls = append(cls, d.String())
	}
	c.extra["classes"] = cls
	if und > len(cells)/20 {
		r1.Und("generator cells", token.NoPos, fmt.Sprintf("%d of %d admitted cells could not be evaluated exhaustively - an unmodelled helper was introduced", und, len(cells)))
	}
	r1.Floor, r2.Floor, r3.Floor = 1, 1, 1
	if len(cells) < 300 {
		r1.Und("cells", token.NoPos, fmt.Sprintf("only %d admitted cells - the checker tables were not evaluated", len(cells)))
	}
	checkEnumExhaustive(c)
	checkToIrType(c, t.Classes)
}

// R2.7: phi nodes name exactly the predecessors of their block, also when an operand's code spans several basic blocks.
func checkC02Phis(c *Check, L *Loaded) {
	r := c.Rule("R2.7", "every phi names exactly the blocks that branch to its block, also when an operand compiles to several basic blocks", 3)
	in, mk := newGeneratorInterp(L)
	B, Z, T := &DT{Kind: "WAHRHEITSWERT"}, &DT{Kind: "ZAHL"}, &DT{Kind: "TEXT"}
	ops := map[string]opInfo{}
	for _, o := range operatorConsts(L, "BinaryOperator") {
		ops[o.Name] = o
	}
	for _, o := range operatorConsts(L, "TernaryOperator") {
		ops[o.Name] = o
	}
	type sc struct {
		key, method, kind string
		op                string
		names             []string
		ds                []*DT
	}
	for _, s := range []sc{
		{"VisitBinaryExpr|BIN_AND", "VisitBinaryExpr", "ast.BinaryExpr", "BIN_AND", []string{"lhs", "rhs"}, []*DT{B, B}},
		{"VisitBinaryExpr|BIN_OR", "VisitBinaryExpr", "ast.BinaryExpr", "BIN_OR", []string{"lhs", "rhs"}, []*DT{B, B}},
		{"VisitTernaryExpr|TER_FALLS (Zahl)", "VisitTernaryExpr", "ast.TernaryExpr", "TER_FALLS", []string{"lhs", "mid", "rhs"}, []*DT{Z, B, Z}},
		{"VisitTernaryExpr|TER_FALLS (Text)", "VisitTernaryExpr", "ast.TernaryExpr", "TER_FALLS", []string{"lhs", "mid", "rhs"}, []*DT{T, B, T}},
	} {
		var bad []string
		runs, phis := 0, 0
		fields := map[string]string{"lhs": "Lhs", "mid": "Mid", "rhs": "Rhs"}
		for _, multi := range []bool{false, true} {
			node := genNode(s.kind, opVal(ops[s.op]), s.names, s.ds)
			for _, nm := range s.names {
				node.get(fields[nm]).(*Obj).set("multiblock", boolV(multi))
			}
			in.RunAll(64, func() {
				cobj := mk()
				in.CallFunc(L.Fn("src/compiler.(*compiler)."+s.method), cobj, []Val{node})
				for _, e := range in.Events {
					if e.Kind == "cerr" || e.Kind == "panic" {
						return
					}
					if e.Kind == "phi" {
						phis++
					}
				}
				runs++
				bad = append(bad, phiPredecessorProblems(in)...)
			})
		}
		key := "compiler.(*compiler)." + s.key
		if runs == 0 || phis == 0 {
			r.Und(key, token.NoPos, "no phi observed")
			continue
		}
		r.Decide(len(bad) == 0, key, token.NoPos, "phi incoming blocks are the blocks the operands' code ends in", strings.Join(uniq(bad), "; "))
	}
}

// R2.8: the terminator of a return statement agrees with the function's IR signature. A function whose declared result
// type is primitive returns the value in a register (`ret <value>` of that class); every other function has result
// `void` and an out-pointer, so its return statements must store into the out-pointer and end in `ret void` - also when
// a primitive value is boxed into a Variable on the way. Decided by evaluating VisitReturnStmt (engine E2) for every
// pair (type of the returned value, declared result type ∈ {the same type, Variable}).
func checkC02Returns(c *Check, L *Loaded) {
	r := c.Rule("R2.8", "return statements end in a terminator that matches the function's IR result (register for primitive results, out-pointer and ret void otherwise)", 12)
	fi := L.Fn("src/compiler.(*compiler).VisitReturnStmt")
	if fi == nil {
		r.Und("compiler.(*compiler).VisitReturnStmt", token.NoPos, "function not found")
		return
	}
	valTypes := []*DT{{Kind: "ZAHL"}, {Kind: "KOMMAZAHL"}, {Kind: "BYTE"}, {Kind: "WAHRHEITSWERT"}, {Kind: "BUCHSTABE"}, {Kind: "TEXT"}, {Kind: "LIST", Elem: &DT{Kind: "ZAHL"}}, {Kind: "VARIABLE"}}
	for _, vt := range valTypes {
		rets := []*DT{vt}
		if vt.Kind != "VARIABLE" {
			rets = append(rets, &DT{Kind: "VARIABLE"})
		}
		for _, rt := range rets {
			for _, temp := range []bool{false, true} {
				in, mk := newGeneratorInterp(L)
				key := fmt.Sprintf("compiler.(*compiler).VisitReturnStmt|value %s, declared result %s, temporary=%v", toGen(vt), toGen(rt), temp)
				var bad []string
				runs := 0
				retparam := &IRVal{Op: "retparam", Class: "ptr"}
				in.RunAll(64, func() {
					cobj := mk()
					fobj := newObj("ir.Func")
					fobj.set("Params", SliceV{Elems: []Val{retparam}})
					cobj.set("cf", fobj)
					cobj.set("cfscp", newObj("scope"))
					n := newObj("ast.ReturnStmt")
					v := exprNode("Value", vt)
					v.set("temp", boolV(temp))
					n.set("Value", v)
					fd := newObj("ast.FuncDecl")
					fd.set("ReturnType", TypeV{rt})
					n.set("Func", fd)
					in.CallFunc(fi, cobj, []Val{n})
					for _, e := range in.Events {
						if e.Kind == "cerr" || e.Kind == "panic" {
							bad = append(bad, e.Kind+": "+e.Msg)
							return
						}
					}
					runs++
					nret := 0
					var retVal Val
					storesOut := false
					for _, e := range in.Events {
						switch e.Kind {
						case "term:NewRet":
							nret++
							if len(e.Data) >= 2 {
								retVal = e.Data[1]
							}
						case "store", "deepCopy":
							for _, d := range e.Data {
								if iv, ok := d.(*IRVal); ok {
									for iv.Op == "bitcast" && len(iv.Args) == 1 {
										iv = iv.Args[0]
									}
									if iv == retparam {
										storesOut = true
									}
								}
							}
						}
					}
					if nret != 1 {
						bad = append(bad, fmt.Sprintf("%d return terminators are emitted", nret))
						return
					}
					inRegister := toGen(rt).irClass() != "ptr"
					iv, isVal := retVal.(*IRVal)
					switch {
					case inRegister && !isVal:
						bad = append(bad, "the function returns its result in a register but the statement ends in `ret void`")
					case inRegister && isVal && iv.Class != "?" && iv.Class != toGen(rt).irClass() && !(iv.Op == "operand" && iv.Class == toGen(vt).irClass() && toGen(vt).irClass() == toGen(rt).irClass()):
						bad = append(bad, fmt.Sprintf("`ret` of a %s value in a function whose result is %s", iv.Class, toGen(rt).irClass()))
					case !inRegister && isVal:
						bad = append(bad, fmt.Sprintf("the function returns its result through the out-pointer (IR result void) but the statement ends in `ret` with a %s value: LLVM rejects the module", iv.Class))
					case !inRegister && !storesOut:
						bad = append(bad, "the result is never stored into the out-pointer")
					}
				})
				switch {
				case runs == 0 && len(bad) == 0:
					r.Und(key, token.NoPos, "the return statement could not be evaluated")
				case len(bad) > 0:
					r.Bad(key, fi.Decl.Pos(), strings.Join(uniq(bad), "; "))
				default:
					r.OK(key, fi.Decl.Pos(), fmt.Sprintf("%d evaluation(s): terminator and result passing agree with the signature", runs))
				}
			}
		}
	}
}

// R2.9 (= R15.8): the table of declared Kombination types is never read for a type that may not have been declared in the
// module being compiled. A single-value read `c.structTypes[t]` yields nil for such a type (and the next use crashes the
// generator); it is allowed only where, on every path, defineOrDeclareStructType ran before (must-dataflow on go/cfg), or
// in the comma-ok form. The case that needs it: a generic function whose body uses a Kombination that is private to its
// module, instantiated from an importing module.
func checkStructTypesDeclaredBeforeUse(c *Check, r *Rule) {
	L := c.L
	cp := L.ByRel["src/compiler"]
	info := cp.TypesInfo
	n := 0
	L.ForEachFunc([]string{"src/compiler"}, func(fi *FuncInfo) {
		var reads []*ast.IndexExpr
		commaOK := map[*ast.IndexExpr]bool{}
		lhs := map[*ast.IndexExpr]bool{}
		ast.Inspect(fi.Decl.Body, func(nd ast.Node) bool {
			switch x := nd.(type) {
			case *ast.AssignStmt:
				if len(x.Lhs) == 2 && len(x.Rhs) == 1 {
					if ix, ok := ast.Unparen(x.Rhs[0]).(*ast.IndexExpr); ok {
						commaOK[ix] = true
					}
				}
				for _, l := range x.Lhs {
					if ix, ok := ast.Unparen(l).(*ast.IndexExpr); ok {
						lhs[ix] = true
					}
				}
			case *ast.IndexExpr:
				if v := fieldOf(info, x.X); v != nil && nameIs(v, "structTypes") && isMapType(info.TypeOf(x.X)) {
					reads = append(reads, x)
				}
			}
			return true
		})
		if len(reads) == 0 {
			return
		}
		g := L.CFG(fi)
		// `_, ok := c.structTypes[t]`: on the edge where ok holds the entry exists as well
		present := map[types.Object]bool{}
		ast.Inspect(fi.Decl.Body, func(nd ast.Node) bool {
			if as, ok := nd.(*ast.AssignStmt); ok && len(as.Lhs) == 2 && len(as.Rhs) == 1 {
				if ix, ok := ast.Unparen(as.Rhs[0]).(*ast.IndexExpr); ok && commaOK[ix] {
					if v := fieldOf(info, ix.X); v != nil && nameIs(v, "structTypes") {
						if id, ok := as.Lhs[1].(*ast.Ident); ok {
							if o := info.Defs[id]; o != nil {
								present[o] = true
							} else if o := info.Uses[id]; o != nil {
								present[o] = true
							}
						}
					}
				}
			}
			return true
		})
		mf := &mustFlow{G: g, Init: 0, Transfer: func(nd ast.Node, s uint32) uint32 {
			callsIn(nd, func(call *ast.CallExpr) {
				if fn := Callee(info, call); fn != nil && (nameIs(fn, "defineOrDeclareStructType") || nameIs(fn, "defineOrDeclareAllDeclTypes")) {
					s |= 1
				}
			})
			return s
		}, Edge: func(b *cfg.Block, i int, s uint32) uint32 {
			if len(b.Nodes) == 0 {
				return s
			}
			cond, ok := b.Nodes[len(b.Nodes)-1].(ast.Expr)
			if !ok {
				return s
			}
			cond = ast.Unparen(cond)
			inv := false
			if u, ok := cond.(*ast.UnaryExpr); ok && u.Op == token.NOT {
				inv = true
				cond = ast.Unparen(u.X)
			}
			if id, ok := cond.(*ast.Ident); ok && present[info.Uses[id]] && (i == 0) != inv {
				return s | 1
			}
			return s
		}}
		mf.Run()
		for _, ix := range reads {
			if commaOK[ix] || lhs[ix] {
				continue
			}
			n++
			declared := false
			for _, b := range g.Blocks {
				for i, nd := range b.Nodes {
					found := false
					ast.Inspect(nd, func(m ast.Node) bool {
						if m == ast.Node(ix) {
							found = true
						}
						return !found
					})
					if found && mf.StateAt(b, i)&1 != 0 {
						declared = true
					}
				}
			}
			r.Decide(declared, fmt.Sprintf("%s|%s", L.QName(fi.Obj), normSrc(L, info, ix)), ix.Pos(), "the type was declared on every path to this read", "the table of declared Kombination types is read for a type that this module may never have declared (the read yields nil and the generator crashes): a generic function that uses a Kombination private to its module cannot be instantiated from an importing module")
		}
	})
	if n == 0 {
		r.Und("compiler.structTypes", token.NoPos, "no single-value read of the table of declared Kombination types found")
	}
}

// R2.10: the statement contexts. For every pair (type of the target, type of the value) that the type checker admits in an
// assignment and in a variable declaration - over the class representatives, primitive and not - VisitAssignStmt and
// VisitVarDecl are evaluated (engine E2) and must reach neither c.err nor a panic. (The expression cells of R2.1 do not
// cover these statements: a guard weakened in VisitAssignStmt sends a number assigned to a Variable into numericCast.)
func checkC02StatementContexts(c *Check, L *Loaded) {
	r := c.Rule("R2.10", "every admitted assignment and initialisation pair is lowered without an internal error", 40)
	tier := "quick"
	if c.Tier == "thorough" {
		tier = "thorough"
	}
	t := computeCheckerTables(L, tier)
	inC, mkC := newCheckerInterp(L)
	keys, cells := t.computeContextCells(inC, mkC)
	varIdent := func(d *DT) *Obj {
		decl := newObj("ast.VarDecl")
		decl.set("Type", TypeV{d})
		id := newObj("ast.Ident")
		id.set("Declaration", decl)
		return id
	}
	type agg struct {
		n   int
		bad []string
	}
	groups := map[string]*agg{}
	var order []string
	_ = keys
	type pair struct {
		k             string
		isAssign      bool
		target, value *DT
	}
	var pairs []pair
	for _, a := range t.Classes {
		for _, b := range t.Classes {
			pairs = append(pairs, pair{cellKey("ASSIGN (target, value)", a, b), true, a, b}, pair{cellKey("VARDECL (declared, initialiser)", a, b), false, a, b})
		}
	}
	for _, pr := range pairs {
		isAssign, isDecl := pr.isAssign, !pr.isAssign
		cc := cells[pr.k]
		if cc == nil {
			continue
		}
		if adm, dec := cc.Admitted(); !dec || !adm {
			continue
		}
		target, value := pr.target, pr.value
		if target.Kind == "VOID" || value.Kind == "VOID" || target.Kind == "GENERIC" || value.Kind == "GENERIC" {
			continue
		}
		in, mk := newGeneratorInterp(L)
		var problems []string
		runs := 0
		for _, temp := range []bool{false, true} {
			in.RunAll(32, func() {
				cobj := mk()
				var n *Obj
				method := "VisitAssignStmt"
				if isAssign {
					n = newObj("ast.AssignStmt")
					rhs := exprNode("Rhs", value)
					rhs.set("temp", boolV(temp))
					n.set("Rhs", rhs)
					n.set("Var", varIdent(target))
					n.set("VarType", TypeV{target})
					n.set("RhsType", TypeV{value})
				} else {
					method = "VisitVarDecl"
					n = newObj("ast.VarDecl")
					n.set("Type", TypeV{target})
					n.set("InitType", TypeV{value})
					iv := exprNode("InitVal", value)
					iv.set("temp", boolV(temp))
					n.set("InitVal", iv)
					n.set("name", StrV("v"))
				}
				in.CallFunc(L.Fn("src/compiler.(*compiler)."+method), cobj, []Val{n})
				runs++
				for _, e := range in.Events {
					if e.Kind == "cerr" || e.Kind == "panic" {
						problems = append(problems, in.L.Pos(e.Pos)+" "+e.Kind+": "+e.Msg)
					}
				}
			})
		}
		gk := "ASSIGN"
		if isDecl {
			gk = "VARDECL"
		}
		gk += " (" + toGen(target).String() + " ← " + toGen(value).String() + ")"
		g := groups[gk]
		if g == nil {
			g = &agg{}
			groups[gk] = g
			order = append(order, gk)
		}
		g.n++
		if runs == 0 {
			g.bad = append(g.bad, "not evaluated")
		}
		g.bad = append(g.bad, problems...)
	}
	sort.Strings(order)
	for _, gk := range order {
		g := groups[gk]
		in := r.add(OK, gk, token.NoPos, "lowered without an internal error")
		if len(g.bad) > 0 {
			in.Status = Bad
			in.Msg = "the type checker admits this pair but its lowering ends in an internal error (" + strings.Join(firstN(uniq(g.bad), 2), "; ") + "): the accepted program aborts with 'Unerwarteter Fehler'"
		}
		in.N = g.n
	}
}
