package main

import (
	"bytes"
	"encoding/json"
	"fmt"
	"go/ast"
	"go/printer"
	"go/token"
	"go/types"
	"os"
	"os/exec"
	"path/filepath"
	"sort"
	"strings"
	"time"

	"golang.org/x/tools/go/callgraph"
	"golang.org/x/tools/go/callgraph/cha"
	"golang.org/x/tools/go/callgraph/vta"
	"golang.org/x/tools/go/cfg"
	"golang.org/x/tools/go/packages"
	"golang.org/x/tools/go/ssa"
	"golang.org/x/tools/go/ssa/ssautil"
)

const modPath = "github.com/DDP-Projekt/Kompilierer/"

func repoDir() string {
	if d := os.Getenv("VERIF_REPO"); d != "" {
		return d
	}
	return "/repo"
}

// repoDirC: where the C and DDP library sources are read from (a scratch copy when a recorded breaking change is replayed).
func repoDirC() string {
	if d := os.Getenv("VERIF_C_REPO"); d != "" {
		return d
	}
	return repoDir()
}

// loadOverlay: VERIF_OVERLAY names a JSON object {"<file under the repo>": "<file with the replacement text>"}; the Go
// sources are then loaded from the repository with those files replaced (go/packages overlay), which keeps the build cache warm.
func loadOverlay() map[string][]byte {
	f := os.Getenv("VERIF_OVERLAY")
	if f == "" {
		return nil
	}
	b, err := os.ReadFile(f)
	if err != nil {
		return nil
	}
	m := map[string]string{}
	if json.Unmarshal(b, &m) != nil {
		return nil
	}
	out := map[string][]byte{}
	for orig, repl := range m {
		if c, err := os.ReadFile(repl); err == nil {
			out[orig] = c
		}
	}
	return out
}

type FuncInfo struct {
	Obj  *types.Func
	Decl *ast.FuncDecl
	Pkg  *packages.Package
}

type Loaded struct {
	T0    time.Time
	Fset  *token.FileSet
	Pkgs  []*packages.Package          // root packages under src/ and cmd/
	ByRel map[string]*packages.Package // "src/parser" -> package
	Funcs map[*types.Func]*FuncInfo
	byNm  map[string]*FuncInfo // "src/parser.(*parser).alias" or "src/parser.Parse"

	prog      *ssa.Program
	ssaPkgs   []*ssa.Package
	cg        *callgraph.Graph
	cfgs      map[*ast.FuncDecl]*cfg.CFG
	cfgBodies map[*ast.BlockStmt]*cfg.CFG
}

var requiredPkgs = []string{
	"src/token", "src/scanner", "src/ddperror", "src/ddptypes", "src/ast", "src/ast/annotators", "src/parser",
	"src/parser/alias_trie", "src/parser/ordered_map", "src/parser/resolver", "src/parser/typechecker", "src/compiler",
	"src/compiler/llvm", "cmd/kddp", "cmd/internal/linker", "src/ddppath",
}

func Load() (*Loaded, error) {
	L := &Loaded{T0: time.Now(), ByRel: map[string]*packages.Package{}, Funcs: map[*types.Func]*FuncInfo{}, byNm: map[string]*FuncInfo{}, cfgs: map[*ast.FuncDecl]*cfg.CFG{}}
	env := os.Environ()
	var out []string
	for _, e := range env {
		if strings.HasPrefix(e, "GOWORK=") || strings.HasPrefix(e, "GOFLAGS=") || strings.HasPrefix(e, "CGO_CPPFLAGS=") || strings.HasPrefix(e, "GOOS=") {
			continue
		}
		out = append(out, e)
	}
	cpp := "-I/usr/lib/llvm-14/include"
	if b, err := exec.Command("/usr/lib/llvm-14/bin/llvm-config", "--cppflags").Output(); err == nil {
		cpp = strings.TrimSpace(string(b))
	}
	out = append(out, "GOWORK=off", "GOFLAGS=-mod=mod", "GOPROXY=off", "GOTOOLCHAIN=local", "CGO_ENABLED=1", "CGO_CPPFLAGS="+cpp)
	if g := os.Getenv("VERIF_GOOS"); g != "" {
		out = append(out, "GOOS="+g)
	}
	L.Fset = token.NewFileSet()
	cfgp := &packages.Config{Mode: packages.LoadAllSyntax, Dir: repoDir(), Env: out, Fset: L.Fset, Tests: false, Overlay: loadOverlay()}
	pkgs, err := packages.Load(cfgp, "./src/...", "./cmd/...")
	if err != nil {
		return nil, err
	}
	if len(pkgs) == 0 {
		return nil, fmt.Errorf("no packages loaded")
	}
	nerr := 0
	packages.Visit(pkgs, nil, func(p *packages.Package) {
		for _, e := range p.Errors {
			if nerr < 10 {
				fmt.Fprintf(os.Stderr, "load error: %s: %v\n", p.PkgPath, e)
			}
			nerr++
		}
	})
	if nerr > 0 {
		return nil, fmt.Errorf("%d load/type errors - the tree does not type-check, nothing can be decided", nerr)
	}
	rebindRenames(L.Fset, pkgs)
	for _, p := range pkgs {
		if !strings.HasPrefix(p.PkgPath, modPath) {
			continue
		}
		rel := strings.TrimPrefix(p.PkgPath, modPath)
		L.Pkgs = append(L.Pkgs, p)
		L.ByRel[rel] = p
		for _, f := range p.Syntax {
			for _, d := range f.Decls {
				fd, ok := d.(*ast.FuncDecl)
				if !ok {
					continue
				}
				obj, _ := p.TypesInfo.Defs[fd.Name].(*types.Func)
				if obj == nil {
					continue
				}
				fi := &FuncInfo{Obj: obj, Decl: fd, Pkg: p}
				L.Funcs[obj] = fi
				L.byNm[rel+"."+shortName(obj)] = fi
			}
		}
	}
	for _, r := range requiredPkgs {
		if L.ByRel[r] == nil {
			return nil, fmt.Errorf("package %s not loaded - load is incomplete", r)
		}
	}
	return L, nil
}

// shortName: "Parse" or "(*parser).alias" or "(T).m".
func shortName(f *types.Func) string {
	sig := f.Type().(*types.Signature)
	if r := sig.Recv(); r != nil {
		t := r.Type()
		ptr := false
		if p, ok := t.(*types.Pointer); ok {
			t = p.Elem()
			ptr = true
		}
		n := "?"
		if nt, ok := t.(*types.Named); ok {
			n = nt.Obj().Name()
		}
		if ptr {
			return "(*" + n + ")." + canonName(f)
		}
		return "(" + n + ")." + canonName(f)
	}
	return canonName(f)
}

// QName gives "parser.(*parser).alias" for keys.
func (L *Loaded) QName(f *types.Func) string {
	if f == nil {
		return "?"
	}
	if f.Pkg() == nil {
		return f.Name()
	}
	return pkgShort(f.Pkg()) + "." + shortName(f)
}

// pkgShort: last element of the import path (package names are not unique here: alias_trie and ordered_map are both `package parser`).
func pkgShort(p *types.Package) string {
	path := p.Path()
	if i := strings.LastIndex(path, "/"); i >= 0 {
		return path[i+1:]
	}
	return path
}

func (L *Loaded) Fn(name string) *FuncInfo { return L.byNm[name] }

func (L *Loaded) PkgPaths() []string {
	var s []string
	for _, p := range L.Pkgs {
		s = append(s, strings.TrimPrefix(p.PkgPath, modPath))
	}
	sort.Strings(s)
	return s
}
func (L *Loaded) NumFuncs() int { return len(L.Funcs) }

func (L *Loaded) Pos(p token.Pos) string {
	if !p.IsValid() {
		return "-"
	}
	ps := L.Fset.Position(p)
	rel, err := filepath.Rel(repoDir(), ps.Filename)
	if err != nil {
		rel = ps.Filename
	}
	return fmt.Sprintf("%s:%d", rel, ps.Line)
}

func (L *Loaded) Src(n ast.Node) string {
	var b bytes.Buffer
	printer.Fprint(&b, L.Fset, n)
	s := b.String()
	s = strings.Join(strings.Fields(s), " ")
	return s
}

// EnclosingFunc finds the FuncInfo whose declaration contains pos.
func (L *Loaded) EnclosingFunc(pos token.Pos) *FuncInfo {
	for _, fi := range L.Funcs {
		if fi.Decl.Pos() <= pos && pos < fi.Decl.End() {
			return fi
		}
	}
	return nil
}

func (L *Loaded) CFG(fi *FuncInfo) *cfg.CFG {
	if g, ok := L.cfgs[fi.Decl]; ok {
		return g
	}
	g := cfg.New(fi.Decl.Body, func(call *ast.CallExpr) bool { return !L.noReturn(fi.Pkg, call) })
	L.cfgs[fi.Decl] = g
	return g
}

// CFGBody builds (cached) the control-flow graph of an arbitrary function body (declaration or literal).
func (L *Loaded) CFGBody(pkg *packages.Package, body *ast.BlockStmt) *cfg.CFG {
	if L.cfgBodies == nil {
		L.cfgBodies = map[*ast.BlockStmt]*cfg.CFG{}
	}
	if g, ok := L.cfgBodies[body]; ok {
		return g
	}
	g := cfg.New(body, func(call *ast.CallExpr) bool { return !L.noReturn(pkg, call) })
	L.cfgBodies[body] = g
	return g
}

// noReturn: panic, os.Exit, log.Fatal*, and the repo's own never-returning helpers.
func (L *Loaded) noReturn(p *packages.Package, call *ast.CallExpr) bool {
	switch f := call.Fun.(type) {
	case *ast.Ident:
		if f.Name == "panic" {
			if _, ok := p.TypesInfo.Uses[f].(*types.Builtin); ok {
				return true
			}
		}
	}
	if fn := Callee(p.TypesInfo, call); fn != nil && fn.Pkg() != nil {
		q := fn.Pkg().Path() + "." + shortName(fn)
		switch q {
		case "os.Exit", "log.Fatal", "log.Fatalf", "log.Fatalln",
			modPath + "src/compiler.(*compiler).err", modPath + "src/parser.(*parser).panic":
			return true
		}
	}
	return false
}

// Callee resolves a call to its static *types.Func (function, method, or interface method), or nil.
func Callee(info *types.Info, call *ast.CallExpr) *types.Func {
	fun := ast.Unparen(call.Fun)
	if ix, ok := fun.(*ast.IndexExpr); ok {
		fun = ix.X
	}
	if ix, ok := fun.(*ast.IndexListExpr); ok {
		fun = ix.X
	}
	var obj types.Object
	switch f := fun.(type) {
	case *ast.Ident:
		obj = info.Uses[f]
	case *ast.SelectorExpr:
		if sel, ok := info.Selections[f]; ok {
			obj = sel.Obj()
		} else {
			obj = info.Uses[f.Sel]
		}
	}
	if fn, ok := obj.(*types.Func); ok {
		return fn.Origin()
	}
	return nil
}

func (L *Loaded) IsCallTo(p *packages.Package, call *ast.CallExpr, qnames ...string) bool {
	fn := Callee(p.TypesInfo, call)
	if fn == nil {
		return false
	}
	q := L.QName(fn)
	for _, n := range qnames {
		if q == n {
			return true
		}
	}
	return false
}

// SSA builds (once) the SSA program for all packages.
func (L *Loaded) SSA() *ssa.Program {
	if L.prog != nil {
		return L.prog
	}
	prog, pkgs := ssautil.AllPackages(L.Pkgs, ssa.InstantiateGenerics)
	prog.Build()
	L.prog, L.ssaPkgs = prog, pkgs
	return prog
}

func (L *Loaded) SSAFunc(fi *FuncInfo) *ssa.Function {
	return L.SSA().FuncValue(fi.Obj)
}

// CallGraph: CHA refined by VTA.
func (L *Loaded) CallGraph() *callgraph.Graph {
	if L.cg != nil {
		return L.cg
	}
	prog := L.SSA()
	fns := ssautil.AllFunctions(prog)
	L.cg = vta.CallGraph(fns, cha.CallGraph(prog))
	return L.cg
}

// Reachable returns the set of functions reachable from the entries in the call graph.
func (L *Loaded) Reachable(entries ...*ssa.Function) map[*ssa.Function]bool {
	cg := L.CallGraph()
	seen := map[*ssa.Function]bool{}
	var work []*ssa.Function
	for _, e := range entries {
		if e != nil && !seen[e] {
			seen[e] = true
			work = append(work, e)
		}
	}
	for len(work) > 0 {
		f := work[len(work)-1]
		work = work[:len(work)-1]
		n := cg.Nodes[f]
		if n == nil {
			continue
		}
		for _, e := range n.Out {
			if !seen[e.Callee.Func] {
				seen[e.Callee.Func] = true
				work = append(work, e.Callee.Func)
			}
		}
		// anonymous functions defined in f are reachable when f is (conservative)
		for _, an := range f.AnonFuncs {
			if !seen[an] {
				seen[an] = true
				work = append(work, an)
			}
		}
	}
	return seen
}

// ForEachFunc visits every function declaration of the given packages (by rel path), sorted by position.
func (L *Loaded) ForEachFunc(rels []string, f func(fi *FuncInfo)) {
	var fis []*FuncInfo
	for _, fi := range L.Funcs {
		rel := strings.TrimPrefix(fi.Pkg.PkgPath, modPath)
		for _, r := range rels {
			if rel == r {
				fis = append(fis, fi)
			}
		}
	}
	sort.Slice(fis, func(i, j int) bool { return fis[i].Decl.Pos() < fis[j].Decl.Pos() })
	for _, fi := range fis {
		if fi.Decl.Body != nil {
			f(fi)
		}
	}
}

var frontendPkgs = []string{"src/token", "src/scanner", "src/ddperror", "src/ddptypes", "src/ast", "src/ast/annotators", "src/parser", "src/parser/alias_trie", "src/parser/ordered_map", "src/parser/resolver", "src/parser/typechecker"}
var pipelinePkgs = append(append([]string{}, frontendPkgs...), "src/compiler", "cmd/kddp", "cmd/internal/linker")
