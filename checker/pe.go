package main

// E2: a partial evaluator over the typed syntax of /repo's Go code. It evaluates one function (a Visit* method of the type
// checker or of the code generator) for one *cell* - an operator constant plus operand type classes - with abstract values:
// type classes for ddptypes.Type values, generator type classes for ddpIrType values, symbolic LLVM values for value.Value.
// Branches whose condition folds are followed; a condition that does not fold forks the evaluation (both outcomes are
// explored, bounded). The semantics of ddptypes' predicates and of the llir builder are given by a small typed model table;
// everything else that belongs to the repository is evaluated from its own source text. This is conditional constant
// propagation with per-cell partitioning, not execution: no Go code of the repository runs.

import (
	"fmt"
	"go/ast"
	"go/constant"
	"go/token"
	"go/types"
	"os"
	"sort"
	"strings"

	"golang.org/x/tools/go/packages"
)

// ---------- abstract values ----------

type Val interface{}

type Unk struct{ Why string }
type NilV struct{}
type TupleV []Val
type ConstV struct {
	V    constant.Value
	T    types.Type
	Name string
}
type SliceV struct{ Elems []Val }
type MapV struct {
	Keys []Val
	Vals []Val
	// Exact: the listed keys are all there is - a lookup whose key is known to differ from every listed key misses (and
	// yields the zero value). Otherwise a miss is unknown (the map stands for a larger one).
	Exact bool
	// Ref: the map is a reference to shared storage (Go semantics: a map handed to a callee is the caller's map). Only
	// maps created by make() while Interp.RefMaps is set have it; all other abstract maps are values that are written back
	// into their holder.
	Ref *MapV
}

// D: the storage of the map.
func (m MapV) D() MapV {
	if m.Ref != nil {
		return *m.Ref
	}
	return m
}

type StrV string

// DT: abstract ddptypes.Type
type DT struct {
	Kind string // ZAHL KOMMAZAHL BYTE WAHRHEITSWERT BUCHSTABE TEXT VARIABLE VOID LIST STRUCT TYPEDEF ALIAS GENERIC
	Elem *DT    // LIST
	Name string // STRUCT TYPEDEF ALIAS
	Base *DT    // TYPEDEF ALIAS
}

func (d *DT) String() string {
	if d == nil {
		return "<nil>"
	}
	switch d.Kind {
	case "LIST":
		return d.Elem.String() + " Liste"
	case "STRUCT":
		return "Kombination " + d.Name
	case "TYPEDEF":
		return "Typdefinition " + d.Name + "(" + d.Base.String() + ")"
	case "ALIAS":
		return "Typalias " + d.Name + "(" + d.Base.String() + ")"
	}
	return strings.Title(strings.ToLower(d.Kind))
}

var dtPrims = map[string]bool{"ZAHL": true, "KOMMAZAHL": true, "BYTE": true, "WAHRHEITSWERT": true, "BUCHSTABE": true, "TEXT": true}

func dtNorm(d *DT) *DT { // GetUnderlying
	switch d.Kind {
	case "ALIAS":
		return dtNorm(d.Base)
	case "LIST":
		return &DT{Kind: "LIST", Elem: dtNorm(d.Elem)}
	}
	return d
}
func dtTrue(d *DT) *DT { // TrueUnderlying
	if d.Kind == "TYPEDEF" {
		d = d.Base
	}
	d = dtNorm(d)
	if d.Kind == "TYPEDEF" {
		return dtTrue(d.Base)
	}
	return d
}
func dtSame(a, b *DT) bool { // identity of normalised terms
	if a.Kind != b.Kind {
		return false
	}
	switch a.Kind {
	case "LIST":
		return dtSame(a.Elem, b.Elem)
	case "STRUCT", "TYPEDEF", "ALIAS", "GENERIC":
		return a.Name == b.Name
	}
	return true
}
func dtEqual(a, b *DT) bool { return dtSame(dtNorm(a), dtNorm(b)) }
func dtTrueList(d *DT) *DT { // getTrueListUnderlying
	d = dtTrue(d)
	if d.Kind == "LIST" {
		return &DT{Kind: "LIST", Elem: dtTrueList(d.Elem)}
	}
	return d
}

type TypeV struct{ T *DT }

// GenT: abstract ddpIrType of the generator
type GenT struct {
	Fields []*GenT // field types of a struct class, when the rule needs them
	Kind   string  // int float byte bool char string any void list struct
	Elem   *GenT
	Name   string
}

func (g *GenT) String() string {
	if g == nil {
		return "<nil>"
	}
	if g.Kind == "list" {
		return g.Elem.String() + "list"
	}
	if g.Kind == "struct" {
		return "struct " + g.Name
	}
	return g.Kind
}
func genSame(a, b *GenT) bool {
	if a == nil || b == nil {
		return a == b
	}
	if a.Kind != b.Kind {
		return false
	}
	if a.Kind == "list" {
		return genSame(a.Elem, b.Elem)
	}
	if a.Kind == "struct" {
		return a.Name == b.Name
	}
	return true
}
func (g *GenT) prim() bool {
	switch g.Kind {
	case "int", "float", "byte", "bool", "char", "void":
		return true
	}
	return false
}
func (g *GenT) irClass() string {
	switch g.Kind {
	case "int":
		return "i64"
	case "float":
		return "double"
	case "byte":
		return "i8"
	case "bool":
		return "i1"
	case "char":
		return "i32"
	case "void":
		return "void"
	}
	return "ptr"
}

// toGen models (*compiler).toIrType
func toGen(d *DT) *GenT {
	d = dtTrue(d)
	switch d.Kind {
	case "ZAHL":
		return &GenT{Kind: "int"}
	case "KOMMAZAHL":
		return &GenT{Kind: "float"}
	case "BYTE":
		return &GenT{Kind: "byte"}
	case "WAHRHEITSWERT":
		return &GenT{Kind: "bool"}
	case "BUCHSTABE":
		return &GenT{Kind: "char"}
	case "TEXT":
		return &GenT{Kind: "string"}
	case "VARIABLE":
		return &GenT{Kind: "any"}
	case "VOID":
		return &GenT{Kind: "void"}
	case "LIST":
		return &GenT{Kind: "list", Elem: toGen(d.Elem)}
	case "STRUCT":
		return &GenT{Kind: "struct", Name: d.Name}
	}
	return &GenT{Kind: "struct", Name: d.Name}
}

// IRVal: symbolic LLVM value
type IRVal struct {
	Op    string // operand, const, add, icmp, call, phi, load, ...
	Args  []*IRVal
	Class string // i1 i8 i32 i64 double ptr int-const void ?
	Pred  string
	Src   string // operand name (lhs/mid/rhs) for Op=operand; callee for call
	Elem  *GenT  // for pointers to a known generator type (optional)
	K     *int64 // value of an integer constant when known
}

func (v *IRVal) String() string {
	if v == nil {
		return "<nil>"
	}
	switch v.Op {
	case "operand":
		return v.Src
	case "const":
		return "const"
	}
	var a []string
	for _, x := range v.Args {
		a = append(a, x.String())
	}
	s := v.Op
	if v.Pred != "" {
		s += " " + v.Pred
	}
	if v.Src != "" {
		s += " @" + v.Src
	}
	return s + "(" + strings.Join(a, ", ") + ")"
}

// prov: set of operand names a value derives from
func (v *IRVal) prov() []string {
	m := map[string]bool{}
	var walk func(x *IRVal)
	walk = func(x *IRVal) {
		if x == nil {
			return
		}
		if x.Op == "operand" {
			m[x.Src] = true
		}
		for _, a := range x.Args {
			walk(a)
		}
	}
	walk(v)
	var out []string
	for k := range m {
		out = append(out, k)
	}
	sort.Strings(out)
	return out
}

type IRTy struct{ Name string }    // llvm type by class name
type IRFuncV struct{ Name string } // an *ir.Func by symbolic name

type Obj struct {
	Kind string
	F    map[string]*Val
}

func (o *Obj) get(f string) Val {
	if p, ok := o.F[f]; ok {
		return *p
	}
	return Unk{"field " + o.Kind + "." + f}
}
func (o *Obj) set(f string, v Val) {
	if p, ok := o.F[f]; ok {
		*p = v
		return
	}
	nv := v
	o.F[f] = &nv
}
func newObj(kind string) *Obj { return &Obj{Kind: kind, F: map[string]*Val{}} }

type Closure struct {
	Lit *ast.FuncLit
	Env *Env
	Pkg *packages.Package
}

// NativeV: a function value supplied by the analysis (a callback that records what it is called with).
type NativeV struct {
	F func(args []Val) Val
}

type FuncRef struct {
	Fi   *FuncInfo
	Recv Val
	Fn   *types.Func
}

type Env struct {
	vars   map[types.Object]*Val
	parent *Env
}

func newEnv(p *Env) *Env { return &Env{vars: map[types.Object]*Val{}, parent: p} }
func (e *Env) lookup(o types.Object) *Val {
	for x := e; x != nil; x = x.parent {
		if p, ok := x.vars[o]; ok {
			return p
		}
	}
	return nil
}
func (e *Env) define(o types.Object, v Val) {
	nv := v
	e.vars[o] = &nv
}

// ---------- events and faults ----------

type Event struct {
	Kind string // err (checker diagnostic), cerr (generator internal error), panic, fault (IR typing), conv
	Msg  string
	Pos  token.Pos
	Data []Val
}

// ---------- interpreter ----------

type ctl int

const (
	ctlNone ctl = iota
	ctlReturn
	ctlBreak
	ctlContinue
	ctlFallthrough
	ctlAbort // path ended (c.err / panic)
)

type ModelFn func(in *Interp, pkg *packages.Package, call *ast.CallExpr, recv Val, args []Val) (Val, bool)

type Interp struct {
	L         *Loaded
	Models    map[string]ModelFn
	decisions []bool
	dpos      int
	Forked    bool
	Events    []Event
	steps     int
	depth     int
	MaxDepth  int
	Undecided []string // reasons evaluation lost precision in a way that matters
	retVal    Val
	pkgVars   map[types.Object]*Val
	// optional hooks for analyses that evaluate code over synthetic objects: a field an object does not have, and a
	// call that has neither a model nor a body (an interface method). t is the static type of the result.
	RefMaps bool // make(map) yields a reference map (see MapV.Ref)
	// Pointers: an *Obj of kind "ptr" is a pointer cell; `*p` reads/writes its field "*" (otherwise a pointer and its
	// pointee are one value). Defers: deferred calls of an evaluated function run when it returns (otherwise ignored).
	Pointers      bool
	Defers        bool
	deferred      [][]func()
	FieldFallback func(o *Obj, name string, t types.Type) (Val, bool)
	CallFallback  func(fn *types.Func, recv Val, args []Val, t types.Type) (Val, bool)
}

func NewInterp(L *Loaded) *Interp {
	in := &Interp{L: L, Models: map[string]ModelFn{}, MaxDepth: 6, pkgVars: map[types.Object]*Val{}}
	installLibModels(in)
	return in
}

func (in *Interp) event(kind, msg string, pos token.Pos, data ...Val) {
	in.Events = append(in.Events, Event{kind, msg, pos, data})
}

func (in *Interp) decide(why string) bool {
	if in.dpos < len(in.decisions) {
		d := in.decisions[in.dpos]
		in.dpos++
		return d
	}
	in.decisions = append(in.decisions, true)
	in.dpos++
	in.Forked = true
	if os.Getenv("VERIF_DEBUG") == "forks" {
		fmt.Println("fork:", why)
	}
	return true
}

// RunAll explores all decision vectors of one evaluation (bounded); run must start a fresh evaluation each time.
func (in *Interp) RunAll(max int, run func()) (n int, exhausted bool) {
	var work [][]bool
	work = append(work, nil)
	for len(work) > 0 {
		d := work[len(work)-1]
		work = work[:len(work)-1]
		in.decisions = append([]bool{}, d...)
		in.dpos = 0
		in.Events = nil
		in.steps = 0
		in.depth = 0
		in.Undecided = nil
		prefix := len(d)
		run()
		n++
		// schedule alternatives for the decisions taken beyond the given prefix
		for i := prefix; i < in.dpos && i < len(in.decisions); i++ {
			alt := append(append([]bool{}, in.decisions[:i]...), false)
			work = append(work, alt)
		}
		if n >= max {
			return n, false
		}
	}
	return n, true
}

func isUnk(v Val) bool { _, ok := v.(Unk); return ok }

// truth: (value, known)
func truth(v Val) (bool, bool) {
	switch x := v.(type) {
	case ConstV:
		if x.V != nil && x.V.Kind() == constant.Bool {
			return constant.BoolVal(x.V), true
		}
	case bool:
		return x, true
	}
	return false, false
}
func boolV(b bool) Val { return ConstV{V: constant.MakeBool(b), T: types.Typ[types.Bool]} }

// eqVal: Go's == on abstract values
func eqVal(a, b Val) (bool, bool) {
	switch x := a.(type) {
	case NilV:
		switch y := b.(type) {
		case NilV:
			return true, true
		case Unk:
			return false, false
		case *Obj, *GenT, TypeV, *IRVal, Closure, FuncRef, *IRFuncV, ConstV, StrV, SliceV, MapV:
			_ = y
			return false, true
		}
		return false, false
	case TypeV:
		if y, ok := b.(TypeV); ok {
			return dtSame(x.T, y.T), true // raw identity, no normalisation: that is Go's ==
		}
		if _, ok := b.(NilV); ok {
			return false, true
		}
	case *GenT:
		if y, ok := b.(*GenT); ok {
			return genSame(x, y), true
		}
		if _, ok := b.(NilV); ok {
			return false, true
		}
	case ConstV:
		if y, ok := b.(ConstV); ok && x.V != nil && y.V != nil {
			return constant.Compare(x.V, token.EQL, y.V), true
		}
		if _, ok := b.(NilV); ok {
			return false, true
		}
	case StrV:
		if y, ok := b.(StrV); ok {
			return x == y, true
		}
	case *Obj:
		if y, ok := b.(*Obj); ok {
			return x == y, true
		}
		if _, ok := b.(NilV); ok {
			return false, true
		}
	case *IRVal:
		if y, ok := b.(*IRVal); ok {
			return x == y, true
		}
		if _, ok := b.(NilV); ok {
			return false, true
		}
	case *IRFuncV:
		if _, ok := b.(NilV); ok {
			return false, true
		}
		if y, ok := b.(*IRFuncV); ok {
			return x.Name == y.Name, true
		}
	case Closure, FuncRef, SliceV, MapV:
		if _, ok := b.(NilV); ok {
			return false, true
		}
	}
	if _, ok := a.(Unk); !ok {
		if _, isNil := b.(NilV); isNil {
			if _, aNil := a.(NilV); !aNil {
				// handled above for known kinds
			}
		}
	}
	return false, false
}

// CallFunc evaluates a repository function with the given receiver and arguments.
func (in *Interp) CallFunc(fi *FuncInfo, recv Val, args []Val) Val {
	if fi == nil || fi.Decl.Body == nil {
		return Unk{"no body"}
	}
	if in.depth >= in.MaxDepth {
		return Unk{"depth"}
	}
	in.depth++
	defer func() { in.depth-- }()
	env := newEnv(nil)
	info := fi.Pkg.TypesInfo
	if fi.Decl.Recv != nil && len(fi.Decl.Recv.List) == 1 && len(fi.Decl.Recv.List[0].Names) == 1 {
		env.define(info.Defs[fi.Decl.Recv.List[0].Names[0]], recv)
	}
	in.bindParams(env, info, fi.Decl.Type, fi.Obj.Type().(*types.Signature), args)
	if in.Defers {
		in.deferred = append(in.deferred, nil)
	}
	c := in.execBlock(fi.Pkg, env, fi.Decl.Body.List)
	if in.Defers {
		ds := in.deferred[len(in.deferred)-1]
		in.deferred = in.deferred[:len(in.deferred)-1]
		rv := in.retVal
		for i := len(ds) - 1; i >= 0; i-- {
			ds[i]()
		}
		in.retVal = rv
	}
	if c == ctlReturn {
		return in.retVal
	}
	if c == ctlAbort {
		return abortV{}
	}
	return TupleV(nil)
}

type abortV struct{}

func (in *Interp) bindParams(env *Env, info *types.Info, ft *ast.FuncType, sig *types.Signature, args []Val) {
	k := 0
	n := sig.Params().Len()
	for _, f := range ft.Params.List {
		names := f.Names
		if len(names) == 0 {
			k++
			continue
		}
		for _, nm := range names {
			var v Val = Unk{"missing arg"}
			if sig.Variadic() && k == n-1 {
				var rest []Val
				if k < len(args) {
					rest = args[k:]
				}
				if len(rest) == 1 {
					if sl, ok := rest[0].(spreadV); ok {
						v = sl.S
					} else {
						v = SliceV{Elems: rest}
					}
				} else {
					v = SliceV{Elems: rest}
				}
			} else if k < len(args) {
				v = args[k]
			}
			env.define(info.Defs[nm], v)
			k++
		}
	}
	// named results start at their zero value
	if ft.Results != nil {
		for _, f := range ft.Results.List {
			for _, nm := range f.Names {
				if o := info.Defs[nm]; o != nil {
					env.define(o, in.zero(o.Type()))
				}
			}
		}
	}
}

type spreadV struct{ S Val }

func (in *Interp) execBlock(pkg *packages.Package, env *Env, stmts []ast.Stmt) ctl {
	for _, s := range stmts {
		if c := in.exec(pkg, env, s); c != ctlNone {
			return c
		}
	}
	return ctlNone
}

func (in *Interp) exec(pkg *packages.Package, env *Env, s ast.Stmt) ctl {
	in.steps++
	if in.steps > 20000 {
		in.Undecided = append(in.Undecided, "step budget")
		return ctlAbort
	}
	info := pkg.TypesInfo
	switch st := s.(type) {
	case *ast.BlockStmt:
		return in.execBlock(pkg, newEnv(env), st.List)
	case *ast.ExprStmt:
		v := in.eval(pkg, env, st.X)
		if _, ok := v.(abortV); ok {
			return ctlAbort
		}
	case *ast.DeclStmt:
		gd := st.Decl.(*ast.GenDecl)
		for _, sp := range gd.Specs {
			vs, ok := sp.(*ast.ValueSpec)
			if !ok {
				continue
			}
			if len(vs.Values) == 1 && len(vs.Names) > 1 {
				v := in.eval(pkg, env, vs.Values[0])
				tv, _ := v.(TupleV)
				for i, n := range vs.Names {
					var x Val = Unk{"tuple"}
					if i < len(tv) {
						x = tv[i]
					}
					env.define(info.Defs[n], x)
				}
				continue
			}
			for i, n := range vs.Names {
				var v Val
				if i < len(vs.Values) {
					v = in.eval(pkg, env, vs.Values[i])
					if _, ok := v.(abortV); ok {
						return ctlAbort
					}
				} else {
					v = in.zero(info.Defs[n].Type())
				}
				env.define(info.Defs[n], v)
			}
		}
	case *ast.AssignStmt:
		return in.assign(pkg, env, st)
	case *ast.IncDecStmt:
		// integer counters with a known value are tracked
		if cv, ok := in.eval(pkg, env, st.X).(ConstV); ok && cv.V != nil && cv.V.Kind() == constant.Int {
			op := token.ADD
			if st.Tok == token.DEC {
				op = token.SUB
			}
			in.store(pkg, env, st.X, ConstV{V: constant.BinaryOp(cv.V, op, constant.MakeInt64(1)), T: cv.T})
		} else {
			in.store(pkg, env, st.X, Unk{"incdec"})
		}
	case *ast.ReturnStmt:
		var vals []Val
		for _, r := range st.Results {
			v := in.eval(pkg, env, r)
			if _, ok := v.(abortV); ok {
				return ctlAbort
			}
			if tv, ok := v.(TupleV); ok && len(st.Results) == 1 {
				vals = append(vals, tv...)
			} else {
				vals = append(vals, v)
			}
		}
		if len(vals) == 1 {
			in.retVal = vals[0]
		} else {
			in.retVal = TupleV(vals)
		}
		return ctlReturn
	case *ast.IfStmt:
		e2 := newEnv(env)
		if st.Init != nil {
			if c := in.exec(pkg, e2, st.Init); c != ctlNone {
				return c
			}
		}
		cv := in.eval(pkg, e2, st.Cond)
		if _, ok := cv.(abortV); ok {
			return ctlAbort
		}
		t, known := truth(cv)
		if !known {
			t = in.decide("if " + in.L.Src(st.Cond))
		}
		if t {
			return in.execBlock(pkg, newEnv(e2), st.Body.List)
		}
		if st.Else != nil {
			return in.exec(pkg, e2, st.Else)
		}
	case *ast.SwitchStmt:
		return in.execSwitch(pkg, env, st)
	case *ast.TypeSwitchStmt:
		return in.execTypeSwitch(pkg, env, st)
	case *ast.RangeStmt:
		xv := in.eval(pkg, env, st.X)
		if mv, isMap := xv.(MapV); isMap {
			mv = mv.D()
			for i := range mv.Keys {
				e2 := newEnv(env)
				if id, ok := st.Key.(*ast.Ident); ok && id.Name != "_" {
					if o := info.Defs[id]; o != nil {
						e2.define(o, mv.Keys[i])
					}
				}
				if st.Value != nil {
					if id, ok := st.Value.(*ast.Ident); ok && id.Name != "_" {
						if o := info.Defs[id]; o != nil {
							e2.define(o, mv.Vals[i])
						}
					}
				}
				c := in.execBlock(pkg, e2, st.Body.List)
				if c == ctlBreak {
					return ctlNone
				}
				if c == ctlReturn || c == ctlAbort {
					return c
				}
			}
			return ctlNone
		}
		if _, isNil := xv.(NilV); isNil {
			return ctlNone // ranging over a nil slice or map: no iteration
		}
		sl, ok := xv.(SliceV)
		if !ok {
			// unknown collection: the body may run any number of times; evaluate it once under a fork, effects only
			if in.decide("range " + in.L.Src(st.X)) {
				e2 := newEnv(env)
				if id, ok := st.Key.(*ast.Ident); ok && id.Name != "_" && info.Defs[id] != nil {
					e2.define(info.Defs[id], Unk{"range key"})
				}
				if id, ok := st.Value.(*ast.Ident); ok && id.Name != "_" && info.Defs[id] != nil {
					e2.define(info.Defs[id], Unk{"range value"})
				}
				c := in.execBlock(pkg, e2, st.Body.List)
				if c == ctlReturn || c == ctlAbort {
					return c
				}
			}
			return ctlNone
		}
		for i, el := range sl.Elems {
			e2 := newEnv(env)
			if id, ok := st.Key.(*ast.Ident); ok && id.Name != "_" {
				if o := info.Defs[id]; o != nil {
					e2.define(o, ConstV{V: constant.MakeInt64(int64(i)), T: types.Typ[types.Int]})
				}
			}
			if st.Value != nil {
				if id, ok := st.Value.(*ast.Ident); ok && id.Name != "_" {
					if o := info.Defs[id]; o != nil {
						e2.define(o, el)
					}
				}
			}
			c := in.execBlock(pkg, e2, st.Body.List)
			switch c {
			case ctlBreak:
				return ctlNone
			case ctlReturn, ctlAbort:
				return c
			}
		}
	case *ast.ForStmt:
		// bounded unrolling while the condition folds
		e2 := newEnv(env)
		if st.Init != nil {
			in.exec(pkg, e2, st.Init)
		}
		for iter := 0; iter < 64; iter++ {
			if st.Cond != nil {
				cv := in.eval(pkg, e2, st.Cond)
				t, known := truth(cv)
				if !known {
					if iter > 0 {
						return ctlNone
					}
					t = in.decide("for " + in.L.Src(st.Cond))
				}
				if !t {
					return ctlNone
				}
			}
			c := in.execBlock(pkg, newEnv(e2), st.Body.List)
			switch c {
			case ctlBreak:
				return ctlNone
			case ctlReturn, ctlAbort:
				return c
			}
			if st.Post != nil {
				in.exec(pkg, e2, st.Post)
			}
			if st.Cond == nil && iter > 8 {
				in.Undecided = append(in.Undecided, "unbounded for")
				return ctlNone
			}
		}
	case *ast.BranchStmt:
		switch st.Tok {
		case token.BREAK:
			return ctlBreak
		case token.CONTINUE:
			return ctlContinue
		case token.FALLTHROUGH:
			return ctlFallthrough
		}
	case *ast.DeferStmt:
		if in.Defers && len(in.deferred) > 0 {
			call := st.Call
			// the function value and the arguments are evaluated now, the call happens at return
			if fl, ok := ast.Unparen(call.Fun).(*ast.FuncLit); ok && len(call.Args) == 0 {
				cl := Closure{Lit: fl, Env: env, Pkg: pkg}
				in.deferred[len(in.deferred)-1] = append(in.deferred[len(in.deferred)-1], func() { in.callClosure(cl, nil) })
			} else {
				in.deferred[len(in.deferred)-1] = append(in.deferred[len(in.deferred)-1], func() { in.evalCall(pkg, env, call) })
			}
		}
	case *ast.GoStmt, *ast.EmptyStmt:
	case *ast.LabeledStmt:
		return in.exec(pkg, env, st.Stmt)
	default:
		in.Undecided = append(in.Undecided, fmt.Sprintf("stmt %T", s))
	}
	return ctlNone
}

func (in *Interp) execSwitch(pkg *packages.Package, env *Env, st *ast.SwitchStmt) ctl {
	e2 := newEnv(env)
	if st.Init != nil {
		if c := in.exec(pkg, e2, st.Init); c != ctlNone {
			return c
		}
	}
	var tag Val
	if st.Tag != nil {
		tag = in.eval(pkg, e2, st.Tag)
		if _, ok := tag.(abortV); ok {
			return ctlAbort
		}
	}
	clauses := st.Body.List
	match := -1
	var dflt = -1
outer:
	for i, cl := range clauses {
		cc := cl.(*ast.CaseClause)
		if cc.List == nil {
			dflt = i
			continue
		}
		for _, e := range cc.List {
			cv := in.eval(pkg, e2, e)
			var t, known bool
			if st.Tag != nil {
				t, known = eqVal(tag, cv)
				if !known {
					t, known = eqVal(cv, tag)
				}
			} else {
				t, known = truth(cv)
			}
			if !known {
				t = in.decide("case " + in.L.Src(e))
			}
			if t {
				match = i
				break outer
			}
		}
	}
	if match < 0 {
		match = dflt
	}
	for match >= 0 && match < len(clauses) {
		c := in.execBlock(pkg, newEnv(e2), clauses[match].(*ast.CaseClause).Body)
		switch c {
		case ctlBreak:
			return ctlNone
		case ctlFallthrough:
			match++
			continue
		}
		return c
	}
	return ctlNone
}

func (in *Interp) execTypeSwitch(pkg *packages.Package, env *Env, st *ast.TypeSwitchStmt) ctl {
	info := pkg.TypesInfo
	e2 := newEnv(env)
	if st.Init != nil {
		in.exec(pkg, e2, st.Init)
	}
	var x ast.Expr
	var bind *ast.Ident
	switch a := st.Assign.(type) {
	case *ast.ExprStmt:
		x = a.X.(*ast.TypeAssertExpr).X
	case *ast.AssignStmt:
		x = a.Rhs[0].(*ast.TypeAssertExpr).X
		bind, _ = a.Lhs[0].(*ast.Ident)
	}
	v := in.eval(pkg, e2, x)
	match, dflt := -1, -1
outer:
	for i, cl := range st.Body.List {
		cc := cl.(*ast.CaseClause)
		if cc.List == nil {
			dflt = i
			continue
		}
		for _, te := range cc.List {
			t, known := in.hasDynType(v, info.TypeOf(te), info.Types[te].IsNil())
			if !known {
				t = in.decide("type case " + in.L.Src(te))
			}
			if t {
				match = i
				break outer
			}
		}
	}
	if match < 0 {
		match = dflt
	}
	if match < 0 {
		return ctlNone
	}
	cc := st.Body.List[match].(*ast.CaseClause)
	e3 := newEnv(e2)
	if bind != nil {
		if o := info.Implicits[cc]; o != nil {
			e3.define(o, v)
		}
	}
	c := in.execBlock(pkg, e3, cc.Body)
	if c == ctlBreak {
		return ctlNone
	}
	return c
}

// hasDynType: does abstract value v have the given dynamic (asserted) Go type?
func (in *Interp) hasDynType(v Val, t types.Type, isNilCase bool) (bool, bool) {
	if isNilCase {
		_, isNil := v.(NilV)
		if isUnk(v) {
			return false, false
		}
		return isNil, true
	}
	name := types.TypeString(t, func(p *types.Package) string { return p.Name() })
	switch x := v.(type) {
	case TypeV:
		m := map[string]string{"ddptypes.PrimitiveType": "PRIM", "ddptypes.ListType": "LIST", "*ddptypes.StructType": "STRUCT", "*ddptypes.TypeDef": "TYPEDEF",
			"*ddptypes.TypeAlias": "ALIAS", "ddptypes.Variable": "VARIABLE", "ddptypes.VoidType": "VOID", "ddptypes.GenericType": "GENERIC",
			"*ddptypes.GenericStructType": "GENERICSTRUCT", "*ddptypes.InstantiatedGenericType": "INSTANTIATED"}
		k, ok := m[name]
		if !ok {
			if name == "ddptypes.Type" {
				return true, true
			}
			return false, false
		}
		if k == "PRIM" {
			return dtPrims[x.T.Kind], true
		}
		return x.T.Kind == k, true
	case *GenT:
		m := map[string][]string{"*compiler.ddpIrListType": {"list"}, "*compiler.ddpIrStructType": {"struct"}, "*compiler.ddpIrPrimitiveType": {"int", "float", "byte", "bool", "char"},
			"*compiler.ddpIrStringType": {"string"}, "*compiler.ddpIrAnyType": {"any"}, "*compiler.ddpIrVoidType": {"void"}}
		ks, ok := m[name]
		if !ok {
			return false, false
		}
		for _, k := range ks {
			if x.Kind == k {
				return true, true
			}
		}
		return false, true
	case *Obj:
		if strings.HasPrefix(x.Kind, "ast.") {
			if "*"+x.Kind == name {
				return true, true
			}
			if iface, ok := t.Underlying().(*types.Interface); ok {
				if ap := in.L.ByRel["src/ast"]; ap != nil {
					if o := ap.Types.Scope().Lookup(strings.TrimPrefix(x.Kind, "ast.")); o != nil {
						return types.Implements(types.NewPointer(o.Type()), iface), true
					}
				}
			}
			return false, true
		}
	case NilV:
		return false, true
	}
	return false, false
}

func (in *Interp) assign(pkg *packages.Package, env *Env, st *ast.AssignStmt) ctl {
	info := pkg.TypesInfo
	var vals []Val
	if len(st.Rhs) == 1 && len(st.Lhs) > 1 {
		v := in.eval(pkg, env, st.Rhs[0])
		if _, ok := v.(abortV); ok {
			return ctlAbort
		}
		if tv, ok := v.(TupleV); ok {
			vals = tv
		}
		for len(vals) < len(st.Lhs) {
			vals = append(vals, Unk{"tuple"})
		}
	} else {
		for _, r := range st.Rhs {
			v := in.eval(pkg, env, r)
			if _, ok := v.(abortV); ok {
				return ctlAbort
			}
			vals = append(vals, v)
		}
	}
	if st.Tok != token.ASSIGN && st.Tok != token.DEFINE {
		// compound assignment: value not tracked
		for _, l := range st.Lhs {
			in.store(pkg, env, l, Unk{"compound"})
		}
		return ctlNone
	}
	for i, l := range st.Lhs {
		if id, ok := l.(*ast.Ident); ok {
			if id.Name == "_" {
				continue
			}
			if st.Tok == token.DEFINE {
				if o := info.Defs[id]; o != nil {
					env.define(o, vals[i])
					continue
				}
			}
		}
		in.store(pkg, env, l, vals[i])
	}
	return ctlNone
}

func (in *Interp) store(pkg *packages.Package, env *Env, l ast.Expr, v Val) {
	info := pkg.TypesInfo
	switch x := ast.Unparen(l).(type) {
	case *ast.Ident:
		o := info.Uses[x]
		if o == nil {
			o = info.Defs[x]
		}
		if p := env.lookup(o); p != nil {
			*p = v
		} else if o != nil {
			nv := v
			in.pkgVars[o] = &nv
		}
	case *ast.SelectorExpr:
		base := in.eval(pkg, env, x.X)
		if o, ok := base.(*Obj); ok {
			o.set(selName(info, x), v)
		}
	case *ast.StarExpr:
		if in.Pointers {
			if o, ok := in.eval(pkg, env, x.X).(*Obj); ok && o.Kind == "ptr" {
				o.set("*", v)
				return
			}
		}
		in.store(pkg, env, x.X, v)
	case *ast.IndexExpr:
		// writes into a known map are tracked (the map value is rebuilt and stored back into its holder); other element writes are not
		if mv, ok := in.eval(pkg, env, x.X).(MapV); ok {
			k := in.eval(pkg, env, x.Index)
			if mv.Ref != nil {
				// reference map: update the shared storage in place
				st := mv.Ref
				for i, kk := range st.Keys {
					if t, known := eqVal(kk, k); known && t {
						st.Vals[i] = v
						return
					}
				}
				st.Keys = append(st.Keys, k)
				st.Vals = append(st.Vals, v)
				return
			}
			nm := MapV{Keys: append([]Val{}, mv.Keys...), Vals: append([]Val{}, mv.Vals...), Exact: mv.Exact}
			found := false
			for i, kk := range nm.Keys {
				if t, known := eqVal(kk, k); known && t {
					nm.Vals[i] = v
					found = true
				}
			}
			if !found {
				nm.Keys = append(nm.Keys, k)
				nm.Vals = append(nm.Vals, v)
			}
			in.store(pkg, env, x.X, nm)
		}
	}
}

func (in *Interp) zero(t types.Type) Val {
	switch u := t.Underlying().(type) {
	case *types.Basic:
		switch {
		case u.Info()&types.IsBoolean != 0:
			return boolV(false)
		case u.Info()&types.IsInteger != 0:
			return ConstV{V: constant.MakeInt64(0), T: t}
		case u.Info()&types.IsString != 0:
			return StrV("")
		}
	case *types.Pointer, *types.Interface, *types.Slice, *types.Map, *types.Signature:
		return NilV{}
	}
	return Unk{"zero " + t.String()}
}

func (in *Interp) eval(pkg *packages.Package, env *Env, e ast.Expr) Val {
	info := pkg.TypesInfo
	// typed constants fold directly
	if tv, ok := info.Types[e]; ok && tv.Value != nil {
		name := ""
		switch x := ast.Unparen(e).(type) {
		case *ast.Ident:
			name = x.Name
		case *ast.SelectorExpr:
			name = x.Sel.Name
		}
		if tv.Value.Kind() == constant.String {
			return StrV(constant.StringVal(tv.Value))
		}
		cv := ConstV{V: tv.Value, T: tv.Type, Name: name}
		if nt, ok := tv.Type.(*types.Named); ok && nameIs(nt.Obj(), "PrimitiveType") && nameIs(nt.Obj().Pkg(), "ddptypes") {
			return TypeV{&DT{Kind: name}}
		}
		return cv
	}
	switch x := e.(type) {
	case *ast.ParenExpr:
		return in.eval(pkg, env, x.X)
	case *ast.Ident:
		switch x.Name {
		case "nil":
			if _, ok := info.Uses[x].(*types.Nil); ok {
				return NilV{}
			}
		case "true", "false":
			if _, ok := info.Uses[x].(*types.Const); ok {
				return boolV(x.Name == "true")
			}
		}
		o := info.Uses[x]
		if o == nil {
			o = info.Defs[x]
		}
		if p := env.lookup(o); p != nil {
			return *p
		}
		return in.pkgLevel(o)
	case *ast.BasicLit:
		return Unk{"lit"}
	case *ast.FuncLit:
		return Closure{Lit: x, Env: env, Pkg: pkg}
	case *ast.CompositeLit:
		return in.evalComposite(pkg, env, x)
	case *ast.SelectorExpr:
		if sel, ok := info.Selections[x]; ok {
			base := in.eval(pkg, env, x.X)
			if sel.Kind() == types.FieldVal {
				return in.field(base, selName(info, x), sel)
			}
			// method value
			fn, _ := sel.Obj().(*types.Func)
			return FuncRef{Fi: in.L.Funcs[fn.Origin()], Recv: base, Fn: fn.Origin()}
		}
		// package-qualified
		return in.pkgLevel(info.Uses[x.Sel])
	case *ast.StarExpr:
		pv := in.eval(pkg, env, x.X)
		if in.Pointers {
			if o, ok := pv.(*Obj); ok && o.Kind == "ptr" {
				return o.get("*")
			}
		}
		return pv
	case *ast.UnaryExpr:
		switch x.Op {
		case token.AND:
			return in.eval(pkg, env, x.X)
		case token.NOT:
			v := in.eval(pkg, env, x.X)
			if t, ok := truth(v); ok {
				return boolV(!t)
			}
			if _, ok := v.(abortV); ok {
				return v
			}
			return Unk{"!"}
		}
		return Unk{"unary"}
	case *ast.BinaryExpr:
		return in.evalBinary(pkg, env, x)
	case *ast.CallExpr:
		return in.evalCall(pkg, env, x)
	case *ast.TypeAssertExpr:
		v := in.eval(pkg, env, x.X)
		if x.Type == nil {
			return v
		}
		t, known := in.hasDynType(v, info.TypeOf(x.Type), false)
		// comma-ok or single form is decided by the context (assign with 2 lhs gets a tuple)
		if tv, isTuple := info.Types[e].Type.(*types.Tuple); isTuple && tv.Len() == 2 {
			if !known {
				t = in.decide("assert " + in.L.Src(x))
			}
			if t {
				return TupleV{v, boolV(true)}
			}
			return TupleV{Unk{"failed assertion"}, boolV(false)}
		}
		if known && !t {
			in.event("panic", "type assertion "+in.L.Src(x)+" fails", x.Pos())
			return abortV{}
		}
		return v
	case *ast.IndexExpr:
		base := in.eval(pkg, env, x.X)
		idx := in.eval(pkg, env, x.Index)
		if sl, ok := base.(SliceV); ok {
			if c, ok := idx.(ConstV); ok && c.V != nil && c.V.Kind() == constant.Int {
				if i, ok := constant.Int64Val(c.V); ok && int(i) < len(sl.Elems) && i >= 0 {
					return sl.Elems[i]
				}
			}
		}
		if mv, ok := base.(MapV); ok {
			mv = mv.D()
			commaOk := false
			if tv, isTuple := info.Types[e].Type.(*types.Tuple); isTuple && tv.Len() == 2 {
				commaOk = true
			}
			allKnown := true
			for i, k := range mv.Keys {
				t, known := eqVal(k, idx)
				if known && t {
					if commaOk {
						return TupleV{mv.Vals[i], boolV(true)}
					}
					return mv.Vals[i]
				}
				if !known {
					allKnown = false
				}
			}
			if mv.Exact && allKnown {
				if mt, ok := info.TypeOf(x.X).Underlying().(*types.Map); ok {
					if commaOk {
						return TupleV{in.zero(mt.Elem()), boolV(false)}
					}
					return in.zero(mt.Elem())
				}
			}
			if commaOk {
				if _, isStr := idx.(StrV); isStr {
					return TupleV{Unk{"map miss"}, boolV(false)}
				}
				return TupleV{Unk{"map miss"}, Unk{"map miss"}}
			}
			return Unk{"map miss"}
		}
		// lookup in a nil map yields the zero value
		if _, isNil := base.(NilV); isNil {
			if mt, ok := info.TypeOf(x.X).Underlying().(*types.Map); ok {
				if tv, isTuple := info.Types[e].Type.(*types.Tuple); isTuple && tv.Len() == 2 {
					return TupleV{in.zero(mt.Elem()), boolV(false)}
				}
				return in.zero(mt.Elem())
			}
		}
		// c.functions["pow"] etc.
		if s, ok := idx.(StrV); ok {
			if sel, ok := ast.Unparen(x.X).(*ast.SelectorExpr); ok && sel.Sel.Name == "functions" {
				o := newObj("funcWrapper")
				o.set("irFunc", &IRFuncV{Name: string(s)})
				return o
			}
		}
		return Unk{"index"}
	case *ast.SliceExpr:
		if sl, ok := in.eval(pkg, env, x.X).(SliceV); ok {
			lo, hi := 0, len(sl.Elems)
			get := func(e ast.Expr, def int) int {
				if e == nil {
					return def
				}
				if c, ok := in.eval(pkg, env, e).(ConstV); ok && c.V != nil {
					if i, ok := constant.Int64Val(c.V); ok {
						return int(i)
					}
				}
				return -1
			}
			lo, hi = get(x.Low, lo), get(x.High, hi)
			if lo >= 0 && hi >= lo && hi <= len(sl.Elems) {
				return SliceV{Elems: sl.Elems[lo:hi]}
			}
		}
		return Unk{"slice"}
	case *ast.KeyValueExpr:
		return in.eval(pkg, env, x.Value)
	}
	return Unk{fmt.Sprintf("%T", e)}
}

func (in *Interp) evalBinary(pkg *packages.Package, env *Env, x *ast.BinaryExpr) Val {
	switch x.Op {
	case token.LAND, token.LOR:
		l := in.eval(pkg, env, x.X)
		if _, ok := l.(abortV); ok {
			return l
		}
		lt, lk := truth(l)
		if lk {
			if x.Op == token.LAND && !lt {
				return boolV(false)
			}
			if x.Op == token.LOR && lt {
				return boolV(true)
			}
			return in.boolOrUnk(in.eval(pkg, env, x.Y))
		}
		// left unknown: fork on it to keep short-circuit semantics exact
		lt = in.decide("cond " + in.L.Src(x.X))
		if x.Op == token.LAND && !lt {
			return boolV(false)
		}
		if x.Op == token.LOR && lt {
			return boolV(true)
		}
		return in.boolOrUnk(in.eval(pkg, env, x.Y))
	case token.EQL, token.NEQ:
		l := in.eval(pkg, env, x.X)
		r := in.eval(pkg, env, x.Y)
		t, known := eqVal(l, r)
		if !known {
			t, known = eqVal(r, l)
		}
		if known {
			return boolV(t == (x.Op == token.EQL))
		}
		return Unk{"=="}
	}
	l := in.eval(pkg, env, x.X)
	r := in.eval(pkg, env, x.Y)
	if a, ok := l.(ConstV); ok {
		if b, ok := r.(ConstV); ok && a.V != nil && b.V != nil {
			switch x.Op {
			case token.LSS, token.GTR, token.LEQ, token.GEQ:
				return boolV(constant.Compare(a.V, x.Op, b.V))
			case token.ADD, token.SUB, token.MUL:
				if a.V.Kind() == constant.Int && b.V.Kind() == constant.Int {
					return ConstV{V: constant.BinaryOp(a.V, x.Op, b.V), T: a.T}
				}
			}
		}
	}
	if a, ok := l.(StrV); ok {
		if b, ok := r.(StrV); ok {
			switch x.Op {
			case token.LSS:
				return boolV(a < b)
			case token.GTR:
				return boolV(a > b)
			case token.LEQ:
				return boolV(a <= b)
			case token.GEQ:
				return boolV(a >= b)
			}
		}
	}
	return Unk{"binop " + x.Op.String()}
}

func (in *Interp) boolOrUnk(v Val) Val {
	if _, ok := truth(v); ok {
		return v
	}
	if _, ok := v.(abortV); ok {
		return v
	}
	return Unk{"bool"}
}

func (in *Interp) evalComposite(pkg *packages.Package, env *Env, x *ast.CompositeLit) Val {
	info := pkg.TypesInfo
	t := info.TypeOf(x)
	name := types.TypeString(t, func(p *types.Package) string { return p.Name() })
	switch name {
	case "ddptypes.VoidType":
		return TypeV{&DT{Kind: "VOID"}}
	case "ddptypes.ListType":
		var el Val = Unk{"elem"}
		for _, e := range x.Elts {
			el = in.eval(pkg, env, e)
		}
		if tv, ok := el.(TypeV); ok {
			return TypeV{&DT{Kind: "LIST", Elem: tv.T}}
		}
		return Unk{"list type of unknown element"}
	}
	switch u := t.Underlying().(type) {
	case *types.Slice, *types.Array:
		var els []Val
		for _, e := range x.Elts {
			els = append(els, in.eval(pkg, env, e))
		}
		return SliceV{Elems: els}
	case *types.Struct:
		o := newObj(name)
		for i, e := range x.Elts {
			if kv, ok := e.(*ast.KeyValueExpr); ok {
				kid := kv.Key.(*ast.Ident)
				kname := kid.Name
				if fv, ok := info.Uses[kid].(*types.Var); ok {
					kname = canonName(fv)
				}
				o.set(kname, in.eval(pkg, env, kv.Value))
			} else if i < u.NumFields() {
				o.set(canonName(u.Field(i)), in.eval(pkg, env, e))
			}
		}
		return o
	}
	return Unk{"composite " + name}
}

func (in *Interp) field(base Val, name string, sel *types.Selection) Val {
	switch b := base.(type) {
	case *Obj:
		if p, ok := b.F[name]; ok {
			return *p
		}
		if in.FieldFallback != nil && sel != nil {
			if v, ok := in.FieldFallback(b, name, sel.Type()); ok {
				return v
			}
		}
		return Unk{"field " + b.Kind + "." + name}
	case TypeV:
		switch name {
		case "ElementType":
			if b.T.Elem != nil {
				return TypeV{b.T.Elem}
			}
		case "Underlying":
			if b.T.Base != nil {
				return TypeV{b.T.Base}
			}
		}
	case *GenT:
		switch name {
		case "elementType":
			if b.Elem != nil {
				return b.Elem
			}
		case "typ", "ptr", "llType":
			return &IRTy{Name: "type(" + b.String() + ")"}
		case "listType":
			return &GenT{Kind: "list", Elem: b}
		case "fieldIrTypes":
			if b.Fields != nil {
				sv := SliceV{}
				for _, f := range b.Fields {
					sv.Elems = append(sv.Elems, f)
				}
				return sv
			}
			return Unk{"struct fields"}
		case "fieldDDPTypes", "name":
			return Unk{"struct fields"}
		}
		if _, ok := sel.Type().(*types.Pointer); ok && strings.Contains(sel.Type().String(), "ir.Func") {
			return &IRFuncV{Name: b.String() + "." + name}
		}
		return Unk{"field of generator type " + name}
	case TupleV, SliceV:
	}
	return Unk{"field " + name}
}

func (in *Interp) pkgLevel(o types.Object) Val {
	if o == nil {
		return Unk{"nil object"}
	}
	if p, ok := in.pkgVars[o]; ok {
		return *p
	}
	switch x := o.(type) {
	case *types.Const:
		name := x.Name()
		if nt, ok := x.Type().(*types.Named); ok && nameIs(nt.Obj(), "PrimitiveType") && nameIs(nt.Obj().Pkg(), "ddptypes") {
			return TypeV{&DT{Kind: name}}
		}
		return ConstV{V: x.Val(), T: x.Type(), Name: name}
	case *types.Func:
		return FuncRef{Fi: in.L.Funcs[x.Origin()], Fn: x.Origin()}
	case *types.Var:
		if x.Pkg() == nil {
			return Unk{"universe"}
		}
		q := x.Pkg().Name() + "." + x.Name()
		switch q {
		case "ddptypes.VARIABLE":
			return TypeV{&DT{Kind: "VARIABLE"}}
		case "compiler.i8", "compiler.ddpbyte":
			return &IRTy{"i8"}
		case "compiler.i32", "compiler.ddpchar":
			return &IRTy{"i32"}
		case "compiler.i64", "compiler.ddpint":
			return &IRTy{"i64"}
		case "compiler.ddpfloat":
			return &IRTy{"double"}
		case "compiler.ddpbool":
			return &IRTy{"i1"}
		case "compiler.i8ptr":
			return &IRTy{"ptr"}
		case "compiler.zero", "compiler.zero8":
			z := int64(0)
			return &IRVal{Op: "const", Class: "int-const", K: &z}
		case "compiler.all_ones", "compiler.all_ones8":
			m := int64(-1)
			return &IRVal{Op: "const", Class: "int-const", K: &m}
		case "compiler.zerof":
			return &IRVal{Op: "const", Class: "double"}
		case "types.I1":
			return &IRTy{"i1"}
		case "types.I8":
			return &IRTy{"i8"}
		case "types.I32":
			return &IRTy{"i32"}
		case "types.I64":
			return &IRTy{"i64"}
		case "types.Double":
			return &IRTy{"double"}
		case "types.Void":
			return &IRTy{"void"}
		}
		return Unk{"package var " + q}
	}
	return Unk{"object " + o.Name()}
}

func (in *Interp) evalCall(pkg *packages.Package, env *Env, call *ast.CallExpr) Val {
	info := pkg.TypesInfo
	// conversions
	if tv, ok := info.Types[call.Fun]; ok && tv.IsType() && len(call.Args) == 1 {
		return in.eval(pkg, env, call.Args[0])
	}
	// builtins
	if id, ok := ast.Unparen(call.Fun).(*ast.Ident); ok {
		if _, isB := info.Uses[id].(*types.Builtin); isB {
			switch id.Name {
			case "panic":
				for _, a := range call.Args {
					in.eval(pkg, env, a)
				}
				in.event("panic", in.L.Src(call), call.Pos())
				return abortV{}
			case "len":
				v := in.eval(pkg, env, call.Args[0])
				if sl, ok := v.(SliceV); ok {
					return ConstV{V: constant.MakeInt64(int64(len(sl.Elems))), T: types.Typ[types.Int]}
				}
				if _, isNil := v.(NilV); isNil {
					return ConstV{V: constant.MakeInt64(0), T: types.Typ[types.Int]}
				}
				if mv, ok := v.(MapV); ok && mv.D().Exact {
					return ConstV{V: constant.MakeInt64(int64(len(mv.D().Keys))), T: types.Typ[types.Int]}
				}
				return Unk{"len"}
			case "append":
				base := in.eval(pkg, env, call.Args[0])
				sl, _ := base.(SliceV)
				out := SliceV{Elems: append([]Val{}, sl.Elems...)}
				for _, a := range call.Args[1:] {
					out.Elems = append(out.Elems, in.eval(pkg, env, a))
				}
				if _, ok := base.(SliceV); !ok {
					if _, isNil := base.(NilV); !isNil {
						return Unk{"append to unknown"}
					}
				}
				return out
			case "make", "new":
				if id.Name == "make" {
					if t := info.TypeOf(call.Args[0]); t != nil {
						if _, isSlice := t.Underlying().(*types.Slice); isSlice {
							return SliceV{}
						}
						if _, isMap := t.Underlying().(*types.Map); isMap {
							if in.RefMaps {
								return MapV{Ref: &MapV{Exact: true}}
							}
							return MapV{}
						}
					}
				}
				return Unk{id.Name}
			}
			for _, a := range call.Args {
				in.eval(pkg, env, a)
			}
			return Unk{"builtin " + id.Name}
		}
	}
	// evaluate receiver and args
	var recv Val
	var fn *types.Func
	var fv Val
	fun := ast.Unparen(call.Fun)
	if ix, ok := fun.(*ast.IndexExpr); ok { // generic instantiation
		fun = ix.X
	}
	if sel, ok := fun.(*ast.SelectorExpr); ok {
		if s, ok := info.Selections[sel]; ok {
			if f, ok := s.Obj().(*types.Func); ok {
				fn = f.Origin()
				recv = in.eval(pkg, env, sel.X)
				if _, ok := recv.(abortV); ok {
					return recv
				}
			} else {
				fv = in.eval(pkg, env, sel) // field holding a func value
			}
		} else if f, ok := info.Uses[sel.Sel].(*types.Func); ok {
			fn = f.Origin()
		} else {
			fv = in.eval(pkg, env, sel)
		}
	} else if id, ok := fun.(*ast.Ident); ok {
		if f, ok := info.Uses[id].(*types.Func); ok {
			fn = f.Origin()
		} else {
			fv = in.eval(pkg, env, id)
		}
	} else {
		fv = in.eval(pkg, env, fun)
	}
	var args []Val
	for i, a := range call.Args {
		v := in.eval(pkg, env, a)
		if _, ok := v.(abortV); ok {
			return v
		}
		if call.Ellipsis.IsValid() && i == len(call.Args)-1 {
			v = spreadV{v}
		}
		if tv, ok := v.(TupleV); ok && len(call.Args) == 1 {
			args = append(args, tv...)
		} else {
			args = append(args, v)
		}
	}
	if fn == nil {
		switch f := fv.(type) {
		case Closure:
			return in.callClosure(f, args)
		case FuncRef:
			fn, recv = f.Fn, f.Recv
		case NativeV:
			return f.F(args)
		case NilV:
			in.event("panic", "call of nil function "+in.L.Src(call.Fun), call.Pos())
			return abortV{}
		default:
			return Unk{"dynamic call " + in.L.Src(call.Fun)}
		}
	}
	q := in.L.QName(fn)
	if m, ok := in.Models[q]; ok {
		if v, handled := m(in, pkg, call, recv, args); handled {
			return v
		}
	}
	// llir builder
	if fn.Pkg() != nil && strings.HasPrefix(fn.Pkg().Path(), "github.com/llir/llvm/ir") {
		return in.builderCall(fn, call, recv, args)
	}
	// interface method on abstract generator type
	if g, ok := recv.(*GenT); ok {
		return in.genTMethod(g, fn.Name())
	}
	if fi := in.L.Funcs[fn]; fi != nil && strings.HasPrefix(fn.Pkg().Path(), modPath) {
		return in.CallFunc(fi, recv, args)
	}
	if in.CallFallback != nil {
		if v, ok := in.CallFallback(fn, recv, args, info.TypeOf(call)); ok {
			return v
		}
	}
	return Unk{"call " + q}
}

func (in *Interp) callClosure(f Closure, args []Val) Val {
	if in.depth >= in.MaxDepth+4 {
		return Unk{"closure depth"}
	}
	in.depth++
	defer func() { in.depth-- }()
	env := newEnv(f.Env)
	sig := f.Pkg.TypesInfo.TypeOf(f.Lit).(*types.Signature)
	in.bindParams(env, f.Pkg.TypesInfo, f.Lit.Type, sig, args)
	c := in.execBlock(f.Pkg, env, f.Lit.Body.List)
	if c == ctlReturn {
		return in.retVal
	}
	if c == ctlAbort {
		return abortV{}
	}
	return TupleV(nil)
}

func (in *Interp) genTMethod(g *GenT, name string) Val {
	switch name {
	case "IsPrimitive":
		return boolV(g.prim())
	case "PtrType":
		return &IRTy{Name: "ptr"}
	case "IrType", "LLVMType":
		return &IRTy{Name: "type(" + g.String() + ")"}
	case "Name":
		return StrV(g.String())
	case "DefaultValue", "VTable":
		return &IRVal{Op: name, Class: "?", Src: g.String()}
	case "FreeFunc", "DeepCopyFunc", "EqualsFunc":
		if g.prim() {
			return NilV{}
		}
		return &IRFuncV{Name: g.String() + "." + name}
	}
	return Unk{"method " + name}
}

func asIR(v Val) *IRVal {
	switch x := v.(type) {
	case *IRVal:
		return x
	case NilV:
		return &IRVal{Op: "nil", Class: "?"}
	}
	return &IRVal{Op: "unknown", Class: "?"}
}

func tyClass(v Val) string {
	if t, ok := v.(*IRTy); ok {
		switch t.Name {
		case "i1", "i8", "i32", "i64", "double", "ptr", "void":
			return t.Name
		}
		if strings.HasPrefix(t.Name, "type(") {
			inner := strings.TrimSuffix(strings.TrimPrefix(t.Name, "type("), ")")
			g := &GenT{Kind: inner}
			if c := g.irClass(); c != "ptr" {
				return c
			}
			return "agg"
		}
	}
	return "?"
}

// builderCall models the llir API: result class, and typing faults LLVM would reject.
func (in *Interp) builderCall(fn *types.Func, call *ast.CallExpr, recv Val, args []Val) Val {
	name := fn.Name()
	pos := call.Pos()
	intLike := func(c string) bool { return c == "i1" || c == "i8" || c == "i32" || c == "i64" || c == "int-const" }
	same := func(a, b *IRVal) bool {
		if a.Class == "?" || b.Class == "?" {
			return true
		}
		if a.Class == "int-const" {
			return intLike(b.Class)
		}
		if b.Class == "int-const" {
			return intLike(a.Class)
		}
		return a.Class == b.Class
	}
	pick := func(a, b *IRVal) string {
		if a.Class == "int-const" || a.Class == "?" {
			return b.Class
		}
		return a.Class
	}
	switch name {
	case "NewAdd", "NewSub", "NewMul", "NewAnd", "NewOr", "NewXor", "NewShl", "NewLShr", "NewAShr", "NewURem", "NewSRem", "NewUDiv", "NewSDiv":
		a, b := asIR(args[0]), asIR(args[1])
		if !same(a, b) {
			in.event("fault", fmt.Sprintf("%s on operands of different IR types (%s, %s)", strings.TrimPrefix(name, "New"), a.Class, b.Class), pos)
		}
		if (a.Class == "double" || b.Class == "double") && same(a, b) {
			in.event("fault", strings.TrimPrefix(name, "New")+" on floating point operands", pos)
		}
		return &IRVal{Op: strings.ToLower(strings.TrimPrefix(name, "New")), Args: []*IRVal{a, b}, Class: pick(a, b)}
	case "NewFAdd", "NewFSub", "NewFMul", "NewFDiv", "NewFRem":
		a, b := asIR(args[0]), asIR(args[1])
		for _, x := range []*IRVal{a, b} {
			if x.Class != "double" && x.Class != "?" {
				in.event("fault", strings.TrimPrefix(name, "New")+" on a non-floating-point operand ("+x.Class+")", pos)
			}
		}
		return &IRVal{Op: strings.ToLower(strings.TrimPrefix(name, "New")), Args: []*IRVal{a, b}, Class: "double"}
	case "NewFNeg":
		a := asIR(args[0])
		if a.Class != "double" && a.Class != "?" {
			in.event("fault", "FNeg on "+a.Class, pos)
		}
		return &IRVal{Op: "fneg", Args: []*IRVal{a}, Class: "double"}
	case "NewICmp", "NewFCmp":
		pred := ""
		if c, ok := args[0].(ConstV); ok {
			pred = c.Name
		}
		a, b := asIR(args[1]), asIR(args[2])
		if !same(a, b) {
			in.event("fault", fmt.Sprintf("%s %s on operands of different IR types (%s, %s)", strings.TrimPrefix(name, "New"), pred, a.Class, b.Class), pos)
		}
		if name == "NewFCmp" {
			for _, x := range []*IRVal{a, b} {
				if x.Class != "double" && x.Class != "?" {
					in.event("fault", "FCmp on a non-floating-point operand ("+x.Class+")", pos)
				}
			}
		} else {
			cl := pick(a, b)
			if cl == "double" {
				in.event("fault", "ICmp on floating point operands", pos)
			}
			unsignedPred := strings.HasPrefix(pred, "IPredU")
			signedPred := strings.HasPrefix(pred, "IPredS")
			if cl == "i8" && signedPred {
				in.event("conv", "signed comparison "+pred+" of Byte (unsigned) operands", pos)
			}
			if (cl == "i64" || cl == "i32") && unsignedPred {
				in.event("conv", "unsigned comparison "+pred+" of signed operands ("+cl+")", pos)
			}
		}
		return &IRVal{Op: strings.ToLower(strings.TrimPrefix(name, "New")), Pred: pred, Args: []*IRVal{a, b}, Class: "i1"}
	case "NewSIToFP", "NewUIToFP", "NewZExt", "NewSExt", "NewTrunc", "NewFPToSI", "NewFPToUI", "NewBitCast", "NewPtrToInt", "NewIntToPtr", "NewFPExt", "NewFPTrunc":
		a := asIR(args[0])
		to := "?"
		if len(args) > 1 {
			to = tyClass(args[1])
		}
		op := strings.ToLower(strings.TrimPrefix(name, "New"))
		switch name {
		case "NewSIToFP":
			if a.Class == "i8" || a.Class == "i1" {
				in.event("conv", "sitofp on an unsigned "+a.Class+" value (Byte/Wahrheitswert are unsigned)", pos)
			}
			if a.Class == "double" {
				in.event("fault", "sitofp on a double", pos)
			}
		case "NewUIToFP":
			if a.Class == "i64" || a.Class == "i32" {
				in.event("conv", "uitofp on a signed "+a.Class+" value (Zahl/Buchstabe are signed)", pos)
			}
			if a.Class == "double" {
				in.event("fault", "uitofp on a double", pos)
			}
		case "NewSExt":
			if a.Class == "i8" || a.Class == "i1" {
				in.event("conv", "sext on an unsigned "+a.Class+" value", pos)
			}
		case "NewZExt":
			if a.Class == "i64" {
				in.event("fault", "zext of an i64", pos)
			}
			if a.Class == "double" {
				in.event("fault", "zext on a double", pos)
			}
		case "NewTrunc":
			if a.Class == "double" {
				in.event("fault", "trunc on a double", pos)
			}
			if a.Class != "?" && a.Class == to {
				in.event("fault", "trunc to the same width ("+to+")", pos)
			}
		case "NewFPToSI", "NewFPToUI":
			if a.Class != "double" && a.Class != "?" {
				in.event("fault", op+" on a non-floating-point operand ("+a.Class+")", pos)
			}
		}
		if (name == "NewZExt" || name == "NewSExt") && a.Class != "?" && a.Class == to {
			in.event("fault", op+" to the same width ("+to+")", pos)
		}
		return &IRVal{Op: op, Args: []*IRVal{a}, Class: to}
	case "NewCall":
		if len(args) > 0 {
			if sp, ok := args[len(args)-1].(spreadV); ok {
				if sl, ok := sp.S.(SliceV); ok {
					args = append(append([]Val{}, args[:len(args)-1]...), sl.Elems...)
				}
			}
		}
		callee := "?"
		if f, ok := args[0].(*IRFuncV); ok {
			callee = f.Name
		}
		if _, ok := args[0].(NilV); ok {
			in.event("fault", "call of a nil function (primitive type has no such helper)", pos)
		}
		var as []*IRVal
		for _, a := range args[1:] {
			as = append(as, asIR(a))
		}
		in.event("call", callee, pos, append([]Val{recv}, args[1:]...)...)
		return &IRVal{Op: "call", Src: callee, Args: as, Class: callClass(callee)}
	case "NewPhi":
		{
			ev := []Val{recv}
			for _, a := range args {
				if o, ok := a.(*Obj); ok {
					ev = append(ev, o.get("X"), o.get("Pred"))
				}
			}
			in.event("phi", "", pos, ev...)
		}
		var as []*IRVal
		cl := "?"
		for _, a := range args {
			if o, ok := a.(*Obj); ok {
				x := asIR(o.get("X"))
				as = append(as, x)
				in.event("phi-incoming", "", pos, o.get("X"), o.get("Pred"))
				if cl == "?" || cl == "int-const" {
					cl = x.Class
				} else if x.Class != "?" && x.Class != "int-const" && x.Class != cl {
					in.event("fault", "phi over values of different IR types ("+cl+", "+x.Class+")", pos)
				}
			}
		}
		return &IRVal{Op: "phi", Args: as, Class: cl}
	case "NewIncoming":
		o := newObj("incoming")
		o.set("X", args[0])
		if len(args) > 1 {
			o.set("Pred", args[1])
		}
		return o
	case "NewLoad":
		cl := tyClass(args[0])
		return &IRVal{Op: "load", Args: []*IRVal{asIR(args[1])}, Class: cl}
	case "NewStore":
		in.event("store", "", pos, args[0], args[1])
		return &IRVal{Op: "store", Args: []*IRVal{asIR(args[0]), asIR(args[1])}, Class: "void"}
	case "NewParam":
		nm := "param"
		if sv, ok := args[0].(StrV); ok {
			nm = string(sv)
		} else if cv, ok := args[0].(ConstV); ok && cv.V != nil && cv.V.Kind() == constant.String {
			nm = constant.StringVal(cv.V)
		}
		return &IRVal{Op: "operand", Src: nm, Class: tyClass(args[1])}
	case "NewFunc":
		return &IRFuncV{Name: "new func"}
	case "NewGetElementPtr", "NewAlloca":
		var as []*IRVal
		for _, a := range args {
			if v, ok := a.(*IRVal); ok {
				as = append(as, v)
			}
		}
		return &IRVal{Op: strings.ToLower(strings.TrimPrefix(name, "New")), Args: as, Class: "ptr"}
	case "NewBlock":
		b := newObj("ir.Block")
		b.set("Term", NilV{})
		return b
	case "NewCondBr", "NewBr", "NewRet", "NewUnreachable":
		o := newObj("term")
		for i, a := range args {
			o.set(fmt.Sprint("a", i), a)
		}
		in.event("term:"+name, "", pos, append([]Val{recv}, args...)...)
		if b, ok := recv.(*Obj); ok {
			b.set("Term", o)
		}
		return o
	case "NewInt":
		v := &IRVal{Op: "const", Class: "int-const"}
		if len(args) == 2 {
			if cv, ok := args[1].(ConstV); ok && cv.V != nil {
				if k, ok := constant.Int64Val(cv.V); ok {
					v.K = &k
				}
			}
		}
		return v
	case "NewFloat":
		return &IRVal{Op: "const", Class: "double"}
	case "NewNull", "NewStruct", "NewZeroInitializer", "NewCharArrayFromString":
		return &IRVal{Op: "const", Class: "?"}
	case "NewPointer":
		return &IRTy{"ptr"}
	}
	if strings.HasPrefix(name, "New") {
		return &IRVal{Op: strings.ToLower(strings.TrimPrefix(name, "New")), Class: "?"}
	}
	return Unk{"llir " + name}
}

// callClass: result IR class of well-known runtime helpers (by symbolic name)
func callClass(name string) string {
	switch {
	case name == "pow" || name == "log10" || name == "ddp_string_to_float":
		return "double"
	case name == "ddp_string_to_int" || strings.HasSuffix(name, "lengthIrFun"):
		return "i64"
	case strings.HasSuffix(name, "indexIrFun"):
		return "i32"
	case strings.HasSuffix(name, "EqualsFunc") || strings.HasSuffix(name, "equalsIrFun"):
		return "i1"
	}
	return "?"
}
