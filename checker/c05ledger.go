package main

import (
	"fmt"
	"go/ast"
	"go/token"
	"sort"
	"strings"

	"golang.org/x/tools/go/packages"
)

// ---- R5.9: typestate of every value a statement visitor registers, over the skeleton of the IR it emits ----
//
// The scope ledger (scope.go: addTemporary/claimTemporary/protect/addVar/...) is mirrored here by models so that every
// exitScope event carries the list of values it releases at that point of the *compilation* (protection is a compile-time
// flag). scope.go itself and the exit routines are checked on the real code by R5.5.

type ledRes struct {
	name      string
	val       *IRVal
	scope     *Obj
	protected bool
	isVar     bool
	isRef     bool
	prim      bool
	claimed   bool
	decl      *Obj
}

type ledScope struct {
	items []*ledRes
}

type ledgerState struct {
	c      *Obj
	scopes map[*Obj]*ledScope
	res    []*ledRes
	// per event index -> payload
	snaps map[int][]*ledRes // exitScope event -> released values
	reg   map[int]*ledRes   // evaluate/visit/addTemp/init event -> value
	mode  string            // how statement children end: "", "break", "continue", "return"
	ret   *FuncInfo
	brk   *FuncInfo
}

func (ls *ledgerState) scope(o *Obj) *ledScope {
	if s, ok := ls.scopes[o]; ok {
		return s
	}
	s := &ledScope{}
	ls.scopes[o] = s
	return s
}

// sync exposes the ledger of a scope as the fields the generator's own code reads (variables, temporaries)
func (ls *ledgerState) sync(sc *Obj) {
	if sc == nil {
		return
	}
	mv := MapV{}
	sv := SliceV{}
	for _, r := range ls.scope(sc).items {
		if r.claimed {
			continue
		}
		w := newObj("varwrapper")
		w.set("val", r.val)
		if r.prim {
			w.set("typ", &GenT{Kind: "int"})
		} else {
			w.set("typ", &GenT{Kind: "string"})
		}
		w.set("isRef", boolV(r.isRef))
		w.set("protected", boolV(r.protected))
		if r.isVar {
			var k Val = r.decl
			if r.decl == nil {
				k = newObj("ast.VarDecl")
			}
			mv.Keys = append(mv.Keys, k)
			mv.Vals = append(mv.Vals, w)
		} else {
			sv.Elems = append(sv.Elems, w)
		}
	}
	sc.set("variables", mv)
	sc.set("temporaries", sv)
}

func (ls *ledgerState) find(v Val) *ledRes {
	iv, ok := v.(*IRVal)
	if !ok {
		return nil
	}
	for i := len(ls.res) - 1; i >= 0; i-- {
		if ls.res[i].val == iv && !ls.res[i].claimed {
			return ls.res[i]
		}
	}
	return nil
}

func installLedger(L *Loaded, in *Interp) *ledgerState {
	ls := &ledgerState{brk: L.Fn("src/compiler.(*compiler).VisitBreakContinueStmt"), ret: L.Fn("src/compiler.(*compiler).VisitReturnStmt")}
	in.Models["ast.(*Ast).GetMetadataByKind"] = func(in *Interp, pkg *packages.Package, call *ast.CallExpr, recv Val, args []Val) (Val, bool) {
		return TupleV{Unk{"no metadata"}, boolV(false)}, true
	}
	type model = func(in *Interp, pkg *packages.Package, call *ast.CallExpr, recv Val, args []Val) (Val, bool)
	prev := map[string]model{}
	for _, n := range []string{"compiler.(*compiler).evaluate", "compiler.(*compiler).visitNode"} {
		prev[n] = in.Models[n]
	}
	cbb := func() Val { return ls.c.get("cbb") }
	curScope := func() *Obj { o, _ := ls.c.get("scp").(*Obj); return o }
	register := func(r *ledRes) {
		ls.res = append(ls.res, r)
		if r.scope != nil {
			sc := ls.scope(r.scope)
			sc.items = append(sc.items, r)
			ls.sync(r.scope)
		}
	}
	in.Models["compiler.newScope"] = func(in *Interp, pkg *packages.Package, call *ast.CallExpr, recv Val, args []Val) (Val, bool) {
		sc := newObj("scope")
		sc.set("enclosing", args[0])
		ls.scope(sc)
		ls.sync(sc)
		in.event("newScope", "", call.Pos(), sc, cbb())
		return sc, true
	}
	in.Models["compiler.(*compiler).exitScope"] = func(in *Interp, pkg *packages.Package, call *ast.CallExpr, recv Val, args []Val) (Val, bool) {
		sc, _ := args[0].(*Obj)
		var snap []*ledRes
		if sc != nil {
			for _, r := range ls.scope(sc).items {
				if !r.claimed && !r.protected && !r.isRef && !r.prim {
					snap = append(snap, r)
				}
			}
		}
		ls.snaps[len(in.Events)] = snap
		in.event("exitScope", "", call.Pos(), args[0], cbb())
		if sc != nil {
			if e, ok := sc.get("enclosing").(*Obj); ok {
				return e, true
			}
		}
		return newObj("scope"), true
	}
	in.Models["compiler.(*scope).addTemporary"] = func(in *Interp, pkg *packages.Package, call *ast.CallExpr, recv Val, args []Val) (Val, bool) {
		sc, _ := recv.(*Obj)
		v, _ := args[0].(*IRVal)
		g, _ := args[1].(*GenT)
		r := &ledRes{name: "temporary " + fmt.Sprint(args[0]), val: v, scope: sc, prim: g != nil && g.prim()}
		// a value that is moved into a registered temporary (claimOrCopy into a fresh slot) keeps its identity
		register(r)
		ls.reg[len(in.Events)] = r
		in.event("addTemp", "", call.Pos(), args[0], args[1], recv, cbb())
		return TupleV{args[0], args[1]}, true
	}
	in.Models["compiler.(*scope).claimTemporary"] = func(in *Interp, pkg *packages.Package, call *ast.CallExpr, recv Val, args []Val) (Val, bool) {
		if r := ls.find(args[0]); r != nil {
			r.claimed = true
			ls.reg[len(in.Events)] = r
			ls.sync(r.scope)
		}
		in.event("claim", "", call.Pos(), args[0], cbb())
		return args[0], true
	}
	prot := func(p bool) model {
		return func(in *Interp, pkg *packages.Package, call *ast.CallExpr, recv Val, args []Val) (Val, bool) {
			if r := ls.find(args[0]); r != nil {
				r.protected = p
				ls.sync(r.scope)
			} else {
				in.event("panic", "attempted protection of a value that is not in scope.temporaries", call.Pos())
			}
			return TupleV(nil), true
		}
	}
	in.Models["compiler.(*scope).protectTemporary"] = prot(true)
	in.Models["compiler.(*scope).unprotectTemporary"] = prot(false)
	addVar := func(protected bool) model {
		return func(in *Interp, pkg *packages.Package, call *ast.CallExpr, recv Val, args []Val) (Val, bool) {
			sc, _ := recv.(*Obj)
			d, _ := args[0].(*Obj)
			v, _ := args[1].(*IRVal)
			g, _ := args[2].(*GenT)
			isRef, _ := truth(args[3])
			name := "variable"
			if d != nil {
				if s, ok := d.get("name").(StrV); ok {
					name = "variable " + string(s)
				}
			}
			r := &ledRes{name: name, val: v, scope: sc, protected: protected, isVar: true, isRef: isRef, prim: g == nil || g.prim(), decl: d}
			register(r)
			return args[1], true
		}
	}
	in.Models["compiler.(*scope).addVar"] = addVar(false)
	in.Models["compiler.(*scope).addProtected"] = addVar(true)
	oldLookup := in.Models["compiler.(*scope).lookupVar"]
	in.Models["compiler.(*scope).lookupVar"] = func(in *Interp, pkg *packages.Package, call *ast.CallExpr, recv Val, args []Val) (Val, bool) {
		d, _ := args[0].(*Obj)
		for sc, _ := recv.(*Obj); sc != nil; sc, _ = sc.get("enclosing").(*Obj) {
			s, ok := ls.scopes[sc]
			if !ok {
				continue
			}
			for _, r := range s.items {
				if r.isVar && r.decl == d && d != nil {
					w := newObj("varwrapper")
					w.set("val", r.val)
					if tv, ok := d.get("Type").(TypeV); ok {
						w.set("typ", toGen(tv.T))
					} else {
						w.set("typ", Unk{"var type"})
					}
					w.set("isRef", boolV(r.isRef))
					w.set("protected", boolV(r.protected))
					return w, true
				}
			}
		}
		return oldLookup(in, pkg, call, recv, args)
	}
	in.Models["compiler.(*compiler).evaluate"] = func(in *Interp, pkg *packages.Package, call *ast.CallExpr, recv Val, args []Val) (Val, bool) {
		at := len(in.Events)
		v, h := prev["compiler.(*compiler).evaluate"](in, pkg, call, recv, args)
		if tv, ok := v.(TupleV); ok && len(tv) == 3 {
			if iv, ok := tv[0].(*IRVal); ok && iv.Op == "operand" {
				r := &ledRes{name: "the temporaries of " + iv.Src, val: iv, scope: curScope()}
				register(r)
				// the evaluate event is the first one emitted by the wrapped model
				for i := at; i < len(in.Events); i++ {
					if strings.HasPrefix(in.Events[i].Kind, "evaluate:") {
						ls.reg[i] = r
					}
				}
			}
		}
		return v, h
	}
	in.Models["compiler.(*compiler).visitNode"] = func(in *Interp, pkg *packages.Package, call *ast.CallExpr, recv Val, args []Val) (Val, bool) {
		at := len(in.Events)
		v, h := prev["compiler.(*compiler).visitNode"](in, pkg, call, recv, args)
		isBlock := false
		name := "?"
		for i := at; i < len(in.Events); i++ {
			if strings.HasPrefix(in.Events[i].Kind, "visit:") {
				name = strings.TrimPrefix(in.Events[i].Kind, "visit:")
				isBlock = strings.HasSuffix(in.Events[i].Msg, "ast.BlockStmt")
				// A body that ends in Verlasse/Fahre fort is a block containing that statement (it opens its own scope) or the
				// bare statement (it creates nothing): neither registers values in the loop's scope. A statement that creates
				// values in the enclosing scope and then leaves the loop does not exist in the AST.
				if ls.mode != "" && name == "Body" {
					isBlock = true
				}
				if !isBlock {
					r := &ledRes{name: "the values created by " + name, scope: curScope(), val: &IRVal{Op: "operand", Src: name}}
					register(r)
					ls.reg[i] = r
				}
			}
		}
		// a loop body may end in 'verlasse die Schleife' / 'fahre mit der Schleife fort': run the real visitor for that statement here
		if ls.mode == "return" && name == "Body" && ls.ret != nil {
			// the body ends in 'Gib zurück' (without value): run the real visitor for that statement here
			n := newObj("ast.ReturnStmt")
			n.set("Value", NilV{})
			n.set("Func", newObj("ast.FuncDecl"))
			in.CallFunc(ls.ret, ls.c, []Val{n})
		} else if _, inLoop := ls.c.get("curLeaveBlock").(*Obj); inLoop && ls.mode != "" && ls.brk != nil && (name == "Body") {
			n := newObj("ast.BreakContinueStmt")
			tk := newObj("token.Token")
			if ls.mode == "break" {
				tk.set("Type", tokenConst(in.L, "VERLASSE"))
			} else {
				tk.set("Type", tokenConst(in.L, "FAHRE"))
			}
			n.set("Tok", tk)
			in.CallFunc(ls.brk, ls.c, []Val{n})
		}
		return v, h
	}
	in.Models["compiler.(*compiler).deepCopyInto"] = func(in *Interp, pkg *packages.Package, call *ast.CallExpr, recv Val, args []Val) (Val, bool) {
		in.event("deepCopy", "", call.Pos(), args[0], args[1], cbb())
		return args[0], true
	}
	return ls
}

func (ls *ledgerState) reset(c *Obj, mode string) {
	ls.c = c
	ls.scopes = map[*Obj]*ledScope{}
	ls.res = nil
	ls.snaps = map[int][]*ledRes{}
	ls.reg = map[int]*ledRes{}
	ls.mode = mode
	// the scope of the surrounding code and the function scope above it
	if amb, ok := c.get("scp").(*Obj); ok {
		ls.sync(amb)
		if fn, ok := amb.get("enclosing").(*Obj); ok {
			fn.set("enclosing", newObj("scope"))
			ls.sync(fn)
			c.set("cfscp", fn)
		}
	}
}

// ---- typestate over the skeleton ----

type tsOp struct {
	kind string // init, free, move
	r    *ledRes
	pos  token.Pos
	how  string
}

type tsFinding struct {
	res string
	bad string
	pos token.Pos
}

// typestate runs a may-analysis: for each value, the set of states {unowned, owned} it can be in at each block entry.
func typestate(in *Interp, ls *ledgerState, entry, final Val) (resources []string, out []tsFinding) {
	sk := &skel{idx: map[*Obj]int{}, succ: map[int][]int{}, evs: map[int][]skelEv{}}
	sk.entry = sk.id(entry)
	ops := map[int][]tsOp{}
	created := map[*Obj]bool{}
	add := func(b Val, op tsOp) {
		i := sk.id(b)
		if i >= 0 && op.r != nil && !op.r.prim {
			ops[i] = append(ops[i], op)
		}
	}
	byVal := func(v Val) *ledRes {
		iv, ok := v.(*IRVal)
		if !ok {
			return nil
		}
		for i := len(ls.res) - 1; i >= 0; i-- {
			if ls.res[i].val == iv {
				return ls.res[i]
			}
		}
		return nil
	}
	for i, e := range in.Events {
		switch {
		case strings.HasPrefix(e.Kind, "term:"):
			b := sk.id(e.Data[0])
			sk.succ[b] = nil // a later terminator replaces an earlier one
			for _, a := range e.Data[1:] {
				if o, ok := a.(*Obj); ok && o.Kind == "ir.Block" {
					sk.succ[b] = append(sk.succ[b], sk.id(o))
				}
			}
		case strings.HasPrefix(e.Kind, "evaluate:"), strings.HasPrefix(e.Kind, "visit:"):
			if r := ls.reg[i]; r != nil {
				add(e.Data[0], tsOp{"init", r, e.Pos, "created"})
			}
		case e.Kind == "addTemp":
			if r := ls.reg[i]; r != nil {
				add(e.Data[3], tsOp{"init", r, e.Pos, "registered as a temporary"})
			}
		case e.Kind == "claim":
			if r := ls.reg[i]; r != nil && len(e.Data) > 1 {
				add(e.Data[1], tsOp{"move", r, e.Pos, "claimed"})
			}
		case e.Kind == "deepCopy":
			if len(e.Data) > 2 {
				if r := byVal(e.Data[0]); r != nil && r.isVar {
					add(e.Data[2], tsOp{"init", r, e.Pos, "assigned a copy"})
				}
			}
		case e.Kind == "newScope":
			if o, ok := e.Data[0].(*Obj); ok {
				created[o] = true
			}
		case e.Kind == "exitScope":
			for _, r := range ls.snaps[i] {
				add(e.Data[1], tsOp{"free", r, e.Pos, "released by the exit of its scope"})
			}
		case e.Kind == "call" && strings.HasSuffix(e.Msg, ".FreeFunc") && len(e.Data) > 1:
			if r := byVal(e.Data[1]); r != nil {
				add(e.Data[0], tsOp{"free", r, e.Pos, "released explicitly"})
			}
		}
	}
	retBlocks := map[int]bool{}
	ambientScopes := map[*Obj]bool{}
	if amb, ok := ls.c.get("scp").(*Obj); ok {
		for sc := amb; sc != nil; sc, _ = sc.get("enclosing").(*Obj) {
			if t, known := truth(sc.get("ambient")); known && t {
				ambientScopes[sc] = true
			}
		}
	}
	for _, e := range in.Events {
		if e.Kind == "term:NewRet" {
			if i := sk.id(e.Data[0]); i >= 0 {
				retBlocks[i] = true
			}
		}
	}
	fin := sk.id(final)
	// reachable blocks
	reach := sk.reach(sk.entry, nil)
	reach[sk.entry] = true
	const U, O = 1, 2
	for _, r := range ls.res {
		if r.prim || r.isRef {
			continue
		}
		resources = append(resources, r.name)
		inState := map[int]int{sk.entry: U}
		work := []int{sk.entry}
		reported := map[string]bool{}
		report := func(bad string, pos token.Pos) {
			if !reported[bad] {
				reported[bad] = true
				out = append(out, tsFinding{r.name, bad, pos})
			}
		}
		outState := map[int]int{}
		for len(work) > 0 {
			b := work[len(work)-1]
			work = work[:len(work)-1]
			st := inState[b]
			for _, op := range ops[b] {
				if op.r != r {
					continue
				}
				switch op.kind {
				case "init":
					if st&O != 0 {
						report("is created again while the previous one may still be owned (created on every pass through this block, released only elsewhere): it is overwritten and leaks", op.pos)
					}
					st = O
				case "free":
					if st&U != 0 {
						report("may be released ("+op.how+") on a path on which it was never created or was already released", op.pos)
					}
					st = U
				case "move":
					st = U
				}
			}
			outState[b] = st
			for _, n := range sk.succ[b] {
				if inState[n]|st != inState[n] {
					inState[n] |= st
					work = append(work, n)
				}
			}
		}
		for rb := range retBlocks {
			if reach[rb] && outState[rb]&O != 0 && r.scope != nil && (created[r.scope] || ambientScopes[r.scope]) {
				report("may still be owned when the function returns from inside the statement: the return path does not release it", token.NoPos)
			}
		}
		if reach[fin] && outState[fin]&O != 0 && r.scope != nil && created[r.scope] {
			report("may still be owned when the statement is left, although the scope it is registered in was opened by this statement: no path releases it", token.NoPos)
		}
	}
	sort.Strings(resources)
	return
}

func checkC05Typestate(c *Check, L *Loaded) {
	r := c.Rule("R5.9", "every value a statement registers is created before it is released, released before it is created again, and released on every way out (fall-through, Verlasse, Fahre fort)", 20)
	in, mk := newGeneratorInterp(L)
	ls := installLedger(L, in)
	for _, jb := range skelJobs(L) {
		modes := []string{""}
		if strings.HasPrefix(jb.method, "VisitWhile") || strings.HasPrefix(jb.method, "VisitFor") {
			modes = []string{"", "break", "continue", "return"}
		}
		for _, mode := range modes {
			label := map[string]string{"": "body falls through", "break": "body ends in Verlasse", "continue": "body ends in Fahre fort", "return": "body ends in Gib zurück"}[mode]
			bad := map[string]tsFinding{}
			seen := map[string]bool{}
			runs := 0
			in.RunAll(64, func() {
				cobj := mk()
				ls.reset(cobj, mode)
				entry := cobj.get("cbb")
				in.CallFunc(L.Fn("src/compiler.(*compiler)."+jb.method), cobj, []Val{jb.node()})
				for _, e := range in.Events {
					if e.Kind == "panic" || e.Kind == "cerr" {
						return
					}
				}
				runs++
				rs, fs := typestate(in, ls, entry, cobj.get("cbb"))
				for _, n := range rs {
					seen[n] = true
				}
				for _, f := range fs {
					bad[f.res+"|"+f.bad] = f
				}
			})
			if runs == 0 {
				r.Und(jb.key+", "+label, token.NoPos, "not evaluated")
				continue
			}
			var names []string
			for n := range seen {
				names = append(names, n)
			}
			sort.Strings(names)
			for _, n := range names {
				key := "compiler.(*compiler)." + jb.key + ", " + label + "|" + n
				var msgs []string
				var pos token.Pos
				for _, f := range bad {
					if f.res == n {
						msgs = append(msgs, f.bad)
						if f.pos != token.NoPos {
							pos = f.pos
						}
					}
				}
				sort.Strings(msgs)
				if len(msgs) > 0 {
					r.Bad(key, pos, n+" "+strings.Join(msgs, "; "))
				} else {
					r.OK(key, token.NoPos, "created, then released exactly once on every path")
				}
			}
		}
	}
}
