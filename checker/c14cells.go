package main

// checkC14Cells is provided by the E2 engine (cells.go); stub until then.
var checkC14Cells = func(c *Check) {}
