package main

import (
	"go/token"
	"strings"
)

// cell-wise clauses of C14, on the tables of engine E2
var checkC14Cells = func(c *Check) {
	L := c.L
	lines, t, ctx, _ := computeAllCheckerLines(L, c.Tier)
	// R14.5 the two positions agree
	r5 := c.Rule("R14.5", "initialisation and assignment accept the same (target, value) pairs", 100)
	okn := 0
	for _, a := range t.Classes {
		for _, b := range t.Classes {
			c1, c2 := ctx[cellKey("VARDECL (declared, initialiser)", a, b)], ctx[cellKey("ASSIGN (target, value)", a, b)]
			if c1 == nil || c2 == nil {
				continue
			}
			a1, d1 := c1.Admitted()
			a2, d2 := c2.Admitted()
			if !d1 || !d2 {
				r5.Und("VARDECL/ASSIGN "+cellKey("", a, b), token.NoPos, "cell not decided")
				continue
			}
			if a1 != a2 {
				which := "initialisation accepts what assignment rejects"
				if a2 {
					which = "assignment accepts what initialisation rejects"
				}
				r5.Bad("VARDECL vs ASSIGN"+cellKey("", a, b), token.NoPos, "target "+a.String()+", value "+b.String()+": "+which)
			} else {
				okn++
			}
		}
	}
	if okn > 0 {
		in := r5.add(OK, "agreeing pairs", token.NoPos, "same verdict in both positions")
		in.N = okn
	}
	// R14.6 accept exactly: conversions and value contexts equal the reference in both directions
	r6 := c.Rule("R14.6", "casts and value contexts accept exactly the reference combinations (both directions)", 500)
	compareWithGolden(c, r6, lines, func(k string) bool {
		for _, p := range []string{"CAST", "VARDECL", "ASSIGN", "ARGUMENT", "RETURN", "LIST literal elements", "FOREACH", "BIN_EQUAL", "BIN_UNEQUAL", "TER_FALLS"} {
			if strings.HasPrefix(k, p) {
				return true
			}
		}
		return false
	}, map[string]bool{"admit": true, "reject": true})
	// R14.7 alias transparency as a law on the tables: replacing an alias coordinate by its target never changes a verdict
	r7 := c.Rule("R14.7", "alias transparency: a cell with a type-alias coordinate has the verdict of the cell with the alias replaced by its target", 200)
	verdict := map[string]string{}
	for _, l := range lines {
		p := strings.Split(l, "\t")
		verdict[p[0]] = p[1]
	}
	aliases := map[string]string{}
	for _, d := range t.Classes {
		if d.Kind == "ALIAS" {
			aliases[d.String()] = d.Base.String()
		}
	}
	okn = 0
	for k, v := range verdict {
		repl := k
		for a, b := range aliases {
			repl = strings.ReplaceAll(repl, a, b)
		}
		if repl == k {
			continue
		}
		w, ok := verdict[repl]
		if !ok {
			continue
		}
		if v != w {
			op := k
			if i := strings.Index(op, " ("); i > 0 {
				op = op[:i]
			}
			r7.Bad("alias "+op, token.NoPos, "'"+k+"' is "+v+" but '"+repl+"' is "+w+": the alias is not identified with its target here")
		} else {
			okn++
		}
	}
	if okn > 0 {
		in := r7.add(OK, "cells with an alias coordinate", token.NoPos, "verdict equals the target's")
		in.N = okn
	}
	// R14.8 definitions are opaque: no implicit context accepts a definition for its base or vice versa, nor two definitions of one base
	r8 := c.Rule("R14.8", "a type definition is never accepted for its base type, its base for it, or another definition of the same base, in any implicit position", 20)
	okn = 0
	for _, a := range t.Classes {
		for _, b := range t.Classes {
			related := false
			if a.Kind == "TYPEDEF" && (dtEqual(a.Base, b) || (b.Kind == "TYPEDEF" && dtEqual(a.Base, b.Base) && a.Name != b.Name)) {
				related = true
			}
			if b.Kind == "TYPEDEF" && dtEqual(b.Base, a) {
				related = true
			}
			if !related {
				continue
			}
			for _, ctxName := range []string{"VARDECL (declared, initialiser)", "ASSIGN (target, value)", "ARGUMENT (parameter, argument)", "RETURN (declared, value)", "LIST literal elements", "BIN_EQUAL"} {
				k := cellKey(ctxName, a, b)
				v, ok := verdict[k]
				if !ok {
					continue
				}
				if v == "admit" {
					r8.Bad("opaque "+ctxName, token.NoPos, k+" is admitted: a type definition converts implicitly")
				} else {
					okn++
				}
			}
			// explicit casts between two different definitions of one base are not allowed either
			// (a definition whose base is itself a definition converts to and from that base: those pairs are excluded)
			if a.Kind == "TYPEDEF" && b.Kind == "TYPEDEF" && a.Name != b.Name && !dtEqual(a.Base, b) && !dtEqual(b.Base, a) {
				k := cellKey("CAST to "+a.String(), b)
				if verdict[k] == "admit" {
					r8.Bad("cast between definitions", token.NoPos, k+" is admitted: a type definition converts to another definition, not only to and from its own base")
				} else if verdict[k] != "" {
					okn++
				}
			}
		}
	}
	if okn > 0 {
		in := r8.add(OK, "definition/base pairs", token.NoPos, "rejected in every implicit position")
		in.N = okn
	}
}
