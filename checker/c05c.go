package main

import (
	"fmt"
	"go/ast"
	"go/token"
	"sort"
	"strings"
)

// concatBindings: field name of the generator's concat function -> C symbol, read from the assignments
// X.<field> = c.declareExternalRuntimeFunction("<symbol>", ...) in package compiler.
func concatBindings(L *Loaded) map[string]string {
	out := map[string]string{}
	cp := L.ByRel["src/compiler"]
	for _, f := range cp.Syntax {
		ast.Inspect(f, func(n ast.Node) bool {
			as, ok := n.(*ast.AssignStmt)
			if !ok || len(as.Lhs) != 1 || len(as.Rhs) != 1 {
				return true
			}
			sel, ok := as.Lhs[0].(*ast.SelectorExpr)
			if !ok {
				return true
			}
			call, ok := as.Rhs[0].(*ast.CallExpr)
			if !ok || len(call.Args) == 0 {
				return true
			}
			if fn := Callee(cp.TypesInfo, call); fn == nil || !nameIs(fn, "declareExternalRuntimeFunction") {
				return true
			}
			if bl, ok := call.Args[0].(*ast.BasicLit); ok && bl.Kind == token.STRING {
				out[sel.Sel.Name] = strings.Trim(bl.Value, "\"")
			}
			return true
		})
	}
	return out
}

// claimedOperands evaluates BIN_CONCAT of the generator for Text operands that are not temporaries and reads off which
// operand the generator copies before the call (= the operand the callee takes over) and the callee's field name.
func claimedOperands(L *Loaded) map[string]int { // field name -> argument index (1-based over (ret, a, b)) of the claimed operand
	out := map[string]int{}
	in, mk := newGeneratorInterp(L)
	var concat opInfo
	for _, o := range operatorConsts(L, "BinaryOperator") {
		if o.Name == "BIN_CONCAT" {
			concat = o
		}
	}
	T, B := &DT{Kind: "TEXT"}, &DT{Kind: "BUCHSTABE"}
	for _, pair := range [][2]*DT{{T, T}, {T, B}, {B, T}} {
		node := genNode("ast.BinaryExpr", opVal(concat), []string{"lhs", "rhs"}, pair[:])
		node.get("Lhs").(*Obj).set("temp", boolV(false))
		node.get("Rhs").(*Obj).set("temp", boolV(false))
		in.RunAll(8, func() {
			cobj := mk()
			in.CallFunc(L.Fn("src/compiler.(*compiler).VisitBinaryExpr"), cobj, []Val{node})
			copied := map[*IRVal]bool{}
			for _, e := range in.Events {
				if e.Kind == "deepCopy" {
					if d, ok := e.Data[0].(*IRVal); ok {
						copied[d] = true
					}
				}
				if e.Kind == "call" && strings.HasSuffix(e.Msg, "concat_IrFunc") {
					field := e.Msg[strings.LastIndex(e.Msg, ".")+1:]
					for i, a := range e.Data[1:] {
						if v, ok := a.(*IRVal); ok && copied[v] {
							out[field] = i
						}
					}
				}
			}
		})
	}
	return out
}

// cParamNames: names of the parameters of a C function definition.
func cParamNames(f *CFunc) []string {
	var out []string
	for _, n := range f.Node.Inner {
		if n.Kind == "ParmVarDecl" {
			out = append(out, n.Name)
		}
	}
	return out
}

// disposalPaths enumerates the paths through a loop-free C function body and reports, per path end, whether the text
// object *p has been disposed of: moved (buffer given to ddp_reallocate, or *ret = *p) or released (ddp_free_string(p)) and
// then reset (*p = empty), or is known to be empty from a ddp_string_empty(p) test on the path.
type disposalEnd struct {
	line   int
	state  string // "owned", "moved", "reset", "empty"
	doubly bool   // moved/released twice
	trail  []string
}

func disposalPaths(f *CFunc, p string) (ends []disposalEnd, decided bool) {
	decided = true
	type st struct {
		state  string
		doubly bool
		trail  []string
	}
	emptyCall := func(c *CNode) (string, bool) { // ddp_string_empty(x) -> x
		c = cstrip(c)
		if c != nil && c.Kind == "CallExpr" && c.calleeName() == "ddp_string_empty" && len(c.args()) == 1 {
			return cstrip(c.args()[0]).text(), true
		}
		return "", false
	}
	// facts a condition gives about emptiness of p when it evaluates to 'truth'
	var condEmpty func(c *CNode, truth bool) (known bool, empty bool)
	condEmpty = func(c *CNode, truth bool) (bool, bool) {
		c = cstrip(c)
		if c == nil {
			return false, false
		}
		if x, ok := emptyCall(c); ok {
			if x == p {
				return true, truth
			}
			return false, false
		}
		if c.Kind == "UnaryOperator" && c.Opcode == "!" && len(c.Inner) == 1 {
			return condEmpty(c.Inner[0], !truth)
		}
		if c.Kind == "BinaryOperator" && len(c.Inner) == 2 {
			if c.Opcode == "&&" && truth { // both hold
				if k, e := condEmpty(c.Inner[0], true); k {
					return k, e
				}
				return condEmpty(c.Inner[1], true)
			}
			if c.Opcode == "||" && !truth { // both fail
				if k, e := condEmpty(c.Inner[0], false); k {
					return k, e
				}
				return condEmpty(c.Inner[1], false)
			}
		}
		return false, false
	}
	apply := func(s st, n *CNode) st {
		// effects of one expression statement (and nested calls) on p
		n.walk(func(m *CNode) bool {
			switch m.Kind {
			case "CallExpr":
				switch m.calleeName() {
				case "ddp_reallocate":
					if a := m.args(); len(a) == 3 {
						if b, ok := memberOf(a[0], "str"); ok && b == p {
							if s.state == "moved" {
								s.doubly = true
							}
							s.state = "moved"
							s.trail = append(s.trail, fmt.Sprintf("line %d: buffer given to ddp_reallocate", m.line))
						}
					}
				case "ddp_free_string":
					if a := m.args(); len(a) == 1 && cstrip(a[0]).text() == p {
						if s.state == "moved" {
							s.doubly = true
						}
						if s.state != "empty" {
							s.state = "moved"
						}
						s.trail = append(s.trail, fmt.Sprintf("line %d: released", m.line))
					}
				}
			case "BinaryOperator":
				if m.Opcode == "=" && len(m.Inner) == 2 {
					l, r := cstrip(m.Inner[0]), cstrip(m.Inner[1])
					if l.Kind == "UnaryOperator" && l.Opcode == "*" && r.Kind == "UnaryOperator" && r.Opcode == "*" && cstrip(r.Inner[0]).text() == p {
						if s.state == "moved" {
							s.doubly = true
						}
						s.state = "moved"
						s.trail = append(s.trail, fmt.Sprintf("line %d: object copied out bitwise", m.line))
					}
					if l.Kind == "UnaryOperator" && l.Opcode == "*" && cstrip(l.Inner[0]).text() == p && r.Kind != "UnaryOperator" {
						// *p = <compound literal>: reset
						if s.state == "moved" || s.state == "empty" {
							s.state = "reset"
						} else if s.state == "owned" {
							s.state = "overwritten"
						}
						s.trail = append(s.trail, fmt.Sprintf("line %d: reset", m.line))
					}
				}
			}
			return true
		})
		return s
	}
	var run func(stmts []*CNode, s st, cont func(st))
	run = func(stmts []*CNode, s st, cont func(st)) {
		if len(stmts) == 0 {
			cont(s)
			return
		}
		n, rest := stmts[0], stmts[1:]
		switch n.Kind {
		case "CompoundStmt":
			run(append(append([]*CNode{}, n.Inner...), rest...), s, cont)
		case "IfStmt":
			cond := n.Inner[0]
			s = apply(s, cond)
			thenS, elseS := s, s
			if k, e := condEmpty(cond, true); k {
				if e {
					thenS.state = "empty"
				}
			}
			if k, e := condEmpty(cond, false); k {
				if e {
					elseS.state = "empty"
				}
			}
			thenS.trail = append(append([]string{}, s.trail...), fmt.Sprintf("line %d: condition true", n.line))
			elseS.trail = append(append([]string{}, s.trail...), fmt.Sprintf("line %d: condition false", n.line))
			run(append([]*CNode{n.Inner[1]}, rest...), thenS, cont)
			if len(n.Inner) >= 3 {
				run(append([]*CNode{n.Inner[2]}, rest...), elseS, cont)
			} else {
				run(rest, elseS, cont)
			}
		case "ReturnStmt":
			for _, c := range n.Inner {
				s = apply(s, c)
			}
			ends = append(ends, disposalEnd{n.line, s.state, s.doubly, s.trail})
		case "WhileStmt", "ForStmt", "DoStmt", "SwitchStmt", "GotoStmt", "LabelStmt":
			decided = false
		default:
			s = apply(s, n)
			run(rest, s, cont)
		}
	}
	endLine := f.Line
	if f.Body.Range != nil && f.Body.Range.End != nil && f.Body.Range.End.Line > 0 {
		endLine = f.Body.Range.End.Line
	}
	run([]*CNode{f.Body}, st{state: "owned"}, func(s st) {
		ends = append(ends, disposalEnd{endLine, s.state, s.doubly, s.trail})
	})
	return
}

func checkC05C(c *Check, L *Loaded) {
	P, err := LoadC(repoDirC(), true)
	if err != nil {
		c.Rule("R5.3", "C sources parse", 1).Und("lib", token.NoPos, err.Error())
		return
	}
	c.extra["c_units"] = P.Units
	c.extra["c_units_not_analysed"] = P.Failed
	for _, u := range P.Failed {
		// regex.c and compression.c need the pcre2/libarchive headers, which this sandbox does not have: recorded as a coverage hole
		if !strings.HasSuffix(u, "/regex.c") && !strings.HasSuffix(u, "/compression.c") {
			c.Rule("R5.3", "a block is resized or released with the capacity of the object it belongs to", 10).AddAt(Undecided, "C unit "+u, u, "unit failed to parse")
		}
	}
	r3 := c.Rule("R5.3", "a block is resized or released with the capacity of the object it belongs to", 10)
	checkReallocProvenance(c, P, r3)
	checkC05GoSizes(c, L, r3)
	r4 := c.Rule("R5.4", "in-place changes of a text's byte length keep cap = length + 1", 2)
	checkCapTruth(c, P, r4)

	r10 := c.Rule("R5.10", "a length-or-failure result of the UTF-8 helpers is tested for the failure value before it is used as a length, offset or increment", 6)
	checkFailureValues(c, P, r10)

	r7 := c.Rule("R5.7", "a concatenation function of the runtime leaves the operand it takes over empty on every path: its buffer is moved into the result or released, then the operand is reset", 3)
	bind := concatBindings(L)
	claimed := claimedOperands(L)
	// also the positions the C side itself treats as taken over, so that a generator that stops copying does not make the instance vanish
	for f, idxs := range takenOverByC(L, P) {
		if _, ok := claimed[f]; !ok && len(idxs) > 0 {
			claimed[f] = idxs[0]
		}
	}
	var fields []string
	for f := range claimed {
		fields = append(fields, f)
	}
	sort.Strings(fields)
	for _, field := range fields {
		sym, ok := bind[field]
		if !ok {
			continue // generated in IR (list concatenations), see R5.2
		}
		f := P.Funcs[sym]
		key := "C " + sym + "|operand taken over"
		if f == nil {
			r7.AddAt(Undecided, key, "-", "the generator binds "+field+" to "+sym+", which the runtime does not define")
			continue
		}
		names := cParamNames(f)
		idx := claimed[field]
		if idx >= len(names) {
			r7.AddAt(Undecided, key, f.Pos(), "parameter index out of range")
			continue
		}
		p := names[idx]
		ends, decided := disposalPaths(f, p)
		if !decided || len(ends) == 0 {
			r7.AddAt(Undecided, key, f.Pos(), "the function has loops or jumps; its paths are not enumerated")
			continue
		}
		var bad []string
		for _, e := range ends {
			switch {
			case e.doubly:
				bad = append(bad, fmt.Sprintf("path ending at line %d moves or releases %s twice [%s]", e.line, p, strings.Join(e.trail, "; ")))
			case e.state == "reset" || e.state == "empty":
			default:
				bad = append(bad, fmt.Sprintf("path ending at line %d leaves %s %s [%s]", e.line, p, e.state, strings.Join(e.trail, "; ")))
			}
		}
		if len(bad) == 0 {
			r7.AddAt(OK, key, f.Pos(), fmt.Sprintf("%d paths; %s (operand the generator hands over, copying it first when it is not a temporary) ends reset or known empty on each", len(ends), p))
		} else {
			r7.AddAt(Bad, key, f.Pos(), strings.Join(bad, " | ")+": the generator does not release this operand after the call (it copies a non-temporary into an unregistered slot and lets a temporary be released at scope end), so its block leaks or is released twice")
		}
	}
}

// ---- R5.10: size-or-failure results ----
// A C function of the runtime that returns size_t and has a (size_t)-1 failure value (it returns -1 itself, or returns a value
// it compares with -1) must have that value tested before the result is used as a length, offset or increment.

func failureValueFuncs(P *CProgram) map[string]string {
	out := map[string]string{}
	for name, f := range P.Funcs {
		if !strings.HasPrefix(f.Unit, "lib/runtime/") || !strings.Contains(f.RType, "size_t") {
			continue
		}
		why := ""
		// failure returns that only signal a NULL argument are not length failures: callers pass live pointers
		nullGuarded := map[*CNode]bool{}
		f.Body.walk(func(m *CNode) bool {
			if m.Kind == "IfStmt" && len(m.Inner) >= 2 {
				cnd := cstrip(m.Inner[0])
				if cnd != nil && cnd.Kind == "BinaryOperator" && cnd.Opcode == "==" && len(cnd.Inner) == 2 {
					if k, ok := cIntValue(cnd.Inner[1]); ok && k == 0 && cstrip(cnd.Inner[0]).Kind == "DeclRefExpr" {
						m.Inner[1].walk(func(x *CNode) bool {
							if x.Kind == "ReturnStmt" {
								nullGuarded[x] = true
							}
							return true
						})
					}
				}
			}
			return true
		})
		f.Body.walk(func(m *CNode) bool {
			if m.Kind == "ReturnStmt" && len(m.Inner) == 1 && !nullGuarded[m] {
				if v, ok := cIntValue(m.Inner[0]); ok && v == -1 {
					why = "returns -1"
				}
			}
			if m.Kind == "BinaryOperator" && (m.Opcode == "==" || m.Opcode == "!=") && len(m.Inner) == 2 {
				if v, ok := cIntValue(m.Inner[1]); ok && v == -1 {
					why = "returns a value it compares with (size_t)-1"
				}
			}
			return true
		})
		if why != "" {
			out[name] = why
		}
	}
	return out
}

func checkFailureValues(c *Check, P *CProgram, r *Rule) {
	F := failureValueFuncs(P)
	c.extra["c_failure_value_functions"] = len(F)
	var names []string
	for n := range P.Funcs {
		names = append(names, n)
	}
	sort.Strings(names)
	isMinusOneCheck := func(cond *CNode, v string) bool {
		found := false
		cond.walk(func(m *CNode) bool {
			if m.Kind == "BinaryOperator" && len(m.Inner) == 2 {
				l, rr := cstrip(m.Inner[0]), cstrip(m.Inner[1])
				if l != nil && l.text() == v {
					if k, ok := cIntValue(rr); ok && ((k == -1 && (m.Opcode == "==" || m.Opcode == "!=")) || (k == 0 && (m.Opcode == "<" || m.Opcode == ">="))) {
						found = true
					}
				}
			}
			return !found
		})
		return found
	}
	for _, name := range names {
		f := P.Funcs[name]
		if _, self := F[name]; self {
			continue
		}
		seen := map[string]int{}
		// walk with parent tracking
		var rec func(n *CNode, parents []*CNode)
		rec = func(n *CNode, parents []*CNode) {
			if n.Kind == "CallExpr" {
				if why, ok := F[n.calleeName()]; ok {
					callee := n.calleeName()
					seen[callee]++
					key := "C " + f.Name + "|result of " + callee
					if seen[callee] > 1 {
						key += fmt.Sprintf(" #%d", seen[callee])
					}
					pos := fmt.Sprintf("%s:%d", f.Unit, n.line)
					// nearest non-cast parent
					var par *CNode
					for i := len(parents) - 1; i >= 0; i-- {
						k := parents[i].Kind
						if k == "ImplicitCastExpr" || k == "ParenExpr" || k == "CStyleCastExpr" {
							continue
						}
						par = parents[i]
						break
					}
					v := ""
					switch {
					case par == nil || par.Kind == "CompoundStmt":
						// result discarded: the output buffer must not be a local array that is read afterwards
						buf := ""
						if a := n.args(); len(a) > 0 {
							if b := cstrip(a[0]); b != nil && b.Kind == "DeclRefExpr" {
								buf = b.text()
							}
						}
						readLater := false
						if buf != "" {
							f.Body.walk(func(m *CNode) bool {
								if m.Kind == "DeclRefExpr" && m.text() == buf && m.line > n.line {
									readLater = true
								}
								return true
							})
						}
						if readLater {
							r.AddAt(Bad, key, pos, callee+" ("+why+") writes nothing into "+buf+" when it fails, its result is ignored and "+buf+" is read afterwards: an invalid code point makes the function read uninitialised memory up to whatever byte happens to be 0")
						} else {
							r.AddAt(OK, key, pos, "result unused; the buffer is not a local that is read afterwards")
						}
						return
					case par.Kind == "VarDecl":
						v = par.Name
					case par.Kind == "BinaryOperator" && par.Opcode == "=" && cstrip(par.Inner[0]).Kind == "DeclRefExpr" && cstrip(par.Inner[1]) == n:
						v = cstrip(par.Inner[0]).text()
					case par.Kind == "IfStmt" || par.Kind == "BinaryOperator" && (par.Opcode == "==" || par.Opcode == "!="):
						r.AddAt(OK, key, pos, "compared directly")
						return
					case par.Kind == "ReturnStmt":
						r.AddAt(OK, key, pos, "handed on to the caller unchanged")
						return
					default:
						r.AddAt(Bad, key, pos, "the result of "+callee+" ("+why+") is used in '"+par.text()+"' without a test for the failure value: for an invalid code point the length/offset is SIZE_MAX (i.e. -1) and memory outside the block is read or written")
						return
					}
					// variable: a test of v against the failure value must come before every other use
					checkLine, firstUse := 0, 0
					var walkUses func(m *CNode, inCheck bool)
					walkUses = func(m *CNode, inCheck bool) {
						if m.Kind == "IfStmt" && len(m.Inner) > 0 && isMinusOneCheck(m.Inner[0], v) && m.line >= n.line {
							if checkLine == 0 || m.line < checkLine {
								checkLine = m.line
							}
							for _, ch := range m.Inner[1:] {
								walkUses(ch, false)
							}
							return
						}
						if m.Kind == "DeclRefExpr" && m.text() == v && m.line > n.line {
							if firstUse == 0 || m.line < firstUse {
								firstUse = m.line
							}
						}
						for _, ch := range m.Inner {
							walkUses(ch, inCheck)
						}
					}
					walkUses(f.Body, false)
					switch {
					case checkLine != 0 && (firstUse == 0 || checkLine <= firstUse):
						r.AddAt(OK, key, pos, fmt.Sprintf("%s is tested against the failure value (line %d) before it is used", v, checkLine))
					case firstUse == 0:
						r.AddAt(OK, key, pos, v+" is never used")
					default:
						r.AddAt(Bad, key, pos, fmt.Sprintf("%s receives the result of %s (%s) and is used (line %d) without a preceding test for the failure value: for an invalid code point it is SIZE_MAX (i.e. -1) and memory outside the block is read or written", v, callee, why, firstUse))
					}
					return
				}
			}
			for _, ch := range n.Inner {
				rec(ch, append(parents, n))
			}
		}
		rec(f.Body, nil)
	}
}

// takenOverByC: for every concatenation function the generator binds to a C symbol, the argument positions (over ret, a, b)
// whose text object the C function moves or resets on some path - derived from the C source alone.
func takenOverByC(L *Loaded, P *CProgram) map[string][]int {
	out := map[string][]int{}
	for field, sym := range concatBindings(L) {
		if !strings.HasSuffix(field, "concat_IrFunc") {
			continue
		}
		f := P.Funcs[sym]
		if f == nil {
			continue
		}
		for i, p := range cParamNames(f) {
			if i == 0 {
				continue
			}
			ends, _ := disposalPaths(f, p)
			for _, e := range ends {
				moved := false
				for _, t := range e.trail {
					if strings.Contains(t, "ddp_reallocate") || strings.Contains(t, "copied out") || strings.Contains(t, "reset") {
						moved = true
					}
				}
				if moved {
					out[field] = append(out[field], i)
					break
				}
			}
		}
	}
	return out
}
