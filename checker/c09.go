package main

import (
	"fmt"
	"go/ast"
	"go/constant"
	"go/token"
	"go/types"
	"golang.org/x/tools/go/cfg"
	"os"
	"sort"
	"strings"

	"golang.org/x/tools/go/packages"
)

func init() { registry["C09"] = checkC09 }

func checkC09(c *Check) {
	L := c.L
	c.Expl = "Structural clauses of 'calls resolve to the longest type-matching alias; arguments bind by name': the comparator that orders the matched candidates is extracted from sortAliases and evaluated on every ordered pair of a finite population (length 2..3 × generic 0..1 × Referenz 0..2) against the documented order (R9.1); alias() sorts on every path before the trial loop, tries candidates in that order with type checking on, returns the first that type-checks and falls back to the first (R9.2); argument maps are written under the placeholder's own name (from the alias token) and read under the parameter's own name everywhere, and the parameter type is looked up under the same name (R9.3); the trie search and the typed check accept the same argument forms, and the forms admitted for a Referenz argument are those assigneable() parses (R9.5); once an operator token is consumed the expression parser builds the operator node, never hands back an operand (R9.6); a negated alias wraps the call in 'nicht' (R9.7); the operator-overload table comparator is evaluated on 36 pairs and the lookup filters by ddptypes.Equal operand by operand (R9.8). Not decided: which declaration wins for every population of aliases and token sequence (trie traversal, argument cache), the producer side of negation markers."
	checkC09Comparator(c, L)
	checkC09AliasLoop(c, L)
	checkC09ByName(c, L)
	checkC09Siblings(c, L)
	checkC09Overloads(c, L)
	checkTrieNodeIndices(c, c.Rule("R9.9", "the trie search gives its key generator a different index for every visited node (the generator keeps one saved position per index)", 1))
	checkC09OperatorNodes(c, L)
}

// R9.6: once an operator token has been consumed, the parser returns an operator node - never one of the operands themselves.
func checkC09OperatorNodes(c *Check, L *Loaded) {
	r := c.Rule("R9.6", "after consuming an operator token the expression parser builds the operator's node; it never hands back an operand in its place (user overloads are looked up on operator nodes)", 8)
	pp := L.ByRel["src/parser"]
	info := pp.TypesInfo
	opNode := func(t types.Type) bool {
		if p, ok := t.(*types.Pointer); ok {
			t = p.Elem()
		}
		n, ok := t.(*types.Named)
		if !ok || !strings.HasSuffix(n.Obj().Pkg().Path(), "/src/ast") {
			return false
		}
		switch n.Obj().Name() {
		case "UnaryExpr", "BinaryExpr", "TernaryExpr", "CastExpr", "TypeOpExpr", "TypeCheck":
			return true
		}
		return false
	}
	isParserCall := func(e ast.Expr) bool {
		call, ok := ast.Unparen(e).(*ast.CallExpr)
		if !ok {
			return false
		}
		fn := Callee(info, call)
		if fn == nil {
			return false
		}
		sig, _ := fn.Type().(*types.Signature)
		return sig != nil && sig.Recv() != nil && strings.HasSuffix(sig.Recv().Type().String(), "parser.parser")
	}
	consumes := func(cond ast.Expr) bool {
		found := false
		if cond == nil {
			return false
		}
		ast.Inspect(cond, func(n ast.Node) bool {
			if call, ok := n.(*ast.CallExpr); ok {
				if fn := Callee(info, call); fn != nil && (nameIs(fn, "matchAny") || nameIs(fn, "matchSeq")) {
					found = true
				}
			}
			return true
		})
		return found
	}
	for _, fi := range L.sortedFuncs() {
		if fi.Pkg != pp || fi.Decl.Body == nil || fi.Decl.Recv == nil {
			continue
		}
		if !strings.HasSuffix(L.Pos(fi.Decl.Pos()), "") || !strings.Contains(L.Pos(fi.Decl.Pos()), "src/parser/expressions.go") {
			continue
		}
		builds := false
		ast.Inspect(fi.Decl.Body, func(n ast.Node) bool {
			if cl, ok := n.(*ast.CompositeLit); ok && opNode(info.TypeOf(cl)) {
				builds = true
			}
			return true
		})
		if !builds {
			continue
		}
		n := 0
		var visit func(body *ast.BlockStmt)
		checkRegion := func(body *ast.BlockStmt) {
			// operands: identifiers defined in the region from parser calls, and type-switch bindings of them
			operand := map[types.Object]bool{}
			ast.Inspect(body, func(x ast.Node) bool {
				switch s := x.(type) {
				case *ast.AssignStmt:
					if len(s.Lhs) == len(s.Rhs) {
						for i, l := range s.Lhs {
							if id, ok := l.(*ast.Ident); ok && isParserCall(s.Rhs[i]) {
								if o := info.Defs[id]; o != nil {
									operand[o] = true
								}
							}
						}
					}
				case *ast.TypeSwitchStmt:
					if as, ok := s.Assign.(*ast.AssignStmt); ok && len(as.Rhs) == 1 {
						if ta, ok := as.Rhs[0].(*ast.TypeAssertExpr); ok {
							if id, ok := ast.Unparen(ta.X).(*ast.Ident); ok && operand[info.Uses[id]] {
								for _, cc := range s.Body.List {
									if o := info.Implicits[cc]; o != nil {
										operand[o] = true
									}
								}
							}
						}
					}
				}
				return true
			})
			ast.Inspect(body, func(x ast.Node) bool {
				if _, ok := x.(*ast.FuncLit); ok {
					return false
				}
				ret, ok := x.(*ast.ReturnStmt)
				if !ok || len(ret.Results) != 1 {
					return true
				}
				n++
				key := fmt.Sprintf("%s|return in an operator region", L.QName(fi.Obj))
				if n > 1 {
					key += fmt.Sprintf(" #%d", n)
				}
				if id, ok := ast.Unparen(ret.Results[0]).(*ast.Ident); ok && operand[info.Uses[id]] {
					r.Bad(key, ret.Pos(), "after an operator token was consumed the function returns its operand '"+id.Name+"' itself: the operator node is never built, so a user-defined overload of the operator is not considered for this occurrence")
				} else {
					r.OK(key, ret.Pos(), "returns a node built here or the result of a further parse step")
				}
				return true
			})
		}
		visit = func(body *ast.BlockStmt) {
			for _, st := range body.List {
				switch s := st.(type) {
				case *ast.ForStmt:
					if consumes(s.Cond) {
						checkRegion(s.Body)
					} else {
						visit(s.Body)
					}
				case *ast.IfStmt:
					if consumes(s.Cond) {
						checkRegion(s.Body)
					} else {
						visit(s.Body)
					}
					if eb, ok := s.Else.(*ast.BlockStmt); ok {
						visit(eb)
					}
				case *ast.BlockStmt:
					visit(s)
				}
			}
		}
		visit(fi.Decl.Body)
	}
	_ = sort.Strings
	_ = token.NoPos
}

func init() {
	registry["XC09"] = func(c *Check) {
		L := c.L
		for _, fi := range L.sortedFuncs() {
			if fi.Decl.Body == nil {
				continue
			}
			info := fi.Pkg.TypesInfo
			ast.Inspect(fi.Decl.Body, func(n ast.Node) bool {
				ix, ok := n.(*ast.IndexExpr)
				if !ok {
					return true
				}
				t := info.TypeOf(ix.X)
				if t == nil {
					return true
				}
				if m, ok := t.Underlying().(*types.Map); ok && strings.HasSuffix(m.Elem().String(), "ast.Expression") {
					fmt.Println(L.Pos(ix.Pos()), L.QName(fi.Obj), types.ExprString(ix))
				}
				return true
			})
		}
	}
}

// R9.1: the candidate ordering, decided by evaluating the comparator given to sort.Slice on a finite population.
func checkC09Comparator(c *Check, L *Loaded) {
	r := c.Rule("R9.1", "candidates are ordered by length (longer first), then non-generic before generic, then more Referenz parameters first; the comparator is a strict weak order", 1)
	fi := L.Fn("src/parser.sortAliases")
	if fi == nil {
		r.Und("parser.sortAliases", token.NoPos, "function not found")
		return
	}
	in := NewInterp(L)
	installDDPTypesModels(in)
	var less Closure
	haveLess := false
	threeWay := false // the comparator takes two elements and returns an int (slices.SortFunc) instead of two indices and a bool
	in.Models["sort.Slice"] = func(in *Interp, pkg *packages.Package, call *ast.CallExpr, recv Val, args []Val) (Val, bool) {
		if cl, ok := args[1].(Closure); ok {
			less, haveLess = cl, true
		}
		return TupleV(nil), true
	}
	in.Models["sort.SliceStable"] = in.Models["sort.Slice"]
	in.Models["slices.SortFunc"] = func(in *Interp, pkg *packages.Package, call *ast.CallExpr, recv Val, args []Val) (Val, bool) {
		if cl, ok := args[1].(Closure); ok {
			less, haveLess, threeWay = cl, true, true
		}
		return TupleV(nil), true
	}
	in.Models["slices.SortStableFunc"] = in.Models["slices.SortFunc"]
	getter := func(field string) func(in *Interp, pkg *packages.Package, call *ast.CallExpr, recv Val, args []Val) (Val, bool) {
		return func(in *Interp, pkg *packages.Package, call *ast.CallExpr, recv Val, args []Val) (Val, bool) {
			if o, ok := recv.(*Obj); ok {
				return o.get(field), true
			}
			return Unk{field}, true
		}
	}
	in.Models["ast.(Alias).GetTokens"] = getter("Tokens")
	in.Models["ast.(Alias).GetArgs"] = getter("Args")
	// population
	type feat struct {
		length, gen, refs int
		strct             bool // the alias of a Kombination's constructor (ast.StructAlias) instead of a function's
	}
	var pop []feat
	for _, l := range []int{2, 3} {
		for g := 0; g <= 1; g++ {
			for rf := 0; rf <= 2; rf++ {
				pop = append(pop, feat{l, g, rf, false})
			}
			pop = append(pop, feat{l, g, 0, true})
		}
	}
	mkAlias := func(f feat) *Obj {
		a := newObj("ast.FuncAlias")
		if f.strct {
			a = newObj("ast.StructAlias")
		}
		toks := SliceV{}
		for i := 0; i < f.length; i++ {
			toks.Elems = append(toks.Elems, newObj("token.Token"))
		}
		a.set("Tokens", toks)
		args := MapV{}
		add := func(name string, generic, ref bool) {
			pt := newObj("ddptypes.ParameterType")
			if generic {
				pt.set("Type", TypeV{&DT{Kind: "GENERIC", Name: "T"}})
			} else {
				pt.set("Type", TypeV{&DT{Kind: "ZAHL"}})
			}
			pt.set("IsReference", boolV(ref))
			args.Keys = append(args.Keys, StrV(name))
			args.Vals = append(args.Vals, pt)
		}
		n := 0
		for i := 0; i < f.gen; i++ {
			add(fmt.Sprint("g", n), true, false)
			n++
		}
		for i := 0; i < f.refs; i++ {
			add(fmt.Sprint("r", n), false, true)
			n++
		}
		add("v", false, false)
		a.set("Args", args)
		return a
	}
	sl := SliceV{}
	for _, f := range pop {
		sl.Elems = append(sl.Elems, mkAlias(f))
	}
	in.RunAll(4, func() {
		in.CallFunc(fi, nil, []Val{sl})
	})
	if !haveLess {
		r.Und("parser.sortAliases|comparator", fi.Decl.Pos(), "no comparator handed to a sort routine was found")
		return
	}
	kindOf := func(f feat) string {
		if f.strct {
			return " Kombination"
		}
		return ""
	}
	want := func(a, b feat) bool {
		if a.length != b.length {
			return a.length > b.length
		}
		if a.gen != b.gen {
			return a.gen < b.gen
		}
		return a.refs > b.refs
	}
	var bad []string
	und := 0
	got := map[[2]int]bool{}
	for i := range pop {
		for j := range pop {
			var res Val
			in.RunAll(8, func() {
				if threeWay {
					res = in.callClosure(less, []Val{sl.Elems[i], sl.Elems[j]})
					return
				}
				// the closure refers to matchedAliases of its defining call: bind it to the population
				res = in.callClosure(less, []Val{ConstV{V: constantInt(i), T: intType()}, ConstV{V: constantInt(j), T: intType()}})
			})
			t, known := truth(res)
			if threeWay {
				known = false
				if cv, ok := res.(ConstV); ok && cv.V != nil && cv.V.Kind() == constant.Int {
					if n, exact := constant.Int64Val(cv.V); exact {
						t, known = n < 0, true
					}
				}
			}
			if !known {
				und++
				if os.Getenv("VERIF_DEBUG") != "" && und < 4 {
					fmt.Printf("R9.1 debug: less(%d,%d) = %#v\n", i, j, res)
				}
				continue
			}
			got[[2]int{i, j}] = t
			if t != want(pop[i], pop[j]) {
				bad = append(bad, fmt.Sprintf("less(len=%d generic=%d refs=%d%s, len=%d generic=%d refs=%d%s) = %v, the documented order says %v", pop[i].length, pop[i].gen, pop[i].refs, kindOf(pop[i]), pop[j].length, pop[j].gen, pop[j].refs, kindOf(pop[j]), t, want(pop[i], pop[j])))
			}
		}
	}
	if und > 0 {
		r.Und("parser.sortAliases|comparator", fi.Decl.Pos(), fmt.Sprintf("%d of %d comparisons could not be evaluated", und, len(pop)*len(pop)))
		return
	}
	c.extra["comparator_pairs_evaluated"] = len(pop) * len(pop)
	r.Decide(len(bad) == 0, "parser.sortAliases|comparator", fi.Decl.Pos(), fmt.Sprintf("%d ordered pairs over length 2..3 × generic 0..1 × Referenz 0..2, function and Kombination aliases, agree with the documented order", len(pop)*len(pop)), strings.Join(firstN(uniq(bad), 4), "; ")+": a shorter, a generic or a by-value declaration is tried before the one the language promises")
}

func firstN(s []string, n int) []string {
	if len(s) > n {
		return s[:n]
	}
	return s
}

// R9.2 + R9.7: the shape of alias(): sorted before the search loop, candidates tried in order, first type-correct one wins,
// the longest one is the fallback, a negated alias wraps the call in 'nicht'.
func checkC09AliasLoop(c *Check, L *Loaded) {
	r := c.Rule("R9.2", "alias(): the matched candidates are sorted, tried in that order with type checking on, and the first one whose arguments type-check is the call; the fallback is the first (longest) candidate", 4)
	fi := L.Fn("src/parser.(*parser).alias")
	if fi == nil {
		r.Und("parser.(*parser).alias", token.NoPos, "function not found")
		return
	}
	info := fi.Pkg.TypesInfo
	sortFn := L.Fn("src/parser.sortAliases")
	var searchAssign *ast.AssignStmt
	var matched types.Object
	ast.Inspect(fi.Decl.Body, func(n ast.Node) bool {
		if as, ok := n.(*ast.AssignStmt); ok && len(as.Rhs) == 1 && searchAssign == nil {
			if call, ok := as.Rhs[0].(*ast.CallExpr); ok {
				if fn := Callee(info, call); fn != nil && nameIs(fn, "Search") {
					searchAssign = as
					if id, ok := as.Lhs[0].(*ast.Ident); ok {
						matched = info.Defs[id]
					}
				}
			}
		}
		return true
	})
	if matched == nil {
		r.Und("parser.(*parser).alias|trie search", fi.Decl.Pos(), "the trie search result was not found")
		return
	}
	// the range loop over the candidates
	var loop *ast.RangeStmt
	ast.Inspect(fi.Decl.Body, func(n ast.Node) bool {
		if rs, ok := n.(*ast.RangeStmt); ok && loop == nil {
			if id, ok := ast.Unparen(rs.X).(*ast.Ident); ok && info.Uses[id] == matched {
				loop = rs
			}
		}
		return true
	})
	if loop == nil {
		r.Bad("parser.(*parser).alias|candidate loop", fi.Decl.Pos(), "no ascending range loop over the matched candidates: the order established by the sort is not the order of trial")
		return
	}
	// (a) sorted on every path between search and loop
	g := L.CFG(fi)
	mf := &mustFlow{G: g, Init: 0, Transfer: func(n ast.Node, s uint32) uint32 {
		callsIn(n, func(call *ast.CallExpr) {
			if sortFn != nil && Callee(info, call) == sortFn.Obj && len(call.Args) == 1 {
				if id, ok := ast.Unparen(call.Args[0]).(*ast.Ident); ok && info.Uses[id] == matched {
					s |= 1
				}
			}
		})
		if as, ok := n.(*ast.AssignStmt); ok {
			for _, l := range as.Lhs {
				if id, ok := l.(*ast.Ident); ok && (info.Uses[id] == matched || info.Defs[id] == matched) {
					s &^= 1
				}
			}
		}
		return s
	}}
	mf.Run()
	sorted := false
	for _, b := range g.Blocks {
		for i, n := range b.Nodes {
			if n == loop.X || n == ast.Node(loop) || (n.Pos() <= loop.X.Pos() && loop.X.End() <= n.End() && n.Pos() >= loop.Pos()) {
				if b.Live && mf.StateAt(b, i)&1 != 0 {
					sorted = true
				}
			}
		}
	}
	r.Decide(sorted, "parser.(*parser).alias|sorted before the candidate loop", loop.Pos(), "sortAliases(candidates) on every path to the loop", "the candidates reach the trial loop without being sorted: trie traversal order decides which declaration is called")
	// (b) index-only ascending range, checkAlias(candidates[i], true, ...)
	idxObj := types.Object(nil)
	if id, ok := loop.Key.(*ast.Ident); ok {
		idxObj = info.Defs[id]
	}
	isCand := func(e ast.Expr) bool {
		e = ast.Unparen(e)
		if ix, ok := e.(*ast.IndexExpr); ok {
			b, ok1 := ast.Unparen(ix.X).(*ast.Ident)
			k, ok2 := ast.Unparen(ix.Index).(*ast.Ident)
			return ok1 && ok2 && info.Uses[b] == matched && info.Uses[k] == idxObj
		}
		if id, ok := e.(*ast.Ident); ok && loop.Value != nil {
			if v, ok := loop.Value.(*ast.Ident); ok {
				return info.Uses[id] == info.Defs[v]
			}
		}
		return false
	}
	var chk *ast.CallExpr
	ast.Inspect(loop.Body, func(n ast.Node) bool {
		if call, ok := n.(*ast.CallExpr); ok {
			if fn := Callee(info, call); fn != nil && nameIs(fn, "checkAlias") && chk == nil {
				chk = call
			}
		}
		return true
	})
	okChk := chk != nil && len(chk.Args) >= 2 && isCand(chk.Args[0])
	ts := false
	if okChk {
		if tv, ok := info.Types[chk.Args[1]]; ok && tv.Value != nil && tv.Value.String() == "true" {
			ts = true
		}
	}
	r.Decide(okChk && ts, "parser.(*parser).alias|each candidate is type-checked", loop.Pos(), "checkAlias(candidate, typeSensitive = true, ...)", "the trial loop does not check the current candidate with type checking on: a candidate whose parameter types differ from the argument types can be chosen")
	// (c) success returns the call built from the same candidate
	succ := false
	ast.Inspect(loop.Body, func(n ast.Node) bool {
		if ret, ok := n.(*ast.ReturnStmt); ok && len(ret.Results) == 1 {
			if call, ok := ret.Results[0].(*ast.CallExpr); ok && len(call.Args) >= 1 && isCand(call.Args[0]) {
				succ = true
			}
		}
		return true
	})
	r.Decide(succ, "parser.(*parser).alias|first success returns", loop.Pos(), "the first candidate that type-checks is returned from inside the loop", "the loop does not return the candidate it has just accepted: a later (shorter / generic / by-value) candidate can override it")
	// (d) fallback: mostFitting assigned only when nil, from the current candidate
	fb := false
	ast.Inspect(loop.Body, func(n ast.Node) bool {
		if is, ok := n.(*ast.IfStmt); ok {
			if be, ok := is.Cond.(*ast.BinaryExpr); ok && be.Op == token.EQL && info.Types[be.Y].IsNil() {
				ast.Inspect(is.Body, func(m ast.Node) bool {
					if cl, ok := m.(*ast.CompositeLit); ok && len(cl.Elts) > 0 && isCand(cl.Elts[0]) {
						fb = true
					}
					return true
				})
			}
		}
		return true
	})
	r.Decide(fb, "parser.(*parser).alias|fallback is the first candidate", loop.Pos(), "the fallback candidate is fixed at the first (longest) one", "the candidate reported when none type-checks is not the first of the sorted list")
	// R9.7
	r7 := c.Rule("R9.7", "a call through the negated form of an alias is the logical negation of the call", 1)
	// decided on the control-flow graph of the function (literal) that reads FuncAlias.Negated: a return of
	// &ast.UnaryExpr{Operator: UN_NOT, Rhs: <the call>} must lie on paths where Negated is known to be true, a return of
	// the bare *ast.FuncCall on paths where it is known to be false; at least one negating return exists
	neg := false
	{
		isNegated := func(e ast.Expr) bool {
			sel, ok := ast.Unparen(e).(*ast.SelectorExpr)
			if !ok {
				return false
			}
			v := fieldOf(info, sel)
			return v != nil && nameIs(v, "Negated")
		}
		var body *ast.BlockStmt
		ast.Inspect(fi.Decl.Body, func(n ast.Node) bool {
			if sel, ok := n.(*ast.SelectorExpr); ok && isNegated(sel) && body == nil {
				body = fi.Decl.Body
				if fl := enclosingFuncLit(fi.Decl.Body, sel); fl != nil {
					body = fl.Body
				}
			}
			return true
		})
		if body != nil {
			g := L.CFGBody(fi.Pkg, body)
			const negTrue, negFalse = 1, 2
			mf := &mustFlow{G: g, Init: 0, Transfer: func(n ast.Node, s uint32) uint32 { return s },
				Edge: func(b *cfg.Block, i int, s uint32) uint32 {
					if len(b.Nodes) == 0 {
						return s
					}
					cond, ok := b.Nodes[len(b.Nodes)-1].(ast.Expr)
					if !ok {
						return s
					}
					cond = ast.Unparen(cond)
					inv := false
					if u, ok := cond.(*ast.UnaryExpr); ok && u.Op == token.NOT {
						inv = true
						cond = ast.Unparen(u.X)
					}
					if !isNegated(cond) {
						return s
					}
					if (i == 0) != inv {
						return s | negTrue
					}
					return s | negFalse
				}}
			mf.Run()
			notCalls, problems := 0, 0
			for _, b := range g.Blocks {
				if !b.Live {
					continue
				}
				for i, n := range b.Nodes {
					ret, ok := n.(*ast.ReturnStmt)
					if !ok || len(ret.Results) != 1 {
						continue
					}
					st := mf.StateAt(b, i)
					res := ast.Unparen(ret.Results[0])
					if ue, ok := res.(*ast.UnaryExpr); ok && ue.Op == token.AND {
						if cl, ok := ue.X.(*ast.CompositeLit); ok {
							if t := info.TypeOf(cl); t != nil && strings.HasSuffix(t.String(), "ast.UnaryExpr") {
								opOK, rhsOK := false, false
								for _, el := range cl.Elts {
									kv, ok := el.(*ast.KeyValueExpr)
									if !ok {
										continue
									}
									kid, _ := kv.Key.(*ast.Ident)
									if kid == nil {
										continue
									}
									switch kid.Name {
									case "Operator":
										if s, ok := ast.Unparen(kv.Value).(*ast.SelectorExpr); ok && s.Sel.Name == "UN_NOT" {
											opOK = true
										}
									case "Rhs":
										if t := info.TypeOf(kv.Value); t != nil && strings.HasSuffix(t.String(), "ast.FuncCall") {
											rhsOK = true
										}
									}
								}
								if opOK && rhsOK && st&negTrue != 0 {
									notCalls++
								} else {
									problems++
								}
								continue
							}
						}
					}
					if t := info.TypeOf(res); t != nil && strings.HasSuffix(t.String(), "ast.FuncCall") && st&negFalse == 0 {
						problems++ // the bare call is returned although the alias may be the negated form
					}
				}
			}
			neg = notCalls > 0 && problems == 0
		}
	}
	r7.Decide(neg, "parser.(*parser).alias|negated alias", fi.Decl.Pos(), "Negated ⇒ UnaryExpr{UN_NOT, Rhs: the call}", "a call written with the negated form of an alias is not wrapped in 'nicht' applied to the call")
}

// R9.3: arguments are bound and looked up by the parameter's own name.
func checkC09ByName(c *Check, L *Loaded) {
	r := c.Rule("R9.3", "argument maps are written under the placeholder's own name and read under the parameter's own name, never by position or a fixed key", 8)
	n := map[string]int{}
	// single definitions of locals, per function
	defsOf := map[*FuncInfo]map[types.Object]ast.Expr{}
	getDefs := func(fi *FuncInfo) map[types.Object]ast.Expr {
		if d, ok := defsOf[fi]; ok {
			return d
		}
		info := fi.Pkg.TypesInfo
		defs := map[types.Object]ast.Expr{}
		ast.Inspect(fi.Decl.Body, func(x ast.Node) bool {
			if as, ok := x.(*ast.AssignStmt); ok && as.Tok == token.DEFINE && len(as.Lhs) == len(as.Rhs) {
				for i, l := range as.Lhs {
					if id, ok := l.(*ast.Ident); ok && info.Defs[id] != nil {
						defs[info.Defs[id]] = as.Rhs[i]
					}
				}
			}
			return true
		})
		defsOf[fi] = defs
		return defs
	}
	var classifyIn func(fi *FuncInfo, e ast.Expr, depth int) string
	classifyIn = func(fi *FuncInfo, e ast.Expr, depth int) string {
		info := fi.Pkg.TypesInfo
		defs := getDefs(fi)
		e = ast.Unparen(e)
		switch x := e.(type) {
		case *ast.SelectorExpr:
			// X.Name.Literal on a ParameterInfo, X.Name on a struct field
			if x.Sel.Name == "Literal" {
				if inner, ok := ast.Unparen(x.X).(*ast.SelectorExpr); ok && inner.Sel.Name == "Name" {
					if t := info.TypeOf(inner.X); t != nil && strings.HasSuffix(strings.TrimPrefix(t.String(), "*"), "ast.ParameterInfo") {
						return "parameter name"
					}
				}
			}
			if x.Sel.Name == "Name" {
				if t := info.TypeOf(x.X); t != nil && strings.HasSuffix(t.String(), "ddptypes.StructField") {
					return "field name"
				}
			}
		case *ast.CallExpr:
			// strings.Trim(tok.Literal, "<>")
			if fn := Callee(info, x); fn != nil && fn.Pkg() != nil && fn.Pkg().Path() == "strings" && strings.HasPrefix(fn.Name(), "Trim") && len(x.Args) >= 1 {
				if s, ok := ast.Unparen(x.Args[0]).(*ast.SelectorExpr); ok && s.Sel.Name == "Literal" {
					if t := info.TypeOf(s.X); t != nil && strings.HasSuffix(strings.TrimPrefix(t.String(), "*"), "token.Token") {
						return "placeholder name"
					}
				}
			}
		case *ast.Ident:
			o := info.Uses[x]
			if d, ok := defs[o]; ok && depth < 4 {
				return classifyIn(fi, d, depth+1)
			}
			// a string parameter of this function: judged at its call sites (all of them must agree)
			if v, ok := o.(*types.Var); ok && fi.Obj != nil && depth < 4 {
				sig := fi.Obj.Type().(*types.Signature)
				for i := 0; i < sig.Params().Len(); i++ {
					if sig.Params().At(i) == v {
						res := ""
						for _, cs := range L.CallSites(fi.Obj) {
							k := ""
							if i < len(cs.Call.Args) {
								k = classifyIn(cs.Fn, cs.Call.Args[i], depth+1)
							}
							if k == "" || (res != "" && res != k) {
								return ""
							}
							res = k
						}
						return res
					}
				}
			}
		}
		return ""
	}
	for _, fi := range L.sortedFuncs() {
		if fi.Decl.Body == nil {
			continue
		}
		info := fi.Pkg.TypesInfo
		classify := func(e ast.Expr, depth int) string { return classifyIn(fi, e, depth) }
		ast.Inspect(fi.Decl.Body, func(x ast.Node) bool {
			ix, ok := x.(*ast.IndexExpr)
			if !ok {
				return true
			}
			t := info.TypeOf(ix.X)
			if t == nil {
				return true
			}
			m, ok := t.Underlying().(*types.Map)
			if !ok || !strings.HasSuffix(m.Elem().String(), "ast.Expression") {
				return true
			}
			q := L.QName(fi.Obj)
			n[q]++
			key := q + "|" + types.ExprString(ix.X) + "[...]"
			if n[q] > 1 {
				key += fmt.Sprintf(" #%d", n[q])
			}
			kind := classify(ix.Index, 0)
			want := "parameter name"
			if strings.HasSuffix(q, "checkAlias") {
				want = "placeholder name"
			}
			switch {
			case kind == "":
				r.Bad(key, ix.Pos(), "the argument map is indexed with '"+types.ExprString(ix.Index)+"', which is neither the placeholder's nor the parameter's own name: arguments are paired with parameters by something other than their names")
			case kind == "field name", kind == want:
				r.OK(key, ix.Pos(), "key is the "+kind)
			default:
				r.Bad(key, ix.Pos(), "in "+q+" the argument map is keyed by the "+kind+" where the "+want+" is required: with permuted placeholders the arguments reach the wrong parameters")
			}
			return true
		})
	}
	// in checkAlias the parameter type is looked up under the same name the argument is stored under
	if fi := L.Fn("src/parser.(*parser).checkAlias"); fi != nil {
		info := fi.Pkg.TypesInfo
		var storeKey, typeKey types.Object
		ast.Inspect(fi.Decl.Body, func(x ast.Node) bool {
			ix, ok := x.(*ast.IndexExpr)
			if !ok {
				return true
			}
			id, ok := ast.Unparen(ix.Index).(*ast.Ident)
			if !ok {
				return true
			}
			if m, ok := info.TypeOf(ix.X).Underlying().(*types.Map); ok {
				if strings.HasSuffix(m.Elem().String(), "ast.Expression") {
					storeKey = info.Uses[id]
				}
				if strings.HasSuffix(m.Elem().String(), "ddptypes.ParameterType") {
					typeKey = info.Uses[id]
				}
			}
			return true
		})
		r.Decide(storeKey != nil && storeKey == typeKey, "parser.(*parser).checkAlias|type looked up under the argument's name", fi.Decl.Pos(), "one name keys both the parameter type and the argument", "the parameter type an argument is checked against is looked up under a different key than the argument is stored under")
	}
}

// caseTokenSets: for a switch over a token type inside fn, the token constants of each case clause (in order).
func tokenCaseSets(info *types.Info, sw *ast.SwitchStmt) [][]string {
	var out [][]string
	for _, st := range sw.Body.List {
		cc, ok := st.(*ast.CaseClause)
		if !ok {
			continue
		}
		var names []string
		for _, e := range cc.List {
			if s, ok := ast.Unparen(e).(*ast.SelectorExpr); ok {
				names = append(names, s.Sel.Name)
			}
		}
		sort.Strings(names)
		out = append(out, names)
	}
	// the clauses of a switch over one token type are disjoint: their order does not matter
	sort.Slice(out, func(i, j int) bool { return strings.Join(out[i], ",") < strings.Join(out[j], ",") })
	return out
}

// R9.4/R9.5: the two walkers over a call's tokens (trie search and typed check) accept the same argument forms, and the
// forms admitted for a Referenz parameter are exactly the ones assigneable() can parse.
func checkC09Siblings(c *Check, L *Loaded) {
	r := c.Rule("R9.5", "the trie search and the typed candidate check accept the same argument forms; the forms admitted for a Referenz argument are those assigneable() parses", 3)
	aliasFn := L.Fn("src/parser.(*parser).alias")
	chkFn := L.Fn("src/parser.(*parser).checkAlias")
	assFn := L.Fn("src/parser.(*parser).assigneable")
	if aliasFn == nil || chkFn == nil || assFn == nil {
		r.Und("parser alias walkers", token.NoPos, "functions not found")
		return
	}
	info := aliasFn.Pkg.TypesInfo
	// the switch over the next token's type inside 'if tok.Type == token.ALIAS_PARAMETER' (search) / 'switch pType' (check)
	findSwitch := func(fi *FuncInfo) *ast.SwitchStmt {
		var best *ast.SwitchStmt
		ast.Inspect(fi.Decl.Body, func(n ast.Node) bool {
			sw, ok := n.(*ast.SwitchStmt)
			if !ok {
				return true
			}
			sets := tokenCaseSets(info, sw)
			has := false
			for _, s := range sets {
				for _, n := range s {
					if n == "LPAREN" {
						has = true
					}
				}
			}
			if has && len(sets) >= 3 && best == nil {
				best = sw
			}
			return true
		})
		return best
	}
	s1, s2 := findSwitch(aliasFn), findSwitch(chkFn)
	if s1 == nil || s2 == nil {
		r.Und("parser.(*parser).alias / checkAlias|argument-form switches", token.NoPos, "the switches over the argument's first token were not found")
	} else {
		a, b := fmt.Sprint(tokenCaseSets(info, s1)), fmt.Sprint(tokenCaseSets(info, s2))
		r.Decide(a == b, "parser.(*parser).alias / checkAlias|argument forms", s2.Pos(), "both accept "+a, "the trie search accepts "+a+" but the typed check parses "+b+": a call matched by the search is cut at a different token by the check, so a shorter candidate or none is chosen")
		// follow set after NEGATE
		follow := func(sw *ast.SwitchStmt) string {
			res := ""
			for _, st := range sw.Body.List {
				cc := st.(*ast.CaseClause)
				for _, e := range cc.List {
					if s, ok := ast.Unparen(e).(*ast.SelectorExpr); ok && s.Sel.Name == "NEGATE" {
						ast.Inspect(cc, func(n ast.Node) bool {
							if call, ok := n.(*ast.CallExpr); ok {
								if fn := Callee(info, call); fn != nil && nameIs(fn, "matchAny") {
									var ns []string
									for _, a := range call.Args {
										if s, ok := a.(*ast.SelectorExpr); ok {
											ns = append(ns, s.Sel.Name)
										}
									}
									sort.Strings(ns)
									res = fmt.Sprint(ns)
								}
							}
							return true
						})
					}
				}
			}
			return res
		}
		fa, fb := follow(s1), follow(s2)
		r.Decide(fa == fb && fa != "", "parser.(*parser).alias / checkAlias|tokens after a minus sign", s2.Pos(), "both accept "+fa, "after a minus sign the search accepts "+fa+" but the check "+fb)
	}
	// Referenz admission set vs assigneable(): the early rejection `return nil, ...` whose enclosing conditions (one
	// compound condition or nested ifs) test IsReference; the admitted forms are the constants the token type is
	// compared with by != in those conditions
	var admitted []string
	var admPos token.Pos
	mentionsIsRef := func(e ast.Expr) bool {
		found := false
		ast.Inspect(e, func(m ast.Node) bool {
			if sel, ok := m.(*ast.SelectorExpr); ok {
				if v := fieldOf(info, sel); v != nil && nameIs(v, "IsReference") {
					found = true
				}
			}
			return true
		})
		return found
	}
	{
		var stack []ast.Node
		ast.Inspect(chkFn.Decl.Body, func(n ast.Node) bool {
			if n == nil {
				stack = stack[:len(stack)-1]
				return true
			}
			stack = append(stack, n)
			ret, ok := n.(*ast.ReturnStmt)
			if !ok || len(admitted) > 0 || len(ret.Results) == 0 || !info.Types[ret.Results[0]].IsNil() {
				return true
			}
			// conditions of the ifs whose then-branch contains the return, innermost loop/function as the boundary
			var conds []ast.Expr
			for i := len(stack) - 2; i >= 0; i-- {
				switch x := stack[i].(type) {
				case *ast.IfStmt:
					if i+1 < len(stack) && stack[i+1] == ast.Node(x.Body) {
						conds = append(conds, x.Cond)
					}
				case *ast.ForStmt, *ast.RangeStmt, *ast.FuncLit:
					i = -1
				}
			}
			isRef := false
			for _, cnd := range conds {
				if mentionsIsRef(cnd) {
					isRef = true
				}
			}
			if !isRef {
				return true
			}
			var adm []string
			for _, cnd := range conds {
				ast.Inspect(cnd, func(m ast.Node) bool {
					if be, ok := m.(*ast.BinaryExpr); ok && be.Op == token.NEQ {
						if s, ok := ast.Unparen(be.Y).(*ast.SelectorExpr); ok {
							if tv, ok := info.Types[be.Y]; ok && tv.Value != nil {
								adm = append(adm, s.Sel.Name)
							}
						}
					}
					return true
				})
			}
			if len(adm) > 0 {
				admitted = adm
				admPos = ret.Pos()
			}
			return true
		})
	}
	sort.Strings(admitted)
	// assigneable(): starts from the previous token being an identifier, or - tested explicitly - something else
	parses := []string{"IDENTIFIER"}
	ast.Inspect(assFn.Decl.Body, func(n ast.Node) bool {
		if be, ok := n.(*ast.BinaryExpr); ok && be.Op == token.EQL {
			if call, ok := ast.Unparen(be.X).(*ast.SelectorExpr); ok && call.Sel.Name == "Type" {
				if inner, ok := ast.Unparen(call.X).(*ast.CallExpr); ok {
					if fn := Callee(info, inner); fn != nil && nameIs(fn, "previous") {
						if s, ok := ast.Unparen(be.Y).(*ast.SelectorExpr); ok {
							parses = append(parses, s.Sel.Name)
						}
					}
				}
			}
		}
		return true
	})
	sort.Strings(parses)
	// the trie search must not be stricter about Referenz arguments than the typed check: any rejection it makes on
	// 'is a Referenz parameter' has to admit the same forms
	{
		var fl *ast.FuncLit
		ast.Inspect(aliasFn.Decl.Body, func(n ast.Node) bool {
			if call, ok := n.(*ast.CallExpr); ok && fl == nil {
				if fn := Callee(info, call); fn != nil && nameIs(fn, "Search") && len(call.Args) == 1 {
					fl, _ = call.Args[0].(*ast.FuncLit)
				}
			}
			return true
		})
		if fl != nil {
			var searchAdm []string
			found := false
			var pos token.Pos
			ast.Inspect(fl.Body, func(n ast.Node) bool {
				is, ok := n.(*ast.IfStmt)
				if !ok || !mentionsIsRef(is.Cond) {
					return true
				}
				rejects := false
				for _, st := range is.Body.List {
					if ret, ok := st.(*ast.ReturnStmt); ok && len(ret.Results) == 2 {
						if tv, ok := info.Types[ret.Results[1]]; ok && tv.Value != nil && tv.Value.String() == "false" {
							rejects = true
						}
					}
				}
				if !rejects {
					return true
				}
				found = true
				pos = is.Pos()
				ast.Inspect(is.Cond, func(m ast.Node) bool {
					if be, ok := m.(*ast.BinaryExpr); ok && be.Op == token.NEQ {
						if s, ok := ast.Unparen(be.Y).(*ast.SelectorExpr); ok {
							if tv, ok := info.Types[be.Y]; ok && tv.Value != nil {
								searchAdm = append(searchAdm, s.Sel.Name)
							}
						}
					}
					return true
				})
				return true
			})
			sort.Strings(searchAdm)
			if found {
				r.Decide(fmt.Sprint(searchAdm) == fmt.Sprint(parses), "parser.(*parser).alias|forms the trie search admits for a Referenz argument", pos, "admits "+fmt.Sprint(searchAdm), "the trie search skips a declaration with a Referenz parameter unless the argument starts with "+fmt.Sprint(searchAdm)+", while assigneable() parses "+fmt.Sprint(parses)+": such a declaration is never collected for the other forms and a by-value declaration with the same pattern is called instead")
			} else {
				r.OK("parser.(*parser).alias|forms the trie search admits for a Referenz argument", fl.Pos(), "the search does not filter on Referenz parameters; the typed check decides")
			}
		}
	}
	if len(admitted) == 0 {
		r.Und("parser.(*parser).checkAlias|forms admitted for a Referenz argument", token.NoPos, "the early rejection of non-assignable arguments was not found")
	} else {
		r.Decide(fmt.Sprint(admitted) == fmt.Sprint(parses), "parser.(*parser).checkAlias|forms admitted for a Referenz argument", admPos, "admits "+fmt.Sprint(admitted)+", which is what assigneable() parses", "a Referenz argument may start with "+fmt.Sprint(admitted)+" according to the candidate check, but assigneable() parses "+fmt.Sprint(parses)+": a declaration with a Referenz parameter is skipped for (or offered) argument forms the other side handles differently, and a by-value declaration with the same pattern is called instead")
	}
}

// R9.8: operator overloads: table order and exact-type selection.
func checkC09Overloads(c *Check, L *Loaded) {
	r := c.Rule("R9.8", "operator overloads are kept non-generic first, then by number of Referenz parameters descending, and are selected by type equality operand by operand", 3)
	fi := L.Fn("src/parser.(*parser).insertOperatorOverload")
	if fi == nil {
		r.Und("parser.(*parser).insertOperatorOverload", token.NoPos, "function not found")
		return
	}
	in := NewInterp(L)
	installDDPTypesModels(in)
	installSearchModels(in)
	in.Models["ddptypes.CastDeeplyNestedGenerics"] = func(in *Interp, pkg *packages.Package, call *ast.CallExpr, recv Val, args []Val) (Val, bool) {
		if tv, ok := args[0].(TypeV); ok {
			d := tv.T
			for d != nil && d.Kind == "LIST" {
				d = d.Elem
			}
			if d != nil && d.Kind == "GENERIC" {
				return TupleV{tv, boolV(true)}, true
			}
			return TupleV{NilV{}, boolV(false)}, true
		}
		return TupleV{Unk{"generic?"}, Unk{"generic?"}}, true
	}
	in.Models["parser.operatorParameterTypesEqual"] = func(in *Interp, pkg *packages.Package, call *ast.CallExpr, recv Val, args []Val) (Val, bool) {
		return boolV(false), true
	}
	type feat struct{ gen, refs int }
	mkDecl := func(f feat) *Obj {
		d := newObj("ast.FuncDecl")
		ps := SliceV{}
		add := func(generic, ref bool) {
			pt := newObj("ddptypes.ParameterType")
			if generic {
				pt.set("Type", TypeV{&DT{Kind: "GENERIC", Name: "T"}})
			} else {
				pt.set("Type", TypeV{&DT{Kind: "ZAHL"}})
			}
			pt.set("IsReference", boolV(ref))
			p := newObj("ast.ParameterInfo")
			p.set("Type", pt)
			ps.Elems = append(ps.Elems, p)
		}
		for i := 0; i < f.gen; i++ {
			add(true, false)
		}
		for i := 0; i < f.refs; i++ {
			add(false, true)
		}
		add(false, false)
		d.set("Parameters", ps)
		return d
	}
	// decided on a finite model of the whole insertion (whatever search helper it uses): declarations with 0..1 generic and
	// 0..2 Referenz parameters are inserted in several orders; afterwards the table must list non-generic overloads before
	// generic ones and, within each group, more Referenz parameters first
	var pop []feat
	for g := 0; g <= 1; g++ {
		for rf := 0; rf <= 2; rf++ {
			pop = append(pop, feat{g, rf})
		}
	}
	orders := [][]int{{0, 1, 2, 3, 4, 5}, {5, 4, 3, 2, 1, 0}, {3, 0, 5, 1, 4, 2}, {2, 5, 1, 3, 0, 4}, {4, 2, 0, 5, 3, 1}}
	op := ConstV{V: constant.MakeInt64(1), T: types.Typ[types.Int]}
	var bad []string
	und := ""
	for _, ord := range orders {
		pobj := newObj("parser")
		pobj.set("Operators", MapV{Exact: true})
		featOf := map[*Obj]feat{}
		for _, k := range ord {
			d := mkDecl(pop[k])
			d.set("Operator", op)
			featOf[d] = pop[k]
			runs, _ := in.RunAll(8, func() { in.CallFunc(fi, pobj, []Val{d}) })
			if runs != 1 {
				und = "the insertion depends on something the evaluation does not know"
			}
			for _, ev := range in.Events {
				if ev.Kind == "panic" {
					und = "panic: " + ev.Msg
				}
			}
		}
		mv, _ := pobj.get("Operators").(MapV)
		var table []feat
		if len(mv.Vals) == 1 {
			if sl, ok := mv.Vals[0].(SliceV); ok {
				for _, e := range sl.Elems {
					if o, ok := e.(*Obj); ok {
						table = append(table, featOf[o])
					}
				}
			}
		}
		if len(table) != len(ord) {
			if und == "" {
				und = fmt.Sprintf("after %d insertions the table holds %d overloads", len(ord), len(table))
			}
			continue
		}
		for i := 1; i < len(table); i++ {
			a, b := table[i-1], table[i]
			if a.gen > b.gen || (a.gen == b.gen && a.refs < b.refs) {
				bad = append(bad, fmt.Sprintf("inserting in the order %v leaves (generic=%d, Referenz=%d) before (generic=%d, Referenz=%d)", ord, a.gen, a.refs, b.gen, b.refs))
				break
			}
		}
	}
	switch {
	case und != "" && len(bad) == 0:
		r.Und("parser.(*parser).insertOperatorOverload|comparator", fi.Decl.Pos(), und)
	default:
		r.Decide(len(bad) == 0, "parser.(*parser).insertOperatorOverload|comparator", fi.Decl.Pos(), fmt.Sprintf("%d insertion orders of 6 declarations: the table stays non-generic before generic, more Referenz parameters first", len(orders)), strings.Join(firstN(bad, 2), "; ")+": the lookup, which stops at the first generic overload and takes the first match, can skip or prefer the wrong overload")
	}
	// R9.8b: every candidate overload is unified against an EMPTY table of type-parameter bindings: in the loop over the
	// candidates the table handed to UnifyGenericType is cleared or freshly made, unconditionally, before the first
	// unification of the iteration. A binding left over from a rejected candidate makes the next generic candidate fail
	// although its parameter types equal the operand types, and the built-in meaning of the operator is used instead.
	for _, name := range []string{"findOverload", "findOverloadCast"} {
		f := L.Fn("src/parser/typechecker.(*Typechecker)." + name)
		if f == nil {
			continue
		}
		info := f.Pkg.TypesInfo
		found := false
		ast.Inspect(f.Decl.Body, func(n ast.Node) bool {
			rs, ok := n.(*ast.RangeStmt)
			if !ok {
				return true
			}
			// the binding tables unified against inside this loop
			tables := map[types.Object]bool{}
			ast.Inspect(rs.Body, func(m ast.Node) bool {
				if call, ok := m.(*ast.CallExpr); ok {
					if fn := Callee(info, call); fn != nil && nameIs(fn, "UnifyGenericType") && len(call.Args) == 3 {
						if id, ok := ast.Unparen(call.Args[2]).(*ast.Ident); ok {
							tables[info.Uses[id]] = true
						}
					}
				}
				return true
			})
			if len(tables) == 0 {
				return true
			}
			found = true
			for tbl := range tables {
				fresh, okAll := false, true
				for _, st := range rs.Body.List {
					// a top-level clear(tbl) / tbl = make(...) / tbl := make(...)
					switch x := st.(type) {
					case *ast.ExprStmt:
						if call, ok := x.X.(*ast.CallExpr); ok {
							if id, ok := ast.Unparen(call.Fun).(*ast.Ident); ok && id.Name == "clear" && len(call.Args) == 1 {
								if aid, ok := ast.Unparen(call.Args[0]).(*ast.Ident); ok && info.Uses[aid] == tbl {
									fresh = true
								}
							}
						}
					case *ast.AssignStmt:
						for i, l := range x.Lhs {
							if lid, ok := l.(*ast.Ident); ok && (info.Defs[lid] == tbl || info.Uses[lid] == tbl) && i < len(x.Rhs) {
								if call, ok := ast.Unparen(x.Rhs[i]).(*ast.CallExpr); ok {
									if id, ok := ast.Unparen(call.Fun).(*ast.Ident); ok && id.Name == "make" {
										fresh = true
									}
								}
								if _, isLit := ast.Unparen(x.Rhs[i]).(*ast.CompositeLit); isLit {
									fresh = true
								}
							}
						}
					}
					uses := false
					ast.Inspect(st, func(m ast.Node) bool {
						if call, ok := m.(*ast.CallExpr); ok {
							if fn := Callee(info, call); fn != nil && nameIs(fn, "UnifyGenericType") && len(call.Args) == 3 {
								if id, ok := ast.Unparen(call.Args[2]).(*ast.Ident); ok && info.Uses[id] == tbl {
									uses = true
								}
							}
						}
						return true
					})
					if uses && !fresh {
						okAll = false
					}
				}
				r.Decide(okAll, "typechecker.(*Typechecker)."+name+"|bindings emptied per candidate", rs.Pos(), "the table of type-parameter bindings is cleared or made anew at the top of every iteration", "a candidate overload is unified against type-parameter bindings that an earlier, rejected candidate may have left behind (the table is not unconditionally emptied at the top of the iteration): a generic overload whose parameter types equal the operand types is rejected and the built-in operator is applied instead")
			}
			return false // the loop over the candidates is the outermost one; inner loops (over the operands) belong to one candidate
		})
		if !found {
			r.Und("typechecker.(*Typechecker)."+name+"|bindings emptied per candidate", f.Decl.Pos(), "no unification inside a loop over the candidates found")
		}
	}
	// selection by equality
	for _, name := range []string{"findOverload", "findOverloadCast"} {
		f := L.Fn("src/parser/typechecker.(*Typechecker)." + name)
		if f == nil {
			r.Und("typechecker.(*Typechecker)."+name, token.NoPos, "function not found")
			continue
		}
		info := f.Pkg.TypesInfo
		eq := false
		ast.Inspect(f.Decl.Body, func(n ast.Node) bool {
			is, ok := n.(*ast.IfStmt)
			if !ok {
				return true
			}
			// the condition is a disjunction of negated ddptypes.Equal(...) tests, one of them on the operand's type
			hasEq := false
			var disj func(e ast.Expr) bool
			disj = func(e ast.Expr) bool {
				e = ast.Unparen(e)
				if be, ok := e.(*ast.BinaryExpr); ok && be.Op == token.LOR {
					return disj(be.X) && disj(be.Y)
				}
				ue, ok := e.(*ast.UnaryExpr)
				if !ok || ue.Op != token.NOT {
					return false
				}
				call, ok := ast.Unparen(ue.X).(*ast.CallExpr)
				if !ok {
					return false
				}
				fn := Callee(info, call)
				if fn == nil || !nameIs(fn, "Equal") || !strings.HasSuffix(fn.Pkg().Path(), "/ddptypes") {
					return false
				}
				for _, a := range call.Args {
					// the type of an operand: a ddptypes.Type field of the operand record (a struct of this package that
					// pairs a type with the expression it belongs to), whatever the loop variable is called
					if sel, ok := ast.Unparen(a).(*ast.SelectorExpr); ok {
						if v := fieldOf(info, sel); v != nil && strings.HasSuffix(v.Type().String(), "/ddptypes.Type") {
							if st, ok := info.TypeOf(sel.X).Underlying().(*types.Struct); ok {
								hasExpr := false
								for i := 0; i < st.NumFields(); i++ {
									if strings.HasSuffix(st.Field(i).Type().String(), "/ast.Expression") {
										hasExpr = true
									}
								}
								if hasExpr {
									hasEq = true
								}
							}
						}
					}
				}
				return true
			}
			if !disj(is.Cond) || !hasEq {
				return true
			}
			// the body skips this overload
			for _, st := range is.Body.List {
				if br, ok := st.(*ast.BranchStmt); ok && br.Tok == token.CONTINUE {
					eq = true
				}
			}
			return true
		})
		r.Decide(eq, "typechecker.(*Typechecker)."+name+"|operand types compared by equality", f.Decl.Pos(), "an overload whose parameter type differs from the operand type is skipped", "overloads are no longer filtered by ddptypes.Equal on the operand types: an overload for other types can be selected")
	}
}
