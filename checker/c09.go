package main

import (
	"fmt"
	"go/ast"
	"go/constant"
	"go/token"
	"go/types"
	"os"
	"sort"
	"strings"

	"golang.org/x/tools/go/packages"
)

func init() { registry["C09"] = checkC09 }

func checkC09(c *Check) {
	L := c.L
	c.Expl = "Structural clauses of 'calls resolve to the longest type-matching alias; arguments bind by name': the comparator that orders the matched candidates is extracted from sortAliases and evaluated on every ordered pair of a finite population (length 2..3 × generic 0..1 × Referenz 0..2) against the documented order (R9.1); alias() sorts on every path before the trial loop, tries candidates in that order with type checking on, returns the first that type-checks and falls back to the first (R9.2); argument maps are written under the placeholder's own name (from the alias token) and read under the parameter's own name everywhere, and the parameter type is looked up under the same name (R9.3); the trie search and the typed check accept the same argument forms, and the forms admitted for a Referenz argument are those assigneable() parses (R9.5); once an operator token is consumed the expression parser builds the operator node, never hands back an operand (R9.6); a negated alias wraps the call in 'nicht' (R9.7); the operator-overload table comparator is evaluated on 36 pairs and the lookup filters by ddptypes.Equal operand by operand (R9.8). Not decided: which declaration wins for every population of aliases and token sequence (trie traversal, argument cache), the producer side of negation markers."
	checkC09Comparator(c, L)
	checkC09AliasLoop(c, L)
	checkC09ByName(c, L)
	checkC09Siblings(c, L)
	checkC09Overloads(c, L)
	checkC09OperatorNodes(c, L)
}

// R9.6: once an operator token has been consumed, the parser returns an operator node - never one of the operands themselves.
func checkC09OperatorNodes(c *Check, L *Loaded) {
	r := c.Rule("R9.6", "after consuming an operator token the expression parser builds the operator's node; it never hands back an operand in its place (user overloads are looked up on operator nodes)", 8)
	pp := L.ByRel["src/parser"]
	info := pp.TypesInfo
	opNode := func(t types.Type) bool {
		if p, ok := t.(*types.Pointer); ok {
			t = p.Elem()
		}
		n, ok := t.(*types.Named)
		if !ok || !strings.HasSuffix(n.Obj().Pkg().Path(), "/src/ast") {
			return false
		}
		switch n.Obj().Name() {
		case "UnaryExpr", "BinaryExpr", "TernaryExpr", "CastExpr", "TypeOpExpr", "TypeCheck":
			return true
		}
		return false
	}
	isParserCall := func(e ast.Expr) bool {
		call, ok := ast.Unparen(e).(*ast.CallExpr)
		if !ok {
			return false
		}
		fn := Callee(info, call)
		if fn == nil {
			return false
		}
		sig, _ := fn.Type().(*types.Signature)
		return sig != nil && sig.Recv() != nil && strings.HasSuffix(sig.Recv().Type().String(), "parser.parser")
	}
	consumes := func(cond ast.Expr) bool {
		found := false
		if cond == nil {
			return false
		}
		ast.Inspect(cond, func(n ast.Node) bool {
			if call, ok := n.(*ast.CallExpr); ok {
				if fn := Callee(info, call); fn != nil && (fn.Name() == "matchAny" || fn.Name() == "matchSeq") {
					found = true
				}
			}
			return true
		})
		return found
	}
	for _, fi := range L.sortedFuncs() {
		if fi.Pkg != pp || fi.Decl.Body == nil || fi.Decl.Recv == nil {
			continue
		}
		if !strings.HasSuffix(L.Pos(fi.Decl.Pos()), "") || !strings.Contains(L.Pos(fi.Decl.Pos()), "src/parser/expressions.go") {
			continue
		}
		builds := false
		ast.Inspect(fi.Decl.Body, func(n ast.Node) bool {
			if cl, ok := n.(*ast.CompositeLit); ok && opNode(info.TypeOf(cl)) {
				builds = true
			}
			return true
		})
		if !builds {
			continue
		}
		n := 0
		var visit func(body *ast.BlockStmt)
		checkRegion := func(body *ast.BlockStmt) {
			// operands: identifiers defined in the region from parser calls, and type-switch bindings of them
			operand := map[types.Object]bool{}
			ast.Inspect(body, func(x ast.Node) bool {
				switch s := x.(type) {
				case *ast.AssignStmt:
					if len(s.Lhs) == len(s.Rhs) {
						for i, l := range s.Lhs {
							if id, ok := l.(*ast.Ident); ok && isParserCall(s.Rhs[i]) {
								if o := info.Defs[id]; o != nil {
									operand[o] = true
								}
							}
						}
					}
				case *ast.TypeSwitchStmt:
					if as, ok := s.Assign.(*ast.AssignStmt); ok && len(as.Rhs) == 1 {
						if ta, ok := as.Rhs[0].(*ast.TypeAssertExpr); ok {
							if id, ok := ast.Unparen(ta.X).(*ast.Ident); ok && operand[info.Uses[id]] {
								for _, cc := range s.Body.List {
									if o := info.Implicits[cc]; o != nil {
										operand[o] = true
									}
								}
							}
						}
					}
				}
				return true
			})
			ast.Inspect(body, func(x ast.Node) bool {
				if _, ok := x.(*ast.FuncLit); ok {
					return false
				}
				ret, ok := x.(*ast.ReturnStmt)
				if !ok || len(ret.Results) != 1 {
					return true
				}
				n++
				key := fmt.Sprintf("%s|return in an operator region", L.QName(fi.Obj))
				if n > 1 {
					key += fmt.Sprintf(" #%d", n)
				}
				if id, ok := ast.Unparen(ret.Results[0]).(*ast.Ident); ok && operand[info.Uses[id]] {
					r.Bad(key, ret.Pos(), "after an operator token was consumed the function returns its operand '"+id.Name+"' itself: the operator node is never built, so a user-defined overload of the operator is not considered for this occurrence")
				} else {
					r.OK(key, ret.Pos(), "returns a node built here or the result of a further parse step")
				}
				return true
			})
		}
		visit = func(body *ast.BlockStmt) {
			for _, st := range body.List {
				switch s := st.(type) {
				case *ast.ForStmt:
					if consumes(s.Cond) {
						checkRegion(s.Body)
					} else {
						visit(s.Body)
					}
				case *ast.IfStmt:
					if consumes(s.Cond) {
						checkRegion(s.Body)
					} else {
						visit(s.Body)
					}
					if eb, ok := s.Else.(*ast.BlockStmt); ok {
						visit(eb)
					}
				case *ast.BlockStmt:
					visit(s)
				}
			}
		}
		visit(fi.Decl.Body)
	}
	_ = sort.Strings
	_ = token.NoPos
}

func init() {
	registry["XC09"] = func(c *Check) {
		L := c.L
		for _, fi := range L.sortedFuncs() {
			if fi.Decl.Body == nil {
				continue
			}
			info := fi.Pkg.TypesInfo
			ast.Inspect(fi.Decl.Body, func(n ast.Node) bool {
				ix, ok := n.(*ast.IndexExpr)
				if !ok {
					return true
				}
				t := info.TypeOf(ix.X)
				if t == nil {
					return true
				}
				if m, ok := t.Underlying().(*types.Map); ok && strings.HasSuffix(m.Elem().String(), "ast.Expression") {
					fmt.Println(L.Pos(ix.Pos()), L.QName(fi.Obj), types.ExprString(ix))
				}
				return true
			})
		}
	}
}

// R9.1: the candidate ordering, decided by evaluating the comparator given to sort.Slice on a finite population.
func checkC09Comparator(c *Check, L *Loaded) {
	r := c.Rule("R9.1", "candidates are ordered by length (longer first), then non-generic before generic, then more Referenz parameters first; the comparator is a strict weak order", 1)
	fi := L.Fn("src/parser.sortAliases")
	if fi == nil {
		r.Und("parser.sortAliases", token.NoPos, "function not found")
		return
	}
	in := NewInterp(L)
	installDDPTypesModels(in)
	var less Closure
	haveLess := false
	in.Models["sort.Slice"] = func(in *Interp, pkg *packages.Package, call *ast.CallExpr, recv Val, args []Val) (Val, bool) {
		if cl, ok := args[1].(Closure); ok {
			less, haveLess = cl, true
		}
		return TupleV(nil), true
	}
	in.Models["sort.SliceStable"] = in.Models["sort.Slice"]
	in.Models["slices.SortFunc"] = in.Models["sort.Slice"]
	in.Models["slices.SortStableFunc"] = in.Models["sort.Slice"]
	getter := func(field string) func(in *Interp, pkg *packages.Package, call *ast.CallExpr, recv Val, args []Val) (Val, bool) {
		return func(in *Interp, pkg *packages.Package, call *ast.CallExpr, recv Val, args []Val) (Val, bool) {
			if o, ok := recv.(*Obj); ok {
				return o.get(field), true
			}
			return Unk{field}, true
		}
	}
	in.Models["ast.(Alias).GetTokens"] = getter("Tokens")
	in.Models["ast.(Alias).GetArgs"] = getter("Args")
	// population
	type feat struct{ length, gen, refs int }
	var pop []feat
	for _, l := range []int{2, 3} {
		for g := 0; g <= 1; g++ {
			for rf := 0; rf <= 2; rf++ {
				pop = append(pop, feat{l, g, rf})
			}
		}
	}
	mkAlias := func(f feat) *Obj {
		a := newObj("ast.FuncAlias")
		toks := SliceV{}
		for i := 0; i < f.length; i++ {
			toks.Elems = append(toks.Elems, newObj("token.Token"))
		}
		a.set("Tokens", toks)
		args := MapV{}
		add := func(name string, generic, ref bool) {
			pt := newObj("ddptypes.ParameterType")
			if generic {
				pt.set("Type", TypeV{&DT{Kind: "GENERIC", Name: "T"}})
			} else {
				pt.set("Type", TypeV{&DT{Kind: "ZAHL"}})
			}
			pt.set("IsReference", boolV(ref))
			args.Keys = append(args.Keys, StrV(name))
			args.Vals = append(args.Vals, pt)
		}
		n := 0
		for i := 0; i < f.gen; i++ {
			add(fmt.Sprint("g", n), true, false)
			n++
		}
		for i := 0; i < f.refs; i++ {
			add(fmt.Sprint("r", n), false, true)
			n++
		}
		add("v", false, false)
		a.set("Args", args)
		return a
	}
	sl := SliceV{}
	for _, f := range pop {
		sl.Elems = append(sl.Elems, mkAlias(f))
	}
	in.RunAll(4, func() {
		in.CallFunc(fi, nil, []Val{sl})
	})
	if !haveLess {
		r.Und("parser.sortAliases|comparator", fi.Decl.Pos(), "no comparator handed to a sort routine was found")
		return
	}
	want := func(a, b feat) bool {
		if a.length != b.length {
			return a.length > b.length
		}
		if a.gen != b.gen {
			return a.gen < b.gen
		}
		return a.refs > b.refs
	}
	var bad []string
	und := 0
	got := map[[2]int]bool{}
	for i := range pop {
		for j := range pop {
			var res Val
			in.RunAll(8, func() {
				// the closure refers to matchedAliases of its defining call: bind it to the population
				res = in.callClosure(less, []Val{ConstV{V: constantInt(i), T: intType()}, ConstV{V: constantInt(j), T: intType()}})
			})
			t, known := truth(res)
			if !known {
				und++
				if os.Getenv("VERIF_DEBUG") != "" && und < 4 {
					fmt.Printf("R9.1 debug: less(%d,%d) = %#v\n", i, j, res)
				}
				continue
			}
			got[[2]int{i, j}] = t
			if t != want(pop[i], pop[j]) {
				bad = append(bad, fmt.Sprintf("less(len=%d generic=%d refs=%d, len=%d generic=%d refs=%d) = %v, the documented order says %v", pop[i].length, pop[i].gen, pop[i].refs, pop[j].length, pop[j].gen, pop[j].refs, t, want(pop[i], pop[j])))
			}
		}
	}
	if und > 0 {
		r.Und("parser.sortAliases|comparator", fi.Decl.Pos(), fmt.Sprintf("%d of %d comparisons could not be evaluated", und, len(pop)*len(pop)))
		return
	}
	c.extra["comparator_pairs_evaluated"] = len(pop) * len(pop)
	r.Decide(len(bad) == 0, "parser.sortAliases|comparator", fi.Decl.Pos(), fmt.Sprintf("%d ordered pairs over length 2..3 × generic 0..1 × Referenz 0..2 agree with the documented order", len(pop)*len(pop)), strings.Join(firstN(uniq(bad), 4), "; ")+": a shorter, a generic or a by-value declaration is tried before the one the language promises")
}

func firstN(s []string, n int) []string {
	if len(s) > n {
		return s[:n]
	}
	return s
}

// R9.2 + R9.7: the shape of alias(): sorted before the search loop, candidates tried in order, first type-correct one wins,
// the longest one is the fallback, a negated alias wraps the call in 'nicht'.
func checkC09AliasLoop(c *Check, L *Loaded) {
	r := c.Rule("R9.2", "alias(): the matched candidates are sorted, tried in that order with type checking on, and the first one whose arguments type-check is the call; the fallback is the first (longest) candidate", 4)
	fi := L.Fn("src/parser.(*parser).alias")
	if fi == nil {
		r.Und("parser.(*parser).alias", token.NoPos, "function not found")
		return
	}
	info := fi.Pkg.TypesInfo
	sortFn := L.Fn("src/parser.sortAliases")
	var searchAssign *ast.AssignStmt
	var matched types.Object
	ast.Inspect(fi.Decl.Body, func(n ast.Node) bool {
		if as, ok := n.(*ast.AssignStmt); ok && len(as.Rhs) == 1 && searchAssign == nil {
			if call, ok := as.Rhs[0].(*ast.CallExpr); ok {
				if fn := Callee(info, call); fn != nil && fn.Name() == "Search" {
					searchAssign = as
					if id, ok := as.Lhs[0].(*ast.Ident); ok {
						matched = info.Defs[id]
					}
				}
			}
		}
		return true
	})
	if matched == nil {
		r.Und("parser.(*parser).alias|trie search", fi.Decl.Pos(), "the trie search result was not found")
		return
	}
	// the range loop over the candidates
	var loop *ast.RangeStmt
	ast.Inspect(fi.Decl.Body, func(n ast.Node) bool {
		if rs, ok := n.(*ast.RangeStmt); ok && loop == nil {
			if id, ok := ast.Unparen(rs.X).(*ast.Ident); ok && info.Uses[id] == matched {
				loop = rs
			}
		}
		return true
	})
	if loop == nil {
		r.Bad("parser.(*parser).alias|candidate loop", fi.Decl.Pos(), "no ascending range loop over the matched candidates: the order established by the sort is not the order of trial")
		return
	}
	// (a) sorted on every path between search and loop
	g := L.CFG(fi)
	mf := &mustFlow{G: g, Init: 0, Transfer: func(n ast.Node, s uint32) uint32 {
		callsIn(n, func(call *ast.CallExpr) {
			if sortFn != nil && Callee(info, call) == sortFn.Obj && len(call.Args) == 1 {
				if id, ok := ast.Unparen(call.Args[0]).(*ast.Ident); ok && info.Uses[id] == matched {
					s |= 1
				}
			}
		})
		if as, ok := n.(*ast.AssignStmt); ok {
			for _, l := range as.Lhs {
				if id, ok := l.(*ast.Ident); ok && (info.Uses[id] == matched || info.Defs[id] == matched) {
					s &^= 1
				}
			}
		}
		return s
	}}
	mf.Run()
	sorted := false
	for _, b := range g.Blocks {
		for i, n := range b.Nodes {
			if n == loop.X || n == ast.Node(loop) || (n.Pos() <= loop.X.Pos() && loop.X.End() <= n.End() && n.Pos() >= loop.Pos()) {
				if b.Live && mf.StateAt(b, i)&1 != 0 {
					sorted = true
				}
			}
		}
	}
	r.Decide(sorted, "parser.(*parser).alias|sorted before the candidate loop", loop.Pos(), "sortAliases(candidates) on every path to the loop", "the candidates reach the trial loop without being sorted: trie traversal order decides which declaration is called")
	// (b) index-only ascending range, checkAlias(candidates[i], true, ...)
	idxObj := types.Object(nil)
	if id, ok := loop.Key.(*ast.Ident); ok {
		idxObj = info.Defs[id]
	}
	isCand := func(e ast.Expr) bool {
		e = ast.Unparen(e)
		if ix, ok := e.(*ast.IndexExpr); ok {
			b, ok1 := ast.Unparen(ix.X).(*ast.Ident)
			k, ok2 := ast.Unparen(ix.Index).(*ast.Ident)
			return ok1 && ok2 && info.Uses[b] == matched && info.Uses[k] == idxObj
		}
		if id, ok := e.(*ast.Ident); ok && loop.Value != nil {
			if v, ok := loop.Value.(*ast.Ident); ok {
				return info.Uses[id] == info.Defs[v]
			}
		}
		return false
	}
	var chk *ast.CallExpr
	ast.Inspect(loop.Body, func(n ast.Node) bool {
		if call, ok := n.(*ast.CallExpr); ok {
			if fn := Callee(info, call); fn != nil && fn.Name() == "checkAlias" && chk == nil {
				chk = call
			}
		}
		return true
	})
	okChk := chk != nil && len(chk.Args) >= 2 && isCand(chk.Args[0])
	ts := false
	if okChk {
		if tv, ok := info.Types[chk.Args[1]]; ok && tv.Value != nil && tv.Value.String() == "true" {
			ts = true
		}
	}
	r.Decide(okChk && ts, "parser.(*parser).alias|each candidate is type-checked", loop.Pos(), "checkAlias(candidate, typeSensitive = true, ...)", "the trial loop does not check the current candidate with type checking on: a candidate whose parameter types differ from the argument types can be chosen")
	// (c) success returns the call built from the same candidate
	succ := false
	ast.Inspect(loop.Body, func(n ast.Node) bool {
		if ret, ok := n.(*ast.ReturnStmt); ok && len(ret.Results) == 1 {
			if call, ok := ret.Results[0].(*ast.CallExpr); ok && len(call.Args) >= 1 && isCand(call.Args[0]) {
				succ = true
			}
		}
		return true
	})
	r.Decide(succ, "parser.(*parser).alias|first success returns", loop.Pos(), "the first candidate that type-checks is returned from inside the loop", "the loop does not return the candidate it has just accepted: a later (shorter / generic / by-value) candidate can override it")
	// (d) fallback: mostFitting assigned only when nil, from the current candidate
	fb := false
	ast.Inspect(loop.Body, func(n ast.Node) bool {
		if is, ok := n.(*ast.IfStmt); ok {
			if be, ok := is.Cond.(*ast.BinaryExpr); ok && be.Op == token.EQL && info.Types[be.Y].IsNil() {
				ast.Inspect(is.Body, func(m ast.Node) bool {
					if cl, ok := m.(*ast.CompositeLit); ok && len(cl.Elts) > 0 && isCand(cl.Elts[0]) {
						fb = true
					}
					return true
				})
			}
		}
		return true
	})
	r.Decide(fb, "parser.(*parser).alias|fallback is the first candidate", loop.Pos(), "the fallback candidate is fixed at the first (longest) one", "the candidate reported when none type-checks is not the first of the sorted list")
	// R9.7
	r7 := c.Rule("R9.7", "a call through the negated form of an alias is the logical negation of the call", 1)
	neg := false
	ast.Inspect(fi.Decl.Body, func(n ast.Node) bool {
		is, ok := n.(*ast.IfStmt)
		if !ok {
			return true
		}
		sel, ok := ast.Unparen(is.Cond).(*ast.SelectorExpr)
		if !ok || sel.Sel.Name != "Negated" {
			return true
		}
		for _, st := range is.Body.List {
			ret, ok := st.(*ast.ReturnStmt)
			if !ok || len(ret.Results) != 1 {
				continue
			}
			ue, ok := ast.Unparen(ret.Results[0]).(*ast.UnaryExpr)
			if !ok || ue.Op != token.AND {
				continue
			}
			cl, ok := ue.X.(*ast.CompositeLit)
			if !ok {
				continue
			}
			opOK, rhsOK := false, false
			for _, el := range cl.Elts {
				kv, ok := el.(*ast.KeyValueExpr)
				if !ok {
					continue
				}
				switch kv.Key.(*ast.Ident).Name {
				case "Operator":
					if tv, ok := info.Types[kv.Value]; ok && tv.Value != nil {
						if s, ok := kv.Value.(*ast.SelectorExpr); ok && s.Sel.Name == "UN_NOT" {
							opOK = true
						}
					}
				case "Rhs":
					if t := info.TypeOf(kv.Value); t != nil && strings.HasSuffix(t.String(), "ast.FuncCall") {
						rhsOK = true
					}
				}
			}
			if opOK && rhsOK {
				neg = true
			}
		}
		return true
	})
	r7.Decide(neg, "parser.(*parser).alias|negated alias", fi.Decl.Pos(), "Negated ⇒ UnaryExpr{UN_NOT, Rhs: the call}", "a call written with the negated form of an alias is not wrapped in 'nicht' applied to the call")
}

// R9.3: arguments are bound and looked up by the parameter's own name.
func checkC09ByName(c *Check, L *Loaded) {
	r := c.Rule("R9.3", "argument maps are written under the placeholder's own name and read under the parameter's own name, never by position or a fixed key", 8)
	n := map[string]int{}
	// single definitions of locals, per function
	defsOf := map[*FuncInfo]map[types.Object]ast.Expr{}
	getDefs := func(fi *FuncInfo) map[types.Object]ast.Expr {
		if d, ok := defsOf[fi]; ok {
			return d
		}
		info := fi.Pkg.TypesInfo
		defs := map[types.Object]ast.Expr{}
		ast.Inspect(fi.Decl.Body, func(x ast.Node) bool {
			if as, ok := x.(*ast.AssignStmt); ok && as.Tok == token.DEFINE && len(as.Lhs) == len(as.Rhs) {
				for i, l := range as.Lhs {
					if id, ok := l.(*ast.Ident); ok && info.Defs[id] != nil {
						defs[info.Defs[id]] = as.Rhs[i]
					}
				}
			}
			return true
		})
		defsOf[fi] = defs
		return defs
	}
	var classifyIn func(fi *FuncInfo, e ast.Expr, depth int) string
	classifyIn = func(fi *FuncInfo, e ast.Expr, depth int) string {
		info := fi.Pkg.TypesInfo
		defs := getDefs(fi)
		e = ast.Unparen(e)
		switch x := e.(type) {
		case *ast.SelectorExpr:
			// X.Name.Literal on a ParameterInfo, X.Name on a struct field
			if x.Sel.Name == "Literal" {
				if inner, ok := ast.Unparen(x.X).(*ast.SelectorExpr); ok && inner.Sel.Name == "Name" {
					if t := info.TypeOf(inner.X); t != nil && strings.HasSuffix(strings.TrimPrefix(t.String(), "*"), "ast.ParameterInfo") {
						return "parameter name"
					}
				}
			}
			if x.Sel.Name == "Name" {
				if t := info.TypeOf(x.X); t != nil && strings.HasSuffix(t.String(), "ddptypes.StructField") {
					return "field name"
				}
			}
		case *ast.CallExpr:
			// strings.Trim(tok.Literal, "<>")
			if fn := Callee(info, x); fn != nil && fn.Pkg() != nil && fn.Pkg().Path() == "strings" && strings.HasPrefix(fn.Name(), "Trim") && len(x.Args) >= 1 {
				if s, ok := ast.Unparen(x.Args[0]).(*ast.SelectorExpr); ok && s.Sel.Name == "Literal" {
					if t := info.TypeOf(s.X); t != nil && strings.HasSuffix(strings.TrimPrefix(t.String(), "*"), "token.Token") {
						return "placeholder name"
					}
				}
			}
		case *ast.Ident:
			o := info.Uses[x]
			if d, ok := defs[o]; ok && depth < 4 {
				return classifyIn(fi, d, depth+1)
			}
			// a string parameter of this function: judged at its call sites (all of them must agree)
			if v, ok := o.(*types.Var); ok && fi.Obj != nil && depth < 4 {
				sig := fi.Obj.Type().(*types.Signature)
				for i := 0; i < sig.Params().Len(); i++ {
					if sig.Params().At(i) == v {
						res := ""
						for _, cs := range L.CallSites(fi.Obj) {
							k := ""
							if i < len(cs.Call.Args) {
								k = classifyIn(cs.Fn, cs.Call.Args[i], depth+1)
							}
							if k == "" || (res != "" && res != k) {
								return ""
							}
							res = k
						}
						return res
					}
				}
			}
		}
		return ""
	}
	for _, fi := range L.sortedFuncs() {
		if fi.Decl.Body == nil {
			continue
		}
		info := fi.Pkg.TypesInfo
		classify := func(e ast.Expr, depth int) string { return classifyIn(fi, e, depth) }
		ast.Inspect(fi.Decl.Body, func(x ast.Node) bool {
			ix, ok := x.(*ast.IndexExpr)
			if !ok {
				return true
			}
			t := info.TypeOf(ix.X)
			if t == nil {
				return true
			}
			m, ok := t.Underlying().(*types.Map)
			if !ok || !strings.HasSuffix(m.Elem().String(), "ast.Expression") {
				return true
			}
			q := L.QName(fi.Obj)
			n[q]++
			key := q + "|" + types.ExprString(ix.X) + "[...]"
			if n[q] > 1 {
				key += fmt.Sprintf(" #%d", n[q])
			}
			kind := classify(ix.Index, 0)
			want := "parameter name"
			if strings.HasSuffix(q, "checkAlias") {
				want = "placeholder name"
			}
			switch {
			case kind == "":
				r.Bad(key, ix.Pos(), "the argument map is indexed with '"+types.ExprString(ix.Index)+"', which is neither the placeholder's nor the parameter's own name: arguments are paired with parameters by something other than their names")
			case kind == "field name", kind == want:
				r.OK(key, ix.Pos(), "key is the "+kind)
			default:
				r.Bad(key, ix.Pos(), "in "+q+" the argument map is keyed by the "+kind+" where the "+want+" is required: with permuted placeholders the arguments reach the wrong parameters")
			}
			return true
		})
	}
	// in checkAlias the parameter type is looked up under the same name the argument is stored under
	if fi := L.Fn("src/parser.(*parser).checkAlias"); fi != nil {
		info := fi.Pkg.TypesInfo
		var storeKey, typeKey types.Object
		ast.Inspect(fi.Decl.Body, func(x ast.Node) bool {
			ix, ok := x.(*ast.IndexExpr)
			if !ok {
				return true
			}
			id, ok := ast.Unparen(ix.Index).(*ast.Ident)
			if !ok {
				return true
			}
			if m, ok := info.TypeOf(ix.X).Underlying().(*types.Map); ok {
				if strings.HasSuffix(m.Elem().String(), "ast.Expression") {
					storeKey = info.Uses[id]
				}
				if strings.HasSuffix(m.Elem().String(), "ddptypes.ParameterType") {
					typeKey = info.Uses[id]
				}
			}
			return true
		})
		r.Decide(storeKey != nil && storeKey == typeKey, "parser.(*parser).checkAlias|type looked up under the argument's name", fi.Decl.Pos(), "one name keys both the parameter type and the argument", "the parameter type an argument is checked against is looked up under a different key than the argument is stored under")
	}
}

// caseTokenSets: for a switch over a token type inside fn, the token constants of each case clause (in order).
func tokenCaseSets(info *types.Info, sw *ast.SwitchStmt) [][]string {
	var out [][]string
	for _, st := range sw.Body.List {
		cc, ok := st.(*ast.CaseClause)
		if !ok {
			continue
		}
		var names []string
		for _, e := range cc.List {
			if s, ok := ast.Unparen(e).(*ast.SelectorExpr); ok {
				names = append(names, s.Sel.Name)
			}
		}
		sort.Strings(names)
		out = append(out, names)
	}
	return out
}

// R9.4/R9.5: the two walkers over a call's tokens (trie search and typed check) accept the same argument forms, and the
// forms admitted for a Referenz parameter are exactly the ones assigneable() can parse.
func checkC09Siblings(c *Check, L *Loaded) {
	r := c.Rule("R9.5", "the trie search and the typed candidate check accept the same argument forms; the forms admitted for a Referenz argument are those assigneable() parses", 3)
	aliasFn := L.Fn("src/parser.(*parser).alias")
	chkFn := L.Fn("src/parser.(*parser).checkAlias")
	assFn := L.Fn("src/parser.(*parser).assigneable")
	if aliasFn == nil || chkFn == nil || assFn == nil {
		r.Und("parser alias walkers", token.NoPos, "functions not found")
		return
	}
	info := aliasFn.Pkg.TypesInfo
	// the switch over the next token's type inside 'if tok.Type == token.ALIAS_PARAMETER' (search) / 'switch pType' (check)
	findSwitch := func(fi *FuncInfo) *ast.SwitchStmt {
		var best *ast.SwitchStmt
		ast.Inspect(fi.Decl.Body, func(n ast.Node) bool {
			sw, ok := n.(*ast.SwitchStmt)
			if !ok {
				return true
			}
			sets := tokenCaseSets(info, sw)
			has := false
			for _, s := range sets {
				for _, n := range s {
					if n == "LPAREN" {
						has = true
					}
				}
			}
			if has && len(sets) >= 3 && best == nil {
				best = sw
			}
			return true
		})
		return best
	}
	s1, s2 := findSwitch(aliasFn), findSwitch(chkFn)
	if s1 == nil || s2 == nil {
		r.Und("parser.(*parser).alias / checkAlias|argument-form switches", token.NoPos, "the switches over the argument's first token were not found")
	} else {
		a, b := fmt.Sprint(tokenCaseSets(info, s1)), fmt.Sprint(tokenCaseSets(info, s2))
		r.Decide(a == b, "parser.(*parser).alias / checkAlias|argument forms", s2.Pos(), "both accept "+a, "the trie search accepts "+a+" but the typed check parses "+b+": a call matched by the search is cut at a different token by the check, so a shorter candidate or none is chosen")
		// follow set after NEGATE
		follow := func(sw *ast.SwitchStmt) string {
			res := ""
			for _, st := range sw.Body.List {
				cc := st.(*ast.CaseClause)
				for _, e := range cc.List {
					if s, ok := ast.Unparen(e).(*ast.SelectorExpr); ok && s.Sel.Name == "NEGATE" {
						ast.Inspect(cc, func(n ast.Node) bool {
							if call, ok := n.(*ast.CallExpr); ok {
								if fn := Callee(info, call); fn != nil && fn.Name() == "matchAny" {
									var ns []string
									for _, a := range call.Args {
										if s, ok := a.(*ast.SelectorExpr); ok {
											ns = append(ns, s.Sel.Name)
										}
									}
									sort.Strings(ns)
									res = fmt.Sprint(ns)
								}
							}
							return true
						})
					}
				}
			}
			return res
		}
		fa, fb := follow(s1), follow(s2)
		r.Decide(fa == fb && fa != "", "parser.(*parser).alias / checkAlias|tokens after a minus sign", s2.Pos(), "both accept "+fa, "after a minus sign the search accepts "+fa+" but the check "+fb)
	}
	// Referenz admission set vs assigneable()
	var admitted []string
	var admPos token.Pos
	ast.Inspect(chkFn.Decl.Body, func(n ast.Node) bool {
		is, ok := n.(*ast.IfStmt)
		if !ok || len(admitted) > 0 {
			return true
		}
		// cond mentions .IsReference and compares pType != token.X ...
		txt := types.ExprString(is.Cond)
		if !strings.Contains(txt, "IsReference") || !strings.Contains(txt, "!=") {
			return true
		}
		ast.Inspect(is.Cond, func(m ast.Node) bool {
			if be, ok := m.(*ast.BinaryExpr); ok && be.Op == token.NEQ {
				if s, ok := ast.Unparen(be.Y).(*ast.SelectorExpr); ok {
					if tv, ok := info.Types[be.Y]; ok && tv.Value != nil {
						admitted = append(admitted, s.Sel.Name)
					}
				}
			}
			return true
		})
		admPos = is.Pos()
		return true
	})
	sort.Strings(admitted)
	// assigneable(): starts from the previous token being an identifier, or - tested explicitly - something else
	parses := []string{"IDENTIFIER"}
	ast.Inspect(assFn.Decl.Body, func(n ast.Node) bool {
		if be, ok := n.(*ast.BinaryExpr); ok && be.Op == token.EQL {
			if call, ok := ast.Unparen(be.X).(*ast.SelectorExpr); ok && call.Sel.Name == "Type" {
				if inner, ok := ast.Unparen(call.X).(*ast.CallExpr); ok {
					if fn := Callee(info, inner); fn != nil && fn.Name() == "previous" {
						if s, ok := ast.Unparen(be.Y).(*ast.SelectorExpr); ok {
							parses = append(parses, s.Sel.Name)
						}
					}
				}
			}
		}
		return true
	})
	sort.Strings(parses)
	// the trie search must not be stricter about Referenz arguments than the typed check: any rejection it makes on
	// 'is a Referenz parameter' has to admit the same forms
	{
		var fl *ast.FuncLit
		ast.Inspect(aliasFn.Decl.Body, func(n ast.Node) bool {
			if call, ok := n.(*ast.CallExpr); ok && fl == nil {
				if fn := Callee(info, call); fn != nil && fn.Name() == "Search" && len(call.Args) == 1 {
					fl, _ = call.Args[0].(*ast.FuncLit)
				}
			}
			return true
		})
		if fl != nil {
			var searchAdm []string
			found := false
			var pos token.Pos
			ast.Inspect(fl.Body, func(n ast.Node) bool {
				is, ok := n.(*ast.IfStmt)
				if !ok || !strings.Contains(types.ExprString(is.Cond), "IsReference") {
					return true
				}
				rejects := false
				for _, st := range is.Body.List {
					if ret, ok := st.(*ast.ReturnStmt); ok && len(ret.Results) == 2 {
						if tv, ok := info.Types[ret.Results[1]]; ok && tv.Value != nil && tv.Value.String() == "false" {
							rejects = true
						}
					}
				}
				if !rejects {
					return true
				}
				found = true
				pos = is.Pos()
				ast.Inspect(is.Cond, func(m ast.Node) bool {
					if be, ok := m.(*ast.BinaryExpr); ok && be.Op == token.NEQ {
						if s, ok := ast.Unparen(be.Y).(*ast.SelectorExpr); ok {
							if tv, ok := info.Types[be.Y]; ok && tv.Value != nil {
								searchAdm = append(searchAdm, s.Sel.Name)
							}
						}
					}
					return true
				})
				return true
			})
			sort.Strings(searchAdm)
			if found {
				r.Decide(fmt.Sprint(searchAdm) == fmt.Sprint(parses), "parser.(*parser).alias|forms the trie search admits for a Referenz argument", pos, "admits "+fmt.Sprint(searchAdm), "the trie search skips a declaration with a Referenz parameter unless the argument starts with "+fmt.Sprint(searchAdm)+", while assigneable() parses "+fmt.Sprint(parses)+": such a declaration is never collected for the other forms and a by-value declaration with the same pattern is called instead")
			} else {
				r.OK("parser.(*parser).alias|forms the trie search admits for a Referenz argument", fl.Pos(), "the search does not filter on Referenz parameters; the typed check decides")
			}
		}
	}
	if len(admitted) == 0 {
		r.Und("parser.(*parser).checkAlias|forms admitted for a Referenz argument", token.NoPos, "the early rejection of non-assignable arguments was not found")
	} else {
		r.Decide(fmt.Sprint(admitted) == fmt.Sprint(parses), "parser.(*parser).checkAlias|forms admitted for a Referenz argument", admPos, "admits "+fmt.Sprint(admitted)+", which is what assigneable() parses", "a Referenz argument may start with "+fmt.Sprint(admitted)+" according to the candidate check, but assigneable() parses "+fmt.Sprint(parses)+": a declaration with a Referenz parameter is skipped for (or offered) argument forms the other side handles differently, and a by-value declaration with the same pattern is called instead")
	}
}

// R9.8: operator overloads: table order and exact-type selection.
func checkC09Overloads(c *Check, L *Loaded) {
	r := c.Rule("R9.8", "operator overloads are kept non-generic first, then by number of Referenz parameters descending, and are selected by type equality operand by operand", 3)
	fi := L.Fn("src/parser.(*parser).insertOperatorOverload")
	if fi == nil {
		r.Und("parser.(*parser).insertOperatorOverload", token.NoPos, "function not found")
		return
	}
	in := NewInterp(L)
	installDDPTypesModels(in)
	var cmp Closure
	have := false
	in.Models["slices.BinarySearchFunc"] = func(in *Interp, pkg *packages.Package, call *ast.CallExpr, recv Val, args []Val) (Val, bool) {
		if cl, ok := args[2].(Closure); ok {
			cmp, have = cl, true
		}
		return TupleV{Unk{"i"}, Unk{"found"}}, true
	}
	in.Models["ddptypes.CastDeeplyNestedGenerics"] = func(in *Interp, pkg *packages.Package, call *ast.CallExpr, recv Val, args []Val) (Val, bool) {
		if tv, ok := args[0].(TypeV); ok {
			d := tv.T
			for d != nil && d.Kind == "LIST" {
				d = d.Elem
			}
			if d != nil && d.Kind == "GENERIC" {
				return TupleV{tv, boolV(true)}, true
			}
			return TupleV{NilV{}, boolV(false)}, true
		}
		return TupleV{Unk{"generic?"}, Unk{"generic?"}}, true
	}
	in.Models["parser.operatorParameterTypesEqual"] = func(in *Interp, pkg *packages.Package, call *ast.CallExpr, recv Val, args []Val) (Val, bool) {
		return boolV(false), true
	}
	type feat struct{ gen, refs int }
	mkDecl := func(f feat) *Obj {
		d := newObj("ast.FuncDecl")
		ps := SliceV{}
		add := func(generic, ref bool) {
			pt := newObj("ddptypes.ParameterType")
			if generic {
				pt.set("Type", TypeV{&DT{Kind: "GENERIC", Name: "T"}})
			} else {
				pt.set("Type", TypeV{&DT{Kind: "ZAHL"}})
			}
			pt.set("IsReference", boolV(ref))
			p := newObj("ast.ParameterInfo")
			p.set("Type", pt)
			ps.Elems = append(ps.Elems, p)
		}
		for i := 0; i < f.gen; i++ {
			add(true, false)
		}
		for i := 0; i < f.refs; i++ {
			add(false, true)
		}
		add(false, false)
		d.set("Parameters", ps)
		return d
	}
	pobj := newObj("parser")
	pobj.set("Operators", MapV{})
	in.RunAll(8, func() {
		in.CallFunc(fi, pobj, []Val{mkDecl(feat{0, 0})})
	})
	if !have {
		r.Und("parser.(*parser).insertOperatorOverload|comparator", fi.Decl.Pos(), "no comparator handed to a binary search was found")
	} else {
		var pop []feat
		for g := 0; g <= 1; g++ {
			for rf := 0; rf <= 2; rf++ {
				pop = append(pop, feat{g, rf})
			}
		}
		sign := func(x int) int {
			switch {
			case x < 0:
				return -1
			case x > 0:
				return 1
			}
			return 0
		}
		want := func(a, b feat) int {
			if a.gen != b.gen {
				return sign(a.gen - b.gen)
			}
			return sign(b.refs - a.refs)
		}
		var bad []string
		und := 0
		for _, a := range pop {
			for _, b := range pop {
				var res Val
				in.RunAll(8, func() { res = in.callClosure(cmp, []Val{mkDecl(a), mkDecl(b)}) })
				cv, ok := res.(ConstV)
				if !ok || cv.V == nil {
					und++
					continue
				}
				k, _ := constant.Int64Val(cv.V)
				if sign(int(k)) != want(a, b) {
					bad = append(bad, fmt.Sprintf("cmp(generic=%d refs=%d, generic=%d refs=%d) has sign %d, expected %d", a.gen, a.refs, b.gen, b.refs, sign(int(k)), want(a, b)))
				}
			}
		}
		if und > 0 {
			r.Und("parser.(*parser).insertOperatorOverload|comparator", fi.Decl.Pos(), fmt.Sprintf("%d comparisons not evaluated", und))
		} else {
			r.Decide(len(bad) == 0, "parser.(*parser).insertOperatorOverload|comparator", fi.Decl.Pos(), "36 ordered pairs: non-generic before generic, more Referenz parameters first", strings.Join(firstN(bad, 3), "; ")+": the lookup, which stops at the first generic overload and takes the first match, can skip or prefer the wrong overload")
		}
	}
	// selection by equality
	for _, name := range []string{"findOverload", "findOverloadCast"} {
		f := L.Fn("src/parser/typechecker.(*Typechecker)." + name)
		if f == nil {
			r.Und("typechecker.(*Typechecker)."+name, token.NoPos, "function not found")
			continue
		}
		info := f.Pkg.TypesInfo
		eq := false
		ast.Inspect(f.Decl.Body, func(n ast.Node) bool {
			is, ok := n.(*ast.IfStmt)
			if !ok {
				return true
			}
			// the condition is a disjunction of negated ddptypes.Equal(...) tests, one of them on the operand's type
			hasEq := false
			var disj func(e ast.Expr) bool
			disj = func(e ast.Expr) bool {
				e = ast.Unparen(e)
				if be, ok := e.(*ast.BinaryExpr); ok && be.Op == token.LOR {
					return disj(be.X) && disj(be.Y)
				}
				ue, ok := e.(*ast.UnaryExpr)
				if !ok || ue.Op != token.NOT {
					return false
				}
				call, ok := ast.Unparen(ue.X).(*ast.CallExpr)
				if !ok {
					return false
				}
				fn := Callee(info, call)
				if fn == nil || fn.Name() != "Equal" || !strings.HasSuffix(fn.Pkg().Path(), "/ddptypes") {
					return false
				}
				for _, a := range call.Args {
					if strings.HasSuffix(types.ExprString(a), "operand.typ") {
						hasEq = true
					}
				}
				return true
			}
			if !disj(is.Cond) || !hasEq {
				return true
			}
			// the body skips this overload
			for _, st := range is.Body.List {
				if br, ok := st.(*ast.BranchStmt); ok && br.Tok == token.CONTINUE {
					eq = true
				}
			}
			return true
		})
		r.Decide(eq, "typechecker.(*Typechecker)."+name+"|operand types compared by equality", f.Decl.Pos(), "an overload whose parameter type differs from the operand type is skipped", "overloads are no longer filtered by ddptypes.Equal on the operand types: an overload for other types can be selected")
	}
}
