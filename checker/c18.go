package main

import (
	"fmt"
	"go/ast"
	"go/token"
	"go/types"
	"golang.org/x/tools/go/packages"
	"os"
	"path/filepath"
	"regexp"
	"sort"
	"strings"
)

func init() { registry["C18"] = checkC18 }

// goTyClass classifies the source text of an llir type expression of the generator.
func goTyClass(s string) string {
	s = strings.TrimSpace(s)
	switch s {
	case "i8ptr":
		return "ptr"
	case "ddpint", "i64":
		return "i64"
	case "ddpfloat":
		return "double"
	case "ddpbool":
		return "i1"
	case "ddpchar", "i32":
		return "i32"
	case "ddpbyte", "i8":
		return "i8"
	case "c.void.IrType()", "types.Void":
		return "void"
	case "any_value_type":
		return "agg"
	}
	if strings.HasPrefix(s, "ptr(") || strings.HasSuffix(s, ".ptr") || strings.HasSuffix(s, ".PtrType()") || strings.HasSuffix(s, "ptr") {
		return "ptr"
	}
	return "?" + s
}

// irTyClass classifies an expression of the generator that denotes an LLVM type, resolved through the type-checked
// program: package-level and once-defined local variables are followed to their initialisers, llir's predefined types
// are recognised by object, pointer constructors by callee. The source text decides only what cannot be resolved.
func irTyClass(L *Loaded, fi *FuncInfo, e ast.Expr) string {
	return irTyClassD(L, fi.Pkg, fi.Decl.Body, e, 0)
}

func irTyClassD(L *Loaded, pkg *packages.Package, body ast.Node, e ast.Expr, depth int) string {
	info := pkg.TypesInfo
	e = ast.Unparen(e)
	if depth > 6 {
		return goTyClass(L.Src(e))
	}
	switch x := e.(type) {
	case *ast.Ident:
		switch o := info.Uses[x].(type) {
		case *types.Var:
			if o.Pkg() != nil && o.Parent() == o.Pkg().Scope() {
				// package-level variable of the repository: its initialiser
				for _, p := range L.Pkgs {
					if p.Types != o.Pkg() {
						continue
					}
					for _, f := range p.Syntax {
						for _, d := range f.Decls {
							gd, ok := d.(*ast.GenDecl)
							if !ok {
								continue
							}
							for _, sp := range gd.Specs {
								vs, ok := sp.(*ast.ValueSpec)
								if !ok {
									continue
								}
								for i, n := range vs.Names {
									if p.TypesInfo.Defs[n] == o && i < len(vs.Values) && len(vs.Values) == len(vs.Names) {
										return irTyClassD(L, p, nil, vs.Values[i], depth+1)
									}
								}
							}
						}
					}
				}
			} else if body != nil {
				if d := singleDef(info, body, o); d != nil {
					return irTyClassD(L, pkg, body, d, depth+1)
				}
			}
		}
	case *ast.SelectorExpr:
		if v, ok := info.Uses[x.Sel].(*types.Var); ok && v.Pkg() != nil && strings.HasSuffix(v.Pkg().Path(), "llir/llvm/ir/types") && !v.IsField() {
			switch canonName(v) {
			case "I1":
				return "i1"
			case "I8":
				return "i8"
			case "I16":
				return "i16"
			case "I32":
				return "i32"
			case "I64":
				return "i64"
			case "Double":
				return "double"
			case "Float":
				return "float"
			case "Void":
				return "void"
			case "I8Ptr", "I1Ptr", "I16Ptr", "I32Ptr", "I64Ptr":
				return "ptr"
			}
		}
		if v, ok := info.Uses[x.Sel].(*types.Var); ok && v.IsField() && nameIs(v, "ptr") {
			return "ptr"
		}
	case *ast.CallExpr:
		if fn := Callee(info, x); fn != nil {
			switch canonName(fn) {
			case "ptr", "NewPointer", "PtrType":
				return "ptr"
			case "NewArray":
				return "agg"
			case "IrType":
				if sel, ok := ast.Unparen(x.Fun).(*ast.SelectorExpr); ok {
					if f := fieldOf(info, sel.X); f != nil && nameIs(f, "void") {
						return "void"
					}
				}
			}
		}
	}
	return goTyClass(L.Src(e))
}

func checkC18(c *Check) {
	L := c.L
	c.Expl = "Structural clauses of 'foreign C functions see the published value representation', deciding agreement between the Go generator and the C headers/sources parsed by clang: struct layouts (field order and class) of ddpstring, the list structs, ddpgenericlist, ddpany and the vtable, plus the field-index constants (R18.1); every runtime function the generator declares exists in C with equal arity, position-wise kinds and equal return class (R18.2); every extern declaration of the Duden library maps, by the stated convention, to the C definition of the same name (R18.3); the convention code itself: primitives by value, non-primitives by pointer, non-primitive results through a leading out-pointer, extern names unmangled (R18.4/R18.6); the caller frees each non-Referenz argument of an extern callee once, indexed consistently with the out-pointer shift (R18.5); the small-Variable threshold agrees between generator and header (R18.7). Not decided: user extensions, values seen by callees."
	P, err := LoadC(repoDirC(), true)
	if err != nil {
		c.Rule("R18.0", "C sources parse", 1).Und("lib/runtime", token.NoPos, err.Error())
		return
	}
	c.extra["c_units"] = P.Units
	c.extra["c_units_not_analysed"] = P.Failed
	c.extra["c_functions"] = len(P.Funcs)
	if len(P.Funcs) < 150 {
		c.Rule("R18.0", "C sources parse", 1).Und("lib", token.NoPos, fmt.Sprintf("only %d C function definitions parsed", len(P.Funcs)))
	}
	cp := L.ByRel["src/compiler"]
	info := cp.TypesInfo

	// ---------------- R18.1 layouts ----------------
	r1 := c.Rule("R18.1", "struct layouts and field-index constants of the generator equal the C headers", 12)
	layoutOf := map[string][]string{ // enclosing function -> C struct(s)
		"defineStringType":      {"ddpstring"},
		"defineAnyType":         {"ddpany"},
		"createGenericListType": {"ddpgenericlist"},
		"createListType":        {"ddpintlist", "ddpfloatlist", "ddpbytelist", "ddpboollist", "ddpcharlist", "ddpstringlist", "ddpanylist"},
	}
	L.ForEachFunc([]string{"src/compiler"}, func(fi *FuncInfo) {
		ast.Inspect(fi.Decl.Body, func(n ast.Node) bool {
			call, ok := n.(*ast.CallExpr)
			if !ok {
				return true
			}
			fn := Callee(info, call)
			if fn == nil || !nameIs(fn, "NewTypeDef") || len(call.Args) != 2 {
				return true
			}
			st, ok := call.Args[1].(*ast.CallExpr)
			if !ok {
				if ta, ok2 := call.Args[1].(*ast.TypeAssertExpr); ok2 {
					st, _ = ta.X.(*ast.CallExpr)
				}
			}
			if st == nil {
				return true
			}
			if f2 := Callee(info, st); f2 == nil || !nameIs(f2, "NewStruct") {
				return true
			}
			var got []string
			for _, a := range st.Args {
				got = append(got, irTyClass(L, fi, a))
			}
			nameArg := L.Src(call.Args[0])
			var cstructs []string
			switch {
			case strings.Contains(nameArg, "_vtable_type"):
				cstructs = []string{"ddpvtable"}
			case nameArg == `"ddpstring"`:
				cstructs = []string{"ddpstring"}
			case nameArg == `"ddpany"`:
				cstructs = []string{"ddpany"}
			case nameArg == `"ddpgenericlist"`:
				cstructs = []string{"ddpgenericlist"}
			default:
				if cs, ok := layoutOf[fi.Obj.Name()]; ok {
					cstructs = cs
				} else if strings.Contains(L.Src(st), "elementType.PtrType()") {
					cstructs = layoutOf["createListType"]
				} else {
					return true // user Kombination: layout derives from the fields
				}
			}
			for _, cs := range cstructs {
				fs, ok := P.Structs[cs]
				key := L.QName(fi.Obj) + "|layout " + cs
				if !ok {
					r1.Bad(key, call.Pos(), "the C runtime no longer declares struct "+cs)
					continue
				}
				var want []string
				for _, f := range fs {
					want = append(want, f.Class)
				}
				r1.Decide(strings.Join(got, ",") == strings.Join(want, ","), key, call.Pos(), "fields ("+strings.Join(got, ", ")+")", fmt.Sprintf("the generator lays %s out as (%s) but the header declares (%s): C code reads other fields than the generated code writes", cs, strings.Join(got, ", "), strings.Join(want, ", ")))
			}
			return true
		})
	})
	// field index constants
	for _, row := range []struct{ cst, cstruct, field string }{
		{"list_arr_field_index", "ddpintlist", "arr"}, {"list_len_field_index", "ddpintlist", "len"}, {"list_cap_field_index", "ddpintlist", "cap"},
		{"string_str_field_index", "ddpstring", "str"}, {"string_cap_field_index", "ddpstring", "cap"},
	} {
		obj, _ := cp.Types.Scope().Lookup(row.cst).(*types.Const)
		if obj == nil {
			r1.Und("compiler."+row.cst, token.NoPos, "constant not found")
			continue
		}
		idx := -1
		for i, f := range P.Structs[row.cstruct] {
			if f.Name == row.field {
				idx = i
			}
		}
		r1.Decide(obj.Val().String() == fmt.Sprint(idx), "compiler."+row.cst, obj.Pos(), fmt.Sprintf("= %d, position of %s.%s", idx, row.cstruct, row.field), fmt.Sprintf("%s = %s but %s.%s is field %d of the C struct", row.cst, obj.Val(), row.cstruct, row.field, idx))
	}

	// ---------------- R18.8 natural alignment ----------------
	// C sees every aggregate (Text, lists, Variable, Kombinationen) as an ordinary C struct with natural alignment: the
	// generator never packs a struct type - neither the llir type (Packed field) nor its LLVM mirror that yields type_size
	// (second argument of llvm.StructType)
	r8 := c.Rule("R18.8", "no aggregate type of the generator is packed (C reads them as naturally aligned structs)", 4)
	L.ForEachFunc([]string{"src/compiler"}, func(fi *FuncInfo) {
		q := L.QName(fi.Obj)
		n := 0
		ast.Inspect(fi.Decl.Body, func(nd ast.Node) bool {
			switch x := nd.(type) {
			case *ast.CallExpr:
				fn := Callee(info, x)
				if fn == nil || fn.Pkg() == nil || !strings.Contains(fn.Pkg().Path(), "llvm") {
					return true
				}
				if (fn.Name() == "StructType" || fn.Name() == "StructTypeInContext") && len(x.Args) >= 2 {
					n++
					packed := x.Args[len(x.Args)-1]
					tv := info.Types[packed]
					isFalse := tv.Value != nil && tv.Value.String() == "false"
					r8.Decide(isFalse, fmt.Sprintf("%s|llvm.%s #%d", q, fn.Name(), n), x.Pos(), "packed = false", "the LLVM mirror of an aggregate is built with packed = "+L.Src(packed)+": field offsets, size and list stride differ from the C struct the runtime and extern functions use")
				}
			case *ast.AssignStmt:
				for i, l := range x.Lhs {
					if v := fieldOf(info, l); v != nil && v.Name() == "Packed" && v.Pkg() != nil && strings.Contains(v.Pkg().Path(), "llir/llvm/ir/types") {
						var rhs ast.Expr
						if len(x.Rhs) == len(x.Lhs) {
							rhs = x.Rhs[i]
						}
						tv := info.Types[rhs]
						isFalse := rhs != nil && tv.Value != nil && tv.Value.String() == "false"
						r8.Decide(isFalse, q+"|Packed = "+L.Src(rhs), x.Pos(), "not packed", "an aggregate type of the generator is marked packed: its field offsets and size differ from the naturally aligned C struct that extern functions and the runtime read and write")
					}
				}
			case *ast.KeyValueExpr:
				if id, ok := x.Key.(*ast.Ident); ok && id.Name == "Packed" {
					if v, ok := info.Uses[id].(*types.Var); ok && v.IsField() && v.Pkg() != nil && strings.Contains(v.Pkg().Path(), "llir/llvm/ir/types") {
						tv := info.Types[x.Value]
						isFalse := tv.Value != nil && tv.Value.String() == "false"
						r8.Decide(isFalse, q+"|Packed: "+L.Src(x.Value), x.Pos(), "not packed", "an aggregate type of the generator is marked packed: its layout differs from the C struct")
					}
				}
			}
			return true
		})
	})

	// ---------------- R18.2 runtime bindings ----------------
	r2 := c.Rule("R18.2", "declared runtime functions exist in C with equal arity, kinds and return class", 20)
	L.ForEachFunc([]string{"src/compiler"}, func(fi *FuncInfo) {
		ast.Inspect(fi.Decl.Body, func(n ast.Node) bool {
			call, ok := n.(*ast.CallExpr)
			if !ok {
				return true
			}
			fn := Callee(info, call)
			if fn == nil || !nameIs(fn, "declareExternalRuntimeFunction") || len(call.Args) < 2 {
				return true
			}
			name, ok := constString(info, call.Args[0])
			if !ok {
				return true
			}
			ret := irTyClass(L, fi, call.Args[1])
			var params []string
			for _, a := range call.Args[2:] {
				if pc, ok := a.(*ast.CallExpr); ok && len(pc.Args) == 2 {
					params = append(params, irTyClass(L, fi, pc.Args[1]))
				} else {
					params = append(params, "?")
				}
			}
			key := "binding " + name
			cf := P.Funcs[name]
			if cf == nil {
				cf = P.Protos[name]
			}
			if cf == nil {
				r2.Bad(key, call.Pos(), "the generator declares the runtime function "+name+", which no parsed C unit or system header defines: the program does not link")
				return true
			}
			var problems []string
			if cf.Ret != ret {
				problems = append(problems, fmt.Sprintf("return class %s declared, C returns %s (%s)", ret, cf.Ret, cf.RType))
			}
			cparams := cf.Params
			variadic := len(cparams) > 0 && cparams[len(cparams)-1] == "..."
			if variadic {
				cparams = cparams[:len(cparams)-1]
			}
			if len(params) != len(cparams) {
				problems = append(problems, fmt.Sprintf("%d parameters declared, C takes %d", len(params), len(cparams)))
			} else {
				width := map[string]int{"i1": 1, "i8": 8, "i16": 16, "i32": 32, "i64": 64}
				for i := range params {
					if params[i] == cparams[i] {
						continue
					}
					wa, oka := width[params[i]]
					wb, okb := width[cparams[i]]
					if oka && okb && wa >= wb {
						continue // an integer argument wider than C's parameter is tolerated (upper bits ignored)
					}
					problems = append(problems, fmt.Sprintf("parameter %d is %s, C expects %s (%s)", i+1, params[i], cparams[i], cf.PTypes[i]))
				}
			}
			r2.Decide(len(problems) == 0, key, call.Pos(), "agrees with "+cf.Pos(), strings.Join(problems, "; ")+": the generated call passes/reads another representation than the C function uses")
			return true
		})
	})

	// ---------------- R18.7 small-any threshold ----------------
	r7 := c.Rule("R18.7", "the small-Variable threshold of the generator equals the header's", 2)
	if fi := L.Fn("src/compiler.(*compiler).isSmallAny"); fi != nil {
		pred, k := "", ""
		ast.Inspect(fi.Decl.Body, func(n ast.Node) bool {
			if call, ok := n.(*ast.CallExpr); ok {
				if fn := Callee(info, call); fn != nil && nameIs(fn, "NewICmp") && len(call.Args) == 3 {
					pred = L.Src(call.Args[0])
					ast.Inspect(call.Args[2], func(m ast.Node) bool {
						if e, ok := m.(ast.Expr); ok {
							if v, ok := constInt(info, e); ok {
								k = fmt.Sprint(v)
								return false
							}
						}
						return true
					})
				}
			}
			return true
		})
		macro := P.Macros["DDP_IS_SMALL_ANY"]
		m := regexp.MustCompile(`type_size\s*(<=|<|>=|>)\s*(\w+)`).FindStringSubmatch(macro)
		ok := false
		want := ""
		if m != nil {
			cv := m[2]
			if v, isMacro := P.Macros[cv]; isMacro {
				cv = v
			}
			want = m[1] + " " + cv
			goOp := map[string]string{"enum.IPredSLE": "<=", "enum.IPredULE": "<=", "enum.IPredSLT": "<", "enum.IPredULT": "<"}[pred]
			ok = goOp == m[1] && k == cv
		}
		r7.Decide(ok, "compiler.(*compiler).isSmallAny|threshold", fi.Decl.Pos(), "type_size "+want, fmt.Sprintf("the generator treats a Variable as small when size %s %s, the header when size %s: values of the boundary size are stored one way and read the other", pred, k, want))
		// buffer size of the inline storage
		buf := P.Macros["DDP_SMALL_ANY_BUFF_SIZE"]
		gobuf := ""
		if v := findPkgVarValue(cp, "any_value_type"); v != nil {
			ast.Inspect(v, func(m ast.Node) bool {
				if e, ok := m.(ast.Expr); ok {
					if x, ok := constInt(info, e); ok && gobuf == "" {
						gobuf = fmt.Sprint(x)
					}
				}
				return true
			})
		}
		r7.Decide(buf != "" && buf == gobuf, "compiler.any_value_type|inline buffer size", token.NoPos, "inline buffer of "+buf+" bytes on both sides", "the generator's inline buffer for a Variable has "+gobuf+" bytes, the header's "+buf)
	} else {
		r7.Und("compiler.(*compiler).isSmallAny", token.NoPos, "function not found")
	}

	checkConvention(c, P)
	checkDudenExterns(c, P)
}

// ---------------- R18.4 / R18.6 / R18.5 ----------------

func checkConvention(c *Check, P *CProgram) {
	L := c.L
	cp := L.ByRel["src/compiler"]
	info := cp.TypesInfo
	r := c.Rule("R18.6", "calling convention: primitives by value, non-primitives and Referenz by pointer, non-primitive results through a leading out-pointer; extern names unmangled", 4)
	// toIrParamType: partial evaluation over (isReference, class)
	fi := L.Fn("src/compiler.(*compiler).toIrParamType")
	if fi == nil {
		r.Und("compiler.(*compiler).toIrParamType", token.NoPos, "function not found")
	} else {
		in, mk := newGeneratorInterp(L)
		for _, d := range []*DT{{Kind: "ZAHL"}, {Kind: "KOMMAZAHL"}, {Kind: "BYTE"}, {Kind: "WAHRHEITSWERT"}, {Kind: "BUCHSTABE"}, {Kind: "TEXT"}, {Kind: "VARIABLE"}, {Kind: "LIST", Elem: &DT{Kind: "ZAHL"}}, {Kind: "STRUCT", Name: "Punkt"}} {
			for _, ref := range []bool{false, true} {
				pt := newObj("ddptypes.ParameterType")
				pt.set("Type", TypeV{d})
				pt.set("IsReference", boolV(ref))
				var res []string
				in.RunAll(8, func() {
					cobj := mk()
					v := in.CallFunc(fi, cobj, []Val{pt})
					if t, ok := v.(*IRTy); ok {
						cl := tyClass(t)
						if t.Name == "ptr" {
							cl = "ptr"
						}
						res = append(res, cl)
					} else {
						res = append(res, fmt.Sprintf("?%T", v))
					}
				})
				g := toGen(d)
				want := g.irClass()
				if ref || !g.prim() {
					want = "ptr"
				}
				got := strings.Join(uniq(res), "/")
				if got == "agg" && want == "ptr" {
					got = "agg (by value)"
				}
				key := fmt.Sprintf("toIrParamType(%s, Referenz=%v)", d, ref)
				r.Decide(got == want, key, fi.Decl.Pos(), "passed as "+want, "a parameter of this kind is passed as "+got+", the published convention says "+want)
			}
		}
	}
	// extern names are not mangled: in mangledNameDecl the extern test precedes any use of mangledNameBase and returns decl.Name()
	if fi := L.Fn("src/compiler.(*compiler).mangledNameDecl"); fi != nil {
		okc := false
		ast.Inspect(fi.Decl.Body, func(n ast.Node) bool {
			is, ok := n.(*ast.IfStmt)
			if !ok {
				return true
			}
			cond := L.Src(is.Cond)
			if strings.Contains(cond, "IsExternFunc") && strings.Contains(cond, "IsExternVisible") {
				for _, st := range is.Body.List {
					if ret, ok := st.(*ast.ReturnStmt); ok && len(ret.Results) == 1 && strings.HasSuffix(L.Src(ret.Results[0]), ".Name()") {
						okc = true
					}
				}
			}
			return true
		})
		r.Decide(okc, "compiler.(*compiler).mangledNameDecl|extern names plain", fi.Decl.Pos(), "extern and extern-visible functions keep their plain name", "extern functions are no longer exempt from name mangling: the C definition of the same name is not found at link time")
	}
	// hasReturnParam / out-pointer: the return kind decides on IsPrimitive of the (possibly generic) return type
	for _, nm := range []string{"VisitFuncDecl", "declareImportedFuncDecl", "VisitFuncCall"} {
		fi := L.Fn("src/compiler.(*compiler)." + nm)
		if fi == nil {
			continue
		}
		uses := false
		ast.Inspect(fi.Decl.Body, func(n ast.Node) bool {
			if call, ok := n.(*ast.CallExpr); ok {
				if fn := Callee(info, call); fn != nil && (nameIs(fn, "IsPrimitive") || nameIs(fn, "hasReturnParam")) {
					uses = true
				}
			}
			return true
		})
		c.rules[len(c.rules)-1].Decide(uses, "compiler.(*compiler)."+nm+"|return kind from IsPrimitive", fi.Decl.Pos(), "direct result vs. out-pointer is decided by IsPrimitive of the return type", "the return convention is no longer derived from IsPrimitive of the return type in "+nm)
	}

	// R18.5 caller frees of extern callees: decided by evaluating VisitFuncCall (engine E2) on an extern callee whose
	// Referenz parameter precedes a non-primitive value parameter, with a primitive and with a non-primitive result (the
	// latter shifts the arguments by the out-pointer): after the call exactly the slot passed for the value parameter is
	// released, once, and the Referenz argument's storage is not.
	checkC18ExternFrees(c, L)
}

func checkC18ExternFrees(c *Check, L *Loaded) {
	r5 := c.Rule("R18.5", "after calling an extern function the caller frees every non-Referenz argument exactly once, indexed consistently with the out-pointer", 2)
	T := &DT{Kind: "TEXT"}
	for _, ret := range []*DT{{Kind: "ZAHL"}, T} {
		in, mk := newGeneratorInterp(L)
		cfg := callCfg{level: 0, konst: false, extern: true, ret: ret}
		decl := newObj("ast.FuncDecl")
		mkParam := func(name string, ref bool) *Obj {
			pn := newObj("token.Token")
			pn.set("Literal", StrV(name))
			pt := newObj("ddptypes.ParameterType")
			pt.set("Type", TypeV{T})
			pt.set("IsReference", boolV(ref))
			p := newObj("ast.ParameterInfo")
			p.set("Name", pn)
			p.set("Type", pt)
			return p
		}
		decl.set("Parameters", SliceV{Elems: []Val{mkParam("r", true), mkParam("v", false), mkParam("w", false)}})
		decl.set("ReturnType", TypeV{cfg.ret})
		callModels(in, &cfg, decl)
		in.Models["ast.(*Ast).GetMetadataByKind"] = func(in *Interp, pkg *packages.Package, call *ast.CallExpr, recv Val, args []Val) (Val, bool) {
			meta := newObj("annotators.ConstFuncParamMeta")
			meta.set("IsConst", MapV{Keys: []Val{StrV("r"), StrV("v"), StrV("w")}, Vals: []Val{boolV(false), boolV(false), boolV(false)}})
			return TupleV{meta, boolV(true)}, true
		}
		storage := &IRVal{Op: "operand", Src: "x", Class: "ptr", Elem: toGen(T)}
		xdecl := newObj("ast.VarDecl")
		xdecl.set("Type", TypeV{T})
		in.Models["compiler.(*scope).lookupVar"] = func(in *Interp, pkg *packages.Package, call *ast.CallExpr, recv Val, args []Val) (Val, bool) {
			w := newObj("varwrapper")
			w.set("val", storage)
			w.set("typ", toGen(T))
			w.set("isRef", boolV(false))
			return w, true
		}
		key := "compiler.(*compiler).VisitFuncCall|extern f(Referenz r, Text v, Text w) result=" + fmt.Sprint(toGen(ret))
		runs := 0
		var bad []string
		in.RunAll(64, func() {
			cobj := mk()
			cobj.set("optimizationLevel", ConstV{V: constantInt(0), T: intType()})
			fw := newObj("funcWrapper")
			fw.set("funcDecl", decl)
			fw.set("irFunc", &IRFuncV{Name: "callee"})
			cobj.set("functions", MapV{Keys: []Val{StrV("f")}, Vals: []Val{fw}})
			e := newObj("ast.FuncCall")
			e.set("Func", decl)
			ax := exprNode("x", T)
			ax.Kind = "ast.Ident"
			ax.set("Declaration", xdecl)
			av := exprNode("argv", T)
			av.set("temp", boolV(false))
			aw := exprNode("argw", T)
			aw.set("temp", boolV(true))
			e.set("Args", MapV{Keys: []Val{StrV("r"), StrV("v"), StrV("w")}, Vals: []Val{ax, av, aw}})
			in.CallFunc(L.Fn("src/compiler.(*compiler).VisitFuncCall"), cobj, []Val{e})
			for _, ev := range in.Events {
				if ev.Kind == "cerr" || ev.Kind == "panic" {
					bad = append(bad, ev.Kind+": "+ev.Msg)
					return
				}
			}
			strip := func(v Val) *IRVal {
				iv, _ := v.(*IRVal)
				for iv != nil && iv.Op == "bitcast" && len(iv.Args) == 1 {
					iv = iv.Args[0]
				}
				return iv
			}
			var passed []*IRVal
			called := false
			freed := map[*IRVal]int{}
			for _, ev := range in.Events {
				switch {
				case ev.Kind == "call" && ev.Msg == "callee":
					called = true
					for _, a := range ev.Data[1:] {
						passed = append(passed, strip(a))
					}
				case ev.Kind == "call" && strings.HasSuffix(ev.Msg, ".FreeFunc") && called && len(ev.Data) >= 2:
					if v := strip(ev.Data[1]); v != nil {
						freed[v]++
					}
				}
			}
			if !called {
				bad = append(bad, "no call emitted")
				return
			}
			runs++
			shift := 0
			if ret.Kind == "TEXT" {
				shift = 1
			}
			if len(passed) != 3+shift {
				bad = append(bad, fmt.Sprintf("the call passes %d values, expected %d", len(passed), 3+shift))
				return
			}
			rv, vv, wv := passed[shift], passed[shift+1], passed[shift+2]
			if freed[rv] > 0 || freed[storage] > 0 {
				bad = append(bad, "the storage handed over for the Referenz parameter is released after the call: the caller's variable dangles")
			}
			for nm, slot := range map[string]*IRVal{"v": vv, "w": wv} {
				if freed[slot] != 1 {
					bad = append(bad, fmt.Sprintf("the copy passed for the value parameter %s is released %d times after the call (expected once): with a Referenz parameter before a non-primitive value parameter the wrong argument is freed or the copy leaks", nm, freed[slot]))
				}
			}
			if shift == 1 && freed[passed[0]] > 0 {
				bad = append(bad, "the out-pointer of the result is released after the call")
			}
		})
		switch {
		case len(bad) > 0:
			r5.Bad(key, token.NoPos, strings.Join(uniq(bad), "; "))
		case runs == 0:
			r5.Und(key, token.NoPos, "call not observed")
		default:
			r5.OK(key, token.NoPos, fmt.Sprintf("%d evaluation(s): exactly the two copies passed by value are released once after the call; the Referenz storage and the out-pointer are not", runs))
		}
	}
}

// ---------------- R18.3 Duden externs ----------------

type ddpExtern struct {
	Name   string
	File   string
	Line   int
	Params []struct {
		Type string
		Ref  bool
	}
	Ret   string
	DefIn string
}

var (
	reFuncHead = regexp.MustCompile(`(?s)Die\s+(?:öffentliche\s+|oeffentliche\s+)?(?:generische\s+)?Funktion\s+(\S+)\s+(.*?),\s*gibt\s+(.*?)\s+zurück,\s*ist\s+in\s+"([^"]+)"\s+definiert`)
)

// ddpTypeDefs: type definitions/aliases declared in the Duden sources (name -> base type name)
var ddpTypeDefs = map[string]string{}

func loadDDPTypeDefs(dir string) {
	re := regexp.MustCompile(`Wir (?:definieren|nennen) (?:eine[nr]?|ein) (\S+) (?:öffentlich |oeffentlich )?(?:als|auch) (?:eine[nr]?|ein) ([^.]+)\.`)
	files, _ := filepath.Glob(filepath.Join(dir, "*.ddp"))
	for _, f := range files {
		b, _ := os.ReadFile(f)
		for _, m := range re.FindAllStringSubmatch(string(b), -1) {
			ddpTypeDefs[m[1]] = strings.TrimSpace(m[2])
		}
	}
	// "Wir nennen einen X auch einen Y" declares Y as alias of X
	re2 := regexp.MustCompile(`Wir nennen (?:eine[nr]?|ein) ([^.]+?) (?:öffentlich |oeffentlich )?auch (?:eine[nr]?|ein) (\S+)\.`)
	for _, f := range files {
		b, _ := os.ReadFile(f)
		for _, m := range re2.FindAllStringSubmatch(string(b), -1) {
			ddpTypeDefs[m[2]] = strings.TrimSpace(m[1])
		}
	}
}

func parseDDPType(t string) (class string, ref bool) {
	t = strings.TrimSpace(t)
	for _, art := range []string{"eine ", "einen ", "ein ", "einem ", "einer "} {
		t = strings.TrimPrefix(t, art)
	}
	for i := 0; i < 6; i++ {
		base := strings.TrimSuffix(strings.TrimSuffix(t, " Referenz"), " Liste")
		if u, ok := ddpTypeDefs[base]; ok && base == t {
			t = u
		} else {
			break
		}
	}
	if strings.HasSuffix(t, " Referenz") {
		ref = true
		t = strings.TrimSpace(strings.TrimSuffix(t, " Referenz"))
	}
	if strings.HasSuffix(t, " Listen") {
		ref = true
		t = strings.TrimSuffix(t, "n") // "X Listen Referenz" is spelled "X Listen Referenz"
	}
	t = strings.TrimPrefix(t, "eine ")
	t = strings.TrimPrefix(t, "einen ")
	t = strings.TrimPrefix(t, "ein ")
	switch t {
	case "Zahl":
		return "i64", ref
	case "Kommazahl":
		return "double", ref
	case "Byte":
		return "i8", ref
	case "Wahrheitswert":
		return "i1", ref
	case "Buchstabe", "Buchstaben":
		return "i32", ref
	case "nichts":
		return "void", ref
	}
	return "ptr", ref // Text, lists, Kombinationen, Variable, generic T
}

func checkDudenExterns(c *Check, P *CProgram) {
	r := c.Rule("R18.3", "extern declarations of the Duden library match the C definition of the same name under the published convention", 80)
	dir := filepath.Join(repoDirC(), "lib", "stdlib", "Duden")
	loadDDPTypeDefs(dir)
	files, _ := filepath.Glob(filepath.Join(dir, "*.ddp"))
	sort.Strings(files)
	n, skipped := 0, 0
	for _, f := range files {
		b, err := os.ReadFile(f)
		if err != nil {
			continue
		}
		src := string(b)
		for _, seg := range ddpFuncSegments(src) {
			m := reFuncHead.FindStringSubmatchIndex(seg.text)
			if m == nil {
				continue
			}
			name := seg.text[m[2]:m[3]]
			params := seg.text[m[4]:m[5]]
			ret := seg.text[m[6]:m[7]]
			defIn := seg.text[m[8]:m[9]]
			line := seg.line
			rel, _ := filepath.Rel(repoDirC(), f)
			pos := fmt.Sprintf("%s:%d", rel, line)
			_ = src
			// parameters: "mit dem Parameter a vom Typ T" / "mit den Parametern a, b und c vom Typ T1, T2 und T3" / no parameters
			var ptypes []string
			if i := strings.Index(params, "vom Typ "); i >= 0 {
				ts := params[i+len("vom Typ "):]
				ts = strings.ReplaceAll(ts, " und ", ", ")
				for _, t := range strings.Split(ts, ",") {
					if strings.TrimSpace(t) != "" {
						ptypes = append(ptypes, strings.TrimSpace(t))
					}
				}
			}
			if strings.Contains(seg.text[m[0]:m[1]], "generische") {
				skipped++
				continue // generic externs: type parameters are passed by pointer, checked by the C side's void* signature only
			}
			n++
			key := "extern " + name
			cf := P.Funcs[name]
			if cf == nil {
				cf = P.Protos[name] // libc functions bound directly (close, freeaddrinfo)
			}
			if cf == nil {
				if strings.HasSuffix(defIn, ".c") || strings.Contains(defIn, "libddpstdlib") || strings.Contains(defIn, "libddpruntime") {
					missingUnit := false
					for _, u := range P.Failed {
						if strings.Contains(u, "regex") || strings.Contains(u, "compression") {
							missingUnit = true
						}
					}
					if missingUnit && (strings.Contains(rel, "Regex") || strings.Contains(rel, "Komprimierung")) {
						r.AddAt(Exempt, key, pos, "defined in a C unit that cannot be parsed in this sandbox (needs the pcre2/libarchive headers)")
						continue
					}
					r.AddAt(Bad, key, pos, "extern function "+name+" (in "+defIn+") has no C definition in any parsed unit: the program does not link")
				}
				continue
			}
			var want []string
			rc, _ := parseDDPType(ret)
			wantRet := rc
			if rc == "ptr" {
				want = append(want, "ptr") // leading out-pointer
				wantRet = "void"
			}
			for _, t := range ptypes {
				cl, ref := parseDDPType(t)
				if ref {
					cl = "ptr"
				}
				want = append(want, cl)
			}
			got := append([]string{}, cf.Params...)
			// a Zahl-based "Zeiger" handed to a C pointer parameter (and back) is a pointer-sized integer: same register class
			if len(got) == len(want) {
				for i := range got {
					if (got[i] == "ptr" && want[i] == "i64") || (got[i] == "i64" && want[i] == "ptr") {
						got[i] = want[i]
					}
				}
			}
			var problems []string
			if cf.Ret != wantRet && !(wantRet == "void" && cf.Ret != "ptr" && cf.Ret != "agg") && !((cf.Ret == "ptr" && wantRet == "i64") || (cf.Ret == "i64" && wantRet == "ptr")) {
				// (a primitive C result that the declaration ignores is harmless; pointer-sized integers travel in the same register)
				problems = append(problems, "returns "+cf.Ret+" in C, the convention gives "+wantRet)
			}
			if strings.Join(got, ",") != strings.Join(want, ",") {
				problems = append(problems, "C parameters ("+strings.Join(got, ", ")+"), the convention gives ("+strings.Join(want, ", ")+")")
			}
			if len(problems) == 0 {
				r.AddAt(OK, key, pos, "matches "+cf.Pos())
			} else {
				r.AddAt(Bad, key, pos, strings.Join(problems, "; ")+" ("+cf.Pos()+")")
			}
		}
	}
	c.extra["duden_externs"] = n
	c.extra["duden_generic_externs_skipped"] = skipped
}

type ddpSeg struct {
	text string
	line int
}

// ddpFuncSegments cuts a DDP source into the headers of its function declarations: from "Die [öffentliche] [generische] Funktion"
// up to the first "macht:" / "definiert" (whichever comes first). Headers with a body ("macht:") are dropped.
func ddpFuncSegments(src string) []ddpSeg {
	var out []ddpSeg
	re := regexp.MustCompile(`(?m)^Die\s+(?:öffentliche\s+|oeffentliche\s+)?(?:generische\s+)?Funktion\s`)
	idx := re.FindAllStringIndex(src, -1)
	for i, m := range idx {
		end := len(src)
		if i+1 < len(idx) {
			end = idx[i+1][0]
		}
		seg := src[m[0]:end]
		cut := strings.Index(seg, "definiert")
		body := strings.Index(seg, "macht:")
		if cut < 0 || (body >= 0 && body < cut) {
			continue
		}
		out = append(out, ddpSeg{seg[:cut+len("definiert")], 1 + strings.Count(src[:m[0]], "\n")})
	}
	return out
}
