package main

import (
	"bufio"
	"fmt"
	"go/constant"
	"go/token"
	"go/types"
	"os"
	"path/filepath"
	"sort"
	"strings"
)

// context cells: the positions in which a value of one type is supplied where another is required.
func (t *CellTables) computeContextCells(in *Interp, mk func() *Obj) (keys []string, cells map[string]*ChkCell) {
	L := t.L
	cells = map[string]*ChkCell{}
	add := func(k string, method string, node *Obj) {
		cells[k] = runChecker(L, in, mk, method, node)
		keys = append(keys, k)
	}
	node := func(kind, name string, d *DT) *Obj { return astNode(kind, name, d, nil) }
	tokConst := func(name string) Val {
		tp := L.ByRel["src/token"]
		if c, ok := tp.Types.Scope().Lookup(name).(*types.Const); ok {
			return ConstV{V: c.Val(), T: c.Type(), Name: name}
		}
		return Unk{"token " + name}
	}
	z := &DT{Kind: "ZAHL"}
	for _, a := range t.Classes {
		for _, b := range t.Classes {
			// indexing as assignable: a[b]
			n := newObj("ast.Indexing")
			n.set("Lhs", node("ast.Ident", "lhs", a))
			n.set("Index", node("ast.Ident", "index", b))
			add(cellKey("INDEXING (assignable)", a, b), "VisitIndexing", n)
			// variable declaration: Der/Die a x ist <b>
			vd := newObj("ast.VarDecl")
			vd.set("Type", TypeV{a})
			vd.set("InitVal", node("ast.Ident", "init", b))
			vd.set("IsPublic", boolV(false))
			add(cellKey("VARDECL (declared, initialiser)", a, b), "VisitVarDecl", vd)
			// assignment: Speichere <b> in (a-typed variable)
			as := newObj("ast.AssignStmt")
			as.set("Var", node("ast.Ident", "target", a))
			as.set("Rhs", node("ast.Ident", "value", b))
			add(cellKey("ASSIGN (target, value)", a, b), "VisitAssignStmt", as)
			// return: function returning a, value b
			rs := newObj("ast.ReturnStmt")
			fd := newObj("ast.FuncDecl")
			fd.set("ReturnType", TypeV{a})
			rs.set("Func", fd)
			rs.set("Value", node("ast.Ident", "value", b))
			add(cellKey("RETURN (declared, value)", a, b), "VisitReturnStmt", rs)
			// argument: parameter of type a (by value / by reference) gets b
			for _, ref := range []bool{false, true} {
				fc := newObj("ast.FuncCall")
				pt := newObj("ddptypes.ParameterType")
				pt.set("Type", TypeV{a})
				pt.set("IsReference", boolV(ref))
				pn := newObj("token.Token")
				pn.set("Literal", StrV("p"))
				pi := newObj("ast.ParameterInfo")
				pi.set("Name", pn)
				pi.set("Type", pt)
				decl := newObj("ast.FuncDecl")
				decl.set("Parameters", SliceV{Elems: []Val{pi}})
				decl.set("ReturnType", TypeV{z})
				fc.set("Func", decl)
				fc.set("Args", MapV{Keys: []Val{StrV("p")}, Vals: []Val{node("ast.Ident", "arg", b)}})
				what := "ARGUMENT (parameter, argument)"
				if ref {
					what = "ARGUMENT by Referenz (parameter, argument)"
				}
				add(cellKey(what, a, b), "VisitFuncCall", fc)
			}
			// for-each: element variable of type a over b
			fr := newObj("ast.ForRangeStmt")
			ini := newObj("ast.VarDecl")
			ini.set("Type", TypeV{a})
			fr.set("Initializer", ini)
			fr.set("In", node("ast.Ident", "in", b))
			fr.set("Body", newObj("ast.BlockStmt"))
			add(cellKey("FOREACH (element variable, iterated)", a, b), "VisitForRangeStmt", fr)
			// type check and reference cast
			tc := newObj("ast.TypeCheck")
			tc.set("Lhs", node("ast.Ident", "lhs", b))
			tc.set("CheckType", TypeV{a})
			tk := newObj("token.Token")
			tk.set("Literal", StrV("ist"))
			tc.set("Tok", tk)
			add(cellKey("TYPECHECK (checked type, operand)", a, b), "VisitTypeCheck", tc)
			ca := newObj("ast.CastAssigneable")
			ca.set("Lhs", node("ast.Ident", "lhs", b))
			ca.set("TargetType", TypeV{a})
			add(cellKey("CAST in Referenz context (target, operand)", a, b), "VisitCastAssigneable", ca)
		}
		// conditions and loop headers (one coordinate)
		is := newObj("ast.IfStmt")
		is.set("Condition", node("ast.Ident", "cond", a))
		is.set("Then", newObj("ast.BlockStmt"))
		is.set("Else", NilV{})
		add(cellKey("IF condition", a), "VisitIfStmt", is)
		for _, w := range []string{"SOLANGE", "MACHE", "WIEDERHOLE"} {
			ws := newObj("ast.WhileStmt")
			ws.set("Condition", node("ast.Ident", "cond", a))
			wt := newObj("token.Token")
			wt.set("Type", tokConst(w))
			ws.set("While", wt)
			ws.set("Body", newObj("ast.BlockStmt"))
			add(cellKey("LOOP "+w+" condition/count", a), "VisitWhileStmt", ws)
		}
		for _, slot := range []string{"counter", "to", "step"} {
			fs := newObj("ast.ForStmt")
			ini := newObj("ast.VarDecl")
			it, to, st := z, z, z
			switch slot {
			case "counter":
				it = a
			case "to":
				to = a
			case "step":
				st = a
			}
			ini.set("Type", TypeV{it})
			fs.set("Initializer", ini)
			fs.set("To", node("ast.Ident", "to", to))
			fs.set("StepSize", node("ast.Ident", "step", st))
			fs.set("Body", newObj("ast.BlockStmt"))
			add(cellKey("FOR "+slot, a), "VisitForStmt", fs)
		}
		ll := newObj("ast.ListLit")
		ll.set("Values", NilV{})
		ll.set("Count", node("ast.Ident", "count", a))
		ll.set("Value", node("ast.Ident", "value", z))
		add(cellKey("LIST literal count", a), "VisitListLit", ll)
		for _, b := range t.Classes {
			l2 := newObj("ast.ListLit")
			l2.set("Values", SliceV{Elems: []Val{node("ast.Ident", "first", a), node("ast.Ident", "second", b)}})
			add(cellKey("LIST literal elements", a, b), "VisitListLit", l2)
		}
	}
	return
}

// AllLines: operator tables plus context cells.
func computeAllCheckerLines(L *Loaded, tier string) (lines []string, t *CellTables, ctx map[string]*ChkCell, ctxKeys []string) {
	t = computeCheckerTables(L, tier)
	in, mk := newCheckerInterp(L)
	ctxKeys, ctx = t.computeContextCells(in, mk)
	lines = t.Lines()
	for _, k := range ctxKeys {
		c := ctx[k]
		adm, dec := c.Admitted()
		st := "undecided"
		if dec {
			st = "reject"
			if adm {
				st = "admit"
			}
		}
		lines = append(lines, k+"\t"+st+"\t-")
	}
	sort.Strings(lines)
	return
}

func goldenPath(tier string) string {
	home := os.Getenv("VERIF_HOME")
	if home == "" {
		home = "/verif"
	}
	return filepath.Join(home, "checker", "golden", "admit_"+tier+".tsv")
}

func readGolden(tier string) (map[string][2]string, error) {
	f, err := os.Open(goldenPath(tier))
	if err != nil {
		return nil, err
	}
	defer f.Close()
	m := map[string][2]string{}
	sc := bufio.NewScanner(f)
	sc.Buffer(make([]byte, 1<<20), 1<<20)
	for sc.Scan() {
		p := strings.Split(sc.Text(), "\t")
		if len(p) == 3 {
			m[p[0]] = [2]string{p[1], p[2]}
		}
	}
	return m, sc.Err()
}

func init() {
	// XGOLDEN (re)writes the reference admissibility table from the current tree. Run by hand after reviewing a deliberate
	// change of DDP's typing rules; never run by a check.
	registry["XGOLDEN"] = func(c *Check) {
		lines, _, _, _ := computeAllCheckerLines(c.L, c.Tier)
		os.MkdirAll(filepath.Dir(goldenPath(c.Tier)), 0o755)
		os.WriteFile(goldenPath(c.Tier), []byte(strings.Join(lines, "\n")+"\n"), 0o644)
		n := map[string]int{}
		for _, l := range lines {
			n[strings.Split(l, "\t")[1]]++
		}
		fmt.Println("wrote", goldenPath(c.Tier), len(lines), "cells", n)
	}
}

// compareWithGolden reports cells whose verdict differs from the reference table.
//
//	mode "admit": newly admitted cells (ill-formed programs accepted) are violations
//	mode "result": changed result types of admitted cells are violations
func compareWithGolden(c *Check, r *Rule, lines []string, filter func(key string) bool, modes map[string]bool) {
	gold, err := readGolden(c.Tier)
	if err != nil {
		r.Und("golden table", token.NoPos, "reference table missing: "+err.Error())
		return
	}
	okn := 0
	type grp struct {
		keys []string
		msg  string
	}
	bad := map[string]*grp{}
	missing := 0
	for _, l := range lines {
		p := strings.Split(l, "\t")
		if !filter(p[0]) {
			continue
		}
		g, ok := gold[p[0]]
		if !ok {
			missing++
			continue
		}
		switch {
		case p[1] == "undecided":
			a := bad["undecided"]
			if a == nil {
				a = &grp{msg: "cell can no longer be decided (an unmodelled construct was introduced into the checker)"}
				bad["undecided"] = a
			}
			a.keys = append(a.keys, p[0])
		case modes["admit"] && g[0] == "reject" && p[1] == "admit":
			op := p[0]
			if i := strings.Index(op, " ("); i > 0 {
				op = op[:i]
			}
			a := bad["admit|"+op]
			if a == nil {
				a = &grp{msg: "the type checker now accepts a combination that DDP's static rules reject"}
				bad["admit|"+op] = a
			}
			a.keys = append(a.keys, p[0])
		case modes["reject"] && g[0] == "admit" && p[1] == "reject":
			op := p[0]
			if i := strings.Index(op, " ("); i > 0 {
				op = op[:i]
			}
			a := bad["reject|"+op]
			if a == nil {
				a = &grp{msg: "the type checker now rejects a combination that DDP's static rules admit"}
				bad["reject|"+op] = a
			}
			a.keys = append(a.keys, p[0])
		case modes["result"] && g[0] == "admit" && p[1] == "admit" && g[1] != p[2]:
			op := p[0]
			if i := strings.Index(op, " ("); i > 0 {
				op = op[:i]
			}
			a := bad["result|"+op]
			if a == nil {
				a = &grp{msg: "the result type of an admitted combination changed (reference " + g[1] + ", now " + p[2] + ")"}
				bad["result|"+op] = a
			}
			a.keys = append(a.keys, p[0])
		default:
			okn++
		}
	}
	var ks []string
	for k := range bad {
		ks = append(ks, k)
	}
	sort.Strings(ks)
	for _, k := range ks {
		a := bad[k]
		st := Bad
		if k == "undecided" {
			st = Undecided
		}
		in := r.add(st, k, token.NoPos, fmt.Sprintf("%s [%d cell(s), e.g. %s]", a.msg, len(a.keys), strings.Join(a.keys[:min(3, len(a.keys))], "; ")))
		in.N = len(a.keys)
	}
	if okn > 0 {
		in := r.add(OK, "cells equal to the reference", token.NoPos, "verdict equals the reference table")
		in.N = okn
	}
	if missing > 0 {
		r.Und("golden table coverage", token.NoPos, fmt.Sprintf("%d cells have no reference entry (operator or class set changed): regenerate the table after review", missing))
	}
}

var _ = constant.MakeBool
