package main

import (
	"fmt"
	"go/ast"
	"go/constant"
	"go/token"
	"go/types"
	"sort"
	"strings"

	"golang.org/x/tools/go/packages"
)

func init() { registry["C20"] = checkC20 }

// ddptypes functions that look at GetUnderlying(t) only (verified by R14.3b) - a value computed through them is a
// function of the normalised type, which is what Equal compares.
var normalisedViews = map[string]bool{
	"ddptypes.GetUnderlying": true, "ddptypes.IsList": true, "ddptypes.IsPrimitive": true, "ddptypes.IsNumeric": true, "ddptypes.IsStruct": true,
	"ddptypes.IsAny": true, "ddptypes.IsVoid": true, "ddptypes.IsTypeDef": true, "ddptypes.Equal": true, "ddptypes.CastList": true, "ddptypes.IsGeneric": true,
	"ddptypes.CastStruct": true, "ddptypes.CastPrimitive": true, "ddptypes.GetListElementType": true,
}

func checkC20(c *Check) {
	L := c.L
	c.Expl = "Structural clauses of 'duplicate aliases are always rejected; declared aliases stay callable': the equality and ordering predicates handed to the alias trie partition token types identically and order by functions of exactly the keys equality compares (R20.1); every trie insertion consumes a key that passed the negative edge of the duplicate test on the same tokens (R20.2, provenance over the typed AST incl. slices filled in helpers); the sorted-slice map is written only by its own constructor/mutators, Set and Get locate through the same search, copies keep the predicate pair (R20.3); trie search considers every child (R20.4). Not decided: behaviour of the map for every insertion history (value-level)."
	pp := L.ByRel["src/parser"]
	info := pp.TypesInfo

	// ---------------- R20.1 ----------------
	r1 := c.Rule("R20.1", "tokenEqual and tokenLess agree: same token-type partition, ordering keys are functions of the equality keys and injective", 6)
	eq, less := L.Fn("src/parser.tokenEqual"), L.Fn("src/parser.tokenLess")
	// which functions are handed to alias_trie.New?
	nNew := 0
	for _, fi := range L.sortedFuncs() {
		if fi.Decl.Body == nil || !strings.HasPrefix(pkgRel(fi.Pkg), "src/") {
			continue
		}
		ast.Inspect(fi.Decl.Body, func(n ast.Node) bool {
			call, ok := n.(*ast.CallExpr)
			if !ok || len(call.Args) != 2 {
				return true
			}
			fn := Callee(fi.Pkg.TypesInfo, call)
			if fn == nil || !nameIs(fn, "New") || fn.Pkg() == nil || !strings.HasSuffix(fn.Pkg().Path(), "parser/alias_trie") {
				return true
			}
			nNew++
			a0, _ := ast.Unparen(call.Args[0]).(*ast.Ident)
			a1, _ := ast.Unparen(call.Args[1]).(*ast.Ident)
			ok0 := a0 != nil && eq != nil && fi.Pkg.TypesInfo.Uses[a0] == eq.Obj
			ok1 := a1 != nil && less != nil && fi.Pkg.TypesInfo.Uses[a1] == less.Obj
			r1.Decide(ok0 && ok1, L.QName(fi.Obj)+"|alias_trie.New(eq, less)", call.Pos(), "trie built with (tokenEqual, tokenLess)", "alias trie built with a predicate pair other than (tokenEqual, tokenLess); the pair is not analysed")
			return true
		})
	}
	if eq == nil || less == nil {
		r1.Und("parser.tokenEqual/tokenLess", token.NoPos, "predicates not found")
	} else {
		type classInfo struct {
			consts []string
			body   []ast.Stmt
			pos    token.Pos
		}
		classesOf := func(fi *FuncInfo) (map[string]*classInfo, bool) {
			var sw *ast.SwitchStmt
			typeGuard := false
			for _, st := range fi.Decl.Body.List {
				switch s := st.(type) {
				case *ast.SwitchStmt:
					if s.Tag != nil && isTokField(info, s.Tag, "Type") {
						sw = s
					}
				case *ast.IfStmt:
					if be, ok := s.Cond.(*ast.BinaryExpr); ok && be.Op == token.NEQ && isTokField(info, be.X, "Type") && isTokField(info, be.Y, "Type") {
						typeGuard = true
					}
				}
			}
			if sw == nil {
				return nil, false
			}
			m := map[string]*classInfo{}
			for _, cl := range sw.Body.List {
				cc := cl.(*ast.CaseClause)
				var names []string
				for _, e := range cc.List {
					names = append(names, L.Src(e))
				}
				sort.Strings(names)
				m[strings.Join(names, ",")] = &classInfo{names, cc.Body, cc.Pos()}
			}
			return m, typeGuard
		}
		ce, ge := classesOf(eq)
		cl, gl := classesOf(less)
		r1.Decide(ce != nil && cl != nil && ge && gl, "parser.tokenEqual/tokenLess|token type compared first", eq.Decl.Pos(), "both predicates separate tokens of different type first", "one of the predicates does not compare the token types before the per-class keys")
		if ce != nil && cl != nil {
			var ks []string
			for k := range ce {
				ks = append(ks, k)
			}
			for k := range cl {
				if ce[k] == nil {
					ks = append(ks, k)
				}
			}
			sort.Strings(ks)
			for _, k := range ks {
				if ce[k] == nil || cl[k] == nil {
					pos := eq.Decl.Pos()
					if cl[k] != nil {
						pos = cl[k].pos
					} else {
						pos = ce[k].pos
					}
					r1.Bad("parser.tokenEqual/tokenLess|class "+k, pos, "token class {"+k+"} is handled by only one of the two predicates: equality and ordering partition token types differently")
					continue
				}
				// keys
				ek := keyExprs(L, info, eq, ce[k].body, true)
				lk := keyExprs(L, info, less, cl[k].body, false)
				if strings.Contains(k, "ALIAS_PARAMETER") {
					checkAliasParamKeys(c, r1, ce[k].body, cl[k].body, cl[k].pos)
					continue
				}
				r1.Decide(strings.Join(ek, ";") == strings.Join(lk, ";") && len(ek) > 0, "parser.tokenEqual/tokenLess|class "+k+" keys", cl[k].pos, "both compare "+strings.Join(ek, ";"), "equality compares {"+strings.Join(ek, ";")+"} but the ordering compares {"+strings.Join(lk, ";")+"}: binary search and equality disagree")
			}
		}
	}
	if nNew == 0 {
		r1.Und("alias_trie.New", token.NoPos, "no construction site of the alias trie found")
	}

	// ---------------- R20.2 ----------------
	checkInsertProvenance(c)

	// ---------------- R20.3 ----------------
	r3 := c.Rule("R20.3", "OrderedMap.data has a closed writer set; Set/Get/Delete locate through binarySearch; copies keep the predicate pair", 6)
	writersOK := map[string]bool{"ordered_map.New": true, "ordered_map.Copy": true, "ordered_map.(*OrderedMap).Set": true, "ordered_map.(*OrderedMap).Delete": true}
	om := L.ByRel["src/parser/ordered_map"]
	// the storage of the map: the slice-typed field of OrderedMap (whatever it is called)
	var storage *types.Var
	if tn, ok := om.Types.Scope().Lookup("OrderedMap").(*types.TypeName); ok {
		if st, ok := tn.Type().Underlying().(*types.Struct); ok {
			for i := 0; i < st.NumFields(); i++ {
				if _, isSlice := st.Field(i).Type().Underlying().(*types.Slice); isSlice {
					if storage != nil {
						storage = nil
						break
					}
					storage = st.Field(i)
				}
			}
		}
	}
	if storage == nil {
		r3.Und("ordered_map.OrderedMap|storage field", token.NoPos, "the one slice-typed field of OrderedMap was not found")
	}
	nWrites := 0
	for _, w := range L.FieldWrites(func(v *types.Var) bool {
		return storage != nil && v.IsField() && v.Pkg() == om.Types && v.Origin() == storage.Origin()
	}) {
		nWrites++
		q := L.QName(w.Fn.Obj)
		r3.Decide(writersOK[q] && w.Fn.Pkg == om, q+"|write data", w.Node.Pos(), "writer in the closed set", "OrderedMap.data written outside New/Copy/Set/Delete: sortedness/pairing invariant can break")
	}
	// positional composite literals of OrderedMap (New uses one)
	L.ForEachFunc([]string{"src/parser/ordered_map"}, func(fi *FuncInfo) {
		ast.Inspect(fi.Decl.Body, func(n ast.Node) bool {
			if cl, ok := n.(*ast.CompositeLit); ok {
				if nt, ok := om.TypesInfo.TypeOf(cl).(*types.Named); ok && nameIs(nt.Obj(), "OrderedMap") {
					q := L.QName(fi.Obj)
					r3.Decide(writersOK[q], q+"|OrderedMap literal", cl.Pos(), "constructor", "OrderedMap constructed outside New/Copy")
				}
			}
			return true
		})
	})
	if storage != nil && nWrites == 0 {
		r3.Und("ordered_map.OrderedMap|storage field", token.NoPos, "no write of the storage field found")
	}
	// the shared locator: the one method of the map that Set, Get and Delete all call (binarySearch, whatever it is called)
	calleesOf := map[string]map[*types.Func]int{}
	for _, nm := range []string{"Set", "Get", "Delete"} {
		fi := L.Fn("src/parser/ordered_map.(*OrderedMap)." + nm)
		if fi == nil {
			r3.Und("ordered_map.(*OrderedMap)."+nm, token.NoPos, "method not found")
			continue
		}
		calleesOf[nm] = map[*types.Func]int{}
		ast.Inspect(fi.Decl.Body, func(n ast.Node) bool {
			if call, ok := n.(*ast.CallExpr); ok {
				if fn := Callee(om.TypesInfo, call); fn != nil && fn.Pkg() == om.Types {
					if sig, ok := fn.Type().(*types.Signature); ok && sig.Recv() != nil {
						calleesOf[nm][fn.Origin()]++
					}
				}
			}
			return true
		})
	}
	var locator *types.Func
	if len(calleesOf) == 3 {
		for fn := range calleesOf["Set"] {
			if calleesOf["Get"][fn] > 0 && calleesOf["Delete"][fn] > 0 {
				locator = fn
			}
		}
	}
	for _, nm := range []string{"Set", "Get", "Delete"} {
		fi := L.Fn("src/parser/ordered_map.(*OrderedMap)." + nm)
		if fi == nil {
			continue
		}
		r3.Decide(locator != nil && calleesOf[nm][locator] == 1, "ordered_map.(*OrderedMap)."+nm+"|locates via binarySearch", fi.Decl.Pos(), "locates the key through the one search method shared by Set, Get and Delete", nm+" does not locate the key through a search method shared with the other two operations")
	}
	// Copy and copyNode pass the predicates on unchanged
	if fi := L.Fn("src/parser/ordered_map.Copy"); fi != nil {
		okc := 0
		ast.Inspect(fi.Decl.Body, func(n ast.Node) bool {
			if kv, ok := n.(*ast.KeyValueExpr); ok {
				kid, isId := kv.Key.(*ast.Ident)
				if !isId {
					return true
				}
				k := kid.Name
				// the value is the same-named field of the map that is copied (whatever the parameter is called)
				if sel, isSel := ast.Unparen(kv.Value).(*ast.SelectorExpr); isSel && (k == "eq" || k == "less") && sel.Sel.Name == k && isParamOf(om.TypesInfo, fi, sel.X) {
					okc++
				}
			}
			return true
		})
		r3.Decide(okc == 2, "ordered_map.Copy|predicates kept", fi.Decl.Pos(), "eq: m.eq, less: m.less", "Copy does not carry over both predicates unchanged")
	}
	at := L.ByRel["src/parser/alias_trie"]
	if fi := L.Fn("src/parser/alias_trie.Copy"); fi != nil {
		okc := false
		ast.Inspect(fi.Decl.Body, func(n ast.Node) bool {
			if call, ok := n.(*ast.CallExpr); ok {
				if fn := Callee(at.TypesInfo, call); fn != nil && nameIs(fn, "copyNode") && len(call.Args) == 3 {
					f1, ok1 := ast.Unparen(call.Args[1]).(*ast.SelectorExpr)
					f2, ok2 := ast.Unparen(call.Args[2]).(*ast.SelectorExpr)
					okc = ok1 && ok2 && selName(at.TypesInfo, f1) == "key_eq" && selName(at.TypesInfo, f2) == "key_less" && isParamOf(at.TypesInfo, fi, f1.X) && isParamOf(at.TypesInfo, fi, f2.X)
				}
			}
			return true
		})
		r3.Decide(okc, "alias_trie.Copy|predicates kept", fi.Decl.Pos(), "copyNode(root, t.key_eq, t.key_less)", "trie copy does not pass (key_eq, key_less) in this order")
	}
	if fi := L.Fn("src/parser/alias_trie.copyNode"); fi != nil {
		okc := 0
		params := []string{}
		for _, f := range fi.Decl.Type.Params.List {
			for _, n := range f.Names {
				params = append(params, n.Name)
			}
		}
		ast.Inspect(fi.Decl.Body, func(n ast.Node) bool {
			if call, ok := n.(*ast.CallExpr); ok {
				fn := Callee(at.TypesInfo, call)
				if fn != nil && (nameIs(fn, "New") || nameIs(fn, "copyNode")) && len(call.Args) == 3 && len(params) == 3 {
					if nameIs(fn, "New") && L.Src(call.Args[0]) == params[1] && L.Src(call.Args[1]) == params[2] {
						okc++
					}
					if nameIs(fn, "copyNode") && L.Src(call.Args[1]) == params[1] && L.Src(call.Args[2]) == params[2] {
						okc++
					}
				}
			}
			return true
		})
		r3.Decide(okc == 2, "alias_trie.copyNode|predicates kept", fi.Decl.Pos(), "children map and recursive copies get (key_eq, key_less)", "copyNode does not hand (key_eq, key_less) in this order to the children map and the recursive copies")
	}

	checkAliasExists(c, c.Rule("R20.6", "the duplicate test answers 'exists' for every alias stored under the pattern, of a function or of a Kombination", 4))
	checkTrieNodeIndices(c, c.Rule("R20.5", "the trie search gives its key generator a different index for every visited node", 1))

	// ---------------- R20.4 ----------------
	r4 := c.Rule("R20.4", "Trie.Search and Trie.Insert consider every child / reuse existing children", 2)
	if fi := L.Fn("src/parser/alias_trie.(*Trie).Search"); fi != nil {
		found := false
		ast.Inspect(fi.Decl.Body, func(n ast.Node) bool {
			call, ok := n.(*ast.CallExpr)
			if !ok {
				return true
			}
			if fn := Callee(at.TypesInfo, call); fn != nil && nameIs(fn, "IterateKeys") && len(call.Args) == 1 {
				if fl, ok := call.Args[0].(*ast.FuncLit); ok {
					found = true
					all := true
					nret := 0
					ast.Inspect(fl.Body, func(m ast.Node) bool {
						if _, ok := m.(*ast.FuncLit); ok && m != ast.Node(fl) {
							return false
						}
						if ret, ok := m.(*ast.ReturnStmt); ok {
							nret++
							if len(ret.Results) != 1 || L.Src(ret.Results[0]) != "true" {
								all = false
							}
						}
						return true
					})
					r4.Decide(all && nret > 0, "alias_trie.(*Trie).Search|visits all children", fl.Pos(), "the child iteration never stops early", "the iteration over a node's children can stop early (callback returns something other than true): a matching sibling after a non-matching child is skipped and a declared alias is not found")
				}
			}
			return true
		})
		if !found {
			r4.Und("alias_trie.(*Trie).Search", fi.Decl.Pos(), "no IterateKeys callback found")
		}
	} else {
		r4.Und("alias_trie.(*Trie).Search", token.NoPos, "method not found")
	}
	if fi := L.Fn("src/parser/alias_trie.(*Trie).Insert"); fi != nil {
		// shape: for each key: if child, ok := children.Get(k); ok {node = child} else {create; children.Set(k, child)}; finally node.value = value; node.hasValue = true
		gets, sets, hasVal := 0, 0, false
		ast.Inspect(fi.Decl.Body, func(n ast.Node) bool {
			switch x := n.(type) {
			case *ast.CallExpr:
				if fn := Callee(at.TypesInfo, x); fn != nil {
					if nameIs(fn, "Get") {
						gets++
					}
					if nameIs(fn, "Set") {
						sets++
					}
				}
			case *ast.AssignStmt:
				if len(x.Lhs) == 1 && len(x.Rhs) == 1 && isFieldNamed(fieldOf(at.TypesInfo, x.Lhs[0]), "hasValue") && L.Src(x.Rhs[0]) == "true" {
					hasVal = true
				}
			}
			return true
		})
		r4.Decide(gets == 1 && sets == 1 && hasVal, "alias_trie.(*Trie).Insert|reuse child, mark value", fi.Decl.Pos(), "existing children are reused (Get before Set) and the end node is marked", "Insert does not look up an existing child before creating one, or does not mark the end node")
	}
}

func isTokField(info *types.Info, e ast.Expr, name string) bool {
	v := fieldOf(info, e)
	return v != nil && v.Name() == name && v.Pkg() != nil && nameIs(v.Pkg(), "token")
}

// keyExprs lists, normalised (t1/t2 -> t), the expressions compared pairwise in the statements.
func keyExprs(L *Loaded, info *types.Info, fi *FuncInfo, body []ast.Stmt, eq bool) []string {
	p := fi.Decl.Type.Params.List
	var names []string
	for _, f := range p {
		for _, n := range f.Names {
			names = append(names, n.Name)
		}
	}
	norm := func(e ast.Expr) string {
		s := L.Src(e)
		for _, n := range names {
			s = strings.ReplaceAll(s, n+".", "t.")
		}
		return s
	}
	set := map[string]bool{}
	for _, st := range body {
		ast.Inspect(st, func(n ast.Node) bool {
			if be, ok := n.(*ast.BinaryExpr); ok {
				switch be.Op {
				case token.EQL, token.NEQ, token.LSS, token.GTR, token.LEQ, token.GEQ:
					a, b := norm(be.X), norm(be.Y)
					if a == b {
						set[a] = true
					} else {
						set[a+" vs "+b] = true
					}
				}
			}
			return true
		})
	}
	var out []string
	for k := range set {
		out = append(out, k)
	}
	sort.Strings(out)
	return out
}

func checkAliasParamKeys(c *Check, r *Rule, eqBody, lessBody []ast.Stmt, pos token.Pos) {
	L := c.L
	pp := L.ByRel["src/parser"]
	info := pp.TypesInfo
	// equality side: must be exactly ParamTypesEqual(*t1.AliasInfo, *t2.AliasInfo), which is IsReference== && Equal(Type, Type)
	eqOK := false
	for _, st := range eqBody {
		if ret, ok := st.(*ast.ReturnStmt); ok && len(ret.Results) == 1 {
			if call, ok := ret.Results[0].(*ast.CallExpr); ok && L.IsCallTo(pp, call, "ddptypes.ParamTypesEqual") {
				eqOK = true
			}
		}
	}
	pte := L.Fn("src/ddptypes.ParamTypesEqual")
	pteOK := false
	if pte != nil && len(pte.Decl.Body.List) == 1 {
		s := L.Src(pte.Decl.Body.List[0])
		dinfo := pte.Pkg.TypesInfo
		hasEqual, hasRef := false, false
		ast.Inspect(pte.Decl.Body, func(n ast.Node) bool {
			switch x := n.(type) {
			case *ast.CallExpr:
				if fn := Callee(dinfo, x); fn != nil && nameIs(fn, "Equal") {
					hasEqual = true
				}
			case *ast.BinaryExpr:
				if x.Op == token.EQL && strings.HasSuffix(L.Src(x.X), ".IsReference") && strings.HasSuffix(L.Src(x.Y), ".IsReference") {
					hasRef = true
				}
			}
			return true
		})
		pteOK = hasEqual && hasRef && strings.Contains(s, "&&")
	}
	r.Decide(eqOK && pteOK, "parser.tokenEqual|ALIAS_PARAMETER equality", pos, "placeholders are equal iff IsReference agree and the types are Equal (normalised identity)", "placeholder equality is not ParamTypesEqual = (IsReference == IsReference && Equal(Type, Type))")
	// ordering side: every use of AliasInfo.Type must go through a normalised view; String() as the final key is not injective
	rawUses, stringKey := 0, token.NoPos
	var rawPos token.Pos
	for _, st := range lessBody {
		var stack []ast.Node
		ast.Inspect(st, func(n ast.Node) bool {
			if n == nil {
				stack = stack[:len(stack)-1]
				return true
			}
			stack = append(stack, n)
			if sel, ok := n.(*ast.SelectorExpr); ok {
				if v := fieldOf(info, sel); v != nil && nameIs(v, "Type") && v.Pkg() != nil && nameIs(v.Pkg(), "ddptypes") {
					// parent must be a call argument of a normalised view
					okUse := false
					if len(stack) >= 2 {
						if call, ok := stack[len(stack)-2].(*ast.CallExpr); ok {
							if fn := Callee(info, call); fn != nil && normalisedViews[L.QName(fn)] {
								for _, a := range call.Args {
									if a == ast.Expr(sel) {
										okUse = true
									}
								}
							}
						}
					}
					if !okUse {
						rawUses++
						rawPos = sel.Pos()
					}
				}
			}
			if call, ok := n.(*ast.CallExpr); ok {
				if fn := Callee(info, call); fn != nil && nameIs(fn, "String") && len(call.Args) == 0 {
					if s, ok := call.Fun.(*ast.SelectorExpr); ok && isDDPType(info.TypeOf(s.X)) {
						stringKey = call.Pos()
					}
				}
			}
			return true
		})
	}
	if rawUses > 0 {
		r.Bad("parser.tokenLess|ALIAS_PARAMETER raw type", rawPos, "the ordering looks at the placeholder's declared type without normalising it, while equality compares normalised types: an alias of a type is equal to, yet ordered apart from, its target - binary search misses the existing key and a duplicate alias is accepted")
	} else {
		r.OK("parser.tokenLess|ALIAS_PARAMETER raw type", pos, "every use of the placeholder type goes through a normalised view")
	}
	if stringKey.IsValid() {
		r.Bad("parser.tokenLess|ALIAS_PARAMETER order key String()", stringKey, "the final ordering key is String() of the normalised type, equality is identity: two distinct types that print alike are neither less nor equal, binary search can miss an existing key")
	} else {
		r.OK("parser.tokenLess|ALIAS_PARAMETER order key", pos, "no printed-name ordering key")
	}
}

// ---- R20.2 ----

func checkInsertProvenance(c *Check) {
	L := c.L
	r := c.Rule("R20.2", "every alias-trie insertion consumes tokens that passed the negative edge of aliasExists", 4)
	pp := L.ByRel["src/parser"]
	info := pp.TypesInfo
	ae := L.Fn("src/parser.(*parser).aliasExists")
	if ae == nil {
		r.Und("parser.(*parser).aliasExists", token.NoPos, "duplicate test not found")
		return
	}
	// checkedVars: variables bound to the 4th result of aliasExists in `if ok, .., toks := p.aliasExists(x); ok {report} else {...}`,
	// valid inside the else branch.
	type scopeVar struct {
		obj      types.Object
		from, to token.Pos
	}
	var checked []scopeVar
	reportsOK := map[types.Object]bool{}
	L.ForEachFunc([]string{"src/parser"}, func(fi *FuncInfo) {
		ast.Inspect(fi.Decl.Body, func(n ast.Node) bool {
			is, ok := n.(*ast.IfStmt)
			if !ok || is.Init == nil || is.Else == nil {
				return true
			}
			as, ok := is.Init.(*ast.AssignStmt)
			if !ok || len(as.Rhs) != 1 || len(as.Lhs) != 4 {
				return true
			}
			call, ok := as.Rhs[0].(*ast.CallExpr)
			if !ok || Callee(info, call) != ae.Obj {
				return true
			}
			okId, _ := as.Lhs[0].(*ast.Ident)
			condId, _ := ast.Unparen(is.Cond).(*ast.Ident)
			tokId, _ := as.Lhs[3].(*ast.Ident)
			if okId == nil || condId == nil || tokId == nil || info.Uses[condId] != info.Defs[okId] {
				return true
			}
			// the true branch must report SEM_ALIAS_ALREADY_*
			rep := false
			ast.Inspect(is.Body, func(m ast.Node) bool {
				if sel, ok := m.(*ast.SelectorExpr); ok && strings.HasPrefix(sel.Sel.Name, "SEM_ALIAS_ALREADY_") {
					rep = true
				}
				return true
			})
			obj := info.Defs[tokId]
			checked = append(checked, scopeVar{obj, is.Else.Pos(), is.Else.End()})
			reportsOK[obj] = rep
			r.Decide(rep, L.QName(fi.Obj)+"|aliasExists true edge reports", is.Pos(), "duplicate is reported with SEM_ALIAS_ALREADY_*", "the positive edge of the duplicate test does not report SEM_ALIAS_ALREADY_TAKEN/DEFINED")
			return true
		})
	})
	isCheckedUse := func(id *ast.Ident) bool {
		obj := info.Uses[id]
		for _, sv := range checked {
			if sv.obj == obj && sv.from <= id.Pos() && id.Pos() < sv.to {
				return true
			}
		}
		return false
	}
	// checkedExpr: expression denotes tokens that passed the negative edge
	var checkedExpr func(fi *FuncInfo, e ast.Expr, depth int) (bool, string)
	// all assignments/appends to a slice/variable object
	varSources := func(fi *FuncInfo, obj types.Object) (srcs []ast.Expr, appends []ast.Expr, zeroDecl bool) {
		ast.Inspect(fi.Decl.Body, func(n ast.Node) bool {
			switch s := n.(type) {
			case *ast.AssignStmt:
				for i, l := range s.Lhs {
					id, ok := l.(*ast.Ident)
					if !ok || (info.Defs[id] != obj && info.Uses[id] != obj) {
						continue
					}
					var rhs ast.Expr
					if len(s.Rhs) == len(s.Lhs) {
						rhs = s.Rhs[i]
					} else {
						// multi-value call: record call with result index via a synthetic IndexExpr
						rhs = &ast.IndexExpr{X: s.Rhs[0], Index: &ast.BasicLit{Kind: token.INT, Value: string(rune('0' + i))}}
					}
					if call, ok := ast.Unparen(rhs).(*ast.CallExpr); ok {
						if fid, ok := call.Fun.(*ast.Ident); ok && fid.Name == "append" && len(call.Args) >= 2 {
							if a0, ok := call.Args[0].(*ast.Ident); ok && info.Uses[a0] == obj {
								appends = append(appends, call.Args[1:]...)
								continue
							}
						}
						if fid, ok := call.Fun.(*ast.Ident); ok && fid.Name == "make" {
							zeroDecl = true
							continue
						}
					}
					srcs = append(srcs, rhs)
				}
			case *ast.ValueSpec:
				for i, id := range s.Names {
					if info.Defs[id] == obj {
						if i < len(s.Values) {
							srcs = append(srcs, s.Values[i])
						} else {
							zeroDecl = true
						}
					}
				}
			}
			return true
		})
		return
	}
	checkedExpr = func(fi *FuncInfo, e ast.Expr, depth int) (bool, string) {
		if depth > 4 {
			return false, "too deep"
		}
		e = ast.Unparen(e)
		switch x := e.(type) {
		case *ast.Ident:
			if isCheckedUse(x) {
				return true, x.Name + " from the negative edge of aliasExists"
			}
			obj := info.Uses[x]
			if obj == nil {
				return false, "unresolved " + x.Name
			}
			srcs, apps, _ := varSources(fi, obj)
			if len(srcs) == 0 && len(apps) == 0 {
				// captured from enclosing function literal scope is covered since we scan the whole FuncDecl
				return false, x.Name + " has no checked source"
			}
			for _, s := range append(srcs, apps...) {
				if ok, why := checkedExpr(fi, s, depth+1); !ok {
					return false, x.Name + " ← " + why
				}
			}
			return true, x.Name + " only ever holds checked tokens"
		case *ast.IndexExpr:
			// synthetic multi-result marker or slice element
			if call, ok := ast.Unparen(x.X).(*ast.CallExpr); ok {
				if lit, ok := x.Index.(*ast.BasicLit); ok {
					idx := int(lit.Value[0] - '0')
					if fn := Callee(info, call); fn != nil {
						if cf := L.Funcs[fn]; cf != nil && cf.Decl.Body != nil {
							// every return statement's idx-th result must be checked in the callee
							all, any := true, false
							why := ""
							ast.Inspect(cf.Decl.Body, func(n ast.Node) bool {
								if _, ok := n.(*ast.FuncLit); ok {
									return false
								}
								if ret, ok := n.(*ast.ReturnStmt); ok && idx < len(ret.Results) {
									any = true
									if ok, w := checkedExpr(cf, ret.Results[idx], depth+1); !ok {
										all = false
										why = w
									}
								}
								return true
							})
							if any && all {
								return true, "result " + lit.Value + " of " + fn.Name() + " holds only checked tokens"
							}
							return false, "result of " + fn.Name() + ": " + why
						}
					}
				}
				return false, "call result"
			}
			return checkedExpr(fi, x.X, depth+1)
		}
		return false, "expression " + L.Src(e)
	}
	exempt := map[string]string{
		"parser.(*parser).generateGenericContext": "re-inserts aliases found in an existing trie into a copy (keys already passed the duplicate test when first declared)",
	}
	L.ForEachFunc([]string{"src/parser"}, func(fi *FuncInfo) {
		ast.Inspect(fi.Decl.Body, func(n ast.Node) bool {
			call, ok := n.(*ast.CallExpr)
			if !ok || len(call.Args) != 2 {
				return true
			}
			fn := Callee(info, call)
			if fn == nil || !nameIs(fn, "Insert") || fn.Pkg() == nil || !strings.HasSuffix(fn.Pkg().Path(), "alias_trie") {
				return true
			}
			q := L.QName(fi.Obj)
			if why, ok := exempt[q]; ok {
				r.Ex(q+"|aliases.Insert", call.Pos(), why)
				return true
			}
			okc, why := checkedExpr(fi, call.Args[0], 0)
			r.Decide(okc, q+"|aliases.Insert", call.Pos(), why, "alias inserted under tokens that did not pass the duplicate test ("+why+"): an existing alias can be overwritten silently")
			return true
		})
	})
}

// R20.5 (= R9.9): the trie search hands its key generator a different index for every node it visits. The generator of
// alias() keeps one saved stream position per index (a parameter may consume several tokens), so two nodes that share an
// index - e.g. two nodes of the same depth - overwrite each other's position and candidates of the second branch are read
// from the wrong tokens and lost. Decided by evaluating Trie.Search (engine E2) on a small trie
// (root → {a, b}, a → {c}, b → {d}) with a recording generator that accepts every child.
func checkTrieNodeIndices(c *Check, r *Rule) {
	L := c.L
	fi := L.Fn("src/parser/alias_trie.(*Trie).Search")
	if fi == nil {
		r.Und("alias_trie.(*Trie).Search", token.NoPos, "function not found")
		return
	}
	in := NewInterp(L)
	in.MaxDepth = 12
	intV := func(i int64) Val { return ConstV{V: constant.MakeInt64(i), T: types.Typ[types.Int]} }
	mkMap := func(keys []Val, vals []Val) *Obj {
		m := newObj("ordered_map.OrderedMap")
		m.set("keys", SliceV{Elems: keys})
		m.set("vals", SliceV{Elems: vals})
		return m
	}
	mkNode := func(name string, key Val, keys []Val, kids []Val) *Obj {
		n := newObj("trieNode")
		n.set("name", StrV(name))
		n.set("key", key)
		n.set("hasValue", boolV(true))
		n.set("value", StrV("value of "+name))
		n.set("children", mkMap(keys, kids))
		return n
	}
	nc := mkNode("c", intV(3), nil, nil)
	nd := mkNode("d", intV(4), nil, nil)
	na := mkNode("a", intV(1), []Val{intV(3)}, []Val{nc})
	nb := mkNode("b", intV(2), []Val{intV(4)}, []Val{nd})
	root := mkNode("root", intV(0), []Val{intV(1), intV(2)}, []Val{na, nb})
	root.set("hasValue", boolV(false))
	in.Models["ordered_map.(*OrderedMap).IterateKeys"] = func(in *Interp, pkg *packages.Package, call *ast.CallExpr, recv Val, args []Val) (Val, bool) {
		m, ok := recv.(*Obj)
		cl, ok2 := args[0].(Closure)
		if !ok || !ok2 {
			return nil, false
		}
		ks, _ := m.get("keys").(SliceV)
		for _, k := range ks.Elems {
			if t, known := truth(in.callClosure(cl, []Val{k})); known && !t {
				break
			}
		}
		return TupleV(nil), true
	}
	in.Models["ordered_map.(*OrderedMap).Get"] = func(in *Interp, pkg *packages.Package, call *ast.CallExpr, recv Val, args []Val) (Val, bool) {
		m, ok := recv.(*Obj)
		if !ok {
			return nil, false
		}
		ks, _ := m.get("keys").(SliceV)
		vs, _ := m.get("vals").(SliceV)
		for i, k := range ks.Elems {
			if t, known := eqVal(k, args[0]); known && t {
				return TupleV{vs.Elems[i], boolV(true)}, true
			}
		}
		return TupleV{NilV{}, boolV(false)}, true
	}
	trie := newObj("alias_trie.Trie")
	trie.set("root", root)
	trie.set("key_eq", NativeV{F: func(args []Val) Val {
		if len(args) == 2 {
			if t, known := eqVal(args[0], args[1]); known {
				return boolV(t)
			}
		}
		return Unk{"key_eq"}
	}})
	// the recording generator: which index is given while the children of which node are offered (identified by child key)
	parentOf := map[int64]string{1: "root", 2: "root", 3: "a", 4: "b"}
	indexOf := map[string]map[string]bool{}
	gen := NativeV{F: func(args []Val) Val {
		if len(args) == 2 {
			if kc, ok := args[1].(ConstV); ok && kc.V != nil {
				k, _ := constant.Int64Val(kc.V)
				node := parentOf[k]
				if indexOf[node] == nil {
					indexOf[node] = map[string]bool{}
				}
				indexOf[node][fmt.Sprint(args[0])] = true
			}
			return TupleV{args[1], boolV(true)}
		}
		return TupleV{Unk{"key"}, Unk{"ok"}}
	}}
	var res Val
	runs, _ := in.RunAll(4, func() {
		for k := range indexOf {
			delete(indexOf, k)
		}
		res = in.CallFunc(fi, trie, []Val{gen})
	})
	key := "alias_trie.(*Trie).Search|one index per visited node"
	sl, isSlice := res.(SliceV)
	if runs != 1 || !isSlice || len(indexOf) < 3 {
		r.Und(key, fi.Decl.Pos(), fmt.Sprintf("the search could not be evaluated on the model trie (%d run(s), result %v, %d nodes offered children)", runs, res, len(indexOf)))
		return
	}
	var bad []string
	seen := map[string]string{}
	for _, node := range []string{"root", "a", "b"} {
		if len(indexOf[node]) != 1 {
			bad = append(bad, fmt.Sprintf("the children of node %s are offered under %d different indices", node, len(indexOf[node])))
			continue
		}
		for ix := range indexOf[node] {
			if other, dup := seen[ix]; dup {
				bad = append(bad, fmt.Sprintf("nodes %s and %s are visited under the same index", other, node))
			}
			seen[ix] = node
		}
	}
	if len(sl.Elems) != 4 {
		bad = append(bad, fmt.Sprintf("the search over the model trie yields %d values, expected the 4 values on the matched paths", len(sl.Elems)))
	}
	r.Decide(len(bad) == 0, key, fi.Decl.Pos(), "root, a and b are visited under three different indices; all four values are found", strings.Join(bad, "; ")+": the key generator of alias() keeps one saved position per index, so candidates of a sibling branch are read from the wrong tokens and dropped (a shorter alias or none is chosen)")
}

// R20.6: the duplicate test itself. aliasExists reports "exists" exactly when the trie holds an alias under the pattern - a
// function's alias or a Kombination's alias alike - and "does not exist" for an inner node that carries none and for a
// miss. Decided by evaluating it (engine E2) against a scripted Contains.
func checkAliasExists(c *Check, r *Rule) {
	L := c.L
	fi := L.Fn("src/parser.(*parser).aliasExists")
	if fi == nil {
		r.Und("parser.(*parser).aliasExists", token.NoPos, "function not found")
		return
	}
	type scen struct {
		name  string
		found bool
		value Val
		want  bool
	}
	scens := []scen{
		{"the pattern is a function's alias", true, newObj("ast.FuncAlias"), true},
		{"the pattern is a Kombination's alias", true, newObj("ast.StructAlias"), true},
		{"the pattern is only a prefix of longer aliases (node without a value)", true, NilV{}, false},
		{"the pattern is not in the trie", false, NilV{}, false},
	}
	for _, sc := range scens {
		in := NewInterp(L)
		in.Models["alias_trie.(*Trie).Contains"] = func(in *Interp, pkg *packages.Package, call *ast.CallExpr, recv Val, args []Val) (Val, bool) {
			return TupleV{boolV(sc.found), sc.value}, true
		}
		in.Models["parser.toPointerSlice"] = func(in *Interp, pkg *packages.Package, call *ast.CallExpr, recv Val, args []Val) (Val, bool) {
			return SliceV{}, true
		}
		p := newObj("parser.parser")
		p.set("aliases", newObj("alias_trie.Trie"))
		toks := SliceV{Elems: []Val{newObj("token.Token"), newObj("token.Token")}}
		var res Val
		runs, _ := in.RunAll(4, func() { res = in.CallFunc(fi, p, []Val{toks}) })
		key := "parser.(*parser).aliasExists|" + sc.name
		tv, ok := res.(TupleV)
		if runs != 1 || !ok || len(tv) < 1 {
			r.Und(key, fi.Decl.Pos(), fmt.Sprintf("not evaluated (%v)", res))
			continue
		}
		got, known := truth(tv[0])
		if !known {
			r.Und(key, fi.Decl.Pos(), fmt.Sprintf("the answer is not a known boolean (%v)", tv[0]))
			continue
		}
		r.Decide(got == sc.want, key, fi.Decl.Pos(), fmt.Sprintf("answers %v", sc.want), fmt.Sprintf("answers %v where %v is required: a second declaration with the same pattern is accepted without a diagnostic and replaces the first in the trie, which can then no longer be called (or a free pattern is refused)", got, sc.want))
	}
}
