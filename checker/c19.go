package main

import (
	"fmt"
	"go/ast"
	"go/token"
	"go/types"
	"golang.org/x/tools/go/cfg"
	"sort"
	"strings"
)

func init() { registry["C19"] = checkC19 }

// escapeCases extracts, from a switch over the escape letter, letter -> resulting rune (identity when the arm assigns nothing).
func escapeCases(L *Loaded, fi *FuncInfo, sw *ast.SwitchStmt, tagVar types.Object) (map[int64]int64, bool) {
	info := fi.Pkg.TypesInfo
	m := map[int64]int64{}
	hasDefaultErr := false
	for _, cl := range sw.Body.List {
		cc := cl.(*ast.CaseClause)
		if cc.List == nil {
			ast.Inspect(cc, func(n ast.Node) bool {
				if call, ok := n.(*ast.CallExpr); ok {
					if fn := Callee(info, call); fn != nil && nameIs(fn, "err") {
						hasDefaultErr = true
					}
				}
				return true
			})
			continue
		}
		for _, e := range cc.List {
			k, ok := constInt(info, e)
			if !ok {
				continue
			}
			v := k
			for _, st := range cc.Body {
				if as, ok := st.(*ast.AssignStmt); ok && len(as.Lhs) == 1 && len(as.Rhs) == 1 {
					if id, ok := as.Lhs[0].(*ast.Ident); ok && (info.Uses[id] == tagVar || tagVar == nil) {
						if nv, ok := constInt(info, as.Rhs[0]); ok {
							v = nv
						}
					}
				}
			}
			m[k] = v
		}
	}
	return m, hasDefaultErr
}

func runeSetStr(m map[int64]int64) string {
	var ks []int64
	for k := range m {
		ks = append(ks, k)
	}
	sort.Slice(ks, func(i, j int) bool { return ks[i] < ks[j] })
	var p []string
	for _, k := range ks {
		p = append(p, fmt.Sprintf("%q→%d", rune(k), m[k]))
	}
	return strings.Join(p, " ")
}

func checkC19(c *Check) {
	L := c.L
	c.Expl = "Structural clauses of 'every literal denotes its written value': the escape letters accepted by the scanner, by the text unescaper and by the character unescaper are the same set and map to C's code points (R19.1); integer literals are read by a signed 64-bit base-10 conversion and decimal literals by a 64-bit float conversion after replacing the decimal comma, and the error arm of either reports a diagnostic (R19.2); the quotes are removed exactly once on each side (R19.5); the literal visitors of the generator hand the node's value unchanged to the constant constructor of the matching IR type (R19.3); scanner-level literal errors fail the compilation (R19.4, = C07 R7.1). Not decided: splice-index arithmetic while unescaping texts, C-string emission, printing."
	pp := L.ByRel["src/parser"]
	info := pp.TypesInfo
	sp := L.ByRel["src/scanner"]
	sinfo := sp.TypesInfo

	r1 := c.Rule("R19.1", "scanner and parser accept the same escape letters and map them to C's code points", 3)
	cMap := map[int64]int64{'a': 7, 'b': 8, 'n': 10, 'r': 13, 't': 9, '\\': '\\'}
	// scanner: scanEscape's case list
	scanSet := map[int64]bool{}
	scanQuoteParam := false
	if fi := L.Fn("src/scanner.(*Scanner).scanEscape"); fi != nil {
		ast.Inspect(fi.Decl.Body, func(n ast.Node) bool {
			if sw, ok := n.(*ast.SwitchStmt); ok {
				for _, cl := range sw.Body.List {
					for _, e := range cl.(*ast.CaseClause).List {
						if v, ok := constInt(sinfo, e); ok {
							scanSet[v] = true
						} else if id, ok := e.(*ast.Ident); ok {
							if _, isVar := sinfo.Uses[id].(*types.Var); isVar {
								scanQuoteParam = true
							}
						}
					}
				}
			}
			return true
		})
		ok := scanQuoteParam && len(scanSet) == len(cMap)
		for k := range cMap {
			if !scanSet[k] {
				ok = false
			}
		}
		var got []string
		for k := range scanSet {
			got = append(got, fmt.Sprintf("%q", rune(k)))
		}
		sort.Strings(got)
		r1.Decide(ok, "scanner.(*Scanner).scanEscape|escape letters", fi.Decl.Pos(), "accepts a b n r t \\ and the literal's own quote", "the scanner accepts the escape letters {"+strings.Join(got, " ")+"} (+quote: "+fmt.Sprint(scanQuoteParam)+"), expected a b n r t \\ and the quote")
	} else {
		r1.Und("scanner.(*Scanner).scanEscape", token.NoPos, "function not found")
	}
	for _, row := range []struct {
		fn    string
		quote int64
	}{{"parseChar", '\''}, {"parseString", '"'}} {
		fi := L.Fn("src/parser.(*parser)." + row.fn)
		if fi == nil {
			r1.Und("parser.(*parser)."+row.fn, token.NoPos, "function not found")
			continue
		}
		// the innermost switch whose cases are rune constants
		var best *ast.SwitchStmt
		ast.Inspect(fi.Decl.Body, func(n ast.Node) bool {
			if sw, ok := n.(*ast.SwitchStmt); ok && sw.Tag != nil {
				nconst := 0
				for _, cl := range sw.Body.List {
					for _, e := range cl.(*ast.CaseClause).List {
						if v, ok := constInt(info, e); ok && v > 13 {
							nconst++
						}
					}
				}
				if nconst >= 4 {
					best = sw
				}
			}
			return true
		})
		if best == nil {
			r1.Und("parser.(*parser)."+row.fn+"|escape switch", fi.Decl.Pos(), "switch over the escape letter not found")
			continue
		}
		var tagVar types.Object
		if id, ok := best.Tag.(*ast.Ident); ok {
			tagVar = info.Uses[id]
		}
		m, dfltErr := escapeCases(L, fi, best, tagVar)
		want := map[int64]int64{}
		for k, v := range cMap {
			want[k] = v
		}
		want[row.quote] = row.quote
		ok := len(m) == len(want)
		for k, v := range want {
			if got, has := m[k]; !has || got != v {
				ok = false
			}
		}
		r1.Decide(ok && dfltErr, "parser.(*parser)."+row.fn+"|escape table", best.Pos(), runeSetStr(m), "the escape table is "+runeSetStr(m)+" (unknown escapes reported: "+fmt.Sprint(dfltErr)+"); expected "+runeSetStr(want)+" with a diagnostic for every other letter")
	}

	// ---------------- R19.2 ----------------
	r2 := c.Rule("R19.2", "number literals are read by strconv.ParseInt(_,10,64) / ParseFloat(_,64) and a failed conversion is reported", 2)
	// decided on the control-flow graph of whichever parser function holds the conversion: the literal node that stores the
	// converted value is built only where the conversion's error is known to be nil, and a diagnostic is emitted where it
	// is known to be non-nil (if/else, guard clause or swapped branches alike)
	checkParse := func(fnName, want string) {
		found := false
		L.ForEachFunc([]string{"src/parser"}, func(holder *FuncInfo) {
			ast.Inspect(holder.Decl.Body, func(n ast.Node) bool {
				as, ok := n.(*ast.AssignStmt)
				if !ok || len(as.Rhs) != 1 || len(as.Lhs) != 2 {
					return true
				}
				call, ok := ast.Unparen(as.Rhs[0]).(*ast.CallExpr)
				if !ok {
					return true
				}
				fn := Callee(info, call)
				if fn == nil || fn.Pkg() == nil || fn.Pkg().Path() != "strconv" {
					return true
				}
				objOf := func(e ast.Expr) types.Object {
					id, ok := e.(*ast.Ident)
					if !ok {
						return nil
					}
					if o := info.Defs[id]; o != nil {
						return o
					}
					return info.Uses[id]
				}
				valObj, errObj := objOf(as.Lhs[0]), objOf(as.Lhs[1])
				if valObj == nil || errObj == nil {
					return true
				}
				// literal nodes of the wanted kind that store the converted value
				var lits []*ast.CompositeLit
				direct := false
				ast.Inspect(holder.Decl.Body, func(m ast.Node) bool {
					cl, ok := m.(*ast.CompositeLit)
					if !ok {
						return true
					}
					if t := info.TypeOf(cl); t == nil || !strings.HasSuffix(t.String(), "/src/"+want) {
						return true
					}
					for _, el := range cl.Elts {
						if kv, ok := el.(*ast.KeyValueExpr); ok {
							if k, ok := kv.Key.(*ast.Ident); ok && k.Name == "Value" {
								uses := false
								ast.Inspect(kv.Value, func(x ast.Node) bool {
									if id, ok := x.(*ast.Ident); ok && info.Uses[id] == valObj {
										uses = true
									}
									return true
								})
								if uses {
									lits = append(lits, cl)
									if id, ok := ast.Unparen(kv.Value).(*ast.Ident); ok && info.Uses[id] == valObj {
										direct = true
									}
								}
							}
						}
					}
					return true
				})
				if len(lits) == 0 {
					return true
				}
				found = true
				q := L.QName(holder.Obj)
				okFn := fn.Name() == fnName
				okArgs := true
				if fnName == "ParseInt" {
					b, ok1 := constInt(info, call.Args[1])
					s, ok2 := constInt(info, call.Args[2])
					okArgs = len(call.Args) == 3 && ok1 && ok2 && b == 10 && s == 64
				} else {
					s, ok2 := constInt(info, call.Args[len(call.Args)-1])
					okArgs = ok2 && s == 64
					// decimal comma replaced by a point, once
					rep := false
					ast.Inspect(throughLocals(info, holder.Decl.Body, call.Args[0]), func(m ast.Node) bool {
						if c2, ok := m.(*ast.CallExpr); ok {
							if f2 := Callee(info, c2); f2 != nil && f2.Pkg() != nil && f2.Pkg().Path() == "strings" && strings.HasPrefix(f2.Name(), "Replace") && len(c2.Args) >= 3 {
								a, _ := constString(info, c2.Args[1])
								b, _ := constString(info, c2.Args[2])
								rep = a == "," && b == "."
							}
						}
						return true
					})
					okArgs = okArgs && rep
				}
				const errNil, errSet = 1, 2
				g := L.CFG(holder)
				mf := &mustFlow{G: g, Init: 0, Transfer: func(n ast.Node, s uint32) uint32 {
					if n == ast.Node(as) {
						return 0 // a new conversion: nothing known about its error yet
					}
					return s
				}, Edge: func(b *cfg.Block, i int, s uint32) uint32 {
					if len(b.Nodes) == 0 {
						return s
					}
					cond, ok := b.Nodes[len(b.Nodes)-1].(ast.Expr)
					if !ok {
						return s
					}
					be, ok := ast.Unparen(cond).(*ast.BinaryExpr)
					if !ok || (be.Op != token.EQL && be.Op != token.NEQ) {
						return s
					}
					isErr := func(x, y ast.Expr) bool {
						id, ok := ast.Unparen(x).(*ast.Ident)
						return ok && info.Uses[id] == errObj && info.Types[y].IsNil()
					}
					if !isErr(be.X, be.Y) && !isErr(be.Y, be.X) {
						return s
					}
					if (be.Op == token.EQL) == (i == 0) {
						return s | errNil
					}
					return s | errSet
				}}
				mf.Run()
				litsOK, reports := true, false
				for _, b := range g.Blocks {
					if !b.Live {
						continue
					}
					for i, nd := range b.Nodes {
						st := mf.StateAt(b, i)
						ast.Inspect(nd, func(m ast.Node) bool {
							switch x := m.(type) {
							case *ast.CompositeLit:
								for _, l := range lits {
									if l == x && st&errNil == 0 {
										litsOK = false
									}
								}
							case *ast.CallExpr:
								if f2 := Callee(info, x); f2 != nil && nameIs(f2, "err") && st&errSet != 0 {
									reports = true
								}
							}
							return true
						})
					}
				}
				r2.Decide(okFn && okArgs && direct && litsOK && reports, q+"|"+want, call.Pos(), "strconv."+fnName+" with the expected arguments; the literal is built only when the conversion succeeded, the failure is reported",
					fmt.Sprintf("%s literals are read by %s (arguments ok: %v, value stored unconverted: %v, literal built only after the error was tested nil: %v, failure reported: %v): an out-of-range or malformed literal can be accepted with a silently altered value", want, L.Src(call.Fun), okArgs, direct, litsOK, reports))
				return true
			})
		})
		if !found {
			r2.Bad("parser|"+want, token.NoPos, "no strconv conversion whose result is stored in an "+want+" found in the parser")
		}
	}
	checkParse("ParseInt", "ast.IntLit")
	checkParse("ParseFloat", "ast.FloatLit")

	// ---------------- R19.5 ----------------
	r5 := c.Rule("R19.5", "the enclosing quotes of a literal are removed exactly once on each side", 2)
	for _, nm := range []string{"parseChar", "parseString"} {
		fi := L.Fn("src/parser.(*parser)." + nm)
		if fi == nil {
			continue
		}
		bad := ""
		good := 0
		ast.Inspect(fi.Decl.Body, func(n ast.Node) bool {
			if call, ok := n.(*ast.CallExpr); ok {
				if fn := Callee(info, call); fn != nil && fn.Pkg() != nil && fn.Pkg().Path() == "strings" {
					switch canonName(fn) {
					case "Trim", "TrimLeft", "TrimRight", "TrimFunc", "TrimLeftFunc", "TrimRightFunc", "ReplaceAll":
						bad = fn.Name()
					case "TrimPrefix", "TrimSuffix":
						good++
					}
				}
			}
			return true
		})
		r5.Decide(bad == "" && good == 2, "parser.(*parser)."+nm+"|quote removal", fi.Decl.Pos(), "TrimPrefix/TrimSuffix: one quote per side", "the literal's quotes are removed with strings."+bad+" (or not by one TrimPrefix and one TrimSuffix): a quote that belongs to the content - an escaped quote at the end - is removed as well, so the literal evaluates to another value")
	}

	// ---------------- R19.3 ----------------
	r3 := c.Rule("R19.3", "literal visitors pass the node's value unchanged to the constant constructor of the matching IR type", 4)
	cp := L.ByRel["src/compiler"]
	cinfo := cp.TypesInfo
	for _, row := range []struct{ visitor, ctor, ty string }{
		{"VisitIntLit", "newInt", ""}, {"VisitFloatLit", "NewFloat", "ddpfloat"}, {"VisitBoolLit", "NewBool", ""}, {"VisitCharLit", "newIntT", "ddpchar"},
	} {
		fi := L.Fn("src/compiler.(*compiler)." + row.visitor)
		if fi == nil {
			r3.Und("compiler.(*compiler)."+row.visitor, token.NoPos, "visitor not found")
			continue
		}
		ok := false
		ast.Inspect(fi.Decl.Body, func(n ast.Node) bool {
			call, isCall := n.(*ast.CallExpr)
			if !isCall {
				return true
			}
			fn := Callee(cinfo, call)
			if fn == nil || fn.Name() != row.ctor {
				return true
			}
			val := call.Args[len(call.Args)-1]
			// unwrap a conversion
			if conv, isConv := ast.Unparen(val).(*ast.CallExpr); isConv && len(conv.Args) == 1 {
				if tv, has := cinfo.Types[conv.Fun]; has && tv.IsType() {
					val = conv.Args[0]
				}
			}
			v := fieldOf(cinfo, val)
			tyOK := row.ty == "" || (len(call.Args) == 2 && L.Src(call.Args[0]) == row.ty)
			if v != nil && nameIs(v, "Value") && tyOK {
				ok = true
			}
			return true
		})
		r3.Decide(ok, "compiler.(*compiler)."+row.visitor+"|constant", fi.Decl.Pos(), row.ctor+"(e.Value)", "the constant for this literal is not built by "+row.ctor+" from e.Value with the matching IR type: the literal evaluates to another value at run time")
	}
	// R19.4: shared with C07
	r4 := c.Rule("R19.4", "a literal error detected by the scanner fails the compilation (shared with R7.1)", 1)
	saved := len(c.rules)
	checkC07HandlerOnly(c)
	for _, r := range c.rules[saved:] {
		for _, in := range r.Inst {
			in.Rule = "R19.4"
			in.Key = strings.Replace(in.Key, "R7.1|", "R19.4|", 1)
			r4.Inst = append(r4.Inst, in)
		}
	}
	c.rules = c.rules[:saved]
}
