package main

import (
	"fmt"
	"go/ast"
	"go/token"
	"go/types"
	"golang.org/x/tools/go/packages"
	"golang.org/x/tools/go/types/typeutil"
	"strings"
)

func init() { registry["C15"] = checkC15 }

func checkC15(c *Check) {
	L := c.L
	c.Expl = "Structural clauses of 'a generic call behaves like its monomorphic specialisation': the binding a type parameter already has is never ignored - every result of the unification step is compared with the argument's type or becomes the returned type, and every caller compares the returned type with the argument type by ddptypes.Equal before accepting the candidate (R15.1); the instantiation memo is read and written under one key, registered before the body is parsed (R15.2); that key - the module the call occurs in - is the module of the instantiation and is handed to the nested parser, so instantiations made while parsing the body land in the same memo (R15.3); every generic piece of the signature and of the synthesised parameter declarations is instantiated with the same type map (R15.4); instantiating a generic Kombination looks the type arguments up by equality over all of them and registers every fresh instantiation before returning it (R15.5). Not decided: that the re-parsed body means the same as a textual specialisation (depends on the declarations in scope at the call site), code generation of instantiations."
	pp := L.ByRel["src/parser"]
	dp := L.ByRel["src/ddptypes"]

	// ---------------- R15.1 ----------------
	r1 := c.Rule("R15.1", "an existing binding of a type parameter is never ignored: unification results are compared or returned, and callers compare the returned type with the argument type", 5)
	if fi := L.Fn("src/ddptypes.UnifyGenericType"); fi != nil {
		info := dp.TypesInfo
		// the binding closure: a FuncLit assigned to a local, that indexes the genericTypes parameter
		var binder types.Object
		ast.Inspect(fi.Decl.Body, func(n ast.Node) bool {
			as, ok := n.(*ast.AssignStmt)
			if !ok || len(as.Rhs) != 1 {
				return true
			}
			fl, ok := as.Rhs[0].(*ast.FuncLit)
			if !ok {
				return true
			}
			usesMap := false
			ast.Inspect(fl, func(m ast.Node) bool {
				if ix, ok := m.(*ast.IndexExpr); ok {
					if t := info.TypeOf(ix.X); t != nil {
						if _, isMap := t.Underlying().(*types.Map); isMap {
							usesMap = true
						}
					}
				}
				return true
			})
			if id, ok := as.Lhs[0].(*ast.Ident); ok && usesMap {
				binder = info.Defs[id]
			}
			return true
		})
		// ... or a function of the package that is handed the map of bindings and indexes it (the closure, extracted)
		binderFns := map[*types.Func]bool{}
		isMapParam := func(e ast.Expr) bool {
			id, ok := ast.Unparen(e).(*ast.Ident)
			if !ok {
				return false
			}
			v, ok := info.Uses[id].(*types.Var)
			if !ok {
				return false
			}
			_, isMap := v.Type().Underlying().(*types.Map)
			return isMap
		}
		ast.Inspect(fi.Decl.Body, func(n ast.Node) bool {
			call, ok := n.(*ast.CallExpr)
			if !ok {
				return true
			}
			fn := Callee(info, call)
			if fn == nil || fn.Pkg() != fi.Obj.Pkg() || fn == fi.Obj {
				return true
			}
			cf := L.Funcs[fn]
			if cf == nil || cf.Decl.Body == nil {
				return true
			}
			getsMap := false
			for _, a := range call.Args {
				if isMapParam(a) {
					getsMap = true
				}
			}
			indexes := false
			ast.Inspect(cf.Decl.Body, func(m ast.Node) bool {
				if ix, ok := m.(*ast.IndexExpr); ok {
					if t := info.TypeOf(ix.X); t != nil {
						if _, isMap := t.Underlying().(*types.Map); isMap {
							indexes = true
						}
					}
				}
				return true
			})
			if getsMap && indexes {
				binderFns[fn] = true
			}
			return true
		})
		if binder == nil && len(binderFns) == 0 {
			r1.Und("ddptypes.UnifyGenericType|binding step", fi.Decl.Pos(), "the closure that binds type parameters was not found")
		} else {
			n := 0
			var stack []ast.Node
			ast.Inspect(fi.Decl.Body, func(x ast.Node) bool {
				if x == nil {
					stack = stack[:len(stack)-1]
					return true
				}
				stack = append(stack, x)
				call, ok := x.(*ast.CallExpr)
				if !ok {
					return true
				}
				id, ok := call.Fun.(*ast.Ident)
				if !(ok && binder != nil && info.Uses[id] == binder) && !binderFns[Callee(info, call)] {
					return true
				}
				n++
				key := "ddptypes.UnifyGenericType|result of the binding step"
				if n > 1 {
					key += fmt.Sprintf(" #%d", n)
				}
				parent := stack[len(stack)-2]
				as, isAssign := parent.(*ast.AssignStmt)
				if !isAssign {
					r1.Bad(key, call.Pos(), "the type a type parameter is (already) bound to is computed and dropped: an argument whose type contradicts the earlier binding is accepted, and the function is instantiated for types it is then not called with")
					return true
				}
				// the assigned variable must later be compared by Equal or returned
				lhs, _ := as.Lhs[0].(*ast.Ident)
				obj := info.Uses[lhs]
				if obj == nil {
					obj = info.Defs[lhs]
				}
				used := false
				ast.Inspect(fi.Decl.Body, func(m ast.Node) bool {
					if m == nil || m.Pos() < as.End() {
						return true
					}
					switch y := m.(type) {
					case *ast.CallExpr:
						if fn := Callee(info, y); fn != nil && (nameIs(fn, "Equal") || nameIs(fn, "CastStruct")) {
							for _, a := range y.Args {
								if aid, ok := ast.Unparen(a).(*ast.Ident); ok && info.Uses[aid] == obj {
									used = true
								}
							}
						}
					case *ast.ReturnStmt:
						for _, res := range y.Results {
							if aid, ok := ast.Unparen(res).(*ast.Ident); ok && info.Uses[aid] == obj {
								used = true
							}
						}
					}
					return true
				})
				r1.Decide(used, key, call.Pos(), "assigned to "+lhs.Name+", which is compared or returned afterwards", "the bound type is stored in "+lhs.Name+" but never compared with the argument type nor returned")
				return true
			})
			if n == 0 {
				r1.Und("ddptypes.UnifyGenericType|binding step", fi.Decl.Pos(), "no call of the binding closure found")
			}
		}
		// callers
		for _, cs := range L.CallSites(fi.Obj) {
			ci := cs.Fn.Pkg.TypesInfo
			q := L.QName(cs.Fn.Obj)
			// the value the result is stored in
			var target string
			ast.Inspect(cs.Fn.Decl.Body, func(x ast.Node) bool {
				if as, ok := x.(*ast.AssignStmt); ok && len(as.Rhs) == 1 && ast.Unparen(as.Rhs[0]) == ast.Expr(cs.Call) {
					target = types.ExprString(as.Lhs[0])
				}
				return true
			})
			argT := types.ExprString(cs.Call.Args[0])
			compared := false
			ast.Inspect(cs.Fn.Decl.Body, func(x ast.Node) bool {
				call, ok := x.(*ast.CallExpr)
				if !ok || call.Pos() < cs.Call.End() {
					return true
				}
				if fn := Callee(ci, call); fn != nil && nameIs(fn, "Equal") && strings.HasSuffix(fn.Pkg().Path(), "/ddptypes") && len(call.Args) == 2 {
					a, b := types.ExprString(call.Args[0]), types.ExprString(call.Args[1])
					if target != "" && ((a == target && b == argT) || (b == target && a == argT)) {
						compared = true
					}
				}
				return true
			})
			r1.Decide(compared, q+"|unified type compared with the argument type", cs.Call.Pos(), "ddptypes.Equal("+target+", "+argT+") decides the match", "the type returned by UnifyGenericType is not compared with the argument type "+argT+" by ddptypes.Equal: a candidate whose (bound) parameter type differs from the argument type is accepted")
		}
	} else {
		r1.Und("ddptypes.UnifyGenericType", token.NoPos, "function not found")
	}

	// ---------------- R15.2 ----------------
	r2 := c.Rule("R15.2", "the memo of instantiations is read and written under one key and the instantiation is registered before its body is parsed", 4)
	checkInstantiationMemo(c, r2, "R15.2")

	// ---------------- R15.3 / R15.4 ----------------
	r3 := c.Rule("R15.3", "the module under which an instantiation is memoised is the instantiation's module and is handed to the nested parser", 2)
	r4 := c.Rule("R15.4", "every generic piece of the signature is instantiated with the one type map of the call", 3)
	if fi := L.Fn("src/parser.(*parser).InstantiateGenericFunction"); fi != nil {
		info := pp.TypesInfo
		// the memo key: the identifier used to index Generic.Instantiations most often
		cnt := map[types.Object]int{}
		ast.Inspect(fi.Decl.Body, func(n ast.Node) bool {
			if ix, ok := n.(*ast.IndexExpr); ok {
				if v := fieldOf(info, ix.X); v != nil && nameIs(v, "Instantiations") {
					if id, ok := ast.Unparen(ix.Index).(*ast.Ident); ok {
						cnt[info.Uses[id]]++
					}
				}
			}
			return true
		})
		var key types.Object
		for o, n := range cnt {
			if key == nil || n > cnt[key] {
				key = o
			}
		}
		if key == nil {
			r3.Und("parser.(*parser).InstantiateGenericFunction|memo key", fi.Decl.Pos(), "memo key not found")
		} else {
			// nested parser literal
			found := false
			ast.Inspect(fi.Decl.Body, func(n ast.Node) bool {
				cl, ok := n.(*ast.CompositeLit)
				if !ok {
					return true
				}
				if t := info.TypeOf(cl); t == nil || !strings.HasSuffix(t.String(), "parser.parser") {
					return true
				}
				for _, el := range cl.Elts {
					kv, ok := el.(*ast.KeyValueExpr)
					if !ok {
						continue
					}
					if k, ok := kv.Key.(*ast.Ident); ok && k.Name == "genericModule" {
						found = true
						id, isId := ast.Unparen(kv.Value).(*ast.Ident)
						r3.Decide(isId && info.Uses[id] == key, "parser.(*parser).InstantiateGenericFunction|nested parser's genericModule", kv.Pos(), "the nested parser memoises under the same module ("+key.Name()+")", "the parser that parses the instantiation's body is given '"+types.ExprString(kv.Value)+"' instead of the memo key '"+key.Name()+"': generic calls inside the body are memoised and emitted for another module than the outer call, so a chain of generic functions instantiated from two modules is defined twice or not at all")
					}
				}
				return true
			})
			if !found {
				r3.Und("parser.(*parser).InstantiateGenericFunction|nested parser's genericModule", fi.Decl.Pos(), "the nested parser literal does not set genericModule")
			}
			// decl.Mod = key
			modOK := false
			ast.Inspect(fi.Decl.Body, func(n ast.Node) bool {
				if as, ok := n.(*ast.AssignStmt); ok && len(as.Lhs) == 1 && len(as.Rhs) == 1 {
					if sel, ok := as.Lhs[0].(*ast.SelectorExpr); ok && sel.Sel.Name == "Mod" {
						if id, ok := ast.Unparen(as.Rhs[0]).(*ast.Ident); ok && info.Uses[id] == key {
							modOK = true
						}
					}
				}
				return true
			})
			r3.Decide(modOK, "parser.(*parser).InstantiateGenericFunction|module of the instantiation", fi.Decl.Pos(), "decl.Mod is the memo key", "the instantiation's module is not the module it is memoised under: it is compiled into (and name-mangled for) another module than the one that looks it up")
		}
		// R15.4: GetInstantiatedType(x, M) with M the function's type-map parameter
		sig := fi.Obj.Type().(*types.Signature)
		var tm types.Object
		for i := 0; i < sig.Params().Len(); i++ {
			if _, ok := sig.Params().At(i).Type().Underlying().(*types.Map); ok {
				tm = sig.Params().At(i)
			}
		}
		nInst, okInst := 0, true
		retInst := false
		for _, f := range []*FuncInfo{fi, L.Fn("src/parser.(*parser).generateGenericContext")} {
			if f == nil {
				continue
			}
			fsig := f.Obj.Type().(*types.Signature)
			var m types.Object
			for i := 0; i < fsig.Params().Len(); i++ {
				if _, ok := fsig.Params().At(i).Type().Underlying().(*types.Map); ok {
					m = fsig.Params().At(i)
				}
			}
			ast.Inspect(f.Decl.Body, func(n ast.Node) bool {
				call, ok := n.(*ast.CallExpr)
				if !ok {
					return true
				}
				if fn := Callee(info, call); fn != nil && nameIs(fn, "GetInstantiatedType") && len(call.Args) == 2 {
					nInst++
					if id, ok := ast.Unparen(call.Args[1]).(*ast.Ident); !ok || info.Uses[id] != m {
						okInst = false
					}
					if strings.Contains(types.ExprString(call.Args[0]), "ReturnType") {
						retInst = true
					}
				}
				return true
			})
		}
		_ = tm
		r4.Decide(okInst && nInst >= 3, "parser.(*parser).InstantiateGenericFunction|one type map", fi.Decl.Pos(), fmt.Sprintf("%d instantiation steps use the type map of the call", nInst), "a parameter, the result type or a synthesised parameter declaration is instantiated with a different type map than the one the arguments were unified into")
		r4.Decide(retInst, "parser.(*parser).InstantiateGenericFunction|result type instantiated", fi.Decl.Pos(), "the result type is instantiated", "the result type of the instantiation keeps its type parameters")
		// the context handed to the nested parser is built from the instantiated parameters and the same map
		ctxOK := false
		ast.Inspect(fi.Decl.Body, func(n ast.Node) bool {
			if call, ok := n.(*ast.CallExpr); ok {
				if fn := Callee(info, call); fn != nil && nameIs(fn, "generateGenericContext") && len(call.Args) == 3 {
					if id, ok := ast.Unparen(call.Args[2]).(*ast.Ident); ok && info.Uses[id] == tm {
						ctxOK = true
					}
				}
			}
			return true
		})
		r4.Decide(ctxOK, "parser.(*parser).InstantiateGenericFunction|context built from the call's type map", fi.Decl.Pos(), "generateGenericContext receives the type map of the call", "the symbol table of the instantiation is built from another type map")
	} else {
		r3.Und("parser.(*parser).InstantiateGenericFunction", token.NoPos, "function not found")
	}

	checkGenericLookupOrder(c)
	checkInstantiationSymbols(c, c.L)
	checkStructTypesDeclaredBeforeUse(c, c.Rule("R15.8", "a Kombination private to the generic function's module is declared on demand where the function is instantiated", 1))

	// ---------------- R15.6 ----------------
	// the context an instantiation is parsed in always contains what was in scope where the generic function was declared:
	// its aliases are inserted, its operators merged and its symbols wrapped on every path, independently of the parser's state
	r6 := c.Rule("R15.6", "the context of an instantiation always contains the declaration-site aliases, operators and symbols", 3)
	if fi := L.Fn("src/parser.(*parser).generateGenericContext"); fi != nil {
		info := pp.TypesInfo
		sig := fi.Obj.Type().(*types.Signature)
		ctxParam := sig.Params().At(0)
		mentionsCtx := func(n ast.Node, field string) bool {
			found := false
			ast.Inspect(n, func(x ast.Node) bool {
				if sel, ok := x.(*ast.SelectorExpr); ok && sel.Sel.Name == field {
					if id, ok := ast.Unparen(sel.X).(*ast.Ident); ok && info.Uses[id] == ctxParam {
						found = true
					}
				}
				return true
			})
			return found
		}
		const (
			fAliases = 1 << iota
			fOps
			fSyms
		)
		// aliases: a loop that inserts into the new trie the values found by searching ctx.Aliases; the facts are established by
		// (1) a Search on ctx.Aliases, (2) an Insert inside a range over its result - tracked as: statement mentioning ctx.Aliases and
		// a later range statement containing a call named Insert
		g := L.CFG(fi)
		mf := &mustFlow{G: g, Init: 0, Transfer: func(n ast.Node, s uint32) uint32 {
			if mentionsCtx(n, "Operators") {
				callsIn(n, func(call *ast.CallExpr) {
					if fn := Callee(info, call); fn != nil && (nameIs(fn, "Copy") || nameIs(fn, "Clone")) {
						s |= fOps
					}
				})
			}
			if mentionsCtx(n, "Symbols") {
				s |= fSyms
			}
			callsIn(n, func(call *ast.CallExpr) {
				if fn := Callee(info, call); fn != nil && nameIs(fn, "Insert") {
					s |= fAliases
				}
			})
			return s
		}}
		mf.Run()
		// the Insert must be fed by ctx.Aliases
		fed := false
		ast.Inspect(fi.Decl.Body, func(n ast.Node) bool {
			if as, ok := n.(*ast.AssignStmt); ok && len(as.Rhs) == 1 && mentionsCtx(as.Rhs[0], "Aliases") {
				fed = true
			}
			return true
		})
		state := ^uint32(0)
		nret := 0
		for _, b := range g.Blocks {
			for i, n := range b.Nodes {
				if _, ok := n.(*ast.ReturnStmt); ok && b.Live {
					nret++
					state &= mf.StateAt(b, i)
				}
			}
		}
		// a range loop body is not on every path (the sequence may be empty): the Insert inside it establishes the fact for the
		// loop as a whole, so evaluate the loop statement as one step: find range statements and check they are not inside a branch
		insertLoopUnconditional := false
		for _, st := range fi.Decl.Body.List {
			if rs, ok := st.(*ast.RangeStmt); ok {
				has := false
				ast.Inspect(rs.Body, func(x ast.Node) bool {
					if call, ok := x.(*ast.CallExpr); ok {
						if fn := Callee(info, call); fn != nil && nameIs(fn, "Insert") {
							has = true
						}
					}
					return true
				})
				if has {
					insertLoopUnconditional = true
				}
			}
		}
		r6.Decide(fed && insertLoopUnconditional, "parser.(*parser).generateGenericContext|declaration-site aliases", fi.Decl.Pos(), "the aliases found in the declaration's context are inserted by a top-level loop of the function", "the aliases that were in scope where the generic function was declared are merged into the instantiation's alias set only on some paths (or not at all): a body that uses a non-public alias of its own module no longer parses, or silently binds to a same-worded function of the call site")
		r6.Decide(nret > 0 && state&fOps != 0, "parser.(*parser).generateGenericContext|declaration-site operators", fi.Decl.Pos(), "operators of the declaration's context are merged on every path", "the operator overloads of the declaration site are not merged on every path")
		r6.Decide(nret > 0 && state&fSyms != 0, "parser.(*parser).generateGenericContext|declaration-site symbols", fi.Decl.Pos(), "the symbol table wraps the declaration's symbols on every path", "the symbols of the declaration site are not part of the instantiation's scope on every path")
	} else {
		r6.Und("parser.(*parser).generateGenericContext", token.NoPos, "function not found")
	}

	// ---------------- R15.5 ----------------
	r5 := c.Rule("R15.5", "instantiating a generic Kombination finds an existing instantiation by equality of all type arguments and registers every new one before returning it", 2)
	if fi := L.Fn("src/ddptypes.GetInstantiatedStructType"); fi != nil {
		info := dp.TypesInfo
		// lookup: a loop over s.Instantiations returning the element when slices.EqualFunc(x.instantiatedWith, args, Equal)
		lookup := false
		ast.Inspect(fi.Decl.Body, func(n ast.Node) bool {
			rs, ok := n.(*ast.RangeStmt)
			if !ok {
				return true
			}
			if v := fieldOf(info, rs.X); v == nil || !nameIs(v, "Instantiations") {
				return true
			}
			ast.Inspect(rs.Body, func(m ast.Node) bool {
				call, ok := m.(*ast.CallExpr)
				if !ok {
					return true
				}
				if fn := Callee(info, call); fn != nil && nameIs(fn, "EqualFunc") && len(call.Args) == 3 {
					if f3 := Callee(info, &ast.CallExpr{Fun: call.Args[2]}); f3 != nil && nameIs(f3, "Equal") {
						lookup = true
					} else if id, ok := call.Args[2].(*ast.Ident); ok && id.Name == "Equal" {
						lookup = true
					}
				}
				return true
			})
			return true
		})
		r5.Decide(lookup, "ddptypes.GetInstantiatedStructType|lookup by equality of all type arguments", fi.Decl.Pos(), "existing instantiations are compared with slices.EqualFunc(..., Equal)", "an existing instantiation is not found by comparing all type arguments for equality: equal type arguments give distinct types, or different ones the same")
		// registration before every return of a fresh value
		g := L.CFG(fi)
		mf := &mustFlow{G: g, Init: 0, Transfer: func(n ast.Node, s uint32) uint32 {
			if as, ok := n.(*ast.AssignStmt); ok && len(as.Lhs) == 1 {
				if v := fieldOf(info, as.Lhs[0]); v != nil && nameIs(v, "Instantiations") && strings.Contains(L.Src(as.Rhs[0]), "append(") {
					return s | 1
				}
			}
			return s
		}}
		mf.Run()
		okReg, nFresh := true, 0
		for _, b := range g.Blocks {
			for i, n := range b.Nodes {
				ret, ok := n.(*ast.ReturnStmt)
				if !ok || len(ret.Results) != 1 {
					continue
				}
				if ue, ok := ast.Unparen(ret.Results[0]).(*ast.UnaryExpr); ok && ue.Op == token.AND {
					nFresh++
					if mf.StateAt(b, i)&1 == 0 {
						okReg = false
					}
				}
			}
		}
		r5.Decide(okReg && nFresh > 0, "ddptypes.GetInstantiatedStructType|fresh instantiation registered", fi.Decl.Pos(), "every path that returns a new instantiation has appended it to the memo", "a new instantiation is returned without being appended to the memo: the next request with equal type arguments creates a second, distinct type")
	} else {
		r5.Und("ddptypes.GetInstantiatedStructType", token.NoPos, "function not found")
	}
}

// R15.7: names inside the body of a generic function resolve as at its declaration. The symbol table the body is re-parsed
// with (genericSymbolTable) answers a type or declaration name from the type parameters first, then from the declaration
// site (contextTable), and only then from the call site (parserTable) - whose variables stay invisible. Decided by
// evaluating LookupType and LookupDecl (engine E2) against two scripted tables that both know the name.
func checkGenericLookupOrder(c *Check) {
	L := c.L
	r := c.Rule("R15.7", "names in a generic body resolve at the declaration site before the call site; call-site variables are invisible", 5)
	lt := L.Fn("src/parser.(genericSymbolTable).LookupType")
	ld := L.Fn("src/parser.(genericSymbolTable).LookupDecl")
	if lt == nil || ld == nil {
		r.Und("parser.(genericSymbolTable)", token.NoPos, "LookupType/LookupDecl not found")
		return
	}
	mkTable := func(tag string, hasType, hasDecl, declIsVar bool) *Obj {
		t := newObj("table:" + tag)
		t.set("tag", StrV(tag))
		t.set("hasType", boolV(hasType))
		t.set("hasDecl", boolV(hasDecl))
		t.set("declIsVar", boolV(declIsVar))
		return t
	}
	newIn := func() *Interp {
		in := NewInterp(L)
		in.Models["ast.(SymbolTable).LookupType"] = func(in *Interp, pkg *packages.Package, call *ast.CallExpr, recv Val, args []Val) (Val, bool) {
			o, ok := recv.(*Obj)
			if !ok {
				return nil, false
			}
			if t, _ := truth(o.get("hasType")); t {
				ty := newObj("type-of:" + string(o.get("tag").(StrV)))
				return TupleV{ty, boolV(true)}, true
			}
			return TupleV{NilV{}, boolV(false)}, true
		}
		in.Models["ast.(SymbolTable).LookupDecl"] = func(in *Interp, pkg *packages.Package, call *ast.CallExpr, recv Val, args []Val) (Val, bool) {
			o, ok := recv.(*Obj)
			if !ok {
				return nil, false
			}
			if t, _ := truth(o.get("hasDecl")); t {
				d := newObj("decl-of:" + string(o.get("tag").(StrV)))
				return TupleV{d, boolV(true), o.get("declIsVar")}, true
			}
			return TupleV{NilV{}, boolV(false), boolV(false)}, true
		}
		return in
	}
	kindOf := func(v Val) string {
		if o, ok := v.(*Obj); ok {
			return o.Kind
		}
		if _, ok := v.(NilV); ok {
			return "nil"
		}
		return fmt.Sprint(v)
	}
	type scen struct {
		name                     string
		ctxHas, parHas, parIsVar bool
		wantType, wantDecl       string
	}
	scens := []scen{
		{"both sites know the name", true, true, false, "type-of:declaration site", "decl-of:declaration site"},
		{"only the declaration site knows it", true, false, false, "type-of:declaration site", "decl-of:declaration site"},
		{"only the call site knows it (a function or type)", false, true, false, "type-of:call site", "decl-of:call site"},
		{"only the call site knows it (a variable)", false, true, true, "type-of:call site", "nil"},
	}
	for _, sc := range scens {
		for _, which := range []string{"LookupType", "LookupDecl"} {
			in := newIn()
			recv := newObj("parser.genericSymbolTable")
			recv.set("contextTable", mkTable("declaration site", sc.ctxHas, sc.ctxHas, false))
			recv.set("parserTable", mkTable("call site", sc.parHas, sc.parHas, sc.parIsVar))
			recv.set("genericTypes", MapV{Exact: true})
			fi, want := lt, sc.wantType
			if which == "LookupDecl" {
				fi, want = ld, sc.wantDecl
			}
			var res Val
			runs, _ := in.RunAll(4, func() { res = in.CallFunc(fi, recv, []Val{StrV("Kennzahl")}) })
			key := "parser.(genericSymbolTable)." + which + "|" + sc.name
			tv, ok := res.(TupleV)
			if runs != 1 || !ok || len(tv) < 2 {
				r.Und(key, fi.Decl.Pos(), fmt.Sprintf("not evaluated (%v)", res))
				continue
			}
			got := kindOf(tv[0])
			if found, known := truth(tv[1]); known && !found {
				got = "nil"
			}
			r.Decide(got == want, key, fi.Decl.Pos(), "answers "+want, "answers "+got+" where "+want+" is required: a name in a generic body is bound at the call site instead of the declaration site, so the instantiation differs from the specialisation written out at the declaration (and from the same call made inside the declaring module)")
		}
	}
}

// R15.9: the symbol of an instantiation names its type arguments themselves. mangledNameDecl appends the String() of every
// parameter type to the name of a generic instantiation; code generation looks instantiations up by that name. If the type is
// first sent through a function of ddptypes that maps two different types to one (TrueUnderlying strips type definitions),
// f<Zahl> and f<Hausnummer> share a symbol and the second call runs the first one's body. Decided by evaluating whatever
// ddptypes function the String() receiver passes through on Zahl and on a definition over Zahl: the results must differ.
func checkInstantiationSymbols(c *Check, L *Loaded) {
	r := c.Rule("R15.9", "the symbol of a generic instantiation distinguishes all distinct type arguments", 1)
	fi := L.Fn("src/compiler.(*compiler).mangledNameDecl")
	if fi == nil {
		r.Und("compiler.(*compiler).mangledNameDecl", token.NoPos, "function not found")
		return
	}
	info := fi.Pkg.TypesInfo
	isDDPType := func(t types.Type) bool {
		n, ok := t.(*types.Named)
		return ok && nameIs(n.Obj(), "Type") && n.Obj().Pkg() != nil && nameIs(n.Obj().Pkg(), "ddptypes")
	}
	zahl := &DT{Kind: "ZAHL"}
	def := &DT{Kind: "TYPEDEF", Name: "Hausnummer", Base: zahl}
	n := 0
	ast.Inspect(fi.Decl.Body, func(x ast.Node) bool {
		call, ok := x.(*ast.CallExpr)
		if !ok || len(call.Args) != 0 {
			return true
		}
		sel, ok := call.Fun.(*ast.SelectorExpr)
		if !ok || sel.Sel.Name != "String" || !isDDPType(info.TypeOf(sel.X)) {
			return true
		}
		n++
		key := fmt.Sprintf("compiler.(*compiler).mangledNameDecl|type named in the symbol #%d", n)
		recv := ast.Unparen(throughLocals(info, fi.Decl.Body, sel.X))
		inner, isCall := recv.(*ast.CallExpr)
		if !isCall {
			r.OK(key, call.Pos(), "the type itself is named")
			return true
		}
		callee, _ := typeutil.Callee(info, inner).(*types.Func)
		g := L.Funcs[callee]
		if callee == nil || g == nil || callee.Pkg() == nil || !nameIs(callee.Pkg(), "ddptypes") {
			r.Und(key, call.Pos(), "the named type is the result of "+L.Src(inner.Fun)+", which is not a function of ddptypes the evaluator can judge")
			return true
		}
		in := NewInterp(L)
		installDDPTypesModels(in)
		eval := func(d *DT) (string, bool) {
			var v Val
			if model := in.Models["ddptypes."+canonName(callee)]; model != nil {
				v, _ = model(in, g.Pkg, nil, nil, []Val{TypeV{d}})
			} else if runs, _ := in.RunAll(4, func() { v = in.CallFunc(g, nil, []Val{TypeV{d}}) }); runs != 1 {
				return "", false
			}
			tv, ok := v.(TypeV)
			if !ok || tv.T == nil {
				return "", false
			}
			return tv.T.String(), true
		}
		a, okA := eval(zahl)
		b, okB := eval(def)
		switch {
		case !okA || !okB:
			r.Und(key, call.Pos(), "ddptypes."+callee.Name()+" could not be evaluated on the representatives")
		case a == b:
			r.Bad(key, call.Pos(), "the symbol names ddptypes."+callee.Name()+"(type): Zahl and a definition over Zahl both become '"+a+"', so the instantiations f<Zahl> and f<Hausnummer> share one symbol and a call of the second runs the body of the first")
		default:
			r.OK(key, call.Pos(), "ddptypes."+callee.Name()+" keeps Zahl and a definition over Zahl apart")
		}
		return true
	})
	if n == 0 {
		r.Und("compiler.(*compiler).mangledNameDecl|types named in the symbol", fi.Decl.Pos(), "no type is named in the symbol of an instantiation")
	}
}
