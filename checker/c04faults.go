package main

import (
	"go/ast"
	"go/constant"
	"go/token"
	"go/types"
	"golang.org/x/tools/go/cfg"
	"strings"
)

// R4.3: for every static fault class of the property, the diagnostic is emitted in its function under a guard that depends
// on the listed resolved functions/fields/types. Type faults proper are decided cell-wise (R4.4).
var c04FaultTable = []struct {
	class, code, fn string
	atoms           []string
}{
	{"undeclared or out-of-scope name", "SEM_NAME_UNDEFINED", "resolver.(*Resolver).VisitIdent", []string{"call:LookupDecl"}},
	{"undeclared assignment target", "SEM_NAME_UNDEFINED", "resolver.(*Resolver).VisitAssignStmt", []string{"call:LookupDecl"}},
	{"name of the wrong kind used as a value", "SEM_BAD_NAME_CONTEXT", "resolver.(*Resolver).VisitIdent", []string{"call:LookupDecl"}},
	{"assignment to a Konstante", "SEM_BAD_NAME_CONTEXT", "resolver.(*Resolver).VisitAssignStmt", []string{"call:LookupDecl", "type:*ast.ConstDecl"}},
	{"Referenz-passing of a Konstante", "SEM_CONSTANT_IS_NOT_ASSIGNABLE", "parser.(*parser).assigneable", []string{"call:LookupDecl", "type:*ast.VarDecl"}},
	{"redeclaration of a constant", "SEM_NAME_ALREADY_DEFINED", "resolver.(*Resolver).VisitConstDecl", []string{"call:InsertDecl"}},
	{"redeclaration of a variable", "SEM_NAME_ALREADY_DEFINED", "resolver.(*Resolver).VisitVarDecl", []string{"call:InsertDecl"}},
	{"redeclaration of a Kombination", "SEM_NAME_ALREADY_DEFINED", "resolver.(*Resolver).VisitStructDecl", []string{"call:InsertDecl"}},
	{"redeclaration of a type alias", "SEM_NAME_ALREADY_DEFINED", "resolver.(*Resolver).VisitTypeAliasDecl", []string{"call:InsertDecl"}},
	{"redeclaration of a type definition", "SEM_NAME_ALREADY_DEFINED", "resolver.(*Resolver).VisitTypeDefDecl", []string{"call:InsertDecl"}},
	{"imported name clashes", "SEM_NAME_ALREADY_DEFINED", "resolver.(*Resolver).VisitImportStmt", []string{"call:InsertDecl"}},
	{"redeclaration of a function", "SEM_NAME_ALREADY_DEFINED", "parser.(*parser).funcDeclaration", []string{"call:LookupDecl"}},
	{"name not public in the imported module", "SEM_NAME_UNDEFINED", "resolver.(*Resolver).VisitImportStmt", nil},
	{"break/continue outside a loop", "SEM_BREAK_CONTINUE_NOT_IN_LOOP", "resolver.(*Resolver).VisitBreakContinueStmt", []string{"field:LoopDepth"}},
	{"return outside a function", "SEM_GLOBAL_RETURN", "parser.(*parser).returnStatement", []string{"field:currentFunction"}},
	{"return outside a function (void form)", "SEM_GLOBAL_RETURN", "parser.(*parser).voidReturnOrBreak", []string{"field:currentFunction"}},
	{"value-returning function without a final return", "SEM_MISSING_RETURN", "parser.(*parser).ensureReturnStatementPresent", []string{"call:IsVoid", "field:ReturnType"}},
	{"non-public type in a public constant", "SEM_BAD_PUBLIC_MODIFIER", "typechecker.(*Typechecker).VisitConstDecl", []string{"call:IsPublicType"}},
	{"non-public type in a public variable", "SEM_BAD_PUBLIC_MODIFIER", "typechecker.(*Typechecker).VisitVarDecl", []string{"call:IsPublicType"}},
	{"non-public type in a public function", "SEM_BAD_PUBLIC_MODIFIER", "typechecker.(*Typechecker).VisitFuncDecl", []string{"call:IsPublicType"}},
	{"non-public type in a public Kombination", "SEM_BAD_PUBLIC_MODIFIER", "typechecker.(*Typechecker).VisitStructDecl", []string{"call:IsPublicType"}},
	{"private field of another module", "TYP_PRIVATE_FIELD_ACCESS", "typechecker.(*Typechecker).checkFieldAccess", []string{"field:IsPublic", "field:Mod"}},
	{"field access on a non-Kombination", "TYP_BAD_FIELD_ACCESS", "typechecker.(*Typechecker).VisitFieldAccess", []string{"call:IsStruct"}},
	{"non-assignable expression for a Referenz parameter", "TYP_EXPECTED_REFERENCE", "typechecker.(*Typechecker).VisitFuncCall", []string{"field:IsReference", "type:ast.Assigneable"}},
	{"wrong article of a variable or field", "SYN_GENDER_MISMATCH", "parser.(*parser).varDeclaration", []string{"call:MatchesGender", "call:genderFromArticle"}},
	{"wrong pronoun of a loop variable", "SYN_GENDER_MISMATCH", "parser.(*parser).forStatement", []string{"call:MatchesGender", "call:genderFromForPronoun"}},
	{"wrong article of a return type", "SYN_GENDER_MISMATCH", "parser.(*parser).parseReturnType", []string{"call:MatchesGender"}},
	{"wrong article in a type operator", "SYN_GENDER_MISMATCH", "parser.(*parser).unary", []string{"call:MatchesGender"}},
	{"wrong article in a type check", "SYN_GENDER_MISMATCH", "parser.(*parser).equality", []string{"call:Gender"}},
	{"function declared in a local scope", "SEM_NON_GLOBAL_FUNCTION", "parser.(*parser).funcDefinition", []string{"call:IsGlobalScope"}},
	{"type declared in a local scope", "SEM_NON_GLOBAL_TYPE_DECL", "resolver.(*Resolver).VisitStructDecl", []string{"call:IsGlobalScope"}},
	{"public declaration in a local scope", "SEM_NON_GLOBAL_PUBLIC_DECL", "resolver.(*Resolver).VisitVarDecl", []string{"call:IsGlobalScope", "call:Public"}},
}

func checkFaultClasses(c *Check) {
	L := c.L
	r := c.Rule("R4.3", "every static fault class has its diagnostic in its function, guarded by the predicate it depends on", 25)
	ems := collectEmissions(L)
	for _, row := range c04FaultTable {
		found, guarded := false, false
		pos := token.NoPos
		var have []string
		for _, e := range ems {
			if e.code != row.code || L.QName(e.fi.Obj) != row.fn {
				continue
			}
			found = true
			pos = e.call.Pos()
			all := true
			for _, a := range row.atoms {
				ok := false
				for _, h := range e.atoms {
					if h == a {
						ok = true
					}
				}
				if !ok {
					all = false
				}
			}
			if all {
				guarded = true
			} else {
				have = e.atoms
			}
		}
		key := row.fn + "|" + row.code + " (" + row.class + ")"
		switch {
		case guarded:
			r.OK(key, pos, "emitted under a guard depending on "+strings.Join(row.atoms, ", "))
		case found:
			r.Bad(key, pos, "the diagnostic for '"+row.class+"' is no longer control-dependent on "+strings.Join(row.atoms, ", ")+" (guard depends on: "+strings.Join(have, " ")+"): the fault can pass unreported or is reported unconditionally")
		default:
			r.Bad(key, token.NoPos, "the diagnostic "+row.code+" for '"+row.class+"' is no longer emitted in "+row.fn+": programs with this fault are accepted")
		}
	}
}

// R4.6: article/pronoun agreement. (a) every MatchesGender call takes its accepted genders directly from one of the
// article→gender table functions; (b) those tables, evaluated for every article token, return no gender that German grammar
// does not allow for that article (nominative der/die/das; dative dem/der for fields; accusative einen/eine/ein; dative einem/einer; jeden/jede/jedes).
func checkGenderTables(c *Check) {
	L := c.L
	r := c.Rule("R4.6", "article agreement: accepted genders come straight from the article tables, which admit no wrong gender", 8)
	pp := L.ByRel["src/parser"]
	info := pp.TypesInfo
	tables := map[string]bool{"genderFromArticle": true, "genderFromForPronoun": true, "genderFromArticle2Akkusativ": true, "genderFromArticle2Dativ": true}
	L.ForEachFunc([]string{"src/parser"}, func(fi *FuncInfo) {
		ast.Inspect(fi.Decl.Body, func(n ast.Node) bool {
			call, ok := n.(*ast.CallExpr)
			if !ok {
				return true
			}
			fn := Callee(info, call)
			if fn == nil || !nameIs(fn, "MatchesGender") || len(call.Args) < 2 {
				return true
			}
			direct := len(call.Args) == 2
			if direct {
				inner, isCall := ast.Unparen(call.Args[1]).(*ast.CallExpr)
				direct = isCall && Callee(info, inner) != nil && tables[Callee(info, inner).Name()]
			}
			r.Decide(direct, L.QName(fi.Obj)+"|MatchesGender genders", call.Pos(), "accepted genders are the article table's result", "the genders accepted for this article are not taken directly from the article→gender table ("+L.Src(call.Args[1])+"): a wrong article can be accepted")
			return true
		})
	})
	// (b) evaluate the tables
	tp := L.ByRel["src/token"]
	dp := L.ByRel["src/ddptypes"]
	tok := func(n string) Val {
		if cst, ok := tp.Types.Scope().Lookup(n).(*types.Const); ok {
			return ConstV{V: cst.Val(), T: cst.Type(), Name: n}
		}
		return Unk{n}
	}
	genderName := func(v Val) string {
		cv, ok := v.(ConstV)
		if !ok || cv.V == nil {
			return "?"
		}
		for _, n := range []string{"INVALID_GENDER", "MASKULIN", "FEMININ", "NEUTRUM"} {
			if cst, ok := dp.Types.Scope().Lookup(n).(*types.Const); ok && constant.Compare(cst.Val(), token.EQL, cv.V) {
				return n
			}
		}
		return "?"
	}
	type row struct {
		fn      string
		article string
		field   *bool
		allowed string
	}
	t, f := true, false
	rows := []row{
		{"genderFromArticle", "DER", &f, "MASKULIN"}, {"genderFromArticle", "DIE", &f, "FEMININ"}, {"genderFromArticle", "DAS", &f, "NEUTRUM"}, {"genderFromArticle", "DEM", &f, ""},
		{"genderFromArticle", "DEM", &t, "MASKULIN NEUTRUM"}, {"genderFromArticle", "DER", &t, "FEMININ"}, {"genderFromArticle", "DIE", &t, ""}, {"genderFromArticle", "DAS", &t, ""},
		{"genderFromForPronoun", "JEDEN", nil, "MASKULIN"}, {"genderFromForPronoun", "JEDE", nil, "FEMININ"}, {"genderFromForPronoun", "JEDES", nil, "NEUTRUM"},
		{"genderFromArticle2Akkusativ", "EINEN", nil, "MASKULIN"}, {"genderFromArticle2Akkusativ", "EINE", nil, "FEMININ"}, {"genderFromArticle2Akkusativ", "EIN", nil, "NEUTRUM"},
		{"genderFromArticle2Dativ", "EINEM", nil, "MASKULIN NEUTRUM"}, {"genderFromArticle2Dativ", "EINER", nil, "FEMININ"},
	}
	in := NewInterp(L)
	for _, rw := range rows {
		fi := L.Fn("src/parser." + rw.fn)
		key := "parser." + rw.fn + "(" + rw.article
		if rw.field != nil {
			if *rw.field {
				key += ", field"
			} else {
				key += ", variable"
			}
		}
		key += ")"
		if fi == nil {
			r.Und(key, token.NoPos, "table function not found")
			continue
		}
		args := []Val{tok(rw.article)}
		if rw.field != nil {
			args = append(args, boolV(*rw.field))
		}
		var got []string
		_, exh := in.RunAll(8, func() {
			v := in.CallFunc(fi, nil, args)
			if sl, ok := v.(SliceV); ok {
				for _, e := range sl.Elems {
					got = append(got, genderName(e))
				}
			} else {
				got = append(got, genderName(v))
			}
		})
		bad := ""
		for _, g := range got {
			if g == "INVALID_GENDER" {
				continue
			}
			if g == "?" || !strings.Contains(" "+rw.allowed+" ", " "+g+" ") {
				bad = g
			}
		}
		r.Decide(exh && bad == "", key, fi.Decl.Pos(), "yields "+strings.Join(got, ",")+" ⊆ {"+rw.allowed+"}", "the article table yields "+bad+" for "+rw.article+", which German grammar does not allow (allowed: "+rw.allowed+"): a wrong article is accepted")
	}
}

// R4.3b: in the resolver, whenever InsertDecl reports that the name already existed, a diagnostic is emitted before the
// function (or literal) is left - on EVERY path (must-dataflow on go/cfg: the fact "nothing pending" is lost on the
// existed-edge and regained at an error call). A narrowed condition between the test and the report (an added early
// return) lets a clashing declaration through silently.
func checkRedeclarationAlwaysReported(c *Check) {
	L := c.L
	r := c.Rule("R4.3b", "in the resolver a name that already existed is reported on every path", 5)
	rp := L.ByRel["src/parser/resolver"]
	if rp == nil {
		r.Und("src/parser/resolver", token.NoPos, "package not loaded")
		return
	}
	info := rp.TypesInfo
	E := NewEffects(L)
	L.ForEachFunc([]string{"src/parser/resolver"}, func(fi *FuncInfo) {
		ast.Inspect(fi.Decl.Body, func(n ast.Node) bool {
			call, ok := n.(*ast.CallExpr)
			if !ok {
				return true
			}
			fn := Callee(info, call)
			if fn == nil || !nameIs(fn, "InsertDecl") {
				return true
			}
			// the variable the result is bound to
			var existed types.Object
			if as, ok := parentOf(fi.Decl.Body, call).(*ast.AssignStmt); ok && len(as.Lhs) == 1 {
				if id, ok := as.Lhs[0].(*ast.Ident); ok {
					existed = info.Defs[id]
					if existed == nil {
						existed = info.Uses[id]
					}
				}
			}
			body := fi.Decl.Body
			if fl := enclosingFuncLit(fi.Decl.Body, call); fl != nil {
				body = fl.Body
			}
			g := L.CFGBody(fi.Pkg, body)
			isExisted := func(e ast.Expr) bool {
				e = ast.Unparen(e)
				if e == ast.Expr(call) {
					return true
				}
				id, ok := e.(*ast.Ident)
				return ok && existed != nil && info.Uses[id] == existed
			}
			mf := &mustFlow{G: g, Init: 1, Transfer: func(n ast.Node, s uint32) uint32 {
				callsIn(n, func(c2 *ast.CallExpr) {
					// a diagnostic is delivered: the error helper itself, or any call that reaches an error handler
					// (effect summaries over the call graph, engine E3) - a report moved into a helper counts
					if f2 := Callee(info, c2); f2 != nil && (nameIs(f2, "err") || nameIs(f2, "errVal")) {
						s |= 1
					} else if eff, _ := E.CallEffects(info, c2); eff&effHandler != 0 {
						s |= 1
					}
				})
				return s
			}, Edge: func(b *cfg.Block, i int, s uint32) uint32 {
				if len(b.Nodes) == 0 {
					return s
				}
				cond, ok := b.Nodes[len(b.Nodes)-1].(ast.Expr)
				if !ok {
					return s
				}
				cond = ast.Unparen(cond)
				inv := false
				if u, ok := cond.(*ast.UnaryExpr); ok && u.Op == token.NOT {
					inv = true
					cond = ast.Unparen(u.X)
				}
				// existed, or a conjunction that starts with it (`existed && ...` is judged on its first operand: the
				// remaining operands narrow the report and are exactly what this rule is about)
				if isExisted(cond) && (i == 0) != inv {
					return s &^ 1
				}
				return s
			}}
			mf.Run()
			okAll, sawExit := true, false
			for _, b := range g.Blocks {
				if !b.Live || len(b.Succs) != 0 {
					continue
				}
				sawExit = true
				if mf.StateAt(b, len(b.Nodes))&1 == 0 {
					okAll = false
				}
			}
			r.Decide(okAll && sawExit, L.QName(fi.Obj)+"|existing name reported", call.Pos(), "every path on which InsertDecl found the name already declared passes an error report", "there is a path on which InsertDecl found the name already declared and the function is left without a diagnostic: a clashing declaration (e.g. the same public name imported from two modules) is dropped silently and uses bind to the first one")
			return true
		})
	})
}
