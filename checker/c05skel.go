package main

import (
	"fmt"
	"go/token"
	"go/types"
	"sort"
	"strings"
)

// ---- skeleton of the IR one visitor emits: blocks, branch edges, and the ownership-relevant events per block ----

type skelEv struct {
	kind  string // evaluate, visit, addTemp, newScope, exitScope, free, init
	name  string
	scope *Obj
	val   *IRVal
	pos   token.Pos
	msg   string
}

type skel struct {
	blocks []*Obj
	idx    map[*Obj]int
	succ   map[int][]int
	evs    map[int][]skelEv
	entry  int
	final  int // block current when the visitor returned
}

func (s *skel) id(b Val) int {
	o, ok := b.(*Obj)
	if !ok {
		return -1
	}
	if i, ok := s.idx[o]; ok {
		return i
	}
	s.idx[o] = len(s.blocks)
	s.blocks = append(s.blocks, o)
	return len(s.blocks) - 1
}

func buildSkel(events []Event, entry, final Val) *skel {
	s := &skel{idx: map[*Obj]int{}, succ: map[int][]int{}, evs: map[int][]skelEv{}}
	s.entry = s.id(entry)
	scopeOf := func(v Val) *Obj { o, _ := v.(*Obj); return o }
	for _, e := range events {
		switch {
		case strings.HasPrefix(e.Kind, "term:"):
			b := s.id(e.Data[0])
			s.succ[b] = nil // a later terminator replaces an earlier one
			for _, a := range e.Data[1:] {
				if o, ok := a.(*Obj); ok && o.Kind == "ir.Block" {
					s.succ[b] = append(s.succ[b], s.id(o))
				}
			}
		case strings.HasPrefix(e.Kind, "evaluate:"):
			b := s.id(e.Data[0])
			var sc *Obj
			if len(e.Data) > 2 {
				sc = scopeOf(e.Data[2])
			}
			s.evs[b] = append(s.evs[b], skelEv{kind: "evaluate", name: strings.TrimPrefix(e.Kind, "evaluate:"), scope: sc, pos: e.Pos})
		case strings.HasPrefix(e.Kind, "visit:"):
			b := s.id(e.Data[0])
			var sc *Obj
			if len(e.Data) > 1 {
				sc = scopeOf(e.Data[1])
			}
			s.evs[b] = append(s.evs[b], skelEv{kind: "visit", name: strings.TrimPrefix(e.Kind, "visit:"), scope: sc, pos: e.Pos, msg: e.Msg})
		case e.Kind == "addTemp":
			if len(e.Data) > 3 {
				b := s.id(e.Data[3])
				v, _ := e.Data[0].(*IRVal)
				s.evs[b] = append(s.evs[b], skelEv{kind: "addTemp", scope: scopeOf(e.Data[2]), val: v, pos: e.Pos})
			}
		case e.Kind == "newScope":
			b := s.id(e.Data[1])
			s.evs[b] = append(s.evs[b], skelEv{kind: "newScope", scope: scopeOf(e.Data[0]), pos: e.Pos})
		case e.Kind == "exitScope":
			b := s.id(e.Data[1])
			s.evs[b] = append(s.evs[b], skelEv{kind: "exitScope", scope: scopeOf(e.Data[0]), pos: e.Pos})
		case e.Kind == "call":
			b := s.id(e.Data[0])
			if strings.HasSuffix(e.Msg, ".FreeFunc") && len(e.Data) > 1 {
				v, _ := e.Data[1].(*IRVal)
				s.evs[b] = append(s.evs[b], skelEv{kind: "free", val: v, pos: e.Pos})
			}
		}
	}
	s.final = s.id(final)
	return s
}

// reach: blocks reachable from a (following succ), optionally avoiding a set.
func (s *skel) reach(from int, avoid map[int]bool) map[int]bool {
	seen := map[int]bool{}
	var st []int
	for _, n := range s.succ[from] {
		st = append(st, n)
	}
	for len(st) > 0 {
		n := st[len(st)-1]
		st = st[:len(st)-1]
		if seen[n] || avoid[n] {
			continue
		}
		seen[n] = true
		st = append(st, s.succ[n]...)
	}
	return seen
}

// onCycleAvoiding: is there a cycle through b that avoids every block in 'avoid'?
func (s *skel) onCycleAvoiding(b int, avoid map[int]bool) bool {
	if avoid[b] {
		return false
	}
	return s.reach(b, avoid)[b]
}

// dominates: every path entry -> t passes through d.
func (s *skel) dominates(d, t int) bool {
	if d == t {
		return true
	}
	if s.entry == d {
		return true
	}
	r := s.reach(s.entry, map[int]bool{d: true})
	r[s.entry] = true
	return !r[t]
}

type regionFinding struct {
	what string
	pos  token.Pos
	bad  string
}

// regionFindings applies R5.8 to one skeleton:
// (a) an expression evaluated (or a value registered) in a block that lies on a generated cycle must run in a scope that
//
//	is exited on that cycle - otherwise the temporaries it creates are released once but created per iteration;
//
// (b) the block must dominate every block where that scope is exited (for the ambient scope: the block current when the
//
//	visitor returns) - otherwise the exit releases temporaries that were never created on the path taken.
//
// Statement children whose static type is *ast.BlockStmt open their own scope (R5.8c) and are exempt.
func regionFindings(s *skel) (checked []string, out []regionFinding) {
	exits := map[*Obj]map[int]bool{}
	created := map[*Obj]bool{}
	for b, evs := range s.evs {
		for _, e := range evs {
			if e.kind == "exitScope" && e.scope != nil {
				if exits[e.scope] == nil {
					exits[e.scope] = map[int]bool{}
				}
				exits[e.scope][b] = true
			}
			if e.kind == "newScope" && e.scope != nil {
				created[e.scope] = true
			}
		}
	}
	var bs []int
	for b := range s.evs {
		bs = append(bs, b)
	}
	sort.Ints(bs)
	ord := map[string]int{}
	for _, b := range bs {
		for _, e := range s.evs[b] {
			if e.kind != "evaluate" && e.kind != "visit" && e.kind != "addTemp" {
				continue
			}
			ord[e.kind+e.name]++
			if e.kind == "visit" && strings.HasSuffix(e.msg, "ast.BlockStmt") {
				continue
			}
			what := e.kind + " " + e.name
			if e.kind == "addTemp" {
				what = "temporary registered"
			}
			if n := ord[e.kind+e.name]; n > 1 {
				what += fmt.Sprintf(" #%d", n)
			}
			checked = append(checked, what)
			ex := exits[e.scope]
			if !created[e.scope] || len(ex) == 0 {
				// scope of the surrounding code: exited after the visitor returns
				if s.onCycleAvoiding(b, nil) {
					out = append(out, regionFinding{what, e.pos, "runs on every iteration of the generated loop in the scope of the surrounding code, which is left only after the loop: temporaries it creates are overwritten and leak on each iteration"})
				} else if !s.dominates(b, s.final) {
					out = append(out, regionFinding{what, e.pos, "runs only on some paths but registers its temporaries in the scope of the surrounding code, whose exit releases them on every path: slots never initialised are released"})
				}
				continue
			}
			if s.onCycleAvoiding(b, ex) {
				out = append(out, regionFinding{what, e.pos, "runs on every iteration of the generated loop, but the scope it registers temporaries in is exited only outside the loop: they are overwritten and leak on each iteration"})
				continue
			}
			for x := range ex {
				if !s.dominates(b, x) {
					out = append(out, regionFinding{what, e.pos, "runs only on some of the paths that reach the exit of its scope, which releases its temporaries unconditionally: slots never initialised are released"})
					break
				}
			}
		}
	}
	return
}

func tokenConst(L *Loaded, name string) Val {
	tp := L.ByRel["src/token"]
	if o, ok := tp.Types.Scope().Lookup(name).(*types.Const); ok {
		return ConstV{V: o.Val(), T: o.Type(), Name: name}
	}
	return Unk{"token." + name}
}

type skelJob struct {
	key    string
	method string
	node   func() *Obj
}

func exprNode(name string, d *DT) *Obj {
	x := astNode("ast.Ident", name, d, toGen(d))
	x.set("temp", boolV(false))
	return x
}

func stmtNode(name string) *Obj {
	n := newObj("ast.BlockStmt")
	n.set("name", StrV(name))
	return n
}

func skelJobs(L *Loaded) []skelJob {
	B, Z, K, T := &DT{Kind: "WAHRHEITSWERT"}, &DT{Kind: "ZAHL"}, &DT{Kind: "KOMMAZAHL"}, &DT{Kind: "TEXT"}
	var jobs []skelJob
	for _, kw := range []string{"SOLANGE", "MACHE", "WIEDERHOLE"} {
		kw := kw
		jobs = append(jobs, skelJob{"VisitWhileStmt " + kw, "VisitWhileStmt", func() *Obj {
			n := newObj("ast.WhileStmt")
			w := newObj("token.Token")
			w.set("Type", tokenConst(L, kw))
			n.set("While", w)
			if kw == "WIEDERHOLE" {
				n.set("Condition", exprNode("Condition", Z))
			} else {
				n.set("Condition", exprNode("Condition", B))
			}
			n.set("Body", stmtNode("Body"))
			return n
		}})
	}
	for _, it := range []*DT{Z, K} {
		for _, step := range []bool{false, true} {
			it, step := it, step
			jobs = append(jobs, skelJob{fmt.Sprintf("VisitForStmt %s step=%v", it, step), "VisitForStmt", func() *Obj {
				n := newObj("ast.ForStmt")
				d := newObj("ast.VarDecl")
				d.set("Type", TypeV{it})
				d.set("name", StrV("Initializer"))
				n.set("Initializer", d)
				n.set("To", exprNode("To", it))
				if step {
					n.set("StepSize", exprNode("StepSize", it))
				} else {
					n.set("StepSize", NilV{})
				}
				n.set("Body", stmtNode("Body"))
				return n
			}})
		}
	}
	for _, inT := range []*DT{T, {Kind: "LIST", Elem: Z}, {Kind: "LIST", Elem: T}} {
		inT := inT
		jobs = append(jobs, skelJob{"VisitForRangeStmt over " + inT.String(), "VisitForRangeStmt", func() *Obj {
			n := newObj("ast.ForRangeStmt")
			d := newObj("ast.VarDecl")
			el := &DT{Kind: "BUCHSTABE"}
			if inT.Elem != nil {
				el = inT.Elem
			}
			d.set("Type", TypeV{el})
			d.set("name", StrV("Initializer"))
			n.set("Initializer", d)
			n.set("Index", NilV{})
			in := exprNode("In", inT)
			in.set("temp", Unk{"isTemp"})
			n.set("In", in)
			n.set("Body", stmtNode("Body"))
			return n
		}})
	}
	for _, els := range []bool{false, true} {
		els := els
		jobs = append(jobs, skelJob{fmt.Sprintf("VisitIfStmt else=%v", els), "VisitIfStmt", func() *Obj {
			n := newObj("ast.IfStmt")
			n.set("Condition", exprNode("Condition", B))
			th := newObj("ast.Statement")
			th.set("name", StrV("Then"))
			n.set("Then", th)
			if els {
				e := newObj("ast.Statement")
				e.set("name", StrV("Else"))
				n.set("Else", e)
			} else {
				n.set("Else", NilV{})
			}
			return n
		}})
	}
	ops := map[string]opInfo{}
	for _, o := range operatorConsts(L, "BinaryOperator") {
		ops[o.Name] = o
	}
	for _, o := range operatorConsts(L, "TernaryOperator") {
		ops[o.Name] = o
	}
	for _, name := range []string{"BIN_AND", "BIN_OR"} {
		name := name
		jobs = append(jobs, skelJob{"VisitBinaryExpr " + name, "VisitBinaryExpr", func() *Obj {
			return genNode("ast.BinaryExpr", opVal(ops[name]), []string{"lhs", "rhs"}, []*DT{B, B})
		}})
	}
	for _, d := range []*DT{Z, T} {
		d := d
		jobs = append(jobs, skelJob{"VisitTernaryExpr TER_FALLS " + d.String(), "VisitTernaryExpr", func() *Obj {
			return genNode("ast.TernaryExpr", opVal(ops["TER_FALLS"]), []string{"lhs", "mid", "rhs"}, []*DT{d, B, d})
		}})
	}
	return jobs
}

func checkC05Regions(c *Check, L *Loaded) {
	r := c.Rule("R5.8", "code that the generated control flow repeats or skips evaluates its operands in a scope that is opened and left inside the repeated/skipped region", 14)
	in, mk := newGeneratorInterp(L)
	for _, jb := range skelJobs(L) {
		type agg struct {
			bad string
			pos token.Pos
		}
		bad := map[string]agg{}
		okc := map[string]bool{}
		runs := 0
		var und []string
		in.RunAll(64, func() {
			cobj := mk()
			entry := cobj.get("cbb")
			in.CallFunc(L.Fn("src/compiler.(*compiler)."+jb.method), cobj, []Val{jb.node()})
			runs++
			for _, e := range in.Events {
				if e.Kind == "panic" || e.Kind == "cerr" {
					return // paths the checker rules out
				}
			}
			sk := buildSkel(in.Events, entry, cobj.get("cbb"))
			checked, fs := regionFindings(sk)
			for _, w := range checked {
				okc[w] = true
			}
			for _, f := range fs {
				bad[f.what] = agg{f.bad, f.pos}
			}
			und = append(und, in.Undecided...)
		})
		if runs == 0 {
			r.Und(jb.key, token.NoPos, "not evaluated")
			continue
		}
		var ws []string
		for w := range okc {
			ws = append(ws, w)
		}
		sort.Strings(ws)
		if len(ws) == 0 {
			r.Und(jb.key, token.NoPos, "no evaluation found in the visitor")
			continue
		}
		for _, w := range ws {
			key := "compiler.(*compiler)." + jb.key + "|" + w
			if a, isBad := bad[w]; isBad {
				r.Bad(key, a.pos, w+" "+a.bad)
			} else {
				r.OK(key, token.NoPos, "evaluated once per execution of its scope")
			}
		}
	}
}
