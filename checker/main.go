package main

import (
	"flag"
	"fmt"
	"os"
	"sort"
	"strings"
)

type checkFn func(c *Check)

var registry = map[string]checkFn{}

func main() {
	tier := flag.String("tier", "quick", "quick|thorough")
	multi := flag.Bool("multi", false, "run the named properties in one process, printing FIRED <id> for each that reports")
	flag.Parse()
	if t := os.Getenv("VERIF_TIER"); t != "" && *tier == "quick" {
		*tier = t
	}
	if *tier != "quick" && *tier != "thorough" {
		*tier = "quick"
	}
	if flag.NArg() > 1 || (*multi && flag.NArg() == 1) {
		// several properties in one process (used by the false-alarm replay, tools/refactor_check.sh): the tree is loaded
		// once, each check runs on its own Check value; exit 1 if any of them reports
		L, err := Load()
		if err != nil {
			fmt.Println("LOAD FAILED:", err)
			os.Exit(1)
		}
		worst := 0
		for _, prop := range flag.Args() {
			fn, ok := registry[prop]
			if !ok {
				fmt.Println("unknown property", prop)
				os.Exit(2)
			}
			if code := runLoaded(prop, *tier, fn, L); code != 0 {
				fmt.Printf("FIRED %s exit=%d\n", prop, code)
				worst = 1
			}
		}
		os.Exit(worst)
	}
	if flag.NArg() != 1 {
		var ids []string
		for id := range registry {
			ids = append(ids, id)
		}
		sort.Strings(ids)
		fmt.Println("usage: ddpverif [--tier quick|thorough] <property>; properties:", ids)
		os.Exit(2)
	}
	prop := flag.Arg(0)
	fn, ok := registry[prop]
	if !ok {
		fmt.Println("unknown property", prop)
		os.Exit(2)
	}
	os.Exit(run(prop, *tier, fn))
}

func run(prop, tier string, fn checkFn) (code int) {
	L, err := Load()
	if err != nil {
		// a tree that cannot be loaded cannot be decided: fail loudly
		fmt.Println("LOAD FAILED:", err)
		p := verifDir() + "/out/" + prop + "-load.json"
		os.MkdirAll(verifDir()+"/out", 0o755)
		os.WriteFile(p, []byte(fmt.Sprintf("{\"error\":%q}", err.Error())), 0o644)
		fmt.Printf("VIOLATION property=%s replay=%s\n", prop, p)
		return 1
	}
	return runLoaded(prop, tier, fn, L)
}

func runLoaded(prop, tier string, fn checkFn, L *Loaded) (code int) {
	c := NewCheck(prop, tier, L)
	defer func() {
		if r := recover(); r != nil {
			if os.Getenv("VERIF_DEBUG") != "" {
				panic(r)
			}
			fmt.Println("CHECKER PANIC:", r)
			p := verifDir() + "/out/" + prop + "-panic.json"
			os.WriteFile(p, []byte(fmt.Sprintf("{\"panic\":%q}", fmt.Sprint(r))), 0o644)
			fmt.Printf("VIOLATION property=%s replay=%s\n", prop, p)
			code = 1
		}
	}()
	fn(c)
	if strings.HasPrefix(prop, "X") {
		return 0 // exploration helpers print only
	}
	return c.Finish()
}
