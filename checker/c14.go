package main

import (
	"fmt"
	"go/ast"
	"go/token"
	"go/types"
	"sort"
	"strings"
)

func init() { registry["C14"] = checkC14 }

var normalisers = map[string]bool{
	"ddptypes.GetUnderlying": true, "ddptypes.TrueUnderlying": true, "ddptypes.ListTrueUnderlying": true, "ddptypes.getTrueListUnderlying": true,
}

func ddpNamed(t types.Type, name string) bool {
	if p, ok := t.(*types.Pointer); ok {
		t = p.Elem()
	}
	nt, ok := t.(*types.Named)
	return ok && nt.Obj().Name() == name && nt.Obj().Pkg() != nil && nameIs(nt.Obj().Pkg(), "ddptypes")
}

func isDDPType(t types.Type) bool {
	nt, ok := t.(*types.Named)
	return ok && nameIs(nt.Obj(), "Type") && nt.Obj().Pkg() != nil && nameIs(nt.Obj().Pkg(), "ddptypes")
}

// typeTest is a run-time test of the dynamic type or identity of a ddptypes.Type value.
type typeTest struct {
	Fn      *FuncInfo
	Node    ast.Node
	Operand ast.Expr
	Kind    string // "assert", "assert-ok", "typeswitch", "cmp", "switch"
	Target  string
}

// collectTypeTests finds all dynamic tests on values of static type ddptypes.Type in the given function.
func collectTypeTests(L *Loaded, fi *FuncInfo) []typeTest {
	var out []typeTest
	info := fi.Pkg.TypesInfo
	commaOK := map[*ast.TypeAssertExpr]bool{}
	ast.Inspect(fi.Decl.Body, func(n ast.Node) bool {
		switch x := n.(type) {
		case *ast.AssignStmt:
			if len(x.Lhs) == 2 && len(x.Rhs) == 1 {
				if ta, ok := ast.Unparen(x.Rhs[0]).(*ast.TypeAssertExpr); ok {
					commaOK[ta] = true
				}
			}
		case *ast.ValueSpec:
			if len(x.Names) == 2 && len(x.Values) == 1 {
				if ta, ok := ast.Unparen(x.Values[0]).(*ast.TypeAssertExpr); ok {
					commaOK[ta] = true
				}
			}
		}
		return true
	})
	ast.Inspect(fi.Decl.Body, func(n ast.Node) bool {
		switch x := n.(type) {
		case *ast.BinaryExpr:
			if x.Op == token.EQL || x.Op == token.NEQ {
				tx, ty := info.TypeOf(x.X), info.TypeOf(x.Y)
				if (isDDPType(tx) || isDDPType(ty)) && !info.Types[x.X].IsNil() && !info.Types[x.Y].IsNil() {
					// operand(s) of interface type
					for _, op := range []ast.Expr{x.X, x.Y} {
						if isDDPType(info.TypeOf(op)) {
							out = append(out, typeTest{fi, x, op, "cmp", L.Src(x)})
						}
					}
				}
			}
		case *ast.TypeAssertExpr:
			if isDDPType(info.TypeOf(x.X)) {
				if x.Type == nil {
					out = append(out, typeTest{fi, x, x.X, "typeswitch", "type switch"})
				} else if commaOK[x] {
					out = append(out, typeTest{fi, x, x.X, "assert-ok", L.Src(x.Type)})
				} else {
					out = append(out, typeTest{fi, x, x.X, "assert", L.Src(x.Type)})
				}
			}
		case *ast.SwitchStmt:
			if x.Tag != nil && isDDPType(info.TypeOf(x.Tag)) {
				out = append(out, typeTest{fi, x, x.Tag, "switch", "switch " + L.Src(x.Tag)})
			}
		}
		return true
	})
	return out
}

// normalisedOperand decides whether the expression is the result of one of ddptypes' normalisers on every path
// (directly, or through the lexically last dominating assignment of a local variable).
func normalisedOperand(L *Loaded, fi *FuncInfo, e ast.Expr, depth int) (bool, string) {
	info := fi.Pkg.TypesInfo
	e = ast.Unparen(e)
	switch x := e.(type) {
	case *ast.CallExpr:
		if fn := Callee(info, x); fn != nil {
			if normalisers[L.QName(fn)] {
				return true, "result of " + L.QName(fn)
			}
		}
		return false, "result of " + L.Src(x.Fun) + ", not a normaliser"
	case *ast.Ident:
		obj := info.Uses[x]
		if obj == nil || depth > 3 {
			return false, "unresolved"
		}
		// all assignments to obj in this function
		type asg struct {
			pos   token.Pos
			end   token.Pos
			rhs   ast.Expr
			block *ast.BlockStmt
		}
		var asgs []asg
		var stack []ast.Node
		ast.Inspect(fi.Decl, func(n ast.Node) bool {
			if n == nil {
				stack = stack[:len(stack)-1]
				return true
			}
			stack = append(stack, n)
			encl := func() *ast.BlockStmt {
				for i := len(stack) - 2; i >= 0; i-- {
					if b, ok := stack[i].(*ast.BlockStmt); ok {
						return b
					}
					if _, ok := stack[i].(*ast.CaseClause); ok {
						return nil // case-local: treat as non-dominating unless use is inside the same clause (handled below by position range)
					}
				}
				return nil
			}
			switch s := n.(type) {
			case *ast.AssignStmt:
				for i, l := range s.Lhs {
					if id, ok := l.(*ast.Ident); ok && (info.Defs[id] == obj || info.Uses[id] == obj) {
						var rhs ast.Expr
						if len(s.Rhs) == len(s.Lhs) {
							rhs = s.Rhs[i]
						} else if len(s.Rhs) == 1 {
							rhs = s.Rhs[0] // multi-value: x, ok := f()
						}
						// the init statement of an if/switch dominates its body
						b := encl()
						if len(stack) >= 2 {
							switch p := stack[len(stack)-2].(type) {
							case *ast.IfStmt:
								if p.Init == s {
									b = p.Body
								}
							case *ast.SwitchStmt:
								if p.Init == s {
									b = p.Body
								}
							case *ast.TypeSwitchStmt:
								if p.Assign == s || p.Init == s {
									b = p.Body
								}
							}
						}
						asgs = append(asgs, asg{s.Pos(), s.End(), rhs, b})
					}
				}
			case *ast.ValueSpec:
				for i, id := range s.Names {
					if info.Defs[id] == obj {
						var rhs ast.Expr
						if i < len(s.Values) {
							rhs = s.Values[i]
						}
						asgs = append(asgs, asg{s.Pos(), s.End(), rhs, encl()})
					}
				}
			case *ast.RangeStmt:
				for _, l := range []ast.Expr{s.Key, s.Value} {
					if id, ok := l.(*ast.Ident); ok && (info.Defs[id] == obj || info.Uses[id] == obj) {
						asgs = append(asgs, asg{s.Pos(), s.Body.Pos(), nil, s.Body})
					}
				}
			}
			return true
		})
		sort.Slice(asgs, func(i, j int) bool { return asgs[i].pos < asgs[j].pos })
		var last *asg
		for i := range asgs {
			if asgs[i].end <= x.Pos() || (asgs[i].rhs == nil && asgs[i].pos < x.Pos()) {
				last = &asgs[i]
			}
		}
		if last == nil {
			return false, "parameter or captured variable " + x.Name + " used as received"
		}
		// a later assignment inside a loop that also encloses the use could flow back: be conservative
		for _, a := range asgs {
			if a.pos > x.Pos() && enclosingLoop(fi.Decl, a.pos) != nil && enclosingLoop(fi.Decl, a.pos) == enclosingLoop(fi.Decl, x.Pos()) {
				return false, "variable " + x.Name + " reassigned later in the same loop"
			}
		}
		if last.block == nil || !(last.block.Pos() <= x.Pos() && x.Pos() < last.block.End()) {
			return false, "last assignment of " + x.Name + " does not dominate the use"
		}
		if last.rhs == nil {
			return false, "loop variable"
		}
		rhs := ast.Unparen(last.rhs)
		if ta, ok := rhs.(*ast.TypeAssertExpr); ok && ta.Type == nil { // switch v := N(x).(type)
			rhs = ta.X
		}
		ok, why := normalisedOperand(L, fi, rhs, depth+1)
		return ok, x.Name + " := " + why
	case *ast.SelectorExpr:
		if v := fieldOf(info, x); v != nil {
			return false, "field " + v.Name()
		}
	}
	return false, "expression " + L.Src(e)
}

func enclosingLoop(fd *ast.FuncDecl, pos token.Pos) ast.Node {
	var res ast.Node
	ast.Inspect(fd, func(n ast.Node) bool {
		if n == nil || !(n.Pos() <= pos && pos < n.End()) {
			return n == nil
		}
		switch n.(type) {
		case *ast.ForStmt, *ast.RangeStmt:
			res = n
		}
		return true
	})
	return res
}

func checkC14(c *Check) {
	L := c.L
	c.Expl = "Structural clauses of 'type equivalence is lawful; aliases transparent, definitions opaque': Equal/DeepEqual are kernels N(a)==N(b) of one normaliser (R14.1) over strictly comparable implementers (R14.2); the normalisers rewrite exactly aliases, list elements (recursively) and generic instantiations and never type definitions (R14.3); outside ddptypes every dynamic test on a ddptypes.Type value (==, switch, assertion, type switch) has a normalised operand (R14.4); the checker's admissibility tables for initialisation, assignment and casts are evaluated cell-wise over the type classes incl. aliases and definitions (R14.5/R14.6, engine E2). Not decided: behaviour for every depth-3 type term beyond the class representatives."
	dp := L.ByRel["src/ddptypes"]
	info := dp.TypesInfo
	checkC14PredicateModels(c)

	// ---- R14.1 kernel form ----
	r1 := c.Rule("R14.1", "Equal and DeepEqual are N(t1) == N(t2) for one normaliser N", 2)
	for _, nm := range []struct{ fn, norm string }{{"Equal", "ddptypes.GetUnderlying"}, {"DeepEqual", "ddptypes.getTrueListUnderlying"}} {
		fi := L.Fn("src/ddptypes." + nm.fn)
		if fi == nil {
			r1.Und("ddptypes."+nm.fn, token.NoPos, "function not found")
			continue
		}
		ok := false
		why := "body is not a single `return N(t1) == N(t2)`"
		if len(fi.Decl.Body.List) == 1 {
			if ret, isRet := fi.Decl.Body.List[0].(*ast.ReturnStmt); isRet && len(ret.Results) == 1 {
				if be, isBin := ast.Unparen(ret.Results[0]).(*ast.BinaryExpr); isBin && be.Op == token.EQL {
					cx, okx := be.X.(*ast.CallExpr)
					cy, oky := be.Y.(*ast.CallExpr)
					if okx && oky && len(cx.Args) == 1 && len(cy.Args) == 1 {
						fx, fy := Callee(info, cx), Callee(info, cy)
						params := fi.Decl.Type.Params.List
						var pobjs []types.Object
						for _, p := range params {
							for _, n := range p.Names {
								pobjs = append(pobjs, info.Defs[n])
							}
						}
						ax, _ := cx.Args[0].(*ast.Ident)
						ay, _ := cy.Args[0].(*ast.Ident)
						if fx != nil && fx == fy && ax != nil && ay != nil && len(pobjs) == 2 &&
							((info.Uses[ax] == pobjs[0] && info.Uses[ay] == pobjs[1]) || (info.Uses[ax] == pobjs[1] && info.Uses[ay] == pobjs[0])) {
							if L.QName(fx) == nm.norm {
								ok = true
							} else {
								why = "normaliser is " + L.QName(fx) + ", expected " + nm.norm
							}
						} else {
							why = "the two sides do not apply one normaliser to the two parameters"
						}
					}
				}
			}
		}
		r1.Decide(ok, "ddptypes."+nm.fn+"|kernel", fi.Decl.Pos(), "kernel of "+nm.norm+": reflexive, symmetric, transitive", why+" - equivalence laws no longer follow from the shape")
	}

	// ---- R14.2 strictly comparable implementers ----
	r2 := c.Rule("R14.2", "every implementer of ddptypes.Type is strictly comparable (== never panics)", 8)
	typeIface, _ := dp.Types.Scope().Lookup("Type").Type().Underlying().(*types.Interface)
	var strict func(t types.Type, seen map[types.Type]bool) (bool, string)
	strict = func(t types.Type, seen map[types.Type]bool) (bool, string) {
		if seen[t] {
			return true, ""
		}
		seen[t] = true
		switch u := t.Underlying().(type) {
		case *types.Basic, *types.Pointer, *types.Chan:
			return true, ""
		case *types.Interface:
			if isDDPType(t) {
				return true, "" // closed under this rule: all implementers are checked
			}
			return false, "interface field " + t.String()
		case *types.Struct:
			for i := 0; i < u.NumFields(); i++ {
				if ok, why := strict(u.Field(i).Type(), seen); !ok {
					return false, u.Field(i).Name() + ": " + why
				}
			}
			return true, ""
		case *types.Array:
			return strict(u.Elem(), seen)
		}
		return false, "not comparable: " + t.String()
	}
	if typeIface == nil {
		r2.Und("ddptypes.Type", token.NoPos, "interface not found")
	} else {
		for _, p := range L.Pkgs {
			scope := p.Types.Scope()
			for _, n := range scope.Names() {
				tn, ok := scope.Lookup(n).(*types.TypeName)
				if !ok || tn.IsAlias() {
					continue
				}
				if _, isIface := tn.Type().Underlying().(*types.Interface); isIface {
					continue
				}
				if nt, ok := tn.Type().(*types.Named); ok && nt.TypeParams().Len() > 0 {
					continue
				}
				for _, cand := range []types.Type{tn.Type(), types.NewPointer(tn.Type())} {
					if types.Implements(cand, typeIface) {
						ok, why := strict(cand, map[types.Type]bool{})
						r2.Decide(ok, "ddptypes.Type implementer "+types.TypeString(cand, func(p *types.Package) string { return p.Name() }), tn.Pos(), "strictly comparable", "comparison of this implementer can panic or is not an equivalence: "+why)
						break
					}
				}
			}
		}
	}

	// ---- R14.3 normaliser case discipline ----
	r3 := c.Rule("R14.3", "GetUnderlying rewrites exactly aliases (recursively), list elements (recursively) and instantiations; never type definitions", 4)
	if fi := L.Fn("src/ddptypes.GetUnderlying"); fi != nil {
		var ts *ast.TypeSwitchStmt
		for _, st := range fi.Decl.Body.List {
			if s, ok := st.(*ast.TypeSwitchStmt); ok {
				ts = s
			}
		}
		if ts == nil || len(fi.Decl.Body.List) != 1 {
			r3.Und("ddptypes.GetUnderlying|shape", fi.Decl.Pos(), "body is not a single type switch over the argument")
		} else {
			param := info.Defs[fi.Decl.Type.Params.List[0].Names[0]]
			isSelfCallOn := func(e ast.Expr, field string) bool {
				call, ok := ast.Unparen(e).(*ast.CallExpr)
				if !ok || Callee(info, call) != fi.Obj || len(call.Args) != 1 {
					return false
				}
				v := fieldOf(info, call.Args[0])
				return v != nil && v.Name() == field
			}
			returnsOf := func(cc *ast.CaseClause) []*ast.ReturnStmt {
				var rs []*ast.ReturnStmt
				for _, st := range cc.Body {
					ast.Inspect(st, func(n ast.Node) bool {
						if _, ok := n.(*ast.FuncLit); ok {
							return false
						}
						if r, ok := n.(*ast.ReturnStmt); ok {
							rs = append(rs, r)
						}
						return true
					})
				}
				return rs
			}
			seen := map[string]bool{}
			for _, cl := range ts.Body.List {
				cc := cl.(*ast.CaseClause)
				rets := returnsOf(cc)
				if cc.List == nil {
					ok := len(rets) == 1 && len(cc.Body) == 1
					if ok {
						id, isId := ast.Unparen(rets[0].Results[0]).(*ast.Ident)
						ok = isId && info.Uses[id] == param
					}
					r3.Decide(ok, "ddptypes.GetUnderlying|default", cc.Pos(), "every other type is returned unchanged", "the default arm does not return its argument unchanged")
					seen["default"] = true
					continue
				}
				for _, te := range cc.List {
					tname := L.Src(te)
					seen[tname] = true
					switch tname {
					case "*TypeAlias":
						ok := len(rets) >= 1
						for _, r := range rets {
							if len(r.Results) != 1 || !isSelfCallOn(r.Results[0], "Underlying") {
								ok = false
							}
						}
						r3.Decide(ok && len(cc.Body) == len(rets), "ddptypes.GetUnderlying|case *TypeAlias", cc.Pos(), "alias → GetUnderlying(alias.Underlying): chains of aliases collapse", "the alias arm does not return GetUnderlying(typ.Underlying) on every path: an alias (behind another alias) is no longer identified with its target")
					case "*InstantiatedGenericType":
						ok := len(rets) >= 1
						for _, r := range rets {
							if len(r.Results) != 1 || !isSelfCallOn(r.Results[0], "Actual") {
								ok = false
							}
						}
						r3.Decide(ok && len(cc.Body) == len(rets), "ddptypes.GetUnderlying|case *InstantiatedGenericType", cc.Pos(), "instantiation → GetUnderlying(Actual)", "the instantiation arm does not return GetUnderlying(typ.Actual) on every path")
					case "ListType":
						ok := len(rets) >= 1
						for _, r := range rets {
							good := false
							if len(r.Results) == 1 {
								if cl, isLit := ast.Unparen(r.Results[0]).(*ast.CompositeLit); isLit && ddpNamed(info.TypeOf(cl), "ListType") && len(cl.Elts) == 1 {
									v := cl.Elts[0]
									if kv, isKV := v.(*ast.KeyValueExpr); isKV {
										v = kv.Value
									}
									good = isSelfCallOn(v, "ElementType")
								}
							}
							if !good {
								ok = false
							}
						}
						r3.Decide(ok && len(cc.Body) == len(rets), "ddptypes.GetUnderlying|case ListType", cc.Pos(), "list → ListType{GetUnderlying(element)} on every path: aliases inside (nested) list types are transparent", "the list arm does not rebuild the list from GetUnderlying(typ.ElementType) on every path: an alias inside a (nested) list type is not seen through")
					case "*TypeDef":
						r3.Bad("ddptypes.GetUnderlying|case *TypeDef", cc.Pos(), "GetUnderlying has a *TypeDef arm: a type definition becomes identified with another type")
					default:
						r3.Und("ddptypes.GetUnderlying|case "+tname, cc.Pos(), "arm for a type the rule has no entry for; review whether the type must be transparent or opaque")
					}
				}
			}
			for _, need := range []string{"*TypeAlias", "ListType", "*InstantiatedGenericType", "default"} {
				if !seen[need] {
					r3.Bad("ddptypes.GetUnderlying|case "+need, ts.Pos(), "arm missing: "+need+" is no longer normalised")
				}
			}
		}
	} else {
		r3.Und("ddptypes.GetUnderlying", token.NoPos, "function not found")
	}
	// the predicates and casts of ddptypes look through GetUnderlying before testing the dynamic type
	rp := c.Rule("R14.3b", "ddptypes' Is*/Cast* predicates test the dynamic type of GetUnderlying(t), not of t", 12)
	L.ForEachFunc([]string{"src/ddptypes"}, func(fi *FuncInfo) {
		name := fi.Obj.Name()
		if fi.Decl.Recv != nil || !(strings.HasPrefix(name, "Is") || strings.HasPrefix(name, "Cast")) {
			return
		}
		if name == "IsTypeAlias" || name == "CastTypeAlias" {
			rp.Ex("ddptypes."+name, fi.Decl.Pos(), "asks for the alias itself; looking through would defeat it")
			return
		}
		if name == "CastDeeplyNestedGenerics" {
			rp.Ex("ddptypes."+name, fi.Decl.Pos(), "tests for a type-parameter placeholder, which cannot be the target of a type alias (alias declarations require a concrete type); struct fields go through CastStruct")
			return
		}
		for _, tt := range collectTypeTests(L, fi) {
			ok, why := normalisedOperand(L, fi, tt.Operand, 0)
			rp.Decide(ok, "ddptypes."+name+"|"+tt.Kind+" "+tt.Target, tt.Node.Pos(), why, "dynamic type test on a value that was not passed through GetUnderlying ("+why+"): an alias of the type answers differently from its target")
		}
	})

	// ---- R14.4 transparency outside ddptypes ----
	r4 := c.Rule("R14.4", "outside ddptypes, dynamic tests on ddptypes.Type values have a normalised operand", 8)
	exempt := map[string]string{
		"field ast.StructDecl.Type":                                      "StructDecl.Type is only ever assigned a *StructType or *GenericStructType built by structDeclaration (never an alias)",
		"typechecker.IsPublicType|assert-ok *ddptypes.StructType":        "deliberate: an alias is looked up under its own name, a Kombination under its struct name",
		"parser.(*parser).alias|assert *ddptypes.StructType":             "operand is stralias.Struct.Type or the instantiation GetInstantiatedStructType returned (a *StructType); triaged: a nil instantiation is impossible after checkAlias succeeded",
		"parser.(*parser).structDeclaration|assert *ddptypes.StructType": "operand is the &ddptypes.StructType{} literal assigned four lines above",
	}
	for _, rel := range []string{"src/ast", "src/ast/annotators", "src/parser", "src/parser/resolver", "src/parser/typechecker", "src/compiler", "cmd/kddp"} {
		L.ForEachFunc([]string{rel}, func(fi *FuncInfo) {
			if nameIs(fi.Obj, "String") {
				return
			}
			finfo := fi.Pkg.TypesInfo
			for _, tt := range collectTypeTests(L, fi) {
				q := L.QName(fi.Obj)
				key := q + "|" + tt.Kind + " " + tt.Target
				if v := fieldOf(finfo, tt.Operand); v != nil && nameIs(v, "Type") {
					if sel, ok := ast.Unparen(tt.Operand).(*ast.SelectorExpr); ok && ddpNamedAst(finfo.TypeOf(sel.X), "StructDecl") {
						r4.Ex(key, tt.Node.Pos(), exempt["field ast.StructDecl.Type"])
						continue
					}
				}
				if why, ok := exempt[key]; ok {
					r4.Ex(key, tt.Node.Pos(), why)
					continue
				}
				ok, why := normalisedOperand(L, fi, tt.Operand, 0)
				r4.Decide(ok, key, tt.Node.Pos(), why, "dynamic type test on a non-normalised ddptypes.Type ("+why+"): a type alias is not transparent here")
			}
		})
	}
	checkC14Cells(c)
}

func ddpNamedAst(t types.Type, name string) bool {
	if p, ok := t.(*types.Pointer); ok {
		t = p.Elem()
	}
	nt, ok := t.(*types.Named)
	return ok && nt.Obj().Name() == name && nt.Obj().Pkg() != nil && nameIs(nt.Obj().Pkg(), "ast")
}

// R14.9: the type predicates of ddptypes agree, on every class representative, with the models the cell evaluation uses
// for them (the models are what R4.4/R14.6's admissibility tables were computed with; GetUnderlying and TrueUnderlying keep
// their models here - R14.3 constrains them). A predicate that starts to look through type definitions (or stops looking
// through aliases) changes which programs are accepted without any checker function changing.
func checkC14PredicateModels(c *Check) {
	L := c.L
	r := c.Rule("R14.9", "ddptypes' type predicates agree with their models on every type class", 9)
	preds := []string{"IsNumeric", "IsList", "IsStruct", "IsAny", "IsVoid", "IsTypeDef", "IsGeneric", "IsPrimitive", "IsPrimitiveOrVoid", "IsTypeAlias"}
	classes := dtClasses(c.Tier)
	for _, name := range preds {
		fi := L.Fn("src/ddptypes." + name)
		key := "ddptypes." + name
		if fi == nil {
			r.Und(key, token.NoPos, "function not found")
			continue
		}
		in := NewInterp(L)
		installDDPTypesModels(in)
		model := in.Models["ddptypes."+name]
		if model == nil {
			r.Und(key, fi.Decl.Pos(), "the evaluator has no model for this predicate")
			continue
		}
		delete(in.Models, "ddptypes."+name)
		var bad []string
		und := 0
		for _, d := range classes {
			var real Val
			runs, _ := in.RunAll(4, func() { real = in.CallFunc(fi, nil, []Val{TypeV{d}}) })
			mv, _ := model(in, fi.Pkg, nil, nil, []Val{TypeV{d}})
			rt, rk := truth(real)
			mt, mk := truth(mv)
			if runs != 1 || !rk || !mk {
				und++
				continue
			}
			if rt != mt {
				bad = append(bad, fmt.Sprintf("%s(%s) is %v, the rules of the language (and the evaluator's model) say %v", name, d, rt, mt))
			}
		}
		switch {
		case len(bad) > 0:
			r.Bad(key, fi.Decl.Pos(), strings.Join(firstN(bad, 3), "; ")+": every rule that asks this predicate now treats such types differently (e.g. a type definition is implicitly converted to and from its base)")
		case und > 0:
			r.Und(key, fi.Decl.Pos(), fmt.Sprintf("%d of %d classes could not be evaluated", und, len(classes)))
		default:
			r.OK(key, fi.Decl.Pos(), fmt.Sprintf("agrees with its model on %d type classes", len(classes)))
		}
	}
}
