package main

// cAtom is one step of a path through a loop-free C function: a condition with the truth value taken, or a statement.
type cAtom struct {
	cond  *CNode
	truth bool
	stmt  *CNode
}

// cEnumPaths lists the paths through the body of f (if/else, return; loops and switches make the result undecided).
func cEnumPaths(f *CFunc, limit int) (paths [][]cAtom, decided bool) {
	decided = true
	var run func(stmts []*CNode, cur []cAtom)
	run = func(stmts []*CNode, cur []cAtom) {
		if len(paths) >= limit {
			decided = false
			return
		}
		if len(stmts) == 0 {
			paths = append(paths, append([]cAtom{}, cur...))
			return
		}
		n, rest := stmts[0], stmts[1:]
		switch n.Kind {
		case "CompoundStmt":
			run(append(append([]*CNode{}, n.Inner...), rest...), cur)
		case "IfStmt":
			if len(n.Inner) < 2 {
				decided = false
				return
			}
			cond := n.Inner[0]
			run(append([]*CNode{n.Inner[1]}, rest...), append(append([]cAtom{}, cur...), cAtom{cond: cond, truth: true}))
			if len(n.Inner) >= 3 {
				run(append([]*CNode{n.Inner[2]}, rest...), append(append([]cAtom{}, cur...), cAtom{cond: cond, truth: false}))
			} else {
				run(rest, append(append([]cAtom{}, cur...), cAtom{cond: cond, truth: false}))
			}
		case "ReturnStmt":
			paths = append(paths, append(append([]cAtom{}, cur...), cAtom{stmt: n}))
		case "WhileStmt", "ForStmt", "DoStmt", "SwitchStmt", "GotoStmt", "LabelStmt":
			decided = false
		default:
			run(rest, append(append([]cAtom{}, cur...), cAtom{stmt: n}))
		}
	}
	run([]*CNode{f.Body}, nil)
	return
}

// condCallFact: does cond (taken with truth) decide the result of a call to callee? returns (known, value).
func condCallFact(c *CNode, truth bool, callee string) (bool, bool) {
	c = cstrip(c)
	if c == nil {
		return false, false
	}
	if c.Kind == "CallExpr" && c.calleeName() == callee {
		return true, truth
	}
	if c.Kind == "UnaryOperator" && c.Opcode == "!" && len(c.Inner) == 1 {
		return condCallFact(c.Inner[0], !truth, callee)
	}
	if c.Kind == "BinaryOperator" && len(c.Inner) == 2 {
		if (c.Opcode == "&&" && truth) || (c.Opcode == "||" && !truth) {
			if k, v := condCallFact(c.Inner[0], truth, callee); k {
				return k, v
			}
			return condCallFact(c.Inner[1], truth, callee)
		}
	}
	return false, false
}
