package main

import (
	"fmt"
	"go/ast"
	"go/token"
	"go/types"
	"sort"
	"strings"

	"golang.org/x/tools/go/cfg"
)

// R3.3: results of parser productions whose contract includes nil must be nil-tested before they are dereferenced.
//
// mayNil(f, k): result k of f (pointer or interface typed) may be nil: an explicit `return nil` at position k, or
// `return g(...)`/a variable only assigned from may-nil results. A returned variable that is dominated by its own
// `!= nil` test does not count.
// Uses checked: a local variable bound directly to a may-nil call result, used as method receiver or field base
// (x.M(), x.f) in the same function body, must be dominated by `x != nil` (true edge) or follow `if x == nil { leave }`.

var c03NilExempt = map[string]string{}

func checkMayNil(c *Check) {
	L := c.L
	r := c.Rule("R3.3", "results of productions that may be nil are nil-tested before use as receiver/field base", 5)
	checkWalkDirCallbacks(c, r)
	pp := L.ByRel["src/parser"]
	info := pp.TypesInfo
	nillable := func(t types.Type) bool {
		switch t.Underlying().(type) {
		case *types.Pointer, *types.Interface:
			return true
		}
		return false
	}
	type key struct {
		fn *types.Func
		k  int
	}
	may := map[key]bool{}
	// corr[key][j] = "false" | "err": in every nil-return at position k, result j is the literal false / a non-nil error
	corr := map[key]map[int]string{}
	noteCorr := func(kk key, ret *ast.ReturnStmt, sig *types.Signature) {
		cur := map[int]string{}
		for j, res := range ret.Results {
			if j == kk.k {
				continue
			}
			if L.Src(res) == "false" {
				cur[j] = "false"
			}
			if sig.Results().At(j).Type().String() == "error" && !info.Types[res].IsNil() {
				cur[j] = "err"
			}
		}
		if old, ok := corr[kk]; ok {
			for j, v := range old {
				if cur[j] != v {
					delete(old, j)
				}
			}
		} else {
			corr[kk] = cur
		}
	}
	var fis []*FuncInfo
	L.ForEachFunc([]string{"src/parser"}, func(fi *FuncInfo) { fis = append(fis, fi) })
	// nonNilFlow: must-dataflow of "obj is known non-nil" over one function body.
	nonNilFlow := func(fi *FuncInfo, body *ast.BlockStmt, obj types.Object, guards map[types.Object]string, mayRes func(fn *types.Func) bool) (*mustFlow, func(e ast.Expr, truth bool) uint32) {
		isObj := func(e ast.Expr) bool {
			id, ok := ast.Unparen(e).(*ast.Ident)
			return ok && info.Uses[id] == obj
		}
		var facts func(e ast.Expr, truth bool) uint32
		facts = func(e ast.Expr, truth bool) uint32 {
			e = ast.Unparen(e)
			switch x := e.(type) {
			case *ast.Ident:
				if guards[info.Uses[x]] == "false" && truth {
					return 1
				}
			case *ast.UnaryExpr:
				if x.Op == token.NOT {
					return facts(x.X, !truth)
				}
			case *ast.BinaryExpr:
				switch x.Op {
				case token.LAND:
					if truth {
						return facts(x.X, true) | facts(x.Y, true)
					}
					return facts(x.X, false) & (facts(x.X, true) | facts(x.Y, false))
				case token.LOR:
					if !truth {
						return facts(x.X, false) | facts(x.Y, false)
					}
					return facts(x.X, true) & (facts(x.X, false) | facts(x.Y, true))
				case token.NEQ, token.EQL:
					var other ast.Expr
					if isObj(x.X) {
						other = x.Y
					} else if isObj(x.Y) {
						other = x.X
					}
					if other != nil && info.Types[other].IsNil() {
						if (x.Op == token.NEQ) == truth {
							return 1
						}
					}
					for _, pair := range [][2]ast.Expr{{x.X, x.Y}, {x.Y, x.X}} {
						if id, ok := ast.Unparen(pair[0]).(*ast.Ident); ok && guards[info.Uses[id]] == "err" && info.Types[pair[1]].IsNil() {
							if (x.Op == token.EQL) == truth {
								return 1
							}
						}
					}
				}
			}
			return 0
		}
		assigns := func(n ast.Node) (bool, bool) {
			as, ok := n.(*ast.AssignStmt)
			if !ok {
				return false, false
			}
			for i, l := range as.Lhs {
				if id, ok := l.(*ast.Ident); ok && (info.Defs[id] == obj || info.Uses[id] == obj) {
					if len(as.Rhs) == len(as.Lhs) {
						rhs := ast.Unparen(as.Rhs[i])
						if u, ok := rhs.(*ast.UnaryExpr); ok && u.Op == token.AND {
							return true, true
						}
						if call, ok := rhs.(*ast.CallExpr); ok {
							if fn := Callee(info, call); fn != nil && !mayRes(fn) {
								return true, true
							}
						}
					}
					return true, false
				}
			}
			return false, false
		}
		g := L.CFGBody(fi.Pkg, body)
		mf := &mustFlow{G: g, Init: 0,
			Transfer: func(n ast.Node, s uint32) uint32 {
				if a, nn := assigns(n); a {
					if nn {
						return s | 1
					}
					return s &^ 1
				}
				return s
			},
			Edge: func(b *cfg.Block, i int, s uint32) uint32 {
				if len(b.Nodes) == 0 {
					return s
				}
				if cond, ok := b.Nodes[len(b.Nodes)-1].(ast.Expr); ok {
					return s | facts(cond, i == 0)
				}
				return s
			}}
		mf.Run()
		return mf, facts
	}
	stateBefore := func(mf *mustFlow, node ast.Node) (uint32, bool) {
		for _, b := range mf.G.Blocks {
			if !b.Live {
				continue
			}
			for i, n := range b.Nodes {
				if n.Pos() <= node.Pos() && node.End() <= n.End() {
					return mf.StateAt(b, i), true
				}
			}
		}
		return 0, false
	}
	// seed + propagate
	changed := true
	for changed {
		changed = false
		for _, fi := range fis {
			sig := fi.Obj.Type().(*types.Signature)
			ast.Inspect(fi.Decl.Body, func(n ast.Node) bool {
				if _, ok := n.(*ast.FuncLit); ok {
					return false
				}
				ret, ok := n.(*ast.ReturnStmt)
				if !ok {
					return true
				}
				for k, res := range ret.Results {
					if len(ret.Results) != sig.Results().Len() || !nillable(sig.Results().At(k).Type()) {
						continue
					}
					res = ast.Unparen(res)
					isNil := info.Types[res].IsNil()
					if call, ok := res.(*ast.CallExpr); ok && len(ret.Results) == 1 {
						if fn := Callee(info, call); fn != nil && may[key{fn, 0}] {
							isNil = true
						}
					}
					// a returned local variable that only ever holds may-nil call results (and is not nil-tested before the return)
					if id, ok := res.(*ast.Ident); ok && !isNil {
						if obj := info.Uses[id]; obj != nil {
							mf, _ := nonNilFlow(fi, fi.Decl.Body, obj, nil, func(fn *types.Func) bool { return may[key{fn, 0}] })
							if st, found := stateBefore(mf, ret); found && st&1 != 0 {
								continue // returned under its own non-nil test
							}
							ast.Inspect(fi.Decl.Body, func(m ast.Node) bool {
								if as, ok := m.(*ast.AssignStmt); ok && len(as.Rhs) == 1 && len(as.Lhs) == 1 {
									if lid, ok := as.Lhs[0].(*ast.Ident); ok && (info.Defs[lid] == obj || info.Uses[lid] == obj) {
										if call, ok := ast.Unparen(as.Rhs[0]).(*ast.CallExpr); ok {
											if fn := Callee(info, call); fn != nil && may[key{fn, 0}] {
												isNil = true
											}
										}
									}
								}
								return true
							})
						}
					}
					if isNil {
						kk := key{fi.Obj, k}
						if !may[kk] {
							may[kk] = true
							changed = true
						}
					}
					if info.Types[res].IsNil() {
						noteCorr(key{fi.Obj, k}, ret, sig)
					}
				}
				return true
			})
		}
	}
	// symbol table lookups: first result of LookupDecl is nil when !exists (contract)
	var seeds []string
	for k := range may {
		seeds = append(seeds, L.QName(k.fn))
	}
	sort.Strings(seeds)
	c.extra["may_return_nil"] = seeds
	for _, need := range []string{"parser.(*parser).declaration", "parser.(*parser).checkedDeclaration", "parser.(*parser).aliasDecl", "parser.(*parser).parseType", "parser.(*parser).parseReferenceType"} {
		found := false
		for _, s := range seeds {
			if s == need {
				found = true
			}
		}
		if !found {
			r.Und(need+"|may return nil", token.NoPos, "production whose nil result is part of its contract is no longer recognised as may-return-nil")
		}
	}

	for _, fi := range fis {
		q := L.QName(fi.Obj)
		// units: the declaration body and every function literal
		bodies := []*ast.BlockStmt{fi.Decl.Body}
		ast.Inspect(fi.Decl.Body, func(n ast.Node) bool {
			if fl, ok := n.(*ast.FuncLit); ok {
				bodies = append(bodies, fl.Body)
			}
			return true
		})
		for _, body := range bodies {
			// variables bound to may-nil results in this unit (not in nested literals)
			type binding struct {
				obj    types.Object
				from   string
				guards map[types.Object]string // correlated result variables: kind "false" / "err"
			}
			var binds []binding
			walkUnit(body, func(n ast.Node) {
				as, ok := n.(*ast.AssignStmt)
				if !ok || len(as.Rhs) != 1 {
					return
				}
				call, ok := ast.Unparen(as.Rhs[0]).(*ast.CallExpr)
				if !ok {
					return
				}
				fn := Callee(info, call)
				if fn == nil {
					return
				}
				for k, l := range as.Lhs {
					if !may[key{fn, k}] {
						continue
					}
					if id, ok := l.(*ast.Ident); ok && id.Name != "_" {
						obj := info.Defs[id]
						if obj == nil {
							obj = info.Uses[id]
						}
						if obj != nil {
							gs := map[types.Object]string{}
							for j, kind := range corr[key{fn, k}] {
								if j < len(as.Lhs) {
									if gid, ok := as.Lhs[j].(*ast.Ident); ok && gid.Name != "_" {
										g := info.Defs[gid]
										if g == nil {
											g = info.Uses[gid]
										}
										if g != nil {
											gs[g] = kind
										}
									}
								}
							}
							binds = append(binds, binding{obj, fn.Name(), gs})
						}
					}
				}
			})
			// inline uses: p.f().M()
			walkUnit(body, func(n ast.Node) {
				sel, ok := n.(*ast.SelectorExpr)
				if !ok {
					return
				}
				if call, ok := ast.Unparen(sel.X).(*ast.CallExpr); ok {
					if fn := Callee(info, call); fn != nil && may[key{fn, 0}] && fn.Type().(*types.Signature).Results().Len() == 1 {
						if _, isField := info.Selections[sel]; isField {
							key := q + "|" + fn.Name() + "()." + sel.Sel.Name
							report(c, r, key, sel.Pos(), "result of "+fn.Name()+", which may be nil, is dereferenced directly (."+sel.Sel.Name+")")
						}
					}
				}
			})
			if len(binds) == 0 {
				continue
			}
			g := L.CFGBody(fi.Pkg, body)
			seen := map[types.Object]bool{}
			for _, bd := range binds {
				if seen[bd.obj] {
					continue
				}
				seen[bd.obj] = true
				obj := bd.obj
				isObj := func(e ast.Expr) bool {
					id, ok := ast.Unparen(e).(*ast.Ident)
					return ok && info.Uses[id] == obj
				}
				mf, facts := nonNilFlow(fi, body, obj, bd.guards, func(fn *types.Func) bool { return may[key{fn, 0}] })
				for _, b := range g.Blocks {
					if !b.Live {
						continue
					}
					for i, n := range b.Nodes {
						st := mf.StateAt(b, i)
						// uses inside n (excluding nested literals): obj as selector base
						inCond := len(b.Succs) == 2 && i == len(b.Nodes)-1
						ast.Inspect(n, func(m ast.Node) bool {
							if _, ok := m.(*ast.FuncLit); ok {
								return false
							}
							sel, ok := m.(*ast.SelectorExpr)
							if !ok || !isObj(sel.X) {
								return true
							}
							if st&1 != 0 {
								k := q + "|" + obj.Name() + "." + sel.Sel.Name + " (from " + bd.from + ")"
								if !seenPos[sel.Pos()] {
									seenPos[sel.Pos()] = true
									r.OK(k, sel.Pos(), "dominated by a nil test (or a test of the correlated ok/err result)")
								}
								return true
							}
							// short-circuit inside the same condition: `x != nil && x.M()`
							if inCond || true {
								if guardedInExpr(n, sel, facts) {
									return true
								}
							}
							key := q + "|" + obj.Name() + "." + sel.Sel.Name + " (from " + bd.from + ")"
							report(c, r, key, sel.Pos(), obj.Name()+" holds the result of "+bd.from+", which may be nil, and is dereferenced without a nil test on this path")
							return true
						})
					}
				}
			}
		}
	}
	// every discharged binding counts as an instance too (so the rule has a visible population)
	n := 0
	for range may {
		n++
	}
	r.OK("parser|may-return-nil summary", token.NoPos, strings.Join(seeds, ", "))
}

var seenPos = map[token.Pos]bool{}

func report(c *Check, r *Rule, key string, pos token.Pos, msg string) {
	if seenPos[pos] {
		return
	}
	seenPos[pos] = true
	if why, ok := c03NilExempt[key]; ok {
		r.Ex(key, pos, why)
		return
	}
	r.Bad(key, pos, msg+": malformed input on which the production returns nil crashes the frontend (nil dereference)")
}

// guardedInExpr: inside expression/statement root, sel is in the right operand of `&&` whose left operand establishes non-nil
// (or of `||` whose left operand's falsity does).
func guardedInExpr(root ast.Node, sel *ast.SelectorExpr, facts func(e ast.Expr, truth bool) uint32) bool {
	ok := false
	ast.Inspect(root, func(n ast.Node) bool {
		be, isBin := n.(*ast.BinaryExpr)
		if !isBin {
			return true
		}
		if be.Y.Pos() <= sel.Pos() && sel.End() <= be.Y.End() {
			if be.Op == token.LAND && facts(be.X, true)&1 != 0 {
				ok = true
			}
			if be.Op == token.LOR && facts(be.X, false)&1 != 0 {
				ok = true
			}
		}
		return true
	})
	return ok
}

// walkUnit visits the nodes of a function body without descending into nested function literals.
func walkUnit(body *ast.BlockStmt, f func(n ast.Node)) {
	ast.Inspect(body, func(n ast.Node) bool {
		if n == nil {
			return true
		}
		if _, ok := n.(*ast.FuncLit); ok {
			return false
		}
		f(n)
		return true
	})
}

// R3.3c: callbacks of filepath.WalkDir / fs.WalkDir receive d == nil together with a non-nil err when the root cannot be
// read (missing directory, a file in the path). Every use of d must be reached only when err is nil, d was tested, or the
// entry is known not to be the root.
func checkWalkDirCallbacks(c *Check, r *Rule) {
	L := c.L
	n := 0
	L.ForEachFunc(c03Pkgs, func(fi *FuncInfo) {
		info := fi.Pkg.TypesInfo
		ast.Inspect(fi.Decl.Body, func(x ast.Node) bool {
			call, ok := x.(*ast.CallExpr)
			if !ok || len(call.Args) != 2 {
				return true
			}
			fn := Callee(info, call)
			if fn == nil || !nameIs(fn, "WalkDir") || fn.Pkg() == nil || (fn.Pkg().Path() != "path/filepath" && fn.Pkg().Path() != "io/fs") {
				return true
			}
			fl, ok := call.Args[1].(*ast.FuncLit)
			if !ok || len(fl.Type.Params.List) < 1 {
				return true
			}
			var params []*ast.Ident
			for _, f := range fl.Type.Params.List {
				params = append(params, f.Names...)
			}
			if len(params) != 3 {
				return true
			}
			pathObj, dObj, errObj := info.Defs[params[0]], info.Defs[params[1]], info.Defs[params[2]]
			root := types.ExprString(call.Args[0])
			if fn.Pkg().Path() == "io/fs" {
				root = types.ExprString(call.Args[1])
			}
			isObj := func(e ast.Expr, o types.Object) bool {
				id, ok := ast.Unparen(e).(*ast.Ident)
				return ok && o != nil && info.Uses[id] == o
			}
			facts := func(cond ast.Expr, truth bool) uint32 {
				be, ok := ast.Unparen(cond).(*ast.BinaryExpr)
				if !ok || (be.Op != token.EQL && be.Op != token.NEQ) {
					return 0
				}
				eq := (be.Op == token.EQL) == truth // on this edge the two sides are equal
				switch {
				case isObj(be.X, errObj) && info.Types[be.Y].IsNil(), isObj(be.Y, errObj) && info.Types[be.X].IsNil():
					if eq {
						return 1 // err == nil
					}
				case isObj(be.X, dObj) && info.Types[be.Y].IsNil(), isObj(be.Y, dObj) && info.Types[be.X].IsNil():
					if !eq {
						return 1 // d != nil
					}
				case isObj(be.X, pathObj) && types.ExprString(be.Y) == root, isObj(be.Y, pathObj) && types.ExprString(be.X) == root:
					if !eq {
						return 1 // not the root entry (the only call with a nil entry is the one for the root)
					}
				}
				return 0
			}
			g := L.CFGBody(fi.Pkg, fl.Body)
			mf := &mustFlow{G: g, Init: 0,
				Transfer: func(n ast.Node, s uint32) uint32 { return s },
				Edge: func(b *cfg.Block, i int, s uint32) uint32 {
					if len(b.Nodes) == 0 {
						return s
					}
					if cond, ok := b.Nodes[len(b.Nodes)-1].(ast.Expr); ok {
						return s | facts(cond, i == 0)
					}
					return s
				}}
			mf.Run()
			for _, b := range g.Blocks {
				if !b.Live {
					continue
				}
				for i, nd := range b.Nodes {
					ast.Inspect(nd, func(y ast.Node) bool {
						if _, isLit := y.(*ast.FuncLit); isLit {
							return false
						}
						sel, ok := y.(*ast.SelectorExpr)
						if !ok || !isObj(sel.X, dObj) {
							return true
						}
						n++
						key := L.QName(fi.Obj) + "|WalkDir callback uses " + params[1].Name + "." + sel.Sel.Name
						if n > 1 {
							key += fmt.Sprintf(" #%d", n)
						}
						// a condition block's own later operands are covered by the edge facts of the earlier ones; within a block the state is the block's
						if mf.StateAt(b, i)&1 != 0 {
							r.OK(key, sel.Pos(), "reached only for a readable entry (error tested, entry tested, or not the root)")
						} else {
							r.Bad(key, sel.Pos(), "the directory entry is used on a path on which neither the error nor the entry was tested and the entry may be the root: for an import of a directory that does not exist (or a path through a file) WalkDir calls the callback with a nil entry and the frontend crashes")
						}
						return true
					})
				}
			}
			return true
		})
	})
}
