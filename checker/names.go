package main

import (
	"crypto/sha1"
	"encoding/json"
	"fmt"
	"go/ast"
	"go/token"
	"go/types"
	"os"
	"sort"
	"strings"

	"golang.org/x/tools/go/packages"
)

// Reference table of names (golden/names.json, written by hand-run `./check.sh XNAMES quick`): for every function and
// method of the repository its parameter/result types and the shape of its body with all identifiers blanked, for every
// struct its fields in order. It is used for one thing only: to recognise a PURE RENAME. When a name of the table is gone
// and exactly one new name of the same package and receiver has the same types and the same shape, the rules and the
// evaluator's models keep knowing the object by its old name (renamedObjs). Likewise a struct with the same number of
// fields whose i-th field changed its name but not its type. Nothing is judged with this table; a function whose body
// changed together with its name is simply not re-bound and the rule that needs it reports the missing anchor.
type nameTable struct {
	Funcs   map[string]nameFunc   `json:"funcs"`   // "<pkg rel>.<shortName>"
	Structs map[string][][]string `json:"structs"` // "<pkg rel>.<Type>" -> [[field, type], ...]
}

type nameFunc struct {
	Sig   string `json:"sig"`
	Shape string `json:"shape"`
}

func typeKey(t types.Type) string {
	return types.TypeString(t, func(p *types.Package) string { return p.Path() })
}

func sigKey(sig *types.Signature) string {
	var parts []string
	for i := 0; i < sig.Params().Len(); i++ {
		parts = append(parts, typeKey(sig.Params().At(i).Type()))
	}
	parts = append(parts, "->")
	for i := 0; i < sig.Results().Len(); i++ {
		parts = append(parts, typeKey(sig.Results().At(i).Type()))
	}
	if sig.Variadic() {
		parts = append(parts, "...")
	}
	return strings.Join(parts, ",")
}

// shapeOf: hash of the syntax tree of a function with every identifier blanked (literals and operators kept).
func shapeOf(fd *ast.FuncDecl) string {
	var b strings.Builder
	ast.Inspect(fd, func(n ast.Node) bool {
		if n == nil {
			b.WriteString(")")
			return true
		}
		switch x := n.(type) {
		case *ast.Ident:
			b.WriteString("(id")
		case *ast.BasicLit:
			b.WriteString("(lit:" + x.Value)
		case *ast.BinaryExpr:
			b.WriteString("(bin:" + x.Op.String())
		case *ast.UnaryExpr:
			b.WriteString("(un:" + x.Op.String())
		case *ast.AssignStmt:
			b.WriteString("(as:" + x.Tok.String())
		case *ast.IncDecStmt:
			b.WriteString("(inc:" + x.Tok.String())
		case *ast.BranchStmt:
			b.WriteString("(br:" + x.Tok.String())
		case *ast.CommentGroup, *ast.Comment:
			b.WriteString("(")
			return false
		default:
			b.WriteString(fmt.Sprintf("(%T", n))
		}
		return true
	})
	return fmt.Sprintf("%x", sha1.Sum([]byte(b.String())))
}

func recvPrefix(short string) string {
	if i := strings.LastIndex(short, "."); i >= 0 {
		return short[:i+1]
	}
	return ""
}

func collectNames(pkgs []*packages.Package) (nameTable, map[string]*types.Func, map[string]*types.Struct) {
	t := nameTable{Funcs: map[string]nameFunc{}, Structs: map[string][][]string{}}
	objs := map[string]*types.Func{}
	structs := map[string]*types.Struct{}
	for _, p := range pkgs {
		if !strings.HasPrefix(p.PkgPath, modPath) {
			continue
		}
		rel := strings.TrimPrefix(p.PkgPath, modPath)
		for _, f := range p.Syntax {
			for _, d := range f.Decls {
				switch x := d.(type) {
				case *ast.FuncDecl:
					obj, _ := p.TypesInfo.Defs[x.Name].(*types.Func)
					if obj == nil || x.Body == nil {
						continue
					}
					k := rel + "." + rawShortName(obj)
					t.Funcs[k] = nameFunc{Sig: sigKey(obj.Type().(*types.Signature)), Shape: shapeOf(x)}
					objs[k] = obj
				case *ast.GenDecl:
					if x.Tok != token.TYPE {
						continue
					}
					for _, sp := range x.Specs {
						ts := sp.(*ast.TypeSpec)
						tn, _ := p.TypesInfo.Defs[ts.Name].(*types.TypeName)
						if tn == nil {
							continue
						}
						st, ok := tn.Type().Underlying().(*types.Struct)
						if !ok {
							continue
						}
						var fl [][]string
						for i := 0; i < st.NumFields(); i++ {
							fl = append(fl, []string{st.Field(i).Name(), typeKey(st.Field(i).Type())})
						}
						t.Structs[rel+"."+tn.Name()] = fl
						structs[rel+"."+tn.Name()] = st
					}
				}
			}
		}
	}
	return t, objs, structs
}

// rawShortName: shortName without looking through renames.
func rawShortName(f *types.Func) string {
	sig := f.Type().(*types.Signature)
	if r := sig.Recv(); r != nil {
		t := r.Type()
		ptr := false
		if p, ok := t.(*types.Pointer); ok {
			t = p.Elem()
			ptr = true
		}
		n := "?"
		if nt, ok := t.(*types.Named); ok {
			n = nt.Obj().Name()
		}
		if ptr {
			return "(*" + n + ")." + f.Name()
		}
		return "(" + n + ")." + f.Name()
	}
	return f.Name()
}

func namesFile() string { return verifHome() + "/checker/golden/names.json" }

// rebindRenames fills renamedObjs from the reference table.
func rebindRenames(fset *token.FileSet, pkgs []*packages.Package) {
	renamedObjs = map[types.Object]string{}
	b, err := os.ReadFile(namesFile())
	if err != nil {
		return
	}
	var ref nameTable
	if json.Unmarshal(b, &ref) != nil {
		return
	}
	cur, objs, structs := collectNames(pkgs)
	// functions: per package and receiver, names of the table that are gone vs. names that are new
	byGroup := map[string][2][]string{}
	group := func(k string) string {
		i := strings.LastIndex(k, ".")
		return k[:i+1]
	}
	for k := range ref.Funcs {
		if _, ok := cur.Funcs[k]; !ok {
			g := byGroup[group(k)]
			g[0] = append(g[0], k)
			byGroup[group(k)] = g
		}
	}
	for k := range cur.Funcs {
		if _, ok := ref.Funcs[k]; !ok {
			g := byGroup[group(k)]
			g[1] = append(g[1], k)
			byGroup[group(k)] = g
		}
	}
	var notes []string
	for _, g := range byGroup {
		gone, fresh := g[0], g[1]
		sort.Strings(gone)
		sort.Strings(fresh)
		used := map[string]bool{}
		for _, old := range gone {
			var cands []string
			for _, nw := range fresh {
				if !used[nw] && cur.Funcs[nw].Sig == ref.Funcs[old].Sig && cur.Funcs[nw].Shape == ref.Funcs[old].Shape {
					cands = append(cands, nw)
				}
			}
			if len(cands) == 1 {
				used[cands[0]] = true
				renamedObjs[objs[cands[0]]] = old[strings.LastIndex(old, ".")+1:]
				notes = append(notes, cands[0]+" is known to the rules as "+old)
			}
		}
	}
	for k, oldFields := range ref.Structs {
		st := structs[k]
		if st == nil || st.NumFields() != len(oldFields) {
			continue
		}
		for i, of := range oldFields {
			f := st.Field(i)
			if f.Name() != of[0] && typeKey(f.Type()) == of[1] {
				renamedObjs[f] = of[0]
				notes = append(notes, k+"."+f.Name()+" is known to the rules as "+of[0])
			}
		}
	}
	sort.Strings(notes)
	for _, n := range notes {
		fmt.Println("rename recognised:", n)
	}
}

func init() {
	registry["XNAMES"] = func(c *Check) {
		t, _, _ := collectNames(c.L.Pkgs)
		b, _ := json.MarshalIndent(t, "", " ")
		os.MkdirAll(verifHome()+"/checker/golden", 0o755)
		if err := os.WriteFile(namesFile(), b, 0o644); err != nil {
			fmt.Println("cannot write", namesFile(), err)
			return
		}
		fmt.Printf("%s: %d functions, %d structs\n", namesFile(), len(t.Funcs), len(t.Structs))
	}
}
