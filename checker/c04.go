package main

import (
	"fmt"
	"go/ast"
	"go/token"
	"go/types"
	"golang.org/x/tools/go/packages"
	"strings"

	"golang.org/x/tools/go/cfg"
)

func init() { registry["C04"] = checkC04 }

func checkC04(c *Check) {
	L := c.L
	c.Expl = "Structural mechanisms behind 'statically ill-formed programs are never accepted': every parsed statement passes the resolver and the type checker (R4.1); the loop-depth counter, scope stack and current-function marker are balanced on every path (R4.2); for every static fault class of the property the diagnostic exists in its function and is control-dependent on the guarding predicate (R4.3); the type checker's admissibility tables - operators, casts and every value context (initialiser, assignment, argument, Referenz argument, return, condition, loop header, list literal, indexing) - evaluated cell-wise over the type classes (engine E2) admit nothing that the reference table of DDP's static rules rejects (R4.4); sibling rules agree (R4.5). Not decided: that the predicates are right for every program beyond the class representatives; name resolution for every scope shape."
	checkC04SpeculativeErrors(c)
	checkRedeclarationAlwaysReported(c)
	checkSilentEvaluation(c, c.Rule("R4.8", "a trial type check (EvaluateSilent) leaves the shared diagnostic state as it found it", 1))
	// R4.4 / R4.5 on the cell tables
	lines, t, ctx, _ := computeAllCheckerLines(L, c.Tier)
	r4 := c.Rule("R4.4", "the type checker admits no (operator | context, type classes) combination that the reference table rejects", 1000)
	compareWithGolden(c, r4, lines, func(string) bool { return true }, map[string]bool{"admit": true})
	r5 := c.Rule("R4.5", "sibling rules agree: index operand of an assignable indexing vs. the STELLE operator; slice bounds", 50)
	okn := 0
	for _, a := range t.Classes {
		for _, b := range t.Classes {
			k1, k2 := cellKey("INDEXING (assignable)", a, b), cellKey("BIN_INDEX", a, b)
			c1, c2 := ctx[k1], t.Binary[k2]
			if c1 == nil || c2 == nil {
				continue
			}
			a1, d1 := c1.Admitted()
			a2, d2 := c2.Admitted()
			if !d1 || !d2 {
				continue
			}
			if a1 != a2 {
				r5.Bad("INDEXING vs BIN_INDEX "+cellKey("", a, b), token.NoPos, "indexing as an assignment target/Referenz and indexing as a value disagree on ("+a.String()+", "+b.String()+"): one position accepts what the other rejects")
			} else {
				okn++
			}
		}
	}
	if okn > 0 {
		in := r5.add(OK, "agreeing cells", token.NoPos, "both positions give the same verdict")
		in.N = okn
	}
	c.extra["cells_total"] = len(lines)
	var cls []string
	for _, d := range t.Classes {
		cls = append(cls, d.String())
	}
	c.extra["classes"] = cls

	checkEveryStatementChecked(c)
	checkPairing(c)
	checkFaultClasses(c)
	checkGenderTables(c)
}

// R4.1
func checkEveryStatementChecked(c *Check) {
	L := c.L
	r := c.Rule("R4.1", "every parsed statement is resolved and type checked", 4)
	pp := L.ByRel["src/parser"]
	info := pp.TypesInfo
	decl := L.Fn("src/parser.(*parser).declaration")
	cd := L.Fn("src/parser.(*parser).checkedDeclaration")
	cs := L.Fn("src/parser.(*parser).checkStatement")
	if decl == nil || cd == nil || cs == nil {
		r.Und("parser productions", token.NoPos, "declaration/checkedDeclaration/checkStatement not found")
		return
	}
	for _, s := range L.CallSites(decl.Obj) {
		q := L.QName(s.Fn.Obj)
		r.Decide(s.Fn == cd, q+"|calls declaration()", s.Call.Pos(), "only checkedDeclaration parses statements", "declaration() is called outside checkedDeclaration: the statement it returns bypasses the resolver and the type checker")
	}
	// in checkedDeclaration: every return of a non-nil stmt passes checkStatement(stmt)
	g := L.CFG(cd)
	var stmtObj types.Object
	ast.Inspect(cd.Decl.Body, func(n ast.Node) bool {
		if as, ok := n.(*ast.AssignStmt); ok && len(as.Rhs) == 1 {
			if call, ok := as.Rhs[0].(*ast.CallExpr); ok && Callee(info, call) == decl.Obj {
				if id, ok := as.Lhs[0].(*ast.Ident); ok {
					stmtObj = info.Defs[id]
				}
			}
		}
		return true
	})
	mf := &mustFlow{G: g, Init: 0,
		Transfer: func(n ast.Node, s uint32) uint32 {
			callsIn(n, func(call *ast.CallExpr) {
				if Callee(info, call) == cs.Obj {
					s |= 1
				}
			})
			return s
		},
		Edge: func(b *cfg.Block, i int, s uint32) uint32 {
			// on the edge where stmt == nil nothing needs checking
			if len(b.Nodes) == 0 {
				return s
			}
			if be, ok := b.Nodes[len(b.Nodes)-1].(*ast.BinaryExpr); ok && (be.Op == token.NEQ || be.Op == token.EQL) {
				if id, ok := ast.Unparen(be.X).(*ast.Ident); ok && info.Uses[id] == stmtObj && info.Types[be.Y].IsNil() {
					nilEdge := (be.Op == token.EQL) == (i == 0)
					if nilEdge {
						return s | 1
					}
				}
			}
			return s
		}}
	mf.Run()
	okc, found := true, false
	for _, b := range g.Blocks {
		for i, n := range b.Nodes {
			if _, ok := n.(*ast.ReturnStmt); ok {
				found = true
				if mf.StateAt(b, i)&1 == 0 {
					okc = false
				}
			}
		}
	}
	r.Decide(found && okc && stmtObj != nil, "parser.(*parser).checkedDeclaration|checkStatement on every non-nil path", cd.Decl.Pos(), "every non-nil statement passes checkStatement before it is returned", "checkedDeclaration can return a parsed statement without passing it to checkStatement")
	// checkStatement runs both phases
	res, typ := false, false
	ast.Inspect(cs.Decl.Body, func(n ast.Node) bool {
		if call, ok := n.(*ast.CallExpr); ok {
			if fn := Callee(info, call); fn != nil {
				switch L.QName(fn) {
				case "resolver.(*Resolver).ResolveNode":
					res = true
				case "typechecker.(*Typechecker).TypecheckNode":
					typ = true
				}
			}
		}
		return true
	})
	// both calls must be unconditional (top-level statements of the body)
	top := 0
	for _, st := range cs.Decl.Body.List {
		if es, ok := st.(*ast.ExprStmt); ok {
			if call, ok := es.X.(*ast.CallExpr); ok {
				if fn := Callee(info, call); fn != nil && (L.QName(fn) == "resolver.(*Resolver).ResolveNode" || L.QName(fn) == "typechecker.(*Typechecker).TypecheckNode") {
					top++
				}
			}
		}
	}
	r.Decide(res && typ && top == 2, "parser.(*parser).checkStatement|resolve and typecheck", cs.Decl.Pos(), "ResolveNode and TypecheckNode run unconditionally", "checkStatement does not unconditionally run both ResolveNode and TypecheckNode")
	// generic instantiation bodies and function bodies go through blockStatement → checkedDeclaration
	if bs := L.Fn("src/parser.(*parser).blockStatement"); bs != nil {
		uses := false
		ast.Inspect(bs.Decl.Body, func(n ast.Node) bool {
			if call, ok := n.(*ast.CallExpr); ok && Callee(info, call) == cd.Obj {
				uses = true
			}
			return true
		})
		r.Decide(uses, "parser.(*parser).blockStatement|uses checkedDeclaration", bs.Decl.Pos(), "block bodies are parsed statement-wise through checkedDeclaration", "blockStatement does not parse its statements through checkedDeclaration")
	}
}

// R4.2 pairing
func checkPairing(c *Check) {
	L := c.L
	r := c.Rule("R4.2", "LoopDepth++/--, setScope/exitScope and currentFunction set/reset are balanced on every path", 8)
	pp := L.ByRel["src/parser"]
	info := pp.TypesInfo
	L.ForEachFunc([]string{"src/parser"}, func(fi *FuncInfo) {
		q := L.QName(fi.Obj)
		// collect acquire/release events
		type ev struct{ kind string }
		classify := func(n ast.Node) (string, int) {
			switch s := n.(type) {
			case *ast.IncDecStmt:
				if v := fieldOf(info, s.X); v != nil && nameIs(v, "LoopDepth") {
					if s.Tok == token.INC {
						return "LoopDepth", +1
					}
					return "LoopDepth", -1
				}
			case *ast.ExprStmt:
				if call, ok := s.X.(*ast.CallExpr); ok {
					// only the method's own receiver counts (a freshly built nested parser is a different object)
					if sel, ok := call.Fun.(*ast.SelectorExpr); ok {
						if id, ok := sel.X.(*ast.Ident); ok && fi.Decl.Recv != nil && len(fi.Decl.Recv.List[0].Names) == 1 && info.Uses[id] != info.Defs[fi.Decl.Recv.List[0].Names[0]] {
							return "", 0
						}
					}
					if fn := Callee(info, call); fn != nil {
						switch L.QName(fn) {
						case "parser.(*parser).setScope":
							return "scope", +1
						case "parser.(*parser).exitScope":
							return "scope", -1
						}
					}
				}
			case *ast.AssignStmt:
				if len(s.Lhs) == 1 {
					if v := fieldOf(info, s.Lhs[0]); v != nil && nameIs(v, "currentFunction") && isField(v, "parser", "parser", "currentFunction") {
						if info.Types[s.Rhs[0]].IsNil() {
							return "currentFunction", -1
						}
						return "currentFunction", +1
					}
				}
			}
			return "", 0
		}
		kinds := map[string]bool{}
		ast.Inspect(fi.Decl.Body, func(n ast.Node) bool {
			if k, d := classify(n); d != 0 {
				kinds[k] = true
			}
			return true
		})
		if len(kinds) == 0 {
			return
		}
		g := L.CFG(fi)
		for k := range kinds {
			// depth analysis: forward propagation of the set of possible depths (bounded 0..3); at every return depth must be 0
			depth := map[*cfg.Block]map[int]bool{}
			if len(g.Blocks) == 0 {
				continue
			}
			depth[g.Blocks[0]] = map[int]bool{0: true}
			bad := ""
			changed := true
			for iter := 0; changed && iter < 50; iter++ {
				changed = false
				for _, b := range g.Blocks {
					in := depth[b]
					if !b.Live || in == nil {
						continue
					}
					out := map[int]bool{}
					for d := range in {
						out[d] = true
					}
					for _, n := range b.Nodes {
						if kk, dd := classify(n); kk == k {
							nxt := map[int]bool{}
							for d := range out {
								nd := d + dd
								if nd < -2 || nd > 4 {
									continue
								}
								nxt[nd] = true
							}
							out = nxt
						}
						if _, ok := n.(*ast.ReturnStmt); ok {
							for d := range out {
								if d != 0 {
									bad = L.Pos(n.Pos())
								}
							}
						}
					}
					if len(b.Succs) == 0 && !endsInReturn(b) && !endsInNoReturn(L, fi, b) {
						for d := range out {
							if d != 0 {
								bad = "end of function"
							}
						}
					}
					for _, s := range b.Succs {
						if depth[s] == nil {
							depth[s] = map[int]bool{}
						}
						for d := range out {
							if !depth[s][d] {
								depth[s][d] = true
								changed = true
							}
						}
					}
				}
			}
			if k == "scope" && (strings.HasSuffix(q, ".setScope") || strings.HasSuffix(q, ".exitScope")) {
				continue
			}
			r.Decide(bad == "", q+"|"+k, fi.Decl.Pos(), "acquire/release balanced on every path to a return", k+" is not balanced on the path ending at "+bad+": a later statement is checked with a wrong loop depth / scope / function context")
		}
	})
}

// ---- R4.3 ----

type emission struct {
	fi    *FuncInfo
	call  *ast.CallExpr
	code  string
	atoms []string
}

// guardAtoms: the resolved functions, fields and constants the conditions enclosing n depend on (one level of local data flow).
func guardAtoms(L *Loaded, fi *FuncInfo, n ast.Node) []string {
	info := fi.Pkg.TypesInfo
	set := map[string]bool{}
	var fromExpr func(e ast.Expr, depth int)
	fromExpr = func(e ast.Expr, depth int) {
		if e == nil {
			return
		}
		ast.Inspect(e, func(m ast.Node) bool {
			switch x := m.(type) {
			case *ast.FuncLit:
				return false
			case *ast.CallExpr:
				if fn := Callee(info, x); fn != nil {
					set["call:"+fn.Name()] = true
				}
			case *ast.SelectorExpr:
				if v := fieldOf(info, x); v != nil {
					set["field:"+v.Name()] = true
				}
				if cst, ok := info.Uses[x.Sel].(*types.Const); ok {
					set["const:"+cst.Name()] = true
				}
			case *ast.Ident:
				if v, ok := info.Uses[x].(*types.Var); ok && !v.IsField() && depth < 2 {
					// defining assignments of the local
					ast.Inspect(fi.Decl.Body, func(k ast.Node) bool {
						switch as := k.(type) {
						case *ast.AssignStmt:
							for i, l := range as.Lhs {
								if id, ok := l.(*ast.Ident); ok && (info.Defs[id] == v || info.Uses[id] == v) {
									if len(as.Rhs) == len(as.Lhs) {
										fromExpr(as.Rhs[i], depth+1)
									} else {
										fromExpr(as.Rhs[0], depth+1)
									}
								}
							}
						case *ast.ValueSpec:
							for i, id := range as.Names {
								if info.Defs[id] == v && i < len(as.Values) {
									fromExpr(as.Values[i], depth+1)
								}
							}
						}
						return true
					})
				}
				if cst, ok := info.Uses[x].(*types.Const); ok {
					set["const:"+cst.Name()] = true
				}
			case *ast.TypeAssertExpr:
				if x.Type != nil {
					set["type:"+L.Src(x.Type)] = true
				}
			}
			return true
		})
	}
	// enclosing conditions
	var stack []ast.Node
	var visit func(root ast.Node) bool
	found := false
	visit = func(root ast.Node) bool {
		ast.Inspect(root, func(m ast.Node) bool {
			if found {
				return false
			}
			if m == nil {
				stack = stack[:len(stack)-1]
				return true
			}
			stack = append(stack, m)
			if m == n {
				found = true
				for i, s := range stack {
					switch st := s.(type) {
					case *ast.IfStmt:
						fromExpr(st.Cond, 0)
						if st.Init != nil {
							if as, ok := st.Init.(*ast.AssignStmt); ok {
								for _, r := range as.Rhs {
									fromExpr(r, 1)
								}
							}
						}
					case *ast.SwitchStmt:
						fromExpr(st.Tag, 0)
					case *ast.TypeSwitchStmt:
						if es, ok := st.Assign.(*ast.ExprStmt); ok {
							fromExpr(es.X, 0)
						}
						if as, ok := st.Assign.(*ast.AssignStmt); ok {
							fromExpr(as.Rhs[0], 0)
						}
					case *ast.CaseClause:
						for _, e := range st.List {
							if tv, ok := info.Types[e]; ok && tv.IsType() {
								set["type:"+L.Src(e)] = true
							} else {
								fromExpr(e, 0)
							}
						}
					case *ast.ForStmt:
						fromExpr(st.Cond, 0)
					}
					// guard clauses: an earlier `if c { ...; return/continue/break }` of the same statement list also
					// decides whether the node is reached
					var list []ast.Stmt
					switch st := s.(type) {
					case *ast.BlockStmt:
						list = st.List
					case *ast.CaseClause:
						list = st.Body
					}
					if list != nil && i+1 < len(stack) {
						for _, prev := range list {
							if ast.Node(prev) == stack[i+1] {
								break
							}
							is, ok := prev.(*ast.IfStmt)
							if !ok || is.Else != nil || len(is.Body.List) == 0 {
								continue
							}
							leaves := false
							switch last := is.Body.List[len(is.Body.List)-1].(type) {
							case *ast.ReturnStmt:
								leaves = true
							case *ast.BranchStmt:
								leaves = last.Tok == token.CONTINUE || last.Tok == token.BREAK || last.Tok == token.GOTO
							case *ast.ExprStmt:
								if call, ok := last.X.(*ast.CallExpr); ok {
									leaves = L.noReturn(fi.Pkg, call)
								}
							}
							if leaves {
								fromExpr(is.Cond, 0)
								if is.Init != nil {
									if as, ok := is.Init.(*ast.AssignStmt); ok {
										for _, r := range as.Rhs {
											fromExpr(r, 1)
										}
									}
								}
							}
						}
					}
				}
				return false
			}
			return true
		})
		return found
	}
	visit(fi.Decl.Body)
	var out []string
	for k := range set {
		out = append(out, k)
	}
	sortStrings(out)
	return out
}

func sortStrings(s []string) {
	for i := 1; i < len(s); i++ {
		for j := i; j > 0 && s[j] < s[j-1]; j-- {
			s[j], s[j-1] = s[j-1], s[j]
		}
	}
}

func collectEmissions(L *Loaded) []emission {
	var out []emission
	L.ForEachFunc([]string{"src/parser", "src/parser/resolver", "src/parser/typechecker"}, func(fi *FuncInfo) {
		info := fi.Pkg.TypesInfo
		ast.Inspect(fi.Decl.Body, func(n ast.Node) bool {
			call, ok := n.(*ast.CallExpr)
			if !ok || len(call.Args) == 0 {
				return true
			}
			fn := Callee(info, call)
			if fn == nil {
				return true
			}
			switch canonName(fn) {
			case "err", "errExpr", "errVal", "New":
			default:
				return true
			}
			sel, ok := ast.Unparen(call.Args[0]).(*ast.SelectorExpr)
			if !ok {
				return true
			}
			cst, ok := info.Uses[sel.Sel].(*types.Const)
			if !ok || cst.Pkg() == nil || !nameIs(cst.Pkg(), "ddperror") {
				return true
			}
			out = append(out, emission{fi, call, cst.Name(), guardAtoms(L, fi, call)})
			return true
		})
	})
	return out
}

func init() {
	registry["XEMIT"] = func(c *Check) {
		for _, e := range collectEmissions(c.L) {
			println(e.code, "\t", c.L.QName(e.fi.Obj), "\t", c.L.Pos(e.call.Pos()), "\t", strings.Join(e.atoms, " "))
		}
	}
}

// R4.7: diagnostics raised while an argument of a call is parsed speculatively are delivered with every candidate that
// uses the argument, whether it was parsed just now or taken from the cache; and alias() hands the collected diagnostics of
// the candidate it returns to the error handler.
func checkC04SpeculativeErrors(c *Check) {
	L := c.L
	r := c.Rule("R4.7", "diagnostics of speculatively parsed call arguments reach the error handler with the candidate that is returned", 3)
	pp := L.ByRel["src/parser"]
	info := pp.TypesInfo
	fi := L.Fn("src/parser.(*parser).checkAlias")
	if fi == nil {
		r.Und("parser.(*parser).checkAlias", token.NoPos, "function not found")
		return
	}
	// objects: the cache entry variable, the collected-errors variable
	var cached, reported types.Object
	ast.Inspect(fi.Decl.Body, func(n ast.Node) bool {
		as, ok := n.(*ast.AssignStmt)
		if !ok {
			return true
		}
		for i, l := range as.Lhs {
			id, ok := l.(*ast.Ident)
			if !ok || info.Defs[id] == nil {
				continue
			}
			t := info.Defs[id].Type().String()
			if strings.HasSuffix(t, "parser.cachedArg") && cached == nil {
				cached = info.Defs[id]
			}
			if strings.HasSuffix(t, "[]github.com/DDP-Projekt/Kompilierer/src/ddperror.Error") && reported == nil && i < len(as.Rhs) {
				reported = info.Defs[id]
			}
		}
		return true
	})
	if cached == nil || reported == nil {
		r.Und("parser.(*parser).checkAlias|argument cache", fi.Decl.Pos(), "the cache entry or the collected-errors variable was not found")
		return
	}
	uses := func(n ast.Node, o types.Object) bool {
		f := false
		ast.Inspect(n, func(x ast.Node) bool {
			if id, ok := x.(*ast.Ident); ok && info.Uses[id] == o {
				f = true
			}
			return true
		})
		return f
	}
	// fact: the errors of the current cache entry have been forwarded to the collected errors
	forwards := func(n ast.Node) bool {
		f := false
		ast.Inspect(n, func(x ast.Node) bool {
			switch y := x.(type) {
			case *ast.AssignStmt:
				// reported = append(reported, cached.Errors...)
				if len(y.Lhs) == 1 && len(y.Rhs) == 1 {
					if id, ok := y.Lhs[0].(*ast.Ident); ok && info.Uses[id] == reported {
						if call, ok := y.Rhs[0].(*ast.CallExpr); ok && len(call.Args) >= 2 && uses(call.Args[0], reported) {
							if sel, ok := ast.Unparen(call.Args[1]).(*ast.SelectorExpr); ok && sel.Sel.Name == "Errors" && uses(sel.X, cached) {
								f = true
							}
						}
					}
				}
			case *ast.FuncLit:
				// an error handler that appends every error to both the collected errors and the cache entry
				toRep, toCache := false, false
				ast.Inspect(y.Body, func(z ast.Node) bool {
					if as, ok := z.(*ast.AssignStmt); ok && len(as.Lhs) == 1 && len(as.Rhs) == 1 {
						if call, ok := as.Rhs[0].(*ast.CallExpr); ok && len(call.Args) == 2 {
							if id, ok := as.Lhs[0].(*ast.Ident); ok && info.Uses[id] == reported {
								toRep = true
							}
							if sel, ok := as.Lhs[0].(*ast.SelectorExpr); ok && sel.Sel.Name == "Errors" && uses(sel.X, cached) {
								toCache = true
							}
						}
					}
					return true
				})
				if toRep && toCache {
					f = true
				}
				return false
			}
			return true
		})
		return f
	}
	g := L.CFG(fi)
	mf := &mustFlow{G: g, Init: 0, Transfer: func(n ast.Node, s uint32) uint32 {
		if as, ok := n.(*ast.AssignStmt); ok {
			for _, l := range as.Lhs {
				if id, ok := l.(*ast.Ident); ok && (info.Defs[id] == cached || info.Uses[id] == cached) {
					s &^= 1 // a new cache entry is current
				}
			}
		}
		if forwards(n) {
			s |= 1
		}
		return s
	}}
	mf.Run()
	nuse := 0
	for _, b := range g.Blocks {
		if !b.Live {
			continue
		}
		for i, nd := range b.Nodes {
			as, ok := nd.(*ast.AssignStmt)
			if !ok || len(as.Lhs) != 1 || len(as.Rhs) != 1 {
				continue
			}
			// args[name] = cached.Arg : the argument is used for this candidate
			ix, ok := as.Lhs[0].(*ast.IndexExpr)
			if !ok {
				continue
			}
			sel, ok := ast.Unparen(as.Rhs[0]).(*ast.SelectorExpr)
			if !ok || sel.Sel.Name != "Arg" || !uses(sel.X, cached) {
				continue
			}
			_ = ix
			nuse++
			r.Decide(mf.StateAt(b, i)&1 != 0, "parser.(*parser).checkAlias|argument used for the candidate", as.Pos(), "on every path (parsed now or taken from the cache) the argument's diagnostics were added to the candidate's", "an argument is bound to the candidate on a path on which the diagnostics raised while it was parsed were not added to the candidate's diagnostics: when the accepted candidate takes the argument from the cache, an ill-formed argument (wrong article, a constant passed by Referenz) is accepted without any diagnostic and the module is not marked faulty")
		}
	}
	if nuse == 0 {
		r.Und("parser.(*parser).checkAlias|argument used for the candidate", fi.Decl.Pos(), "the binding of a cached argument was not found")
	}
	// alias(): every return of the built call/literal is preceded by apply(p.errorHandler, errs)
	if af := L.Fn("src/parser.(*parser).alias"); af != nil {
		ga := L.CFG(af)
		mfa := &mustFlow{G: ga, Init: 0, Transfer: func(n ast.Node, s uint32) uint32 {
			callsIn(n, func(call *ast.CallExpr) {
				if fn := Callee(info, call); fn != nil && nameIs(fn, "apply") && len(call.Args) == 2 && strings.HasSuffix(types.ExprString(call.Args[0]), "errorHandler") {
					s |= 1
				}
				if fn := Callee(info, call); fn != nil && nameIs(fn, "checkAlias") {
					s &^= 1 // a new candidate's diagnostics are pending
				}
			})
			return s
		}}
		mfa.Run()
		nret := 0
		for _, b := range ga.Blocks {
			if !b.Live {
				continue
			}
			for i, nd := range b.Nodes {
				ret, ok := nd.(*ast.ReturnStmt)
				if !ok || len(ret.Results) != 1 {
					continue
				}
				call, ok := ret.Results[0].(*ast.CallExpr)
				if !ok {
					continue
				}
				if id, ok := call.Fun.(*ast.Ident); !ok || id.Name != "callOrLiteralFromAlias" {
					continue
				}
				nret++
				key := "parser.(*parser).alias|diagnostics delivered before the call is returned"
				if nret > 1 {
					key += fmt.Sprintf(" #%d", nret)
				}
				r.Decide(mfa.StateAt(b, i)&1 != 0, key, ret.Pos(), "apply(errorHandler, errs) precedes the return", "a call built from a candidate is returned without handing the candidate's diagnostics to the error handler")
			}
		}
	}
}

// checkSilentEvaluation (R4.8 / R7.8): (*Typechecker).EvaluateSilent type-checks an expression "on trial" (alias matching,
// Negiere). Whatever the error helper of the type checker writes when a trial fails - the module's Faulty flag and the
// panic-mode flag it shares with the parser through a pointer - and the error handler EvaluateSilent itself swaps out
// must be saved BY VALUE before the evaluation and written back afterwards (directly or in a defer). Otherwise a failed
// trial leaves the parser in panic mode and the diagnostics of the rest of the statement are suppressed.
func checkSilentEvaluation(c *Check, r *Rule) {
	if silentEvaluationByEvaluation(c, r) {
		return
	}
	checkSilentEvaluationSyntactic(c, r)
}

// silentEvaluationByEvaluation decides the rule by running EvaluateSilent (engine E2 with pointer cells and deferred calls)
// against a scripted Evaluate that behaves like a failing trial: it sets the module's Faulty flag and the shared panic
// flag, and notes which handler was installed while it ran. Afterwards the three pieces of state must be what they were
// before - for both initial values of the flags. Whatever form the save/restore has (tuple assignment, defer, a snapshot
// struct, helpers) is the same to it. Returns false when the evaluation loses precision (the syntactic form decides then).
func silentEvaluationByEvaluation(c *Check, r *Rule) bool {
	L := c.L
	fi := L.Fn("src/parser/typechecker.(*Typechecker).EvaluateSilent")
	if fi == nil {
		return false
	}
	type obs struct{ faulty, panicMode, handler, silenced string }
	var problems []string
	for _, initial := range []bool{false, true} {
		in := NewInterp(L)
		in.Pointers, in.Defers = true, true
		in.MaxDepth = 10
		handler0 := newObj("the caller's error handler")
		ptr := newObj("ptr")
		astObj := newObj("ast.Ast")
		mod := newObj("ast.Module")
		mod.set("Ast", astObj)
		tc := newObj("typechecker.Typechecker")
		silenced := "?"
		in.Models["typechecker.(*Typechecker).Evaluate"] = func(in *Interp, pkg *packages.Package, call *ast.CallExpr, recv Val, args []Val) (Val, bool) {
			o, ok := recv.(*Obj)
			if !ok {
				return nil, false
			}
			if h, isObj := o.get("ErrorHandler").(*Obj); isObj && h == handler0 {
				silenced = "no"
			} else {
				silenced = "yes"
			}
			// what the error helper does when the trial fails
			astObj.set("Faulty", boolV(true))
			ptr.set("*", boolV(true))
			return newObj("ddptypes.Type"), true
		}
		var res obs
		runs, _ := in.RunAll(4, func() {
			astObj.set("Faulty", boolV(initial))
			ptr.set("*", boolV(initial))
			tc.set("ErrorHandler", handler0)
			tc.set("Module", mod)
			tc.set("panicMode", ptr)
			silenced = "?"
			in.CallFunc(fi, tc, []Val{newObj("ast.Expression")})
			show := func(v Val) string {
				if t, known := truth(v); known {
					return fmt.Sprint(t)
				}
				return "?"
			}
			res.faulty = show(astObj.get("Faulty"))
			if p, ok := tc.get("panicMode").(*Obj); ok && p == ptr {
				res.panicMode = show(ptr.get("*"))
			} else {
				res.panicMode = "another pointer"
			}
			if h, ok := tc.get("ErrorHandler").(*Obj); ok && h == handler0 {
				res.handler = "restored"
			} else {
				res.handler = "not restored"
			}
			res.silenced = silenced
		})
		if runs != 1 || res.faulty == "?" || res.panicMode == "?" || res.silenced == "?" {
			return false
		}
		want := fmt.Sprint(initial)
		if res.silenced != "yes" {
			problems = append(problems, "the caller's error handler is still installed during the trial")
		}
		if res.faulty != want {
			problems = append(problems, fmt.Sprintf("Module.Ast.Faulty was %v before a failing trial and is %s after it", initial, res.faulty))
		}
		if res.panicMode != want {
			problems = append(problems, fmt.Sprintf("the shared panic flag was %v before a failing trial and is %s after it", initial, res.panicMode))
		}
		if res.handler != "restored" {
			problems = append(problems, "the caller's error handler is not put back")
		}
	}
	r.Decide(len(problems) == 0, "typechecker.(*Typechecker).EvaluateSilent|state after a failing trial", fi.Decl.Pos(), "evaluated with the flags false and true: Faulty flag, shared panic flag and handler are what they were before; the handler is silenced during the trial", strings.Join(uniq(problems), "; ")+": a failed trial leaves the parser in panic mode (or the module marked faulty), so the diagnostics of the rest of the statement are suppressed and an ill-typed program is accepted")
	return true
}

func checkSilentEvaluationSyntactic(c *Check, r *Rule) {
	L := c.L
	fi := L.Fn("src/parser/typechecker.(*Typechecker).EvaluateSilent")
	errFn := L.Fn("src/parser/typechecker.(*Typechecker).err")
	if fi == nil || errFn == nil {
		r.Und("typechecker.(*Typechecker).EvaluateSilent", token.NoPos, "EvaluateSilent or the error helper not found")
		return
	}
	info := fi.Pkg.TypesInfo
	// access path relative to the receiver: Module.Ast.Faulty, *panicMode
	var path func(e ast.Expr) string
	path = func(e ast.Expr) string {
		switch x := ast.Unparen(e).(type) {
		case *ast.Ident:
			if v, ok := info.Uses[x].(*types.Var); ok && !v.IsField() {
				return "" // the receiver (or a local): root
			}
			return "?"
		case *ast.SelectorExpr:
			p := path(x.X)
			if p == "?" {
				return "?"
			}
			if p != "" {
				p += "."
			}
			return p + selName(info, x)
		case *ast.StarExpr:
			p := path(x.X)
			if p == "?" {
				return "?"
			}
			return "*" + p
		}
		return "?"
	}
	isRecvRooted := func(f *FuncInfo, e ast.Expr) bool {
		for {
			switch x := ast.Unparen(e).(type) {
			case *ast.SelectorExpr:
				e = x.X
			case *ast.StarExpr:
				e = x.X
			case *ast.Ident:
				return isParamOf(info, f, x) && f.Decl.Recv != nil && len(f.Decl.Recv.List) == 1 && len(f.Decl.Recv.List[0].Names) == 1 && info.Uses[x] == info.Defs[f.Decl.Recv.List[0].Names[0]]
			default:
				return false
			}
		}
	}
	footprint := map[string]bool{}
	ast.Inspect(errFn.Decl.Body, func(n ast.Node) bool {
		if as, ok := n.(*ast.AssignStmt); ok {
			for _, l := range as.Lhs {
				if isRecvRooted(errFn, l) {
					if p := path(l); p != "?" && p != "" {
						footprint[p] = true
					}
				}
			}
		}
		return true
	})
	// the evaluation call
	var evalCall *ast.CallExpr
	ast.Inspect(fi.Decl.Body, func(n ast.Node) bool {
		if call, ok := n.(*ast.CallExpr); ok && evalCall == nil {
			if fn := Callee(info, call); fn != nil && nameIs(fn, "Evaluate") {
				evalCall = call
			}
		}
		return true
	})
	if evalCall == nil {
		r.Und("typechecker.(*Typechecker).EvaluateSilent|evaluation", fi.Decl.Pos(), "no call of Evaluate found")
		return
	}
	// what EvaluateSilent itself replaces before the evaluation
	ast.Inspect(fi.Decl.Body, func(n ast.Node) bool {
		if as, ok := n.(*ast.AssignStmt); ok && as.Pos() < evalCall.Pos() && enclosingFuncLit(fi.Decl.Body, as) == nil && as.Tok == token.ASSIGN {
			for _, l := range as.Lhs {
				if isRecvRooted(fi, l) {
					if p := path(l); p != "?" && p != "" {
						footprint[p] = true
					}
				}
			}
		}
		return true
	})
	if len(footprint) < 2 {
		r.Und("typechecker.(*Typechecker).EvaluateSilent|footprint", fi.Decl.Pos(), "the state written by the error helper was not found")
		return
	}
	saved := map[string]types.Object{}
	ast.Inspect(fi.Decl.Body, func(n ast.Node) bool {
		as, ok := n.(*ast.AssignStmt)
		if !ok || as.Tok != token.DEFINE || len(as.Lhs) != len(as.Rhs) || as.Pos() > evalCall.Pos() {
			return true
		}
		for i, rh := range as.Rhs {
			if isRecvRooted(fi, rh) {
				if p := path(rh); footprint[p] {
					if id, ok := as.Lhs[i].(*ast.Ident); ok {
						saved[p] = info.Defs[id]
					}
				}
			}
		}
		return true
	})
	restored := map[string]bool{}
	ast.Inspect(fi.Decl.Body, func(n ast.Node) bool {
		as, ok := n.(*ast.AssignStmt)
		if !ok || as.Tok != token.ASSIGN || len(as.Lhs) != len(as.Rhs) {
			return true
		}
		// after the evaluation in program order, or inside a deferred literal
		inDefer := false
		if fl := enclosingFuncLit(fi.Decl.Body, as); fl != nil {
			if _, isDefer := parentOf(fi.Decl.Body, parentOf(fi.Decl.Body, fl)).(*ast.DeferStmt); isDefer {
				inDefer = true
			}
		}
		if !inDefer && as.Pos() < evalCall.End() {
			return true
		}
		for i, l := range as.Lhs {
			if !isRecvRooted(fi, l) {
				continue
			}
			p := path(l)
			if id, ok := ast.Unparen(as.Rhs[i]).(*ast.Ident); ok && saved[p] != nil && info.Uses[id] == saved[p] {
				restored[p] = true
			}
		}
		return true
	})
	var names []string
	for p := range footprint {
		names = append(names, p)
	}
	sortStrings(names)
	for _, p := range names {
		r.Decide(saved[p] != nil && restored[p], "typechecker.(*Typechecker).EvaluateSilent|"+p+" saved and restored", fi.Decl.Pos(), "saved by value before the trial evaluation and written back after it", "the trial evaluation can change "+p+" (the error helper writes it), and EvaluateSilent does not save its value before and write it back after: a failed trial leaves the flag set, the parser stays in panic mode and the diagnostics of the rest of the statement are suppressed (an ill-typed program is accepted)")
	}
}
