package main

import (
	"encoding/json"
	"fmt"
	"go/token"
	"os"
	"path/filepath"
	"sort"
	"strings"
	"time"
)

// Status of one rule instance.
type Status int

const (
	OK Status = iota
	Bad
	Exempt
	Undecided
	Info
)

func (s Status) String() string {
	return [...]string{"discharged", "violating", "exempt", "undecided", "info"}[s]
}

// Instance is one obligation: a rule applied to one construct of /repo.
type Instance struct {
	Rule   string `json:"rule"`
	Key    string `json:"key"` // rule|function|construct, never a line number
	Pos    string `json:"pos"` // file:line, for the reader
	Msg    string `json:"msg"`
	Status Status `json:"-"`
	St     string `json:"status"`
	N      int    `json:"cells,omitempty"` // weight: number of elementary obligations (cells) this instance stands for
}

type Rule struct {
	ID    string
	Desc  string
	Floor int // minimal number of instances (anchors) that must be found
	Inst  []*Instance
	keys  map[string]int
	c     *Check
}

type Check struct {
	Prop   string
	Tier   string
	Expl   string
	L      *Loaded
	rules  []*Rule
	t0     time.Time
	assume []string
	extra  map[string]any
}

func NewCheck(prop, tier string, L *Loaded) *Check {
	return &Check{Prop: prop, Tier: tier, L: L, t0: time.Now(), extra: map[string]any{}}
}

func (c *Check) Assume(s string) { c.assume = append(c.assume, s) }

func (c *Check) Rule(id, desc string, floor int) *Rule {
	r := &Rule{ID: id, Desc: desc, Floor: floor, keys: map[string]int{}, c: c}
	c.rules = append(c.rules, r)
	return r
}

func (r *Rule) add(st Status, construct string, pos token.Pos, msg string) *Instance {
	key := r.ID + "|" + construct
	r.keys[key]++
	if n := r.keys[key]; n > 1 {
		key = fmt.Sprintf("%s#%d", key, n)
	}
	in := &Instance{Rule: r.ID, Key: key, Pos: r.c.L.Pos(pos), Msg: msg, Status: st, St: st.String()}
	r.Inst = append(r.Inst, in)
	return in
}

// construct is "function|what", stable under line moves.
func (r *Rule) OK(construct string, pos token.Pos, msg string)  { r.add(OK, construct, pos, msg) }
func (r *Rule) Bad(construct string, pos token.Pos, msg string) { r.add(Bad, construct, pos, msg) }
func (r *Rule) Ex(construct string, pos token.Pos, msg string)  { r.add(Exempt, construct, pos, msg) }
func (r *Rule) Und(construct string, pos token.Pos, msg string) {
	r.add(Undecided, construct, pos, msg)
}
func (r *Rule) Info(construct string, pos token.Pos, msg string) { r.add(Info, construct, pos, msg) }

// Decide adds OK when cond holds, otherwise Bad.
func (r *Rule) Decide(cond bool, construct string, pos token.Pos, okMsg, badMsg string) {
	if cond {
		r.OK(construct, pos, okMsg)
	} else {
		r.Bad(construct, pos, badMsg)
	}
}

// OKStr etc: variants with explicit position string (C sources, DDP sources).
func (r *Rule) AddAt(st Status, construct, pos, msg string) {
	in := r.add(st, construct, token.NoPos, msg)
	in.Pos = pos
}

type knownFile struct {
	Findings []struct {
		Property string `json:"property"`
		Key      string `json:"key"`
		What     string `json:"what"`
		Witness  string `json:"witness,omitempty"`
	} `json:"findings"`
	Fixed []json.RawMessage `json:"fixed"`
}

func verifDir() string {
	if d := os.Getenv("VERIF_DIR"); d != "" {
		return d
	}
	return "/verif"
}

// Finish prints the report, writes evidence and replay files, and returns the exit code.
func (c *Check) Finish() int {
	var kf knownFile
	if b, err := os.ReadFile(filepath.Join(verifDir(), "known_findings.json")); err == nil {
		if err := json.Unmarshal(b, &kf); err != nil {
			fmt.Println("cannot parse known_findings.json:", err)
			return 2
		}
	}
	known := map[string]string{}
	for _, f := range kf.Findings {
		if f.Property == c.Prop {
			known[f.Key] = f.What
		}
	}
	outDir := filepath.Join(verifDir(), "out", c.Prop)
	os.RemoveAll(outDir)
	os.MkdirAll(outDir, 0o755)

	type ruleEv struct {
		Rule       string `json:"rule"`
		Desc       string `json:"desc"`
		Instances  int    `json:"instances"`
		Floor      int    `json:"floor"`
		Discharged int    `json:"discharged"`
		Violating  int    `json:"violating_new"`
		Known      int    `json:"known_findings"`
		Exempt     int    `json:"exempt"`
		Undecided  int    `json:"undecided"`
		Info       int    `json:"info"`
	}
	var revs []ruleEv
	samples := []any{}
	nviol, nobl, ndis, nknown := 0, 0, 0, 0
	replayN := 0
	violate := func(in *Instance) {
		replayN++
		p := filepath.Join(outDir, fmt.Sprintf("%d.json", replayN))
		b, _ := json.MarshalIndent(in, "", " ")
		os.WriteFile(p, b, 0o644)
		fmt.Printf("  %s: %s [%s] %s\n", in.Pos, in.Rule, in.Key, in.Msg)
		fmt.Printf("VIOLATION property=%s replay=%s\n", c.Prop, p)
		nviol++
	}
	for _, r := range c.rules {
		ev := ruleEv{Rule: r.ID, Desc: r.Desc, Floor: r.Floor}
		sort.SliceStable(r.Inst, func(i, j int) bool { return r.Inst[i].Key < r.Inst[j].Key })
		nsamp := 0
		for _, in := range r.Inst {
			w := 1
			if in.N > 1 {
				w = in.N
			}
			if in.Status != Info {
				ev.Instances += w
				nobl += w
			}
			switch in.Status {
			case OK:
				ev.Discharged += w
				ndis += w
			case Exempt:
				ev.Exempt += w
				ndis += w
			case Info:
				ev.Info++
				fmt.Printf("  info %s: %s %s\n", in.Pos, in.Rule, in.Msg)
			case Undecided:
				ev.Undecided++
				in.Msg = "UNDECIDED (the checker cannot decide this instance; not a verdict on the repository): " + in.Msg
				violate(in)
			case Bad:
				if what, ok := known[in.Key]; ok {
					ev.Known++
					nknown++
					in.St = "known-finding"
					fmt.Printf("KNOWN-FINDING: property=%s %s %s (%s: %s)\n", c.Prop, in.Key, what, in.Pos, in.Msg)
				} else {
					ev.Violating++
					violate(in)
				}
			}
			if nsamp < 4 || in.Status == Bad {
				samples = append(samples, in)
				nsamp++
			}
		}
		if ev.Instances < r.Floor {
			violate(&Instance{Rule: r.ID, Key: r.ID + "|floor", Pos: "-", St: "undecided",
				Msg: fmt.Sprintf("UNDECIDED: rule matched %d instances, fewer than the %d confirmed by hand - anchors not resolved, rule would pass vacuously", ev.Instances, r.Floor)})
		}
		revs = append(revs, ev)
		fmt.Printf("rule %-6s %-70s instances=%d discharged=%d exempt=%d known=%d new=%d undecided=%d\n", r.ID, trunc(r.Desc, 70), ev.Instances, ev.Discharged, ev.Exempt, ev.Known, ev.Violating, ev.Undecided)
	}
	cov := map[string]any{
		"explanation":         c.Expl,
		"rules":               revs,
		"obligations":         nobl,
		"discharged":          ndis,
		"known_findings":      nknown,
		"samples":             samples,
		"packages_analysed":   c.L.PkgPaths(),
		"functions_analysed":  c.L.NumFuncs(),
		"evaluations":         nobl,
		"distinct_nontrivial": nobl,
		"rule":                "one obligation per (rule, construct of /repo's current source); all are distinct by key; counted by the checker",
	}
	for k, v := range c.extra {
		cov[k] = v
	}
	ev := map[string]any{
		"property_id": c.Prop,
		"tier":        c.Tier,
		"seed":        0,
		"level":       "other",
		"coverage":    cov,
		"assumptions": append([]string{"go/types, go/ssa, go/cfg and the VTA call graph of golang.org/x/tools are sound for the constructs used", "rules are structural necessary conditions; a green run does not establish the behavioural property"}, c.assume...),
		"wall_s":      time.Since(c.L.T0).Seconds(),
		"violations":  nviol,
	}
	b, _ := json.MarshalIndent(ev, "", " ")
	os.MkdirAll(filepath.Join(verifDir(), "evidence"), 0o755)
	if err := os.WriteFile(filepath.Join(verifDir(), "evidence", c.Prop+".json"), b, 0o644); err != nil {
		fmt.Println("cannot write evidence:", err)
		return 2
	}
	fmt.Printf("%s: %d obligations, %d discharged/exempt, %d known findings, %d violations (%.1fs)\n", c.Prop, nobl, ndis, nknown, nviol, time.Since(c.L.T0).Seconds())
	if nviol > 0 {
		return 1
	}
	return 0
}

func trunc(s string, n int) string {
	if len(s) <= n {
		return s
	}
	return s[:n-1] + "…"
}

func has(s string, subs ...string) bool {
	for _, x := range subs {
		if strings.Contains(s, x) {
			return true
		}
	}
	return false
}
