package main

import (
	"fmt"
	"go/ast"
	"go/token"
	"go/types"
	"sort"
	"strings"

	"golang.org/x/tools/go/packages"
	"golang.org/x/tools/go/types/typeutil"
)

func init() { registry["C08"] = checkC08 }

// assignable shapes rooted at a declaration
func assignableShapes(root *Obj) map[string]*Obj {
	ident := func(d *Obj) *Obj {
		id := newObj("ast.Ident")
		id.set("Declaration", d)
		return id
	}
	other := newObj("ast.VarDecl")
	other.set("name", StrV("other"))
	wrapIdx := func(x *Obj) *Obj {
		n := newObj("ast.Indexing")
		n.set("Lhs", x)
		n.set("Index", ident(other))
		return n
	}
	wrapField := func(x *Obj) *Obj {
		n := newObj("ast.FieldAccess")
		n.set("Rhs", x)
		n.set("Field", ident(other))
		return n
	}
	wrapCast := func(x *Obj) *Obj {
		n := newObj("ast.CastAssigneable")
		n.set("Lhs", x)
		return n
	}
	out := map[string]*Obj{"p": ident(root)}
	wraps := map[string]func(*Obj) *Obj{"an der Stelle i": wrapIdx, "Feld von": wrapField, "als T": wrapCast}
	var names []string
	for n := range wraps {
		names = append(names, n)
	}
	sort.Strings(names)
	for _, a := range names {
		out["p "+a] = wraps[a](ident(root))
		for _, b := range names {
			out["(p "+a+") "+b] = wraps[b](wraps[a](ident(root)))
		}
	}
	return out
}

func checkC08(c *Check) {
	L := c.L
	c.Expl = "Structural clauses of 'values are copied; only Referenz parameters alias', decided on the generator, the constant-parameter analysis and the C runtime without running them: every copy-introducing construct (declaration, assignment to variable/element, return, list and Kombination literal, for-each element, argument passing) stores a deep copy of a non-temporary or the claimed temporary, never a bitwise copy of a value someone else owns (R8.1); the analysis that licenses the -O2 copy elision marks a parameter as modified for every assignable shape rooted in it and for every hand-over to a parameter not known to be constant (R8.2, R8.3); an elided (borrowed) argument and a Referenz argument of the same call never denote the same storage (R8.4); a Referenz parameter receives the caller's storage itself (R8.5); deep-copy functions copy buffers, element-wise for non-primitive elements, never pointers or inline bytes of non-primitive values (R8.6). Not decided: callees that change a global the caller passed by value at -O2; behaviour of whole programs."
	in, mk := newGeneratorInterp(L)

	// ---------------- R8.1 ----------------
	r1 := c.Rule("R8.1", "copy-introducing constructs store a deep copy or the claimed temporary, never a bitwise copy of a value another holder owns", 40)
	runStoreScenarios(L, func(k string, runs int, bad []string) {
		if runs == 0 {
			r1.Und(k, token.NoPos, "not evaluated")
			return
		}
		var alias []string
		for _, b := range bad {
			if strings.Contains(b, "two owners") || strings.Contains(b, "without being claimed") || strings.Contains(b, "never receives") || strings.Contains(b, "not a temporary") {
				alias = append(alias, b)
			}
		}
		r1.Decide(len(alias) == 0, k, token.NoPos, "deep copy of a non-temporary / move of the claimed temporary", strings.Join(uniq(alias), "; "))
	})
	// list and Kombination literals: every element/field slot receives its value by claimOrCopy
	for _, d := range []*DT{{Kind: "TEXT"}, {Kind: "LIST", Elem: &DT{Kind: "ZAHL"}}, {Kind: "VARIABLE"}} {
		for _, temp := range []bool{false, true} {
			d, temp := d, temp
			key := fmt.Sprintf("compiler.(*compiler).VisitListLit|elements of %s, value temporary=%v", toGen(d), temp)
			var bad []string
			runs := 0
			in.RunAll(16, func() {
				cobj := mk()
				n := newObj("ast.ListLit")
				n.set("Type", TypeV{&DT{Kind: "LIST", Elem: d}})
				v := exprNode("Value0", d)
				v.set("temp", boolV(temp))
				n.set("Values", SliceV{Elems: []Val{v}})
				n.set("Count", NilV{})
				n.set("Value", NilV{})
				in.CallFunc(L.Fn("src/compiler.(*compiler).VisitListLit"), cobj, []Val{n})
				for _, e := range in.Events {
					if e.Kind == "cerr" || e.Kind == "panic" {
						return
					}
				}
				runs++
				nInit, b := storeProtocol(in, func(v *IRVal) bool { return v.Op == "elementptr" }, map[string]bool{"Value0": temp}, false)
				bad = append(bad, b...)
				if nInit == 0 {
					bad = append(bad, "the element slot never receives the value")
				}
			})
			if runs == 0 {
				r1.Und(key, token.NoPos, "not evaluated")
			} else {
				r1.Decide(len(bad) == 0, key, token.NoPos, "element slot receives a deep copy / the claimed temporary", strings.Join(uniq(bad), "; "))
			}
		}
		// 'N Mal x': every slot gets its own deep copy
		key := fmt.Sprintf("compiler.(*compiler).VisitListLit|%s repeated", toGen(d))
		var bad []string
		runs := 0
		in.RunAll(16, func() {
			cobj := mk()
			n := newObj("ast.ListLit")
			n.set("Type", TypeV{&DT{Kind: "LIST", Elem: d}})
			n.set("Values", NilV{})
			n.set("Count", exprNode("Count", &DT{Kind: "ZAHL"}))
			v := exprNode("Value", d)
			v.set("temp", Unk{"isTemp"})
			n.set("Value", v)
			in.CallFunc(L.Fn("src/compiler.(*compiler).VisitListLit"), cobj, []Val{n})
			for _, e := range in.Events {
				if e.Kind == "cerr" || e.Kind == "panic" {
					return
				}
			}
			runs++
			inFor, copies := false, 0
			for _, e := range in.Events {
				switch e.Kind {
				case "for-begin":
					inFor = true
				case "for-end":
					inFor = false
				case "deepCopy":
					if d, ok := e.Data[0].(*IRVal); ok && d.Op == "elementptr" && inFor {
						copies++
					}
				case "store":
					if d, ok := e.Data[1].(*IRVal); ok && d.Op == "elementptr" {
						bad = append(bad, in.L.Pos(e.Pos)+": a non-primitive value is stored bitwise into every slot: all elements share one block")
					}
				}
			}
			if copies == 0 {
				bad = append(bad, "no per-slot deep copy inside the fill loop")
			}
		})
		if runs > 0 {
			r1.Decide(len(bad) == 0, key, token.NoPos, "each slot receives its own deep copy inside the fill loop", strings.Join(uniq(bad), "; "))
		}
	}
	// for-each: the loop walks its own copy of the iterated value (or the claimed temporary), never the variable itself
	for _, jb := range skelJobs(L) {
		if !strings.HasPrefix(jb.key, "VisitForRangeStmt over ") {
			continue
		}
		for _, temp := range []bool{false, true} {
			var bad []string
			runs := 0
			in.RunAll(32, func() {
				cobj := mk()
				node := jb.node()
				node.get("In").(*Obj).set("temp", boolV(temp))
				in.CallFunc(L.Fn("src/compiler.(*compiler)."+jb.method), cobj, []Val{node})
				for _, e := range in.Events {
					if e.Kind == "cerr" || e.Kind == "panic" {
						return
					}
				}
				runs++
				var operand *IRVal
				owned := false
				for _, e := range in.Events {
					switch e.Kind {
					case "evaluate:In":
						operand, _ = e.Data[1].(*IRVal)
					case "deepCopy":
						if src, ok := e.Data[1].(*IRVal); ok && src == operand {
							owned = true
						}
					case "claim":
						if v, ok := e.Data[0].(*IRVal); ok && v == operand {
							owned = true
						}
					}
				}
				if !owned {
					bad = append(bad, "the iterated value is neither copied nor claimed into the loop's own storage")
				}
				// every address computed for the walk must be based on the loop's own storage
				for _, e := range in.Events {
					var vals []*IRVal
					for _, d := range e.Data {
						if v, ok := d.(*IRVal); ok {
							vals = append(vals, v)
						}
					}
					for _, v := range vals {
						var walk func(x *IRVal)
						walk = func(x *IRVal) {
							if x == nil {
								return
							}
							if x.Op == "getelementptr" && len(x.Args) > 0 && x.Args[0] == operand && e.Kind != "deepCopy" {
								bad = append(bad, in.L.Pos(e.Pos)+": the loop reads the fields of the iterated operand itself")
							}
							for _, a := range x.Args {
								walk(a)
							}
						}
						walk(v)
					}
				}
			})
			key := fmt.Sprintf("compiler.(*compiler).%s|iterated value temporary=%v", jb.key, temp)
			if runs == 0 {
				r1.Und(key, token.NoPos, "not evaluated")
			} else {
				r1.Decide(len(bad) == 0, key, token.NoPos, "the loop walks its own copy / the claimed temporary", strings.Join(uniq(bad), "; ")+": a body that changes the iterated variable (directly, through a callee or a Referenz) changes what the loop visits, or the loop reads released memory")
			}
		}
	}
	// for-each: the loop variable receives a deep copy of the element
	for _, jb := range skelJobs(L) {
		if jb.key != "VisitForRangeStmt over Text Liste" {
			continue
		}
		var bad []string
		runs, copies := 0, 0
		in.RunAll(32, func() {
			cobj := mk()
			in.CallFunc(L.Fn("src/compiler.(*compiler)."+jb.method), cobj, []Val{jb.node()})
			runs++
			for _, e := range in.Events {
				if e.Kind == "deepCopy" {
					if src, ok := e.Data[1].(*IRVal); ok && src.Op == "load" {
						copies++
					}
				}
				if e.Kind == "store" {
					if v, ok := e.Data[0].(*IRVal); ok && v.Op == "load" && len(v.Args) == 1 && v.Args[0].Op == "load" {
						if v.Class == "agg" {
							bad = append(bad, in.L.Pos(e.Pos)+": the element is copied bitwise into the loop variable")
						}
					}
				}
			}
		})
		if runs > 0 {
			if copies == 0 {
				bad = append(bad, "the loop variable never receives a deep copy of the current element")
			}
			r1.Decide(len(bad) == 0, "compiler.(*compiler).VisitForRangeStmt|element of a Text Liste", token.NoPos, "loop variable receives a deep copy of the element", strings.Join(uniq(bad), "; ")+": changing the loop variable changes the list (or both release one block)")
		}
	}

	checkC08Annotator(c, L)
	checkC08Calls(c, L)
	checkC08DeepCopies(c, L)
}

// R8.2/R8.3: the constant-parameter analysis.
// alwaysRecurses: every return of the function yields ast.VisitRecurse, directly, through a once-defined local, or as the
// result of a helper of the same package for which the same holds (a wrapper summary, two levels deep). Returns the text of
// an offending result, or "".
func alwaysRecurses(L *Loaded, fi *FuncInfo, depth int) string {
	info := fi.Pkg.TypesInfo
	bad := ""
	ast.Inspect(fi.Decl.Body, func(n ast.Node) bool {
		if _, isLit := n.(*ast.FuncLit); isLit {
			return false
		}
		ret, ok := n.(*ast.ReturnStmt)
		if !ok || len(ret.Results) != 1 {
			return true
		}
		okRet := false
		res := ast.Unparen(throughLocals(info, fi.Decl.Body, ret.Results[0]))
		if sel, ok := res.(*ast.SelectorExpr); ok {
			if cst, ok := info.Uses[sel.Sel].(*types.Const); ok && cst.Name() == "VisitRecurse" {
				okRet = true
			}
		}
		if call, ok := res.(*ast.CallExpr); ok && depth < 2 {
			if callee, ok := typeutil.Callee(info, call).(*types.Func); ok {
				if g := L.Funcs[callee]; g != nil && g.Pkg == fi.Pkg && g.Decl.Body != nil && alwaysRecurses(L, g, depth+1) == "" {
					okRet = true
				}
			}
		}
		if !okRet {
			bad = L.Src(ret.Results[0])
		}
		return true
	})
	return bad
}

func checkC08Annotator(c *Check, L *Loaded) {
	// R8.3b: the analysis looks at every call and every assignment of a body only if its visitor never prunes the
	// traversal below a node that can contain further expressions: the Visit methods for expressions and statements
	// return ast.VisitRecurse on every path (VisitFuncDecl manages the descent into bodies itself and is judged by R8.3)
	r3b := c.Rule("R8.3b", "the constant-parameter analysis never prunes the traversal below a call or an assignment", 2)
	L.ForEachFunc([]string{"src/ast/annotators"}, func(fi *FuncInfo) {
		name := canonName(fi.Obj)
		sig := fi.Obj.Type().(*types.Signature)
		if sig.Recv() == nil || !strings.HasPrefix(name, "Visit") || name == "VisitFuncDecl" || sig.Results().Len() != 1 {
			return
		}
		if !strings.HasSuffix(sig.Recv().Type().String(), "ConstFuncParamAnnotator") || !strings.HasSuffix(sig.Results().At(0).Type().String(), "ast.VisitResult") {
			return
		}
		bad := alwaysRecurses(L, fi, 0)
		r3b.Decide(bad == "", L.QName(fi.Obj)+"|descends into children", fi.Decl.Pos(), "returns ast.VisitRecurse on every path", "returns "+bad+" on some path: calls and assignments nested below this node are not analysed, a parameter that is changed there stays marked constant and is borrowed at -O2 (use after free / changes visible in the caller)")
	})
	r2 := c.Rule("R8.2", "the constant-parameter analysis finds the parameter at the root of every assignable shape", 13)
	in := NewInterp(L)
	installDDPTypesModels(in)
	fi := L.Fn("src/ast/annotators.doesReferenceVarMutable")
	if fi == nil {
		r2.Und("annotators.doesReferenceVarMutable", token.NoPos, "function not found")
		return
	}
	p := newObj("ast.VarDecl")
	p.set("name", StrV("p"))
	q := newObj("ast.VarDecl")
	q.set("name", StrV("q"))
	shapes := assignableShapes(p)
	var names []string
	for n := range shapes {
		names = append(names, n)
	}
	sort.Strings(names)
	for _, n := range names {
		found, runs := true, 0
		var und []string
		in.RunAll(16, func() {
			res := in.CallFunc(fi, nil, []Val{shapes[n], SliceV{Elems: []Val{q, p}}})
			runs++
			has := false
			if sl, ok := res.(SliceV); ok {
				for _, e := range sl.Elems {
					if e == Val(p) {
						has = true
					}
				}
			} else if _, isNil := res.(NilV); !isNil {
				und = append(und, fmt.Sprintf("result %T", res))
			}
			if !has {
				found = false
			}
		})
		key := "annotators.doesReferenceVarMutable|" + n
		if runs == 0 || len(und) > 0 {
			r2.Und(key, token.NoPos, fmt.Sprint("not evaluated ", und))
			continue
		}
		r2.Decide(found, key, token.NoPos, "reports p", "an assignment to '"+n+"' (p a parameter) is not attributed to p: p stays 'constant', at -O2 the caller passes its own value without copying it and the callee's change shows in the caller's variable")
	}

	r3 := c.Rule("R8.3", "assignments and hand-overs to parameters not known to be constant clear the constant mark; functions whose body the analysis does not see are not marked constant", 6)
	noop := func(in *Interp, pkg *packages.Package, call *ast.CallExpr, recv Val, args []Val) (Val, bool) {
		return TupleV(nil), true
	}
	in.Models["annotators.(*ConstFuncParamAnnotator).overwriteAttachement"] = noop
	in.Models["maps.Keys"] = func(in *Interp, pkg *packages.Package, call *ast.CallExpr, recv Val, args []Val) (Val, bool) {
		if mv, ok := args[0].(MapV); ok {
			return SliceV{Elems: append([]Val{}, mv.Keys...)}, true
		}
		return Unk{"keys"}, true
	}
	mkAnn := func() *Obj {
		a := newObj("annotators.ConstFuncParamAnnotator")
		a.set("currentParams", MapV{Keys: []Val{p, q}, Vals: []Val{boolV(true), boolV(true)}})
		a.set("currentDecl", newObj("ast.FuncDecl"))
		m := newObj("ast.Module")
		m.set("Ast", newObj("ast.Ast"))
		a.set("CurrentModule", m)
		return a
	}
	markOf := func(a *Obj, d *Obj) (bool, bool) {
		mv, ok := a.get("currentParams").(MapV)
		if !ok {
			return false, false
		}
		for i, k := range mv.Keys {
			if k == Val(d) {
				return truth(mv.Vals[i])
			}
		}
		return false, false
	}
	ident := func(d *Obj) *Obj {
		id := newObj("ast.Ident")
		id.set("Declaration", d)
		return id
	}
	// assignment
	{
		okAll, runs := true, 0
		in.RunAll(16, func() {
			a := mkAnn()
			st := newObj("ast.AssignStmt")
			st.set("Var", ident(p))
			in.CallFunc(L.Fn("src/ast/annotators.(*ConstFuncParamAnnotator).VisitAssignStmt"), a, []Val{st})
			runs++
			pm, pk := markOf(a, p)
			qm, qk := markOf(a, q)
			if !pk || pm || !qk || !qm {
				okAll = false
			}
		})
		if runs == 0 {
			r3.Und("annotators.(*ConstFuncParamAnnotator).VisitAssignStmt|assignment to p", token.NoPos, "not evaluated")
		} else {
			r3.Decide(okAll, "annotators.(*ConstFuncParamAnnotator).VisitAssignStmt|assignment to p", token.NoPos, "p marked as modified, q untouched", "an assignment to the parameter p does not clear its constant mark (or clears another parameter's)")
		}
	}
	// functions whose body is not visited under their own declaration must not be marked constant
	for _, form := range []string{"forward declaration (body given later)", "instantiation of a generic function"} {
		form := form
		var marks []bool
		undecided := false
		in.Models["ast.(*Ast).AddAttachement"] = func(in *Interp, pkg *packages.Package, call *ast.CallExpr, recv Val, args []Val) (Val, bool) {
			if d, ok := args[0].(*Obj); ok && d.get("tracked") != nil {
				if t, known := truth(d.get("tracked")); known && t {
					if m, ok := args[1].(*Obj); ok {
						if mv, ok := m.get("IsConst").(MapV); ok {
							for i, k := range mv.Keys {
								if sk, ok := k.(StrV); ok && string(sk) == "x" {
									if b, known := truth(mv.Vals[i]); known {
										marks = append(marks, b)
									} else {
										undecided = true
									}
								}
							}
						} else {
							undecided = true
						}
					}
				}
			}
			return TupleV(nil), true
		}
		in.Models["ast.(*Ast).GetMetadataByKind"] = func(in *Interp, pkg *packages.Package, call *ast.CallExpr, recv Val, args []Val) (Val, bool) {
			return TupleV{NilV{}, boolV(false)}, true
		}
		runs := 0
		in.RunAll(32, func() {
			a := mkAnn()
			target := mkFuncDecl(&DT{Kind: "TEXT"}, &DT{Kind: "ZAHL"})
			target.get("Parameters").(SliceV).Elems[0].(*Obj).get("Name").(*Obj).set("Literal", StrV("x"))
			target.set("tracked", boolV(true))
			ext := newObj("token.Token")
			ext.set("Type", tokenConst(L, "ILLEGAL"))
			target.set("ExternFile", ext)
			symtab := newObj("ast.SymbolTable")
			body := newObj("ast.BlockStmt")
			body.set("Symbols", symtab)
			var node *Obj
			if strings.HasPrefix(form, "forward") {
				target.set("Body", NilV{})
				target.set("Generic", NilV{})
				def := newObj("ast.FuncDef")
				def.set("Body", body)
				target.set("Def", def)
				node = target
			} else {
				target.set("Body", body)
				target.set("Def", NilV{})
				target.set("Generic", NilV{})
				gen := mkFuncDecl(&DT{Kind: "GENERIC", Name: "T"}, &DT{Kind: "ZAHL"})
				gi := newObj("ast.GenericFuncInfo")
				gi.set("Instantiations", MapV{Keys: []Val{newObj("ast.Module")}, Vals: []Val{SliceV{Elems: []Val{target}}}})
				gen.set("Generic", gi)
				gen.set("Body", NilV{})
				gen.set("Def", NilV{})
				gen.set("ExternFile", ext)
				node = gen
			}
			in.CallFunc(L.Fn("src/ast/annotators.(*ConstFuncParamAnnotator).VisitFuncDecl"), a, []Val{node})
			runs++
		})
		key := "annotators.(*ConstFuncParamAnnotator).VisitFuncDecl|" + form
		switch {
		case runs == 0 || undecided:
			r3.Und(key, token.NoPos, "the marks attached for this form could not be evaluated")
		case len(marks) == 0:
			r3.Bad(key, token.NoPos, "no marks are attached for the parameters of a "+form+": the code generator finds nothing and ... (no verdict recorded)")
		default:
			anyConst := false
			for _, m := range marks {
				if m {
					anyConst = true
				}
			}
			r3.Decide(!anyConst, key, token.NoPos, "parameters are assumed not constant", "the parameters of a "+form+" are marked constant although its body is not analysed under this declaration: at -O2 the caller passes its variable uncopied, the callee assigns to the parameter and changes or releases the caller's value")
		}
	}
	// hand-over
	for _, tc := range []struct {
		name      string
		known     bool
		konst     bool
		wantConst bool
	}{{"callee parameter known to be modified", true, false, false}, {"callee not analysed yet", false, false, false}, {"callee parameter known to be constant", true, true, true}} {
		tc := tc
		in.Models["ast.(*Ast).GetMetadataByKind"] = func(in *Interp, pkg *packages.Package, call *ast.CallExpr, recv Val, args []Val) (Val, bool) {
			if !tc.known {
				return TupleV{NilV{}, boolV(false)}, true
			}
			meta := newObj("annotators.ConstFuncParamMeta")
			meta.set("IsConst", MapV{Keys: []Val{StrV("x")}, Vals: []Val{boolV(tc.konst)}})
			return TupleV{meta, boolV(true)}, true
		}
		okAll, runs := true, 0
		in.RunAll(16, func() {
			a := mkAnn()
			callee := mkFuncDecl(&DT{Kind: "TEXT"}, &DT{Kind: "ZAHL"})
			callee.get("Parameters").(SliceV).Elems[0].(*Obj).get("Name").(*Obj).set("Literal", StrV("x"))
			fc := newObj("ast.FuncCall")
			fc.set("Func", callee)
			fc.set("Args", MapV{Keys: []Val{StrV("x")}, Vals: []Val{ident(p)}})
			in.CallFunc(L.Fn("src/ast/annotators.(*ConstFuncParamAnnotator).VisitFuncCall"), a, []Val{fc})
			runs++
			pm, pk := markOf(a, p)
			if !pk || pm != tc.wantConst {
				okAll = false
			}
		})
		key := "annotators.(*ConstFuncParamAnnotator).VisitFuncCall|p handed to a " + tc.name
		if runs == 0 {
			r3.Und(key, token.NoPos, "not evaluated")
			continue
		}
		r3.Decide(okAll, key, token.NoPos, fmt.Sprintf("p constant afterwards: %v", tc.wantConst), "handing p to a "+tc.name+" leaves the wrong constant mark on p: the elision of the caller's copy is licensed although the value can change")
	}
	// an overloaded operator is a call of the overloading function (the generator compiles it as one): every expression kind
	// that can carry an overload hands its arguments over like a call does
	in.Models["ast.(*Ast).GetMetadataByKind"] = func(in *Interp, pkg *packages.Package, call *ast.CallExpr, recv Val, args []Val) (Val, bool) {
		return TupleV{NilV{}, boolV(false)}, true
	}
	var kinds []string
	if ap := L.ByRel["src/ast"]; ap != nil {
		sc := ap.Types.Scope()
		for _, n := range sc.Names() {
			tn, ok := sc.Lookup(n).(*types.TypeName)
			if !ok {
				continue
			}
			st, ok := tn.Type().Underlying().(*types.Struct)
			if !ok {
				continue
			}
			for i := 0; i < st.NumFields(); i++ {
				if nameIs(st.Field(i), "OverloadedBy") {
					kinds = append(kinds, canonName(tn))
				}
			}
		}
	}
	sort.Strings(kinds)
	if len(kinds) == 0 {
		r3.Und("annotators.(*ConstFuncParamAnnotator)|overloaded operators", token.NoPos, "no expression kind with an OverloadedBy field found")
	}
	for _, kind := range kinds {
		key := "annotators.(*ConstFuncParamAnnotator).Visit" + kind + "|p handed to an operator overload not analysed yet"
		fi := L.Fn("src/ast/annotators.(*ConstFuncParamAnnotator).Visit" + kind)
		if fi == nil {
			r3.Bad(key, token.NoPos, "the analysis does not look at a "+kind+" that is overloaded by a function: a parameter handed to a Referenz parameter of the overload keeps its constant mark, at -O2 the caller lends its variable and the overload changes and releases it behind the caller's back")
			continue
		}
		okAll, runs := true, 0
		in.RunAll(16, func() {
			a := mkAnn()
			callee := mkFuncDecl(&DT{Kind: "TEXT"}, &DT{Kind: "ZAHL"})
			callee.get("Parameters").(SliceV).Elems[0].(*Obj).get("Name").(*Obj).set("Literal", StrV("x"))
			ov := newObj("ast.OperatorOverload")
			ov.set("Decl", callee)
			ov.set("Args", MapV{Keys: []Val{StrV("x")}, Vals: []Val{ident(p)}})
			e := newObj("ast." + kind)
			e.set("OverloadedBy", ov)
			in.CallFunc(fi, a, []Val{e})
			runs++
			pm, pk := markOf(a, p)
			if !pk || pm {
				okAll = false
			}
		})
		if runs == 0 {
			r3.Und(key, token.NoPos, "not evaluated")
			continue
		}
		r3.Decide(okAll, key, token.NoPos, "p marked as modified", "handing p to an operator overload whose parameters are not known to be constant leaves p marked constant: at -O2 the caller lends its variable and the overload can change and release it")
	}
}

// R8.4/R8.5: one call that passes the same variable for a value parameter judged constant and for a Referenz parameter.
func checkC08Calls(c *Check, L *Loaded) {
	r4 := c.Rule("R8.4", "a borrowed (copy-elided) argument is storage the callee cannot reach in another way: not the target of a Referenz argument of the same call, not a global variable", 6)
	r5 := c.Rule("R8.5", "a Referenz parameter receives the caller's storage itself", 3)
	checkC08PartReference(c, L, r4)
	T := &DT{Kind: "TEXT"}
	for _, refFirst := range []bool{false, true} {
		for _, level := range []int{0, 1, 2} {
			order := "f(x, x): value parameter judged constant, Referenz parameter"
			if refFirst {
				order = "f(x, x): Referenz parameter, then value parameter judged constant"
			}
			in, mk := newGeneratorInterp(L)
			cfg := callCfg{level: level, konst: true, ret: &DT{Kind: "ZAHL"}}
			decl := newObj("ast.FuncDecl")
			mkParam := func(name string, ref bool) *Obj {
				pn := newObj("token.Token")
				pn.set("Literal", StrV(name))
				pt := newObj("ddptypes.ParameterType")
				pt.set("Type", TypeV{T})
				pt.set("IsReference", boolV(ref))
				p := newObj("ast.ParameterInfo")
				p.set("Name", pn)
				p.set("Type", pt)
				return p
			}
			if refFirst {
				decl.set("Parameters", SliceV{Elems: []Val{mkParam("b", true), mkParam("a", false)}})
			} else {
				decl.set("Parameters", SliceV{Elems: []Val{mkParam("a", false), mkParam("b", true)}})
			}
			decl.set("ReturnType", TypeV{cfg.ret})
			callModels(in, &cfg, decl)
			in.Models["ast.(*Ast).GetMetadataByKind"] = func(in *Interp, pkg *packages.Package, call *ast.CallExpr, recv Val, args []Val) (Val, bool) {
				meta := newObj("annotators.ConstFuncParamMeta")
				meta.set("IsConst", MapV{Keys: []Val{StrV("a"), StrV("b")}, Vals: []Val{boolV(true), boolV(false)}})
				return TupleV{meta, boolV(true)}, true
			}
			storage := &IRVal{Op: "operand", Src: "x", Class: "ptr", Elem: toGen(T)}
			xdecl := newObj("ast.VarDecl")
			xdecl.set("Type", TypeV{T})
			prevEval := in.Models["compiler.(*compiler).evaluate"]
			in.Models["compiler.(*compiler).evaluate"] = func(in *Interp, pkg *packages.Package, call *ast.CallExpr, recv Val, args []Val) (Val, bool) {
				v, h := prevEval(in, pkg, call, recv, args)
				if n, ok := args[0].(*Obj); ok {
					if d, ok := n.get("Declaration").(*Obj); ok && d == xdecl {
						if tv, ok := v.(TupleV); ok && len(tv) == 3 {
							return TupleV{storage, tv[1], boolV(false)}, h
						}
					}
				}
				return v, h
			}
			in.Models["compiler.(*scope).lookupVar"] = func(in *Interp, pkg *packages.Package, call *ast.CallExpr, recv Val, args []Val) (Val, bool) {
				w := newObj("varwrapper")
				w.set("val", storage)
				w.set("typ", toGen(T))
				w.set("isRef", boolV(false))
				return w, true
			}
			var aliased, refIsStorage, decided bool
			runs := 0
			in.RunAll(64, func() {
				cobj := mk()
				cobj.set("optimizationLevel", ConstV{V: constantInt(level), T: intType()})
				fw := newObj("funcWrapper")
				fw.set("funcDecl", decl)
				fw.set("irFunc", &IRFuncV{Name: "callee"})
				cobj.set("functions", MapV{Keys: []Val{StrV("f")}, Vals: []Val{fw}})
				e := newObj("ast.FuncCall")
				e.set("Func", decl)
				mkArg := func() *Obj {
					a := exprNode("x", T)
					a.Kind = "ast.Ident"
					a.set("Declaration", xdecl)
					return a
				}
				e.set("Args", MapV{Keys: []Val{StrV("a"), StrV("b")}, Vals: []Val{mkArg(), mkArg()}})
				in.CallFunc(L.Fn("src/compiler.(*compiler).VisitFuncCall"), cobj, []Val{e})
				for _, ev := range in.Events {
					if ev.Kind == "cerr" || ev.Kind == "panic" {
						return
					}
				}
				for _, ev := range in.Events {
					if ev.Kind == "call" && ev.Msg == "callee" && len(ev.Data) == 3 {
						runs++
						decided = true
						strip := func(v Val) *IRVal {
							iv, _ := v.(*IRVal)
							for iv != nil && iv.Op == "bitcast" && len(iv.Args) == 1 {
								iv = iv.Args[0]
							}
							return iv
						}
						av, bv := strip(ev.Data[1]), strip(ev.Data[2])
						if refFirst {
							av, bv = bv, av
						}
						if bv == storage {
							refIsStorage = true
						}
						if av == storage && bv == storage {
							aliased = true
						}
					}
				}
			})
			k4 := fmt.Sprintf("compiler.(*compiler).VisitFuncCall|-O%d %s", level, order)
			if !decided || runs == 0 {
				r4.Und(k4, token.NoPos, "call not observed")
				r5.Und(k4, token.NoPos, "call not observed")
				continue
			}
			// a global variable passed for the constant value parameter (the callee may change any global)
			{
				xdecl.set("IsGlobal", boolV(true))
				other := &IRVal{Op: "operand", Src: "y", Class: "ptr", Elem: toGen(T)}
				ydecl := newObj("ast.VarDecl")
				ydecl.set("Type", TypeV{T})
				ydecl.set("IsGlobal", boolV(false))
				borrowedGlobal, seen := false, false
				in.Models["compiler.(*scope).lookupVar"] = func(in *Interp, pkg *packages.Package, call *ast.CallExpr, recv Val, args []Val) (Val, bool) {
					w := newObj("varwrapper")
					w.set("val", storage)
					if d, ok := args[0].(*Obj); ok && d == ydecl {
						w.set("val", other)
					}
					w.set("typ", toGen(T))
					w.set("isRef", boolV(false))
					return w, true
				}
				in.RunAll(64, func() {
					cobj := mk()
					cobj.set("optimizationLevel", ConstV{V: constantInt(level), T: intType()})
					fw := newObj("funcWrapper")
					fw.set("funcDecl", decl)
					fw.set("irFunc", &IRFuncV{Name: "callee"})
					cobj.set("functions", MapV{Keys: []Val{StrV("f")}, Vals: []Val{fw}})
					e := newObj("ast.FuncCall")
					e.set("Func", decl)
					ax := exprNode("x", T)
					ax.Kind = "ast.Ident"
					ax.set("Declaration", xdecl)
					ay := exprNode("y", T)
					ay.Kind = "ast.Ident"
					ay.set("Declaration", ydecl)
					e.set("Args", MapV{Keys: []Val{StrV("a"), StrV("b")}, Vals: []Val{ax, ay}})
					in.CallFunc(L.Fn("src/compiler.(*compiler).VisitFuncCall"), cobj, []Val{e})
					for _, ev := range in.Events {
						if ev.Kind == "cerr" || ev.Kind == "panic" {
							return
						}
					}
					for _, ev := range in.Events {
						if ev.Kind == "call" && ev.Msg == "callee" && len(ev.Data) == 3 {
							seen = true
							vi := 1
							if refFirst {
								vi = 2
							}
							if av, ok := ev.Data[vi].(*IRVal); ok && av == storage {
								borrowedGlobal = true
							}
						}
					}
				})
				kg := fmt.Sprintf("compiler.(*compiler).VisitFuncCall|-O%d f(g, y): g a global variable, value parameter judged constant", level)
				if refFirst {
					kg += " (Referenz parameter first)"
				}
				if !seen {
					r4.Und(kg, token.NoPos, "call not observed")
				} else {
					r4.Decide(!borrowedGlobal, kg, token.NoPos, "the value parameter receives its own copy", "a global variable is passed for a value parameter without a copy: a callee that changes the global (directly or through another function) changes or releases what its parameter points to")
				}
				xdecl.set("IsGlobal", Unk{"IsGlobal"})
			}
			r4.Decide(!aliased, k4, token.NoPos, "the value parameter receives its own copy", "the callee receives the caller's variable both as the borrowed value of a parameter it treats as constant and as a Referenz it may assign to: assigning through the Referenz releases the block the value parameter still points to (use after free), and the value parameter observes the change")
			r5.Decide(refIsStorage, k4, token.NoPos, "the Referenz parameter is bound to the variable's storage", "the Referenz parameter does not receive the caller's storage: changes made by the callee are not visible to the caller")
		}
	}
}

// R8.6: deep-copy functions.
func checkC08DeepCopies(c *Check, L *Loaded) {
	r := c.Rule("R8.6", "deep-copy functions give the copy its own blocks: a fresh buffer filled with the bytes, element-wise deep copies for non-primitive elements and fields, inline bytes copied only for primitive contents", 5)
	P, err := LoadC(repoDirC(), false)
	if err != nil {
		r.Und("lib/runtime", token.NoPos, err.Error())
		return
	}
	// C: ddp_deep_copy_string
	if f := P.Funcs["ddp_deep_copy_string"]; f != nil {
		var bad []string
		fresh, copied := false, false
		f.Body.walk(func(m *CNode) bool {
			if m.Kind == "BinaryOperator" && m.Opcode == "=" && len(m.Inner) == 2 {
				l, rr := cstrip(m.Inner[0]), cstrip(m.Inner[1])
				if b, ok := memberOf(l, "str"); ok && b == "ret" {
					if sb, ok := memberOf(rr, "str"); ok && sb != "ret" {
						bad = append(bad, fmt.Sprintf("line %d: the copy's buffer pointer is taken from the original", m.line))
					}
				}
				if l.Kind == "UnaryOperator" && l.Opcode == "*" && rr.Kind == "UnaryOperator" && rr.Opcode == "*" {
					bad = append(bad, fmt.Sprintf("line %d: the text object is copied bitwise", m.line))
				}
			}
			if m.Kind == "CallExpr" {
				switch m.calleeName() {
				case "ddp_reallocate":
					if a := m.args(); len(a) == 3 {
						if v, ok := cIntValue(a[0]); ok && v == 0 {
							fresh = true
						}
					}
				case "memcpy":
					if a := m.args(); len(a) == 3 {
						if sb, ok := memberOf(a[1], "str"); ok && sb != "ret" {
							copied = true
						}
					}
				}
			}
			return true
		})
		if !fresh {
			bad = append(bad, "no fresh allocation")
		}
		if !copied {
			bad = append(bad, "the bytes of the original are not copied")
		}
		st := OK
		if len(bad) > 0 {
			st = Bad
		}
		r.AddAt(st, "C ddp_deep_copy_string|own buffer", f.Pos(), pickMsg(st, "fresh allocation filled by memcpy / "+strings.Join(bad, "; ")+": a copied Text shares its buffer with the original"))
	} else {
		r.AddAt(Undecided, "C ddp_deep_copy_string", "-", "function not found")
	}
	// C: ddp_deep_copy_any
	if f := P.Funcs["ddp_deep_copy_any"]; f != nil {
		paths, decided := cEnumPaths(f, 256)
		var bad []string
		sawDeep := false
		for _, p := range paths {
			prim, primKnown := false, false
			deep := false
			nullTable := false
			for _, a := range p {
				if a.cond != nil {
					for _, helper := range primitiveTests(P) {
						if k, v := condCallFact(a.cond, a.truth, helper); k {
							prim, primKnown = v, true
						}
					}
					// 'vtable_ptr == NULL' taken true / '!= NULL' taken false: nothing is stored on this path
					if cn := cstrip(a.cond); cn != nil && cn.Kind == "BinaryOperator" && len(cn.Inner) == 2 && strings.Contains(cn.Inner[0].text(), "vtable_ptr") {
						if k, ok := cIntValue(cn.Inner[1]); ok && k == 0 {
							if (cn.Opcode == "==" && a.truth) || (cn.Opcode == "!=" && !a.truth) {
								nullTable = true
							}
						}
					}
					continue
				}
				a.stmt.walk(func(m *CNode) bool {
					if m.Kind == "CallExpr" {
						if m.calleeName() == "memcpy" {
							if !(primKnown && prim) {
								bad = append(bad, fmt.Sprintf("line %d: the stored bytes are copied with memcpy on a path that has not established that the content is primitive", m.line))
							}
						}
						if strings.Contains(m.Inner[0].text(), "deep_copy_func") {
							deep = true
							sawDeep = true
						}
					}
					return true
				})
			}
			if primKnown && !prim && !deep && !nullTable {
				// the vtable may still be NULL on this path; only flag when the path also passed the non-null test
				bad = append(bad, "a path with non-primitive content ends without calling the content's deep-copy function")
			}
		}
		if !sawDeep {
			bad = append(bad, "the content's deep-copy function is never called")
		}
		st := OK
		if !decided {
			st = Undecided
		} else if len(bad) > 0 {
			st = Bad
		}
		r.AddAt(st, "C ddp_deep_copy_any|content copied by kind", f.Pos(), pickMsg(st, fmt.Sprintf("%d paths: inline bytes are copied only for primitive content, other content through its deep-copy function / ", len(paths))+strings.Join(uniq(bad), "; ")+": a copied Variable holding a Text, list or Kombination shares blocks with the original"))
	} else {
		r.AddAt(Undecided, "C ddp_deep_copy_any", "-", "function not found")
	}
	// generated: list deep copy
	in, mk := newGeneratorInterp(L)
	for _, elem := range []*GenT{{Kind: "int"}, {Kind: "string"}} {
		key := "compiler.(*compiler).createListDeepCopy|element " + elem.String()
		var bad []string
		runs := 0
		in.RunAll(8, func() {
			cobj := mk()
			in.CallFunc(L.Fn("src/compiler.(*compiler).createListDeepCopy"), cobj, []Val{&GenT{Kind: "list", Elem: elem}, boolV(false)})
			runs++
			var arrStored *IRVal
			elemCopies, memcpys := 0, 0
			inFor := false
			for _, e := range in.Events {
				switch e.Kind {
				case "for-begin":
					inFor = true
				case "for-end":
					inFor = false
				case "memcpyArr":
					memcpys++
					if d, ok := e.Data[0].(*IRVal); ok && d.Op != "allocateArr" {
						bad = append(bad, "the bytes are copied into something other than the fresh array")
					}
				case "call":
					if strings.HasSuffix(e.Msg, ".DeepCopyFunc") && inFor && len(e.Data) == 3 {
						d, _ := e.Data[1].(*IRVal)
						s, _ := e.Data[2].(*IRVal)
						if d != nil && s != nil && d.Op == "elementptr" && s.Op == "elementptr" && d.Args[0].Op == "allocateArr" && s.Args[0].Op == "load" && d.Args[1] == s.Args[1] {
							elemCopies++
						} else {
							bad = append(bad, "an element deep copy does not go from element i of the original to element i of the fresh array")
						}
					}
				case "store":
					if p, ok := e.Data[1].(*IRVal); ok && p.Op == "getelementptr" && len(p.Args) >= 3 && p.Args[0].Src == "ret" && p.Args[len(p.Args)-1].K != nil && *p.Args[len(p.Args)-1].K == 0 {
						arrStored, _ = e.Data[0].(*IRVal)
					}
				}
			}
			if arrStored == nil || arrStored.Op != "allocateArr" {
				bad = append(bad, fmt.Sprintf("the copy's array field is not set to a fresh array (%v)", arrStored))
			}
			if elem.prim() {
				if memcpys != 1 {
					bad = append(bad, "primitive elements are not copied by one memcpy")
				}
			} else {
				if memcpys != 0 {
					bad = append(bad, "non-primitive elements are copied bitwise")
				}
				if elemCopies == 0 {
					bad = append(bad, "non-primitive elements are not deep-copied one by one")
				}
			}
		})
		if runs == 0 {
			r.Und(key, token.NoPos, "not evaluated")
			continue
		}
		r.Decide(len(bad) == 0, key, token.NoPos, "fresh array; elements copied by memcpy (primitive) / by their deep-copy function (non-primitive)", strings.Join(uniq(bad), "; ")+": a copied list shares blocks with the original")
	}
	// generated: Kombination deep copy
	{
		key := "compiler.(*compiler).createStructDeepCopy|fields (Zahl, Text)"
		var bad []string
		runs := 0
		st := &GenT{Kind: "struct", Name: "Punkt", Fields: []*GenT{{Kind: "int"}, {Kind: "string"}}}
		in.RunAll(8, func() {
			cobj := mk()
			in.CallFunc(L.Fn("src/compiler.(*compiler).createStructDeepCopy"), cobj, []Val{st, boolV(false)})
			runs++
			field := func(v Val) (base string, idx int64, ok bool) {
				p, _ := v.(*IRVal)
				if p == nil || p.Op != "getelementptr" || len(p.Args) < 3 || p.Args[len(p.Args)-1].K == nil {
					return "", 0, false
				}
				return p.Args[0].Src, *p.Args[len(p.Args)-1].K, true
			}
			got := map[int64]string{}
			for _, e := range in.Events {
				switch e.Kind {
				case "deepCopy":
					db, di, ok1 := field(e.Data[0])
					sb, si, ok2 := field(e.Data[1])
					if ok1 && ok2 && db == "ret" && sb != "ret" && di == si {
						got[di] = "deep"
					} else {
						bad = append(bad, "a field deep copy does not go from field i of the original to field i of the copy")
					}
				case "store":
					if db, di, ok := field(e.Data[1]); ok && db == "ret" {
						got[di] = "bitwise"
					}
				}
			}
			if got[0] != "bitwise" {
				bad = append(bad, "the primitive field is not copied")
			}
			if got[1] != "deep" {
				bad = append(bad, "the Text field is "+map[string]string{"": "not copied", "bitwise": "copied bitwise"}[got[1]])
			}
		})
		if runs == 0 {
			r.Und(key, token.NoPos, "not evaluated")
		} else {
			r.Decide(len(bad) == 0, key, token.NoPos, "primitive fields stored, non-primitive fields deep-copied field by field", strings.Join(uniq(bad), "; ")+": a copied Kombination shares blocks with the original")
		}
	}
}

// R8.4 (continued): the Referenz argument is a part of the variable that is passed by value (an element, a field): its type
// differs from the variable's, it still points into it.
func checkC08PartReference(c *Check, L *Loaded, r4 *Rule) {
	T := &DT{Kind: "TEXT"}
	LT := &DT{Kind: "LIST", Elem: T}
	for _, level := range []int{0, 2} {
		in, mk := newGeneratorInterp(L)
		cfg := callCfg{level: level, konst: true, ret: &DT{Kind: "ZAHL"}}
		decl := newObj("ast.FuncDecl")
		mkParam := func(name string, t *DT, ref bool) *Obj {
			pn := newObj("token.Token")
			pn.set("Literal", StrV(name))
			pt := newObj("ddptypes.ParameterType")
			pt.set("Type", TypeV{t})
			pt.set("IsReference", boolV(ref))
			p := newObj("ast.ParameterInfo")
			p.set("Name", pn)
			p.set("Type", pt)
			return p
		}
		decl.set("Parameters", SliceV{Elems: []Val{mkParam("a", LT, false), mkParam("b", T, true)}})
		decl.set("ReturnType", TypeV{cfg.ret})
		callModels(in, &cfg, decl)
		in.Models["ast.(*Ast).GetMetadataByKind"] = func(in *Interp, pkg *packages.Package, call *ast.CallExpr, recv Val, args []Val) (Val, bool) {
			meta := newObj("annotators.ConstFuncParamMeta")
			meta.set("IsConst", MapV{Keys: []Val{StrV("a"), StrV("b")}, Vals: []Val{boolV(true), boolV(false)}})
			return TupleV{meta, boolV(true)}, true
		}
		storage := &IRVal{Op: "operand", Src: "l", Class: "ptr", Elem: toGen(LT)}
		ldecl := newObj("ast.VarDecl")
		ldecl.set("Type", TypeV{LT})
		ldecl.set("IsGlobal", boolV(false))
		prevEval := in.Models["compiler.(*compiler).evaluate"]
		in.Models["compiler.(*compiler).evaluate"] = func(in *Interp, pkg *packages.Package, call *ast.CallExpr, recv Val, args []Val) (Val, bool) {
			v, h := prevEval(in, pkg, call, recv, args)
			if n, ok := args[0].(*Obj); ok {
				if d, ok := n.get("Declaration").(*Obj); ok && d == ldecl {
					if tv, ok := v.(TupleV); ok && len(tv) == 3 {
						return TupleV{storage, tv[1], boolV(false)}, h
					}
				}
			}
			return v, h
		}
		in.Models["compiler.(*scope).lookupVar"] = func(in *Interp, pkg *packages.Package, call *ast.CallExpr, recv Val, args []Val) (Val, bool) {
			w := newObj("varwrapper")
			w.set("val", storage)
			w.set("typ", toGen(LT))
			w.set("isRef", boolV(false))
			return w, true
		}
		aliased, seen := false, false
		in.RunAll(64, func() {
			cobj := mk()
			cobj.set("optimizationLevel", ConstV{V: constantInt(level), T: intType()})
			fw := newObj("funcWrapper")
			fw.set("funcDecl", decl)
			fw.set("irFunc", &IRFuncV{Name: "callee"})
			cobj.set("functions", MapV{Keys: []Val{StrV("f")}, Vals: []Val{fw}})
			e := newObj("ast.FuncCall")
			e.set("Func", decl)
			al := exprNode("l", LT)
			al.Kind = "ast.Ident"
			al.set("Declaration", ldecl)
			bl := exprNode("l", LT)
			bl.Kind = "ast.Ident"
			bl.set("Declaration", ldecl)
			ix := newObj("ast.Indexing")
			ix.set("Lhs", bl)
			ix.set("Index", exprNode("i", &DT{Kind: "ZAHL"}))
			e.set("Args", MapV{Keys: []Val{StrV("a"), StrV("b")}, Vals: []Val{al, ix}})
			in.CallFunc(L.Fn("src/compiler.(*compiler).VisitFuncCall"), cobj, []Val{e})
			for _, ev := range in.Events {
				if ev.Kind == "cerr" || ev.Kind == "panic" {
					return
				}
			}
			for _, ev := range in.Events {
				if ev.Kind == "call" && ev.Msg == "callee" && len(ev.Data) == 3 {
					seen = true
					av, _ := ev.Data[1].(*IRVal)
					bv, _ := ev.Data[2].(*IRVal)
					for av != nil && av.Op == "bitcast" && len(av.Args) == 1 {
						av = av.Args[0]
					}
					if av == storage && baseOperand(bv) == storage {
						aliased = true
					}
				}
			}
		})
		// variant: the other argument is evaluated by a call (which could take l by reference and change it)
		{
			decl2 := newObj("ast.FuncDecl")
			decl2.set("Parameters", SliceV{Elems: []Val{mkParam("a", LT, false), mkParam("n", &DT{Kind: "ZAHL"}, false)}})
			decl2.set("ReturnType", TypeV{cfg.ret})
			callModels(in, &cfg, decl2)
			in.Models["ast.(*Ast).GetMetadataByKind"] = func(in *Interp, pkg *packages.Package, call *ast.CallExpr, recv Val, args []Val) (Val, bool) {
				meta := newObj("annotators.ConstFuncParamMeta")
				meta.set("IsConst", MapV{Keys: []Val{StrV("a"), StrV("n")}, Vals: []Val{boolV(true), boolV(true)}})
				return TupleV{meta, boolV(true)}, true
			}
			// the other argument is a call, or an operator that is overloaded by a function (which is a call as well)
			for _, nk := range []struct{ kind, label string }{
				{"ast.FuncCall", "g(...)"},
				{"ast.UnaryExpr", "an overloaded unary operator applied to a name"},
				{"ast.BinaryExpr", "an overloaded binary operator applied to names"},
				{"ast.TernaryExpr", "an overloaded ternary operator applied to names"},
				{"ast.CastExpr", "an overloaded conversion of a name"},
			} {
				nk := nk
				borrowed, seen2 := false, false
				in.RunAll(64, func() {
					cobj := mk()
					cobj.set("optimizationLevel", ConstV{V: constantInt(level), T: intType()})
					fw := newObj("funcWrapper")
					fw.set("funcDecl", decl2)
					fw.set("irFunc", &IRFuncV{Name: "callee"})
					cobj.set("functions", MapV{Keys: []Val{StrV("f")}, Vals: []Val{fw}})
					e := newObj("ast.FuncCall")
					e.set("Func", decl2)
					al := exprNode("l", LT)
					al.Kind = "ast.Ident"
					al.set("Declaration", ldecl)
					nested := exprNode("nested", &DT{Kind: "ZAHL"})
					nested.Kind = nk.kind
					if nk.kind != "ast.FuncCall" {
						plain := func(n string) *Obj {
							o := exprNode(n, &DT{Kind: "ZAHL"})
							o.Kind = "ast.Ident"
							return o
						}
						nested.set("Lhs", plain("x"))
						nested.set("Mid", plain("y"))
						nested.set("Rhs", plain("z"))
						nested.set("OverloadedBy", newObj("ast.FuncDecl"))
					}
					e.set("Args", MapV{Keys: []Val{StrV("a"), StrV("n")}, Vals: []Val{al, nested}})
					in.CallFunc(L.Fn("src/compiler.(*compiler).VisitFuncCall"), cobj, []Val{e})
					for _, ev := range in.Events {
						if ev.Kind == "cerr" || ev.Kind == "panic" {
							return
						}
					}
					for _, ev := range in.Events {
						if ev.Kind == "call" && ev.Msg == "callee" && len(ev.Data) == 3 {
							seen2 = true
							if av, ok := ev.Data[1].(*IRVal); ok && av == storage {
								borrowed = true
							}
						}
					}
				})
				k2 := fmt.Sprintf("compiler.(*compiler).VisitFuncCall|-O%d f(l, %s): value parameter judged constant, another argument evaluated by a call", level, nk.label)
				if !seen2 {
					r4.Und(k2, token.NoPos, "call not observed")
				} else {
					r4.Decide(!borrowed, k2, token.NoPos, "the value parameter receives its own copy", "the variable itself is passed although a later argument is evaluated by a call: if that call changes the variable (it can take it by Referenz), the callee sees the changed value where the language promises the value at the time of the call")
				}
			}
		}
		key := fmt.Sprintf("compiler.(*compiler).VisitFuncCall|-O%d f(l, l an der Stelle i): value parameter judged constant, Referenz to an element", level)
		if !seen {
			r4.Und(key, token.NoPos, "call not observed")
			continue
		}
		r4.Decide(!aliased, key, token.NoPos, "the value parameter receives its own copy", "the callee receives the caller's list as the borrowed value of a parameter it treats as constant and a Referenz to one of its elements: a write through the Referenz shows through (or releases what is read through) the value parameter")
	}
}

// primitiveTests: the names of the runtime's helpers that test whether a Variable's content is primitive - one-parameter
// functions whose body is a single return of a condition that compares the vtable's free_func with NULL (a type without a
// free function owns no blocks). Resolved by that role, not by name.
func primitiveTests(P *CProgram) []string {
	var out []string
	for name, f := range P.Funcs {
		if f.Body == nil || len(f.Body.Inner) != 1 {
			continue
		}
		ret := f.Body.Inner[0]
		if ret.Kind != "ReturnStmt" {
			continue
		}
		found := false
		ret.walk(func(m *CNode) bool {
			if m.Kind == "BinaryOperator" && m.Opcode == "==" && len(m.Inner) == 2 {
				if mem := cstrip(m.Inner[0]); mem != nil && mem.Kind == "MemberExpr" && mem.Name == "free_func" {
					if k, ok := cIntValue(m.Inner[1]); ok && k == 0 {
						found = true
					}
				}
			}
			return true
		})
		if found {
			out = append(out, name)
		}
	}
	sort.Strings(out)
	return out
}
