package main

import (
	"fmt"
	"go/ast"
	"go/constant"
	"go/token"
	"go/types"
	"sort"
	"strings"

	"golang.org/x/tools/go/packages"
)

func init() { registry["C16"] = checkC16 }

// packages whose functions take part in a compilation (the AST printer is not part of the build pipeline)
var c16Scope = []string{"src/token", "src/scanner", "src/ddperror", "src/ddptypes", "src/ast", "src/ast/annotators", "src/parser", "src/parser/alias_trie", "src/parser/ordered_map", "src/parser/resolver", "src/parser/typechecker", "src/compiler", "cmd/kddp", "cmd/internal/linker", "cmd/internal/gcc"}

type mapLoop struct {
	fi      *FuncInfo
	stmt    *ast.RangeStmt
	src     string // description of the iterated expression
	viaFunc string // non-empty when the order comes from a map-ordered slice returned by a function
}

// reviewed exemptions: loops whose order-sensitive effects were judged unobservable. Keyed by construct; the effect set is
// part of the entry so that a new kind of effect in the same loop is reported again.
var c16Exempt = map[string]struct{ effects, reason string }{
	"compiler.(*compiler).addExternalDependencies|range ExternalDependencies": {"diagnostic", "keyed set insert; the handler is reached only when filepath.Abs fails (environment failure, not a function of the sources)"},
	"compiler.compileWithImportsRec|range ExternalDependencies":               {"diagnostic", "keyed set insert; the handler is reached only when filepath.Abs fails (environment failure, not a function of the sources)"},
}

// reviewed consumers of map-ordered slices
var c16EscapeExempt = map[string]string{}

func isMapType(t types.Type) bool {
	if t == nil {
		return false
	}
	_, ok := t.Underlying().(*types.Map)
	return ok
}

// mapOrderCall: call whose result is a slice/sequence in map iteration order (library helpers).
func mapOrderLibCall(info *types.Info, e ast.Expr) (string, bool) {
	call, ok := ast.Unparen(e).(*ast.CallExpr)
	if !ok {
		return "", false
	}
	fn := Callee(info, call)
	if fn == nil || fn.Pkg() == nil {
		return "", false
	}
	p := fn.Pkg().Path()
	if (p == "maps" || p == "golang.org/x/exp/maps") && (nameIs(fn, "Keys") || nameIs(fn, "Values") || nameIs(fn, "All")) {
		return p + "." + fn.Name(), true
	}
	return "", false
}

func checkC16(c *Check) {
	L := c.L
	c.Expl = "Structural clause of 'compilation is repeatable': every iteration whose order comes from a Go map (range over a map, maps.Keys/Values, functions returning a map-ordered slice) inside the build pipeline either has only commutative effects (keyed map writes, counters, flags, deletes, element-local writes), or fills a slice that is sorted by a recognised total order before any ordered use, or is a reviewed exemption whose effect set is unchanged. Order-sensitive effects are: delivering a diagnostic, emitting IR, I/O, building a string/slice in iteration order, assigning iteration-dependent values to outer state, and exits that select an element. Effects of calls are summarised over the VTA call graph. Not decided: unstable sorts on tie-free keys, file-system enumeration order."
	E := NewEffects(L)
	r := c.Rule("R16.1", "map-ordered iterations in the build pipeline have only commutative effects or are sorted by a total order", 15)
	rs := c.Rule("R16.2", "comparators of sorts fed by map order are recognised total orders", 0)

	// ---- pass 1: functions returning a map-ordered slice ----
	mapOrdered := map[*types.Func]string{}   // function -> why
	mapOrderedKeys := map[*types.Func]bool{} // ... whose result holds the keys of a map (pairwise different elements)
	var loops []mapLoop
	L.ForEachFunc(c16Scope, func(fi *FuncInfo) {
		if strings.HasSuffix(L.Fset.Position(fi.Decl.Pos()).Filename, "/ast/printer.go") {
			return
		}
		info := fi.Pkg.TypesInfo
		ast.Inspect(fi.Decl.Body, func(n ast.Node) bool {
			rg, ok := n.(*ast.RangeStmt)
			if !ok {
				return true
			}
			if isMapType(info.TypeOf(rg.X)) {
				loops = append(loops, mapLoop{fi: fi, stmt: rg, src: shortExpr(L, rg.X)})
			} else if nm, ok := mapOrderLibCall(info, rg.X); ok {
				loops = append(loops, mapLoop{fi: fi, stmt: rg, src: nm + "(" + shortExpr(L, rg.X.(*ast.CallExpr).Args[0]) + ")"})
			}
			return true
		})
	})
	type verdict struct {
		kinds   []string
		appends []types.Object // outer slices appended to
	}
	classify := func(ml mapLoop) verdict {
		fi := ml.fi
		info := fi.Pkg.TypesInfo
		body := ml.stmt.Body
		var v verdict
		add := func(k string) {
			for _, x := range v.kinds {
				if x == k {
					return
				}
			}
			v.kinds = append(v.kinds, k)
		}
		inside := func(obj types.Object) bool {
			return obj != nil && ml.stmt.Pos() <= obj.Pos() && obj.Pos() < ml.stmt.End()
		}
		// does expression mention a variable declared by/inside the loop (iteration dependent)?
		loopDep := func(e ast.Expr) bool {
			dep := false
			ast.Inspect(e, func(n ast.Node) bool {
				if id, ok := n.(*ast.Ident); ok {
					if obj, ok := info.Uses[id].(*types.Var); ok && inside(obj) {
						dep = true
					}
				}
				return true
			})
			return dep
		}
		rootObj := func(e ast.Expr) types.Object {
			for {
				switch x := ast.Unparen(e).(type) {
				case *ast.Ident:
					if o := info.Uses[x]; o != nil {
						return o
					}
					return info.Defs[x]
				case *ast.SelectorExpr:
					e = x.X
				case *ast.IndexExpr:
					e = x.X
				case *ast.StarExpr:
					e = x.X
				default:
					return nil
				}
			}
		}
		isConstLike := func(e ast.Expr) bool {
			tv := info.Types[e]
			if tv.Value != nil || tv.IsNil() {
				return true
			}
			if id, ok := ast.Unparen(e).(*ast.Ident); ok && (id.Name == "true" || id.Name == "false" || id.Name == "nil") {
				return true
			}
			return false
		}
		var funcLitDepth int
		var walk func(n ast.Node) bool
		walk = func(n ast.Node) bool {
			switch s := n.(type) {
			case *ast.FuncLit:
				funcLitDepth++
				ast.Inspect(s.Body, walk)
				funcLitDepth--
				return false
			case *ast.CallExpr:
				if id, ok := ast.Unparen(s.Fun).(*ast.Ident); ok {
					if _, isB := info.Uses[id].(*types.Builtin); isB {
						return true // append handled at the assignment; delete/len/... are commutative
					}
				}
				eff, names := E.CallEffects(info, s)
				if eff != 0 {
					add(effString(eff) + " via " + strings.Join(names, ", "))
				}
				// writes into an outer strings.Builder / bytes.Buffer
				if sel, ok := ast.Unparen(s.Fun).(*ast.SelectorExpr); ok {
					if t := info.TypeOf(sel.X); t != nil {
						ts := t.String()
						if has(ts, "strings.Builder", "bytes.Buffer") && strings.HasPrefix(sel.Sel.Name, "Write") {
							if o := rootObj(sel.X); o != nil && !inside(o) {
								add("string built in iteration order")
							}
						}
					}
				}
			case *ast.AssignStmt:
				for i, l := range s.Lhs {
					if id, ok := l.(*ast.Ident); ok && id.Name == "_" {
						continue
					}
					o := rootObj(l)
					if o == nil || inside(o) {
						continue
					}
					// the loop's own key/value variables (declared by the range clause) count as inside
					var rhs ast.Expr
					if len(s.Rhs) == len(s.Lhs) {
						rhs = s.Rhs[i]
					} else {
						rhs = s.Rhs[0]
					}
					lt := info.TypeOf(l)
					// keyed map write
					if ix, ok := ast.Unparen(l).(*ast.IndexExpr); ok && isMapType(info.TypeOf(ix.X)) {
						continue
					}
					// append to outer slice
					if call, ok := ast.Unparen(rhs).(*ast.CallExpr); ok {
						if id, ok := ast.Unparen(call.Fun).(*ast.Ident); ok && id.Name == "append" {
							if _, isB := info.Uses[id].(*types.Builtin); isB {
								v.appends = append(v.appends, o)
								continue
							}
						}
					}
					switch s.Tok {
					case token.ADD_ASSIGN, token.SUB_ASSIGN, token.OR_ASSIGN, token.AND_ASSIGN, token.XOR_ASSIGN, token.MUL_ASSIGN:
						if b, ok := lt.Underlying().(*types.Basic); ok && b.Info()&(types.IsInteger|types.IsBoolean) != 0 {
							continue // commutative accumulation
						}
						add("accumulation into " + shortExpr(L, l) + " in iteration order")
						continue
					}
					if isConstLike(rhs) {
						continue // flag
					}
					if !loopDep(rhs) && funcLitDepth == 0 {
						// same value every iteration
						continue
					}
					add("iteration-dependent value assigned to outer " + shortExpr(L, l))
				}
			case *ast.IncDecStmt:
				// counters commute
			case *ast.ReturnStmt:
				if funcLitDepth > 0 {
					return true
				}
				for _, res := range s.Results {
					if !isConstLike(res) && loopDep(res) {
						add("early return selecting an element")
					}
				}
			case *ast.SendStmt, *ast.GoStmt, *ast.DeferStmt:
				add("send/go/defer in iteration order")
			}
			return true
		}
		ast.Inspect(body, walk)
		return v
	}

	// sliceArgOK: a map-ordered slice is handed to parameter #idx of callee. ok = no use of the parameter lets the order
	// through: membership tests, len, forwarding to a parameter with the same summary, a range loop with commutative
	// effects, a range loop that selects by identity (`if e == x { return ... }`: at most one match when the elements
	// are unique, as map keys are), or returning the slice itself. returned = the function may return the slice (then
	// the call's own consumer is judged by the caller of sliceArgOK).
	var sliceArgOK func(callee *FuncInfo, call *ast.CallExpr, arg ast.Expr, unique bool, depth int) (ok, returned bool)
	consumedOK := func(fi *FuncInfo, call *ast.CallExpr) (ok, returned bool) {
		switch p := parentOf(fi.Decl.Body, call).(type) {
		case *ast.RangeStmt:
			if p.X == ast.Expr(call) {
				v := classify(mapLoop{fi: fi, stmt: p})
				return len(v.kinds) == 0 && len(v.appends) == 0, false
			}
		case *ast.ReturnStmt:
			return true, true
		case *ast.ExprStmt:
			return true, false
		}
		return false, false
	}
	sliceArgOK = func(callee *FuncInfo, call *ast.CallExpr, arg ast.Expr, unique bool, depth int) (bool, bool) {
		if callee == nil || callee.Decl.Body == nil || depth > 3 {
			return false, false
		}
		idx := -1
		for i, a := range call.Args {
			if a == arg {
				idx = i
			}
		}
		info := callee.Pkg.TypesInfo
		var param types.Object
		k := 0
		for _, f := range callee.Decl.Type.Params.List {
			for _, n := range f.Names {
				if k == idx {
					param = info.Defs[n]
				}
				k++
			}
		}
		if idx < 0 || param == nil {
			return false, false
		}
		ok, returned := true, false
		ast.Inspect(callee.Decl.Body, func(n ast.Node) bool {
			id, isId := n.(*ast.Ident)
			if !isId || info.Uses[id] != param || !ok {
				return true
			}
			switch p := parentOf(callee.Decl.Body, id).(type) {
			case *ast.CallExpr:
				if fid, isB := ast.Unparen(p.Fun).(*ast.Ident); isB {
					if _, isBuiltin := info.Uses[fid].(*types.Builtin); isBuiltin && (fid.Name == "len" || fid.Name == "cap") {
						return true
					}
				}
				fn := Callee(info, p)
				if fn == nil {
					ok = false
					return true
				}
				if fn.Pkg() != nil && fn.Pkg().Path() == "slices" && (nameIs(fn, "Contains") || nameIs(fn, "Index")) {
					return true
				}
				if fn == callee.Obj {
					// recursion: the result is whatever this function returns; fine when it is returned or dropped
					switch parentOf(callee.Decl.Body, p).(type) {
					case *ast.ReturnStmt, *ast.ExprStmt:
						return true
					}
					ok = false
					return true
				}
				ok2, ret2 := sliceArgOK(L.Funcs[fn], p, id, unique, depth+1)
				if !ok2 {
					ok = false
					return true
				}
				if ret2 {
					cok, cret := consumedOK(callee, p)
					if !cok {
						ok = false
					}
					returned = returned || cret
				}
			case *ast.RangeStmt:
				if p.X != ast.Expr(id) {
					ok = false
					return true
				}
				v := classify(mapLoop{fi: callee, stmt: p})
				if len(v.kinds) == 0 && len(v.appends) == 0 {
					return true
				}
				// selection by identity
				val, _ := p.Value.(*ast.Ident)
				sel := unique && val != nil && len(v.appends) == 0
				for _, st := range p.Body.List {
					is, isIf := st.(*ast.IfStmt)
					if !isIf || is.Init != nil || is.Else != nil {
						sel = false
						break
					}
					be, isBin := ast.Unparen(is.Cond).(*ast.BinaryExpr)
					if !isBin || be.Op != token.EQL {
						sel = false
						break
					}
					x, xok := ast.Unparen(be.X).(*ast.Ident)
					y, yok := ast.Unparen(be.Y).(*ast.Ident)
					isVal := func(i *ast.Ident, present bool) bool { return present && val != nil && info.Uses[i] == info.Defs[val] }
					other := be.Y
					if !isVal(x, xok) {
						other = be.X
						if !isVal(y, yok) {
							sel = false
							break
						}
					}
					// the other side must not depend on the loop
					dep := false
					ast.Inspect(other, func(m ast.Node) bool {
						if oid, ok := m.(*ast.Ident); ok {
							if o := info.Uses[oid]; o != nil && p.Pos() <= o.Pos() && o.Pos() < p.End() {
								dep = true
							}
						}
						return true
					})
					if dep || len(is.Body.List) != 1 {
						sel = false
						break
					}
					if _, isRet := is.Body.List[0].(*ast.ReturnStmt); !isRet {
						sel = false
						break
					}
				}
				if !sel {
					ok = false
				}
			case *ast.ReturnStmt:
				returned = true
			case *ast.IndexExpr:
				// p[i] in a hand-written index loop: selection by identity, `if p[i] == x { return ...p[i]... }`
				if p.X != ast.Expr(id) || !unique {
					ok = false
					return true
				}
				okUse := false
				var is *ast.IfStmt
				for cur := ast.Node(p); cur != nil; cur = parentOf(callee.Decl.Body, cur) {
					if x, isIf := cur.(*ast.IfStmt); isIf {
						is = x
						break
					}
					if _, isFn := cur.(*ast.FuncDecl); isFn {
						break
					}
				}
				if is != nil && is.Init == nil && is.Else == nil && len(is.Body.List) == 1 {
					if be, isBin := ast.Unparen(is.Cond).(*ast.BinaryExpr); isBin && be.Op == token.EQL {
						sameElem := func(e ast.Expr) bool {
							ix, isIx := ast.Unparen(e).(*ast.IndexExpr)
							if !isIx {
								return false
							}
							xid, isId := ast.Unparen(ix.X).(*ast.Ident)
							return isId && info.Uses[xid] == param
						}
						_, isRet := is.Body.List[0].(*ast.ReturnStmt)
						if isRet && (sameElem(be.X) != sameElem(be.Y)) {
							okUse = true
						}
					}
				}
				if !okUse {
					ok = false
				}
			default:
				ok = false
			}
			return true
		})
		return ok, returned
	}
	// argOK: the whole judgement for `f(..., s, ...)` inside fi where s is map-ordered
	argOK := func(fi *FuncInfo, call *ast.CallExpr, arg ast.Expr, unique bool) bool {
		fn := Callee(fi.Pkg.TypesInfo, call)
		if fn == nil {
			return false
		}
		ok, ret := sliceArgOK(L.Funcs[fn], call, arg, unique, 0)
		if !ok {
			return false
		}
		if ret {
			cok, cret := consumedOK(fi, call)
			return cok && !cret
		}
		return true
	}

	// sortedAfter: is the outer slice obj sorted by a recognised total order right after the loop, before other uses?
	sortedAfter := func(ml mapLoop, obj types.Object) (found bool, total bool, why string, pos token.Pos) {
		info := ml.fi.Pkg.TypesInfo
		// find the statement list containing the loop
		var list []ast.Stmt
		ast.Inspect(ml.fi.Decl.Body, func(n ast.Node) bool {
			var l []ast.Stmt
			switch b := n.(type) {
			case *ast.BlockStmt:
				l = b.List
			case *ast.CaseClause:
				l = b.Body
			}
			for i, s := range l {
				if s == ast.Stmt(ml.stmt) {
					list = l[i+1:]
				}
			}
			return true
		})
		for _, s := range list {
			uses := false
			ast.Inspect(s, func(n ast.Node) bool {
				if id, ok := n.(*ast.Ident); ok && info.Uses[id] == obj {
					uses = true
				}
				return true
			})
			if !uses {
				continue
			}
			// first use: must be a sort
			var call *ast.CallExpr
			switch x := s.(type) {
			case *ast.ExprStmt:
				call, _ = x.X.(*ast.CallExpr)
			case *ast.AssignStmt:
				if len(x.Rhs) == 1 {
					call, _ = x.Rhs[0].(*ast.CallExpr)
				}
			}
			if call == nil {
				return false, false, "", token.NoPos
			}
			fn := Callee(info, call)
			if fn == nil || fn.Pkg() == nil {
				return false, false, "", token.NoPos
			}
			q := fn.Pkg().Path() + "." + fn.Name()
			switch q {
			case "sort.Strings", "sort.Ints", "slices.Sort":
				return true, true, "natural order of the elements", call.Pos()
			case "sort.Slice", "sort.SliceStable", "slices.SortFunc", "slices.SortStableFunc":
				if len(call.Args) == 2 {
					if tot, decided, why := evalComparator(L, info, call.Args[1], ml.fi.Decl.Body, strings.HasPrefix(q, "sort.")); decided {
						return true, tot, why, call.Pos()
					}
					if body, binfo := comparatorBody(L, info, ml.fi.Decl.Body, call.Args[1]); body != nil {
						ok, why := totalComparator(L, binfo, body)
						return true, ok, why, call.Pos()
					}
				}
				return true, false, "the comparator is not a function literal nor a function of the repository", call.Pos()
			}
			return false, false, "", token.NoPos
		}
		return false, false, "", token.NoPos
	}
	returned := func(ml mapLoop, obj types.Object) bool {
		info := ml.fi.Pkg.TypesInfo
		ret := false
		ast.Inspect(ml.fi.Decl.Body, func(n ast.Node) bool {
			if r, ok := n.(*ast.ReturnStmt); ok {
				for _, e := range r.Results {
					if id, ok := ast.Unparen(e).(*ast.Ident); ok && info.Uses[id] == obj {
						ret = true
					}
				}
			}
			return true
		})
		return ret
	}

	decide := func(ml mapLoop) {
		q := L.QName(ml.fi.Obj)
		key := q + "|range " + ml.src
		v := classify(ml)
		kinds := append([]string{}, v.kinds...)
		for _, obj := range v.appends {
			found, total, why, pos := sortedAfter(ml, obj)
			switch {
			case found && total:
				rs.OK(q+"|sort "+obj.Name(), pos, "sorted by "+why+" before any ordered use")
			case found:
				rs.Bad(q+"|sort "+obj.Name(), pos, "slice filled in map order is sorted by a comparator that is not a recognised total order ("+why+"): the map's iteration order survives the sort")
			case returned(ml, obj):
				mapOrdered[ml.fi.Obj] = "returns " + obj.Name() + ", filled in map order"
				// the slice holds the map's keys (pairwise different) when every append inside the loop adds the range key
				if kid, ok := ml.stmt.Key.(*ast.Ident); ok && isMapType(ml.fi.Pkg.TypesInfo.TypeOf(ml.stmt.X)) {
					kobj := ml.fi.Pkg.TypesInfo.Defs[kid]
					onlyKeys, any := true, false
					ast.Inspect(ml.stmt.Body, func(n ast.Node) bool {
						if call, ok := n.(*ast.CallExpr); ok {
							if id, ok := ast.Unparen(call.Fun).(*ast.Ident); ok && id.Name == "append" && len(call.Args) >= 2 {
								any = true
								for _, a := range call.Args[1:] {
									if aid, ok := ast.Unparen(a).(*ast.Ident); !ok || ml.fi.Pkg.TypesInfo.Uses[aid] != kobj {
										onlyKeys = false
									}
								}
							}
						}
						return true
					})
					if any && onlyKeys && kobj != nil {
						mapOrderedKeys[ml.fi.Obj] = true
					}
				}
			default:
				kinds = append(kinds, "slice "+obj.Name()+" filled in iteration order and used unsorted")
			}
		}
		if len(kinds) == 0 {
			r.OK(key, ml.stmt.Pos(), "only commutative effects (keyed writes, counters, flags, sorted collection)")
			return
		}
		sort.Strings(kinds)
		// coarse, stable effect classes for keys: one class per sink family, call-graph detail dropped
		var classes []string
		for _, k := range kinds {
			cl := k
			if i := strings.Index(k, " via "); i >= 0 {
				cl = k[:i]
				switch {
				case strings.Contains(cl, "diagnostic"):
					cl = "diagnostic"
				case strings.Contains(cl, "ir-emission"):
					cl = "ir-emission"
				}
			}
			if strings.HasPrefix(cl, "slice ") {
				cl = "unsorted slice"
			}
			if strings.HasPrefix(cl, "iteration-dependent value") || strings.HasPrefix(cl, "accumulation") {
				cl = "outer state"
			}
			classes = append(classes, cl)
		}
		classes = uniq(classes)
		// a loop whose only order-sensitive effect is emitting the free of the iterated variable: frees of distinct
		// allocations commute (no observable order), wherever the loop lives
		freesOnly := true
		for _, k := range kinds {
			if !(strings.HasPrefix(k, "ir-emission via ") && strings.HasSuffix(k, "/src/compiler.compiler).freeNonPrimitive") && !strings.Contains(k, ", ")) {
				freesOnly = false
			}
		}
		if freesOnly {
			r.OK(key, ml.stmt.Pos(), "emits one free per iterated variable and nothing else; frees of distinct allocations commute (no observable order)")
			return
		}
		// exemption lookup by function + map field (last selector component)
		for ek, ex := range c16Exempt {
			parts := strings.SplitN(ek, "|range ", 2)
			if parts[0] == q && strings.HasSuffix(ml.src, lastComponent(parts[1])) {
				if strings.Join(classes, ";") == ex.effects {
					r.Ex(key, ml.stmt.Pos(), ex.reason)
					return
				}
			}
		}
		r.Bad(key+"|"+strings.Join(classes, ";"), ml.stmt.Pos(), "iteration in map order with order-sensitive effects: "+strings.Join(kinds, "; "))
	}
	for _, ml := range loops {
		decide(ml)
	}
	// ---- pass 2: consumers of map-ordered slices returned by functions (and of maps.Keys/Values results bound to variables) ----
	L.ForEachFunc(c16Scope, func(fi *FuncInfo) {
		if strings.HasSuffix(L.Fset.Position(fi.Decl.Pos()).Filename, "/ast/printer.go") {
			return
		}
		info := fi.Pkg.TypesInfo
		q := L.QName(fi.Obj)
		ast.Inspect(fi.Decl.Body, func(n ast.Node) bool {
			call, ok := n.(*ast.CallExpr)
			if !ok {
				return true
			}
			src := ""
			if fn := Callee(info, call); fn != nil {
				if why, ok := mapOrdered[fn]; ok {
					src = L.QName(fn) + " (" + why + ")"
				}
			}
			if nm, ok := mapOrderLibCall(info, call); ok {
				src = nm
			}
			if src == "" {
				return true
			}
			uniqueSrc := strings.HasSuffix(src, "maps.Keys") // the keys of a map are pairwise different
			if fn := Callee(info, call); fn != nil && mapOrderedKeys[fn] {
				uniqueSrc = true
			}
			// how is the result consumed?
			parent := parentOf(fi.Decl.Body, call)
			switch p := parent.(type) {
			case *ast.RangeStmt:
				if p.X == ast.Expr(call) {
					return true // handled as loop in pass 1 (library call) or below
				}
			case *ast.AssignStmt:
				if len(p.Lhs) == 1 {
					if id, ok := p.Lhs[0].(*ast.Ident); ok {
						obj := info.Defs[id]
						if obj == nil {
							obj = info.Uses[id]
						}
						// every use of obj: range loops are classified; sort makes it fine; anything else escapes
						escaped := false
						ast.Inspect(fi.Decl.Body, func(m ast.Node) bool {
							switch u := m.(type) {
							case *ast.RangeStmt:
								if uid, ok := ast.Unparen(u.X).(*ast.Ident); ok && info.Uses[uid] == obj {
									decide(mapLoop{fi: fi, stmt: u, src: id.Name + " := " + src})
								}
							case *ast.CallExpr:
								for _, a := range u.Args {
									if uid, ok := ast.Unparen(a).(*ast.Ident); ok && info.Uses[uid] == obj {
										if fn := Callee(info, u); fn != nil {
											// membership tests are order-independent
											if fn.Pkg() != nil && fn.Pkg().Path() == "slices" && (nameIs(fn, "Contains") || nameIs(fn, "Sort")) {
												continue
											}
											if fi2 := L.Funcs[fn]; fi2 != nil && onlyMembership(L, fi2, u, a) {
												continue
											}
											if argOK(fi, u, a, uniqueSrc) {
												continue
											}
										}
										escaped = true
									}
								}
							}
							return true
						})
						if ex, ok := c16EscapeExempt[q+"|"+id.Name]; ok && escaped {
							r.Ex(q+"|"+id.Name+" := "+src, call.Pos(), ex)
						} else if escaped {
							r.Bad(q+"|"+id.Name+" := "+src+"|escapes", call.Pos(), "map-ordered slice is passed on unsorted")
						} else {
							r.OK(q+"|"+id.Name+" := "+src, call.Pos(), "map-ordered slice is only iterated with commutative effects, sorted, or used for membership")
						}
						return true
					}
				}
			}
			// collected and sorted in one expression: slices.Sorted(maps.Keys(m)), slices.SortedFunc(maps.Values(m), cmp)
			if pc, ok := parent.(*ast.CallExpr); ok {
				if pf := Callee(info, pc); pf != nil && pf.Pkg() != nil && pf.Pkg().Path() == "slices" {
					switch canonName(pf) {
					case "Sorted":
						rs.OK(q+"|slices.Sorted("+src+")", pc.Pos(), "natural order of the elements")
						return true
					case "SortedFunc", "SortedStableFunc":
						okc, why := false, "the comparator is not a function literal nor a function of the repository"
						if len(pc.Args) == 2 {
							if tot, decided, w := evalComparator(L, info, pc.Args[1], fi.Decl.Body, false); decided {
								okc, why = tot, w
							} else if body, binfo := comparatorBody(L, info, fi.Decl.Body, pc.Args[1]); body != nil {
								okc, why = totalComparator(L, binfo, body)
							}
						}
						rs.Decide(okc, q+"|"+pf.Name()+"("+src+")", pc.Pos(), "sorted by "+why, "values collected in map order are sorted by a comparator that is not a recognised total order ("+why+"): the map's iteration order survives the sort")
						return true
					}
				}
			}
			// passed directly / returned
			key := q + "|" + src + "|passed on"
			if pc, ok := parent.(*ast.CallExpr); ok {
				if fn := Callee(info, pc); fn != nil {
					if fi2 := L.Funcs[fn]; fi2 != nil && (onlyMembership(L, fi2, pc, call) || argOK(fi, pc, call, uniqueSrc)) {
						r.OK(key, call.Pos(), "handed to "+fn.Name()+", which uses it for membership tests, identity selection or commutative iteration only")
						return true
					}
				}
			}
			if ex, ok := c16DirectExempt[q+"|"+shortCallee(src)]; ok {
				r.Ex(key, call.Pos(), ex)
			} else {
				r.Bad(key, call.Pos(), "map-ordered slice from "+src+" is passed on unsorted to an order-sensitive consumer")
			}
			return true
		})
	})
	c.extra["map_order_sources"] = len(loops)
	c.extra["functions_returning_map_order"] = len(mapOrdered)
}

var c16DirectExempt = map[string]string{
	"ast.(*helperVisitor).VisitFuncCall|ast.(*helperVisitor).sortArgs":      "children are visited in argument-map order; the only pipeline visitor driven through the helper is ConstFuncParamAnnotator, whose updates are keyed and monotone (true→false)",
	"ast.(*helperVisitor).VisitStructLiteral|ast.(*helperVisitor).sortArgs": "same as VisitFuncCall",
}

func shortCallee(src string) string {
	if i := strings.Index(src, " ("); i >= 0 {
		return src[:i]
	}
	return src
}

func lastComponent(s string) string {
	if i := strings.LastIndex(s, "."); i >= 0 {
		return s[i+1:]
	}
	return s
}

func uniq(s []string) []string {
	sort.Strings(s)
	var o []string
	for i, x := range s {
		if i == 0 || x != s[i-1] {
			o = append(o, x)
		}
	}
	return o
}

func shortExpr(L *Loaded, e ast.Expr) string {
	s := L.Src(e)
	if len(s) > 60 {
		s = s[:60]
	}
	return s
}

func parentOf(root ast.Node, child ast.Node) ast.Node {
	var parent ast.Node
	var stack []ast.Node
	ast.Inspect(root, func(n ast.Node) bool {
		if n == nil {
			stack = stack[:len(stack)-1]
			return true
		}
		if n == child && len(stack) > 0 {
			parent = stack[len(stack)-1]
		}
		stack = append(stack, n)
		return true
	})
	return parent
}

// onlyMembership: callee uses the slice parameter only as argument of slices.Contains / in range loops with commutative bodies.
// Conservative recogniser: parameter is used only in calls to slices.Contains or passed on to itself recursively.
func onlyMembership(L *Loaded, callee *FuncInfo, call *ast.CallExpr, arg ast.Expr) bool {
	return onlyMembershipD(L, callee, call, arg, 0)
}

func onlyMembershipD(L *Loaded, callee *FuncInfo, call *ast.CallExpr, arg ast.Expr, depth int) bool {
	idx := -1
	for i, a := range call.Args {
		if a == arg {
			idx = i
		}
	}
	if idx < 0 || callee.Decl.Body == nil {
		return false
	}
	info := callee.Pkg.TypesInfo
	var param types.Object
	k := 0
	for _, f := range callee.Decl.Type.Params.List {
		for _, n := range f.Names {
			if k == idx {
				param = info.Defs[n]
			}
			k++
		}
	}
	if param == nil {
		return false
	}
	ok := true
	ast.Inspect(callee.Decl.Body, func(n ast.Node) bool {
		id, isId := n.(*ast.Ident)
		if !isId || info.Uses[id] != param {
			return true
		}
		p := parentOf(callee.Decl.Body, id)
		if c, isCall := p.(*ast.CallExpr); isCall {
			if fn := Callee(info, c); fn != nil {
				if fn.Pkg() != nil && fn.Pkg().Path() == "slices" && (nameIs(fn, "Contains") || nameIs(fn, "Index")) {
					return true
				}
				if fn == callee.Obj {
					return true
				}
				// forwarded unchanged to another function of the repository that itself only tests membership
				if fi2 := L.Funcs[fn]; fi2 != nil && depth < 3 && onlyMembershipD(L, fi2, c, id, depth+1) {
					return true
				}
			}
		}
		ok = false
		return true
	})
	return ok
}

// totalComparator recognises comparators that are total orders on source positions:
//   - return X.IsBefore(Y) / X.IsBehind(Y) on token.Position values
//   - lexicographic comparison on (Line, Column): L1 < L2 || (L1 == L2 && C1 < C2), or the equivalent if-chain
//
// comparatorBody resolves a comparator argument to the body that is executed: a function literal, a once-defined local
// holding one, or a function of the repository named directly (the literal, extracted).
func comparatorBody(L *Loaded, info *types.Info, scope ast.Node, e ast.Expr) (*ast.BlockStmt, *types.Info) {
	e = ast.Unparen(e)
	if fl, ok := e.(*ast.FuncLit); ok {
		return fl.Body, info
	}
	var id *ast.Ident
	switch x := e.(type) {
	case *ast.Ident:
		id = x
	case *ast.SelectorExpr:
		id = x.Sel
	}
	if id == nil {
		return nil, nil
	}
	switch o := info.Uses[id].(type) {
	case *types.Func:
		if fi := L.Funcs[o.Origin()]; fi != nil && fi.Decl.Body != nil {
			return fi.Decl.Body, fi.Pkg.TypesInfo
		}
	case *types.Var:
		if d := singleDef(info, scope, o); d != nil {
			if fl, ok := ast.Unparen(d).(*ast.FuncLit); ok {
				return fl.Body, info
			}
		}
	}
	return nil, nil
}

// evalComparator decides a comparator by evaluating it (engine E2) on a finite population of synthetic elements. Every
// element k stands for one source entity: an accessor chain that ends in a token.Position yields position k of
// {(1,1),(1,2),(2,1),(2,2)} (two entities never start at the same position), one that ends in an identifying key
// (identityKeys: ast.Module.FileName) yields a string that differs per element, every other string or number yields the
// same value for all elements (so a comparator that only looks at a non-identifying key has ties and is rejected).
// Decided: irreflexive, total on distinct elements, antisymmetric, transitive. ok=false,decided=false when the
// evaluation loses precision - the caller then falls back to the recognised forms.
func evalComparator(L *Loaded, info *types.Info, cmpExpr ast.Expr, scope ast.Node, indexed bool) (total bool, decided bool, why string) {
	in := NewInterp(L)
	in.MaxDepth = 8
	positions := [][2]int64{{1, 1}, {1, 2}, {2, 1}, {2, 2}}
	n := len(positions)
	identity := map[string]bool{"ast.Module.FileName": true}
	short := func(t types.Type) string {
		return strings.TrimPrefix(types.TypeString(t, func(p *types.Package) string { return p.Name() }), "*")
	}
	var synth func(k int64, owner string, name string, t types.Type) (Val, bool)
	synth = func(k int64, owner, name string, t types.Type) (Val, bool) {
		if t == nil {
			return nil, false
		}
		switch short(t) {
		case "token.Position":
			o := newObj("token.Position")
			o.set("Line", ConstV{V: constant.MakeInt64(positions[k][0]), T: types.Typ[types.Uint]})
			o.set("Column", ConstV{V: constant.MakeInt64(positions[k][1]), T: types.Typ[types.Uint]})
			return o, true
		}
		switch u := t.Underlying().(type) {
		case *types.Basic:
			switch {
			case u.Info()&types.IsString != 0:
				if identity[owner+"."+name] {
					return StrV(fmt.Sprintf("k%02d", k)), true
				}
				return StrV("same"), true
			case u.Info()&types.IsInteger != 0:
				return ConstV{V: constant.MakeInt64(7), T: t}, true
			case u.Info()&types.IsBoolean != 0:
				return boolV(false), true
			}
			return nil, false
		case *types.Struct, *types.Pointer, *types.Interface:
			o := newObj(short(t))
			o.set("·k", ConstV{V: constant.MakeInt64(k), T: types.Typ[types.Int]})
			return o, true
		}
		return nil, false
	}
	keyOf := func(o *Obj) (int64, bool) {
		if cv, ok := o.get("·k").(ConstV); ok && cv.V != nil {
			v, _ := constant.Int64Val(cv.V)
			return v, true
		}
		return 0, false
	}
	in.FieldFallback = func(o *Obj, name string, t types.Type) (Val, bool) {
		k, ok := keyOf(o)
		if !ok {
			return nil, false
		}
		v, ok := synth(k, o.Kind, name, t)
		if ok {
			o.set(name, v) // the same entity answers the same way every time
		}
		return v, ok
	}
	in.CallFallback = func(fn *types.Func, recv Val, args []Val, t types.Type) (Val, bool) {
		o, ok := recv.(*Obj)
		if !ok || len(args) != 0 || fn == nil {
			return nil, false
		}
		k, ok := keyOf(o)
		if !ok {
			return nil, false
		}
		if p, have := o.F["()"+fn.Name()]; have {
			return *p, true
		}
		v, ok := synth(k, o.Kind, fn.Name()+"()", t)
		if ok {
			o.set("()"+fn.Name(), v)
		}
		return v, ok
	}
	threeWayCmp := func(in *Interp, pkg *packages.Package, call *ast.CallExpr, recv Val, args []Val) (Val, bool) {
		if len(args) != 2 {
			return nil, false
		}
		r := 0
		switch a := args[0].(type) {
		case StrV:
			b, ok := args[1].(StrV)
			if !ok {
				return nil, false
			}
			r = strings.Compare(string(a), string(b))
		case ConstV:
			b, ok := args[1].(ConstV)
			if !ok || a.V == nil || b.V == nil {
				return nil, false
			}
			switch {
			case constant.Compare(a.V, token.LSS, b.V):
				r = -1
			case constant.Compare(a.V, token.GTR, b.V):
				r = 1
			}
		default:
			return nil, false
		}
		return ConstV{V: constant.MakeInt64(int64(r)), T: types.Typ[types.Int]}, true
	}
	in.Models["strings.Compare"] = threeWayCmp
	in.Models["cmp.Compare"] = threeWayCmp
	// the element type: parameter type of the comparator, or the element type of the sorted slice for index comparators
	var elems []Val
	mkElems := func(t types.Type) {
		elems = nil
		for k := 0; k < n; k++ {
			o := newObj(short(t))
			o.set("·k", ConstV{V: constant.MakeInt64(int64(k)), T: types.Typ[types.Int]})
			elems = append(elems, o)
		}
	}
	cmpT, _ := info.TypeOf(cmpExpr).Underlying().(*types.Signature)
	if cmpT == nil || cmpT.Params().Len() != 2 || cmpT.Results().Len() != 1 {
		return false, false, "comparator signature"
	}
	resBool := false
	if b, ok := cmpT.Results().At(0).Type().Underlying().(*types.Basic); ok && b.Info()&types.IsBoolean != 0 {
		resBool = true
	}
	var call func(i, j int) Val
	body, binfo := comparatorBody(L, info, scope, cmpExpr)
	if body == nil {
		return false, false, "comparator body not found"
	}
	_ = binfo
	if indexed {
		// sort.Slice(s, func(i, j int) bool {...}): the closure indexes the captured slice; bind every captured slice-typed
		// variable used in an index expression to the population
		fl, ok := ast.Unparen(cmpExpr).(*ast.FuncLit)
		if !ok {
			return false, false, "index comparator that is not a literal"
		}
		env := newEnv(nil)
		var elemT types.Type
		ast.Inspect(fl.Body, func(m ast.Node) bool {
			if ix, ok := m.(*ast.IndexExpr); ok {
				if id, ok := ast.Unparen(ix.X).(*ast.Ident); ok {
					if sl, ok := info.TypeOf(id).Underlying().(*types.Slice); ok {
						if elemT == nil {
							elemT = sl.Elem()
							mkElems(elemT)
						}
						env.define(info.Uses[id], SliceV{Elems: elems})
					}
				}
			}
			return true
		})
		if elemT == nil {
			return false, false, "index comparator does not index a slice"
		}
		var pkg *packages.Package
		for _, p := range L.Pkgs {
			if p.TypesInfo == info {
				pkg = p
			}
		}
		if pkg == nil {
			return false, false, "package of the comparator not found"
		}
		cl := Closure{Lit: fl, Env: env, Pkg: pkg}
		call = func(i, j int) Val {
			return in.callClosure(cl, []Val{ConstV{V: constantInt(i), T: intType()}, ConstV{V: constantInt(j), T: intType()}})
		}
	} else {
		mkElems(cmpT.Params().At(0).Type())
		var pkg *packages.Package
		for _, p := range L.Pkgs {
			if p.TypesInfo == info {
				pkg = p
			}
		}
		switch x := ast.Unparen(cmpExpr).(type) {
		case *ast.FuncLit:
			if pkg == nil {
				return false, false, "package of the comparator not found"
			}
			cl := Closure{Lit: x, Env: newEnv(nil), Pkg: pkg}
			call = func(i, j int) Val { return in.callClosure(cl, []Val{elems[i], elems[j]}) }
		default:
			var id *ast.Ident
			switch y := x.(type) {
			case *ast.Ident:
				id = y
			case *ast.SelectorExpr:
				id = y.Sel
			}
			if id == nil {
				return false, false, "comparator expression"
			}
			fn, _ := info.Uses[id].(*types.Func)
			if fn == nil || L.Funcs[fn.Origin()] == nil {
				return false, false, "comparator is not a function of the repository"
			}
			fi := L.Funcs[fn.Origin()]
			call = func(i, j int) Val { return in.CallFunc(fi, nil, []Val{elems[i], elems[j]}) }
		}
	}
	less := make([][]bool, n)
	for i := 0; i < n; i++ {
		less[i] = make([]bool, n)
		for j := 0; j < n; j++ {
			var res Val
			runs, _ := in.RunAll(4, func() { res = call(i, j) })
			if runs != 1 {
				return false, false, "the comparator's outcome depends on something the evaluation does not know"
			}
			if resBool {
				t, known := truth(res)
				if !known {
					return false, false, fmt.Sprintf("comparison (%d,%d) not evaluated: %v", i, j, res)
				}
				less[i][j] = t
			} else {
				cv, ok := res.(ConstV)
				if !ok || cv.V == nil || cv.V.Kind() != constant.Int {
					return false, false, fmt.Sprintf("comparison (%d,%d) not evaluated: %v", i, j, res)
				}
				v, _ := constant.Int64Val(cv.V)
				less[i][j] = v < 0
				// consistency of the three-way result
				if i == j && v != 0 {
					return false, true, "an element does not compare equal to itself"
				}
			}
		}
	}
	for i := 0; i < n; i++ {
		if less[i][i] {
			return false, true, "an element is ordered before itself"
		}
		for j := 0; j < n; j++ {
			if i != j && less[i][j] == less[j][i] {
				if less[i][j] {
					return false, true, "two elements are each ordered before the other"
				}
				return false, true, fmt.Sprintf("two different entities (start positions %v and %v, different identifying keys) compare as equal: their order is whatever the map iteration produced", positions[i], positions[j])
			}
			for k := 0; k < n; k++ {
				if less[i][j] && less[j][k] && !less[i][k] {
					return false, true, "not transitive"
				}
			}
		}
	}
	return true, true, fmt.Sprintf("evaluated on %d×%d synthetic entities: a strict total order on start positions / identifying keys", n, n)
}

func totalComparator(L *Loaded, info *types.Info, flBody *ast.BlockStmt) (bool, string) {
	fl := struct{ Body *ast.BlockStmt }{flBody}
	// collect field names compared with < or >, == and the boolean skeleton
	var rets []*ast.ReturnStmt
	ast.Inspect(fl.Body, func(n ast.Node) bool {
		if r, ok := n.(*ast.ReturnStmt); ok {
			rets = append(rets, r)
		}
		return true
	})
	for _, r := range rets {
		if len(r.Results) == 1 {
			if call, ok := ast.Unparen(r.Results[0]).(*ast.CallExpr); ok {
				if fn := Callee(info, call); fn != nil && (nameIs(fn, "IsBefore") || nameIs(fn, "IsBehind")) && fn.Pkg() != nil && nameIs(fn.Pkg(), "token") && len(rets) == 1 {
					return true, "token.Position." + fn.Name() + " (lexicographic on line, column)"
				}
			}
		}
	}
	// form D: three-way comparison of one field that identifies the element (no two elements share it)
	identityKeys := map[string]string{"ast.Module.FileName": "a module is identified by the path of its file (C10 R10.5)"}
	if len(rets) == 1 && len(rets[0].Results) == 1 {
		if call, ok := ast.Unparen(rets[0].Results[0]).(*ast.CallExpr); ok && len(call.Args) == 2 {
			if fn := Callee(info, call); fn != nil && nameIs(fn, "Compare") && fn.Pkg() != nil && (fn.Pkg().Path() == "strings" || fn.Pkg().Path() == "cmp") {
				sx, okx := ast.Unparen(call.Args[0]).(*ast.SelectorExpr)
				sy, oky := ast.Unparen(call.Args[1]).(*ast.SelectorExpr)
				if okx && oky && sx.Sel.Name == sy.Sel.Name {
					if v, ok := info.Uses[sx.Sel].(*types.Var); ok && v.IsField() {
						if t := info.TypeOf(sx.X); t != nil {
							tn := strings.TrimPrefix(types.TypeString(t, func(p *types.Package) string { return p.Name() }), "*")
							if why, ok := identityKeys[tn+"."+v.Name()]; ok {
								return true, "three-way comparison of " + tn + "." + v.Name() + ": " + why
							}
						}
					}
				}
			}
		}
	}
	// field-wise analysis
	type cmpx struct {
		op    token.Token
		field string
	}
	var cmps []cmpx
	fieldName := func(e ast.Expr) string {
		if sel, ok := ast.Unparen(e).(*ast.SelectorExpr); ok {
			return sel.Sel.Name
		}
		return ""
	}
	ast.Inspect(fl.Body, func(n ast.Node) bool {
		if be, ok := n.(*ast.BinaryExpr); ok {
			switch be.Op {
			case token.LSS, token.GTR, token.EQL, token.NEQ, token.LEQ, token.GEQ:
				fx, fy := fieldName(be.X), fieldName(be.Y)
				if fx != "" && fx == fy {
					cmps = append(cmps, cmpx{be.Op, fx})
				} else {
					cmps = append(cmps, cmpx{be.Op, "?"})
				}
			}
		}
		return true
	})
	desc := ""
	for _, x := range cmps {
		desc += x.field + x.op.String() + " "
	}
	// form A: single return `L< || (L== && C<)`
	if len(rets) == 1 && len(cmps) == 3 {
		if be, ok := ast.Unparen(rets[0].Results[0]).(*ast.BinaryExpr); ok && be.Op == token.LOR {
			if and, ok := ast.Unparen(be.Y).(*ast.BinaryExpr); ok && and.Op == token.LAND {
				if cmps[0].field == "Line" && cmps[0].op == token.LSS && cmps[1].field == "Line" && cmps[1].op == token.EQL && cmps[2].field == "Column" && cmps[2].op == token.LSS {
					return true, "lexicographic on (Line, Column)"
				}
			}
		}
	}
	// form B: if L< {return true}; if L== {return C<}; return false
	if len(cmps) == 3 && len(rets) == 3 && cmps[0].field == "Line" && cmps[0].op == token.LSS && cmps[1].field == "Line" && cmps[1].op == token.EQL && cmps[2].field == "Column" && cmps[2].op == token.LSS {
		return true, "lexicographic if-chain on (Line, Column)"
	}
	// form C: if L != {return L<}; return C<
	if len(cmps) == 3 && len(rets) == 2 && cmps[0].field == "Line" && cmps[0].op == token.NEQ && cmps[1].field == "Line" && cmps[1].op == token.LSS && cmps[2].field == "Column" && cmps[2].op == token.LSS {
		return true, "lexicographic if-chain on (Line, Column)"
	}
	return false, fmt.Sprintf("comparisons: %s", strings.TrimSpace(desc))
}
