package main

import (
	"fmt"
	"go/ast"
	"go/token"
	"go/types"
	"sort"
	"strings"
)

func init() { registry["C11"] = checkC11 }

func checkC11(c *Check) {
	L := c.L
	c.Expl = "Structural clauses of 'optimisation level and link mode do not change behaviour' - the parts of that relation that are visible in the generator's shape: (R11.1) the only generator decision that depends on the optimisation level - whether an argument is copied and who releases it - is release-neutral at every level (exactly one side releases, for every constant-parameter verdict, extern or not) and never lends storage the callee can reach otherwise; the checks are those of C05 R5.11 and C08 R8.4, evaluated for -O0, -O1 and -O2; (R11.2) the symbol, parameter list, result type and calling convention of every helper function the generator emits for list, text and Kombination types are fixed before the definition/declaration flag is looked at, so a module that only declares them and the module that defines them (linked-in or separate list definitions) agree; (R11.3) the readers of the optimisation level are a closed, classified set and both link-mode arms of Compile hand the same module, handler, target and level to the code generator. Not decided: that LLVM's passes preserve behaviour, that separately compiled modules were built at the same level, anything about the run-time relation itself."
	cp := L.ByRel["src/compiler"]
	info := cp.TypesInfo

	// ---------------- R11.1 (shared engines) ----------------
	r1 := c.Rule("R11.1", "argument passing is release-neutral and alias-safe at every optimisation level", 40)
	{
		sub := NewCheck("C11", c.Tier, L)
		checkC05Calls(sub, L)
		checkC08Calls(sub, L)
		checkC08Annotator(sub, L) // the verdict "constant parameter" is what -O2 relies on: it must be sound
		for _, sr := range sub.rules {
			if sr.ID != "R5.11" && sr.ID != "R8.4" && sr.ID != "R8.2" && sr.ID != "R8.3" && sr.ID != "R8.3b" {
				continue
			}
			for _, in := range sr.Inst {
				// keys of the shared rules are "Rx|function|construct": keep function|construct
				k := strings.TrimPrefix(in.Key, sr.ID+"|")
				r1.AddAt(in.Status, k, in.Pos, in.Msg)
			}
		}
		// a by-value parameter is the caller's own storage at -O2 (borrowed) and the callee's copy at -O0/-O1: returning it
		// has to deep-copy it at every level. A "move out of the local" is right at -O0/-O1 and a shared block at -O2.
		runStoreScenarios(L, func(k string, runs int, bad []string) {
			if !strings.Contains(k, "VisitReturnStmt") || !strings.HasSuffix(k, "value not temporary") {
				return
			}
			if runs == 0 {
				r1.Und(k, token.NoPos, "not evaluated")
				return
			}
			var alias []string
			for _, b := range bad {
				if strings.Contains(b, "two owners") || strings.Contains(b, "never receives") || strings.Contains(b, "not a temporary") {
					alias = append(alias, b)
				}
			}
			r1.Decide(len(alias) == 0, k, token.NoPos, "a returned variable or parameter is deep-copied into the result", strings.Join(uniq(alias), "; ")+" - a parameter the caller only lends at -O2 would leave the function as the result: behaviour differs between optimisation levels")
		})
	}

	// ---------------- R11.2 ----------------
	r2 := c.Rule("R11.2", "helper functions are declared identically whether they are defined in this module or only declared", 12)
	for _, fi := range L.sortedFuncs() {
		if fi.Pkg != cp || fi.Decl.Body == nil {
			continue
		}
		var flag types.Object
		sig := fi.Obj.Type().(*types.Signature)
		for i := 0; i < sig.Params().Len(); i++ {
			if p := sig.Params().At(i); nameIs(p, "declarationOnly") {
				flag = p
			}
		}
		if flag == nil {
			continue
		}
		// values that depend on the flag: assigned from it, or assigned inside a branch on it
		tainted := map[types.Object]bool{flag: true}
		mentions := func(n ast.Node) bool {
			found := false
			ast.Inspect(n, func(x ast.Node) bool {
				if id, ok := x.(*ast.Ident); ok && tainted[info.Uses[id]] {
					found = true
				}
				return true
			})
			return found
		}
		for round := 0; round < 3; round++ {
			var conds []*ast.IfStmt
			ast.Inspect(fi.Decl.Body, func(x ast.Node) bool {
				if is, ok := x.(*ast.IfStmt); ok && mentions(is.Cond) {
					conds = append(conds, is)
				}
				return true
			})
			ast.Inspect(fi.Decl.Body, func(x ast.Node) bool {
				as, ok := x.(*ast.AssignStmt)
				if !ok {
					return true
				}
				dep := false
				for _, rh := range as.Rhs {
					if mentions(rh) {
						dep = true
					}
				}
				for _, is := range conds {
					if is.Body.Pos() <= as.Pos() && as.End() <= is.End() {
						dep = true
					}
				}
				if dep {
					for _, l := range as.Lhs {
						if id, ok := l.(*ast.Ident); ok {
							if o := info.Defs[id]; o != nil {
								tainted[o] = true
							} else if o := info.Uses[id]; o != nil {
								if _, isVar := o.(*types.Var); isVar && o.Parent() != nil && o.Parent() != cp.Types.Scope() {
									tainted[o] = true
								}
							}
						}
					}
				}
				return true
			})
		}
		// NewFunc calls and their position relative to tests of the flag
		n := 0
		var stack []ast.Node
		ast.Inspect(fi.Decl.Body, func(x ast.Node) bool {
			if x == nil {
				stack = stack[:len(stack)-1]
				return true
			}
			stack = append(stack, x)
			call, ok := x.(*ast.CallExpr)
			if !ok {
				return true
			}
			fn := Callee(info, call)
			if fn == nil || !nameIs(fn, "NewFunc") {
				return true
			}
			n++
			key := L.QName(fi.Obj) + "|emitted function"
			if n > 1 {
				key += fmt.Sprintf(" #%d", n)
			}
			bad := ""
			if mentions(call) {
				bad = "the symbol or signature handed to NewFunc depends on the definition/declaration flag"
			}
			for _, s := range stack {
				switch st := s.(type) {
				case *ast.IfStmt:
					if mentions(st.Cond) && st.Pos() <= call.Pos() && call.End() <= st.End() {
						bad = "the function is emitted inside a branch on the definition/declaration flag"
					}
				}
			}
			// a test of the flag that returns before this call
			ast.Inspect(fi.Decl.Body, func(y ast.Node) bool {
				if is, ok := y.(*ast.IfStmt); ok && mentions(is.Cond) && is.End() <= call.Pos() {
					returns := false
					ast.Inspect(is.Body, func(z ast.Node) bool {
						if _, ok := z.(*ast.ReturnStmt); ok {
							returns = true
						}
						return true
					})
					// only relevant when the closure/func literal boundaries are the same
					inSameFunc := true
					for _, s := range stack {
						if fl, ok := s.(*ast.FuncLit); ok && !(fl.Pos() <= is.Pos() && is.End() <= fl.End()) {
							inSameFunc = false
						}
					}
					if returns && inSameFunc && enclosingFuncLit(fi.Decl.Body, is) == enclosingFuncLit(fi.Decl.Body, call) {
						bad = "an earlier test of the definition/declaration flag returns before this function is emitted: a module that only declares the helpers lacks it"
					}
				}
				return true
			})
			if bad == "" {
				r2.OK(key, call.Pos(), "symbol and signature are fixed before the flag is consulted")
			} else {
				r2.Bad(key, call.Pos(), bad+": with list definitions (or modules) kept separate, the declaring module and the defining module disagree about this helper")
			}
			return true
		})
	}

	// ---------------- R11.3 ----------------
	r3 := c.Rule("R11.3", "the optimisation level is read at a closed set of classified places and both link-mode arms hand the same inputs to the code generator", 5)
	type reader struct {
		fn, how string
		pos     token.Pos
		fi      *FuncInfo
	}
	var readers []reader
	for _, fi := range L.sortedFuncs() {
		if fi.Decl.Body == nil || !strings.HasSuffix(fi.Pkg.PkgPath, "/src/compiler") {
			continue
		}
		pinfo := fi.Pkg.TypesInfo
		ast.Inspect(fi.Decl.Body, func(x ast.Node) bool {
			be, ok := x.(*ast.BinaryExpr)
			if !ok {
				return true
			}
			for _, side := range []ast.Expr{be.X, be.Y} {
				s := types.ExprString(side)
				if strings.HasSuffix(s, "ptimizationLevel") {
					if t := pinfo.TypeOf(side); t != nil && t.String() == "uint" {
						readers = append(readers, reader{L.QName(fi.Obj), types.ExprString(be), be.Pos(), fi})
					}
				}
			}
			return true
		})
	}
	class := map[string]string{
		"compiler.(*Options).ToParserOptions": "activates the constant-parameter analysis",
		"compiler.(*compiler).exitFuncScope":  "callee side of the copy elision (decided under R11.1)",
		"compiler.(*compiler).VisitFuncCall":  "caller side of the copy elision (decided under R11.1)",
		"compiler.Compile":                    "selects whether LLVM's passes run",
		"compiler.DumpListDefinitions":        "selects whether LLVM's passes run on the list definitions",
	}
	var classOfCallers func(fi *FuncInfo, depth int) (string, string)
	classOfCallers = func(fi *FuncInfo, depth int) (string, string) {
		if fi == nil || fi.Obj == nil || fi.Obj.Exported() || depth > 3 {
			return "", ""
		}
		sites := L.CallSites(fi.Obj)
		if len(sites) == 0 {
			return "", ""
		}
		how, via := "", ""
		for _, cs := range sites {
			h, v := class[L.QName(cs.Fn.Obj)], L.QName(cs.Fn.Obj)
			if h == "" {
				h, v = classOfCallers(cs.Fn, depth+1)
			}
			if h == "" || (how != "" && h != how) {
				return "", ""
			}
			how, via = h, v
		}
		return how, via
	}
	sort.Slice(readers, func(i, j int) bool { return readers[i].fn+readers[i].how < readers[j].fn+readers[j].how })
	seen := map[string]int{}
	for _, rd := range readers {
		seen[rd.fn]++
		key := rd.fn + "|reads the optimisation level"
		if seen[rd.fn] > 1 {
			key += fmt.Sprintf(" #%d", seen[rd.fn])
		}
		if how, ok := class[rd.fn]; ok {
			r3.OK(key, rd.pos, rd.how+": "+how)
		} else if how, via := classOfCallers(rd.fi, 0); how != "" {
			// a helper all of whose callers (transitively) are classified places of one class: the decision was moved, not added
			r3.OK(key, rd.pos, rd.how+": "+how+" (in a helper called only from "+via+")")
		} else {
			r3.Und(key, rd.pos, rd.how+": a decision that depends on the optimisation level outside the classified places; whether behaviour can differ between levels here is not decided by this checker")
		}
	}
	// both arms of Compile
	if fi := L.Fn("src/compiler.Compile"); fi != nil {
		var a1, a2 []string
		ast.Inspect(fi.Decl.Body, func(x ast.Node) bool {
			call, ok := x.(*ast.CallExpr)
			if !ok {
				return true
			}
			fn := Callee(info, call)
			if fn == nil {
				return true
			}
			switch canonName(fn) {
			case "newCompiler":
				for _, a := range call.Args {
					a1 = append(a1, types.ExprString(a))
				}
			case "compileWithImports":
				a2 = append(a2, types.ExprString(call.Args[0]))
				for _, a := range call.Args[2:] {
					a2 = append(a2, types.ExprString(a))
				}
			}
			return true
		})
		r3.Decide(len(a1) > 0 && fmt.Sprint(a1) == fmt.Sprint(a2), "compiler.Compile|both link-mode arms compile the same inputs", fi.Decl.Pos(), "module, handler, target and level are the same expressions in both arms: "+fmt.Sprint(a1), fmt.Sprintf("the arm that keeps modules separate compiles %v, the arm that links them %v: the two link modes do not compile the same program at the same level", a1, a2))
	}
}

// enclosingFuncLit returns the innermost function literal of root containing n (nil for the function itself).
func enclosingFuncLit(root ast.Node, n ast.Node) *ast.FuncLit {
	var best *ast.FuncLit
	ast.Inspect(root, func(x ast.Node) bool {
		if fl, ok := x.(*ast.FuncLit); ok && fl.Pos() <= n.Pos() && n.End() <= fl.End() {
			best = fl
		}
		return true
	})
	return best
}
