package main

import (
	"fmt"
	"go/ast"
	"go/token"
	"go/types"
	"os"
	"sort"
	"strings"

	"golang.org/x/tools/go/cfg"
	"golang.org/x/tools/go/ssa"
)

func init() { registry["C03"] = checkC03 }

var c03Pkgs = []string{"src/token", "src/scanner", "src/ddperror", "src/ddptypes", "src/ast", "src/ast/annotators", "src/parser", "src/parser/alias_trie", "src/parser/ordered_map", "src/parser/resolver", "src/parser/typechecker"}

func checkC03(c *Check) {
	c.Expl = "Necessary conditions of 'the frontend is total' that are visible in the code on every path: explicit panics are discharged (exhaustive switch default, re-raise in a recover wrapper, reviewed guard) (R3.1); single-value type assertions are discharged by the callee's return types, a dominating comma-ok/type switch, or a normalised operand under the matching Is* guard, or are reviewed (R3.2); uses of results of productions whose contract includes nil are nil-tested (R3.3); every cursor loop advances on every path back to its head and leaves at EOF (R3.4, must-dataflow with interprocedural must-advance summaries); recursion is classified and every parser re-entry is memoised before recursing with one key (R3.5). Not decided: index/slice bounds, nil map writes, stack depth on deep nesting, memory growth, hangs not caused by a non-advancing loop."
	checkPanics(c)
	checkAssertions(c)
	checkLoopProgress(c)
	checkVariableLoops(c)
	checkRecoveryMovesForward(c, c.L)
	checkRecursion(c)
	checkMayNil(c)
}

// ---------------- R3.1 ----------------

var c03PanicTable = map[string]string{
	"ddptypes.(ListType).String|panic#2":                "void list type: parseType/parseReferenceType never produce a list of VoidType; reached through fmt verbs (which recover String panics) or manglers on checked types",
	"ddptypes.(ParameterType).String|panic":             "void reference: parameters are parsed by parseReferenceType, which never yields VoidType with IsReference",
	"typechecker.(*Typechecker).checkFieldAccess|panic": "both callers test ddptypes.IsStruct on the same value first",
	"typechecker.New|panic":                             "all constructor calls pass &parser.panicMode (address-of, never nil)",
	"resolver.New|panic":                                "all constructor calls pass &parser.panicMode (address-of, never nil)",
	"parser.(*parser).InstantiateGenericFunction|panic": "checkAlias and the overload finders test ast.IsGeneric first",
	"parser.(*parser).checkStatement|panic":             "checkedDeclaration tests stmt != nil; finishStatement passes a fresh literal",
	"parser.(*parser).panic|panic":                      "the panic primitive itself (callers are the instances)",
	"ddperror.MakePanicHandler$1|panic":                 "handler used by tests only, never installed by Parse",
	"ddperror.MsgGotExpected|panic":                     "every call passes at least one expected argument (variadic arity checked at the call sites)",
	"ast.(*Ast).String|panic":                           "re-raise inside a recover wrapper of the printer",
}

func checkPanics(c *Check) {
	L := c.L
	r := c.Rule("R3.1", "explicit panics in the frontend are discharged", 15)
	L.ForEachFunc(c03Pkgs, func(fi *FuncInfo) {
		info := fi.Pkg.TypesInfo
		q := L.QName(fi.Obj)
		hasRecover := false
		ast.Inspect(fi.Decl.Body, func(n ast.Node) bool {
			if call, ok := n.(*ast.CallExpr); ok {
				if id, ok := call.Fun.(*ast.Ident); ok && id.Name == "recover" {
					hasRecover = true
				}
			}
			return true
		})
		var stack []ast.Node
		ast.Inspect(fi.Decl.Body, func(n ast.Node) bool {
			if n == nil {
				stack = stack[:len(stack)-1]
				return true
			}
			stack = append(stack, n)
			call, ok := n.(*ast.CallExpr)
			if !ok {
				return true
			}
			isPanic := false
			if id, ok := call.Fun.(*ast.Ident); ok && id.Name == "panic" {
				if _, isB := info.Uses[id].(*types.Builtin); isB {
					isPanic = true
				}
			}
			if fn := Callee(info, call); fn != nil && L.QName(fn) == "parser.(*parser).panic" {
				isPanic = true
			}
			if !isPanic {
				return true
			}
			name := q
			// inside a function literal?
			for i := len(stack) - 1; i >= 0; i-- {
				if _, ok := stack[i].(*ast.FuncLit); ok {
					name = q + "$1"
					break
				}
			}
			key := name + "|panic"
			if hasRecover {
				r.OK(key, call.Pos(), "re-raise inside a function that recovers")
				return true
			}
			// default arm / fallthrough of a switch over an enum
			if okE, why := exhaustiveSwitchAround(L, fi, stack, call); okE {
				r.OK(key, call.Pos(), why)
				return true
			} else if why != "" {
				r.Bad(key, call.Pos(), why)
				return true
			}
			// the panic follows a partial switch over the function's own token-type parameter: discharged when every call site
			// hands over the tag of an enclosing switch, inside a case whose constants the partial switch handles, before the cursor moves
			if okT, why := partialTokenSwitchDischarged(L, fi, call); okT {
				r.OK(key, call.Pos(), why)
				return true
			}
			in := r.add(Bad, key, call.Pos(), "")
			if why, ok := c03PanicTable[strings.TrimPrefix(in.Key, "R3.1|")]; ok {
				in.Status, in.St, in.Msg = Exempt, Exempt.String(), why
			} else {
				in.Msg = "reachable panic without a discharging guard: malformed input that reaches it crashes the frontend (the recover wrappers re-panic)"
			}
			return true
		})
	})
}

// partialTokenSwitchDischarged: fi is `func (p *parser) f(t token.TokenType) …` whose body is a switch over t followed by the
// panic. Every call site must pass exactly the tag expression of an enclosing switch, from inside a case clause whose constants are
// all handled by f's switch, with no cursor-moving parser call between the head of that clause and the call.
func partialTokenSwitchDischarged(L *Loaded, fi *FuncInfo, panicCall *ast.CallExpr) (bool, string) {
	info := fi.Pkg.TypesInfo
	sig := fi.Obj.Type().(*types.Signature)
	if sig.Params().Len() != 1 || !strings.HasSuffix(sig.Params().At(0).Type().String(), "token.TokenType") {
		return false, ""
	}
	param := sig.Params().At(0)
	var sw *ast.SwitchStmt
	for i, st := range fi.Decl.Body.List {
		if es, ok := st.(*ast.ExprStmt); ok && es.X == ast.Expr(panicCall) && i > 0 {
			sw, _ = fi.Decl.Body.List[i-1].(*ast.SwitchStmt)
		}
	}
	if sw == nil || sw.Tag == nil {
		return false, ""
	}
	if id, ok := ast.Unparen(sw.Tag).(*ast.Ident); !ok || info.Uses[id] != param {
		return false, ""
	}
	handled := map[types.Object]bool{}
	for _, cl := range sw.Body.List {
		cc := cl.(*ast.CaseClause)
		returns := false
		for _, st := range cc.Body {
			if _, ok := st.(*ast.ReturnStmt); ok {
				returns = true
			}
		}
		if !returns {
			return false, ""
		}
		for _, e := range cc.List {
			if s, ok := ast.Unparen(e).(*ast.SelectorExpr); ok {
				handled[info.Uses[s.Sel]] = true
			}
		}
	}
	moves := map[string]bool{"advance": true, "matchAny": true, "matchSeq": true, "consumeSeq": true, "consumeAny": true, "decrease": true}
	sites := L.CallSites(fi.Obj)
	if len(sites) == 0 {
		return false, ""
	}
	for _, cs := range sites {
		ci := cs.Fn.Pkg.TypesInfo
		argTxt := types.ExprString(cs.Call.Args[0])
		// innermost enclosing case clause of a switch with that tag
		var clause *ast.CaseClause
		var stack []ast.Node
		ast.Inspect(cs.Fn.Decl.Body, func(n ast.Node) bool {
			if n == nil {
				stack = stack[:len(stack)-1]
				return true
			}
			stack = append(stack, n)
			if n == ast.Node(cs.Call) {
				for i := len(stack) - 1; i >= 2; i-- {
					if cc, ok := stack[i].(*ast.CaseClause); ok {
						if s, ok := stack[i-2].(*ast.SwitchStmt); ok && s.Tag != nil && types.ExprString(s.Tag) == argTxt {
							clause = cc
							break
						}
					}
				}
			}
			return true
		})
		where := L.Pos(cs.Call.Pos())
		if clause == nil || clause.List == nil {
			return false, "call at " + where + " does not pass the tag of an enclosing switch"
		}
		for _, e := range clause.List {
			s, ok := ast.Unparen(e).(*ast.SelectorExpr)
			if !ok || !handled[ci.Uses[s.Sel]] {
				return false, "call at " + where + " is reached for " + types.ExprString(e) + ", which the callee does not handle"
			}
		}
		// no cursor movement between the head of the clause and the call
		moved := false
		ast.Inspect(clause, func(n ast.Node) bool {
			if c2, ok := n.(*ast.CallExpr); ok && c2.End() <= cs.Call.Pos() {
				if fn := Callee(ci, c2); fn != nil && moves[fn.Name()] {
					moved = true
				}
			}
			return true
		})
		if moved {
			return false, "call at " + where + " re-reads the tag after the cursor may have moved"
		}
	}
	return true, fmt.Sprintf("partial switch over the parameter; all %d call sites pass the tag of an enclosing switch inside a case the callee handles, before the cursor moves", len(sites))
}

// exhaustiveSwitchAround: the panic is the default arm of (or follows) a switch whose tag has an enum type declared in the
// repository; returns (true, reason) when every constant of the enum (except sentinels) has a case; (false, reason) when
// the switch is over an enum and not exhaustive; (false, "") when there is no such switch.
func exhaustiveSwitchAround(L *Loaded, fi *FuncInfo, stack []ast.Node, call *ast.CallExpr) (bool, string) {
	info := fi.Pkg.TypesInfo
	var sw *ast.SwitchStmt
	for i := len(stack) - 1; i >= 0; i-- {
		if cc, ok := stack[i].(*ast.CaseClause); ok && cc.List == nil && i > 0 {
			if s, ok := stack[i-2].(*ast.SwitchStmt); ok {
				sw = s
			}
			break
		}
		if _, ok := stack[i].(*ast.FuncLit); ok {
			break
		}
	}
	if sw == nil {
		// panic as the statement right after a switch whose every arm returns (String() methods)
		body := fi.Decl.Body.List
		for i, st := range body {
			if es, ok := st.(*ast.ExprStmt); ok && es.X == ast.Expr(call) && i > 0 {
				if s, ok := body[i-1].(*ast.SwitchStmt); ok {
					sw = s
				}
			}
		}
	}
	if sw == nil || sw.Tag == nil {
		return false, ""
	}
	nt, ok := info.TypeOf(sw.Tag).(*types.Named)
	if !ok || nt.Obj().Pkg() == nil || !strings.HasPrefix(nt.Obj().Pkg().Path(), modPath) {
		return false, ""
	}
	if _, isBasic := nt.Underlying().(*types.Basic); !isBasic {
		return false, ""
	}
	var pkgOf = func() []*types.Const {
		for _, p := range L.Pkgs {
			if p.Types == nt.Obj().Pkg() {
				return constsOfType(p, nt.Obj().Name())
			}
		}
		return nil
	}
	consts := pkgOf()
	if len(consts) == 0 || nameIs(nt.Obj(), "TokenType") {
		return false, "" // TokenType switches are partial by design; handled by the panic table / call-site analysis
	}
	have := map[types.Object]bool{}
	for _, cl := range sw.Body.List {
		for _, e := range cl.(*ast.CaseClause).List {
			var id *ast.Ident
			switch x := ast.Unparen(e).(type) {
			case *ast.Ident:
				id = x
			case *ast.SelectorExpr:
				id = x.Sel
			}
			if id != nil {
				have[info.Uses[id]] = true
			}
		}
	}
	// constants the parser can put into a node: those referenced in package parser outside of case clauses
	produced := map[types.Object]bool{}
	if pp := L.ByRel["src/parser"]; pp != nil {
		for _, f := range pp.Syntax {
			var st []ast.Node
			ast.Inspect(f, func(n ast.Node) bool {
				if n == nil {
					st = st[:len(st)-1]
					return true
				}
				st = append(st, n)
				if id, ok := n.(*ast.Ident); ok {
					if cst, ok := pp.TypesInfo.Uses[id].(*types.Const); ok && cst.Type() == types.Type(nt) {
						inCase := false
						for i := len(st) - 1; i >= 0; i-- {
							if cc, ok := st[i].(*ast.CaseClause); ok {
								for _, e := range cc.List {
									if e.Pos() <= id.Pos() && id.End() <= e.End() {
										inCase = true
									}
								}
								break
							}
						}
						if !inCase {
							produced[cst] = true
						}
					}
				}
				return true
			})
		}
	}
	var missing []string
	for _, cst := range consts {
		n := cst.Name()
		if nameIs(nt.Obj().Pkg(), "ast") && !produced[cst] {
			continue // never constructed by the parser
		}
		if strings.Contains(n, "INVALID") || strings.HasSuffix(n, "_end") || strings.HasSuffix(n, "_END") || strings.HasPrefix(n, "_") {
			continue
		}
		if !have[cst] {
			missing = append(missing, n)
		}
	}
	if len(missing) == 0 {
		return true, fmt.Sprintf("default of a switch that covers all %d constants of %s", len(consts), nt.Obj().Name())
	}
	return false, "switch over " + nt.Obj().Name() + " falls into a panic for " + strings.Join(missing, ", ") + ": a program using that operator crashes the frontend"
}

// ---------------- R3.2 ----------------

var c03AssertTable = map[string]string{
	"parser.(*parser).alias|‹ast.Alias›.(*ast.StructAlias)":                                                               "complement of a comma-ok test for *ast.FuncAlias over the closed implementer set {FuncAlias, StructAlias} of ast.Alias",
	"parser.(*parser).alias|‹ddptypes.Type›.(*ddptypes.StructType)":                                                       "operand is stralias.Struct.Type or the non-nil result of GetInstantiatedStructType (a *StructType); a nil instantiation is impossible after checkAlias succeeded",
	"parser.(*parser).checkAlias|‹*ast.StructDecl›.Type.(*ddptypes.GenericStructType)":                                    "guarded by ast.IsGeneric(structDecl), whose body is exactly this comma-ok test",
	"parser.(*parser).fillAndVerifyGenericStructInstantiationParams|‹*ast.StructDecl›.Type.(*ddptypes.GenericStructType)": "only called from checkAlias under ast.IsGeneric(structDecl)",
	"ddptypes.(ParameterType).String|‹ddptypes.ParameterType›.Type.(PrimitiveType)":                                       "inside a String() method that is only reached through fmt verbs, which recover panics of String methods (prints %!v(PANIC=...)): influences a message, not a crash",
	"parser.(*parser).constDeclaration|‹ast.Expression›.(ast.Literal)":                                                    "one reaching definition is a *ast.ListLit, the other is dominated by isLiteral(expr)",
	"parser.(*parser).structDeclaration|‹ddptypes.Type›.(*ddptypes.StructType)":                                           "operand is the &ddptypes.StructType{} literal assigned a few lines above",
	"annotators.(*ConstFuncParamAnnotator).VisitFuncDecl|‹ast.Declaration›.(*ast.VarDecl)":                                "function parameters are inserted into the body's symbol table as *ast.VarDecl by parseFunctionBody",
	"ast.toInterfaceSlice|any(‹[]T›[‹int›]).(U)":                                                                          "generic widening helper: every instantiation has T assignable to U",
	"parser.toInterfaceSlice|any(‹[]T›[‹int›]).(U)":                                                                       "generic widening helper: every instantiation has T assignable to U (the narrowing one, Declaration→*VarDecl, follows filterSlice(isVarDecl))",
}

func checkAssertions(c *Check) {
	L := c.L
	r := c.Rule("R3.2", "single-value type assertions in the frontend cannot fail", 20)
	L.ForEachFunc(c03Pkgs, func(fi *FuncInfo) {
		info := fi.Pkg.TypesInfo
		q := L.QName(fi.Obj)
		commaOK := map[*ast.TypeAssertExpr]bool{}
		ast.Inspect(fi.Decl.Body, func(n ast.Node) bool {
			switch x := n.(type) {
			case *ast.AssignStmt:
				if len(x.Lhs) == 2 && len(x.Rhs) == 1 {
					if ta, ok := ast.Unparen(x.Rhs[0]).(*ast.TypeAssertExpr); ok {
						commaOK[ta] = true
					}
				}
			case *ast.ValueSpec:
				if len(x.Names) == 2 && len(x.Values) == 1 {
					if ta, ok := ast.Unparen(x.Values[0]).(*ast.TypeAssertExpr); ok {
						commaOK[ta] = true
					}
				}
			}
			return true
		})
		var stack []ast.Node
		ast.Inspect(fi.Decl.Body, func(n ast.Node) bool {
			if n == nil {
				stack = stack[:len(stack)-1]
				return true
			}
			stack = append(stack, n)
			ta, ok := n.(*ast.TypeAssertExpr)
			if !ok || ta.Type == nil || commaOK[ta] {
				return true
			}
			target := info.TypeOf(ta.Type)
			key := q + "|" + normSrc(L, info, ta)
			if len(key) > 140 {
				key = key[:140]
			}
			// ordered_map: parity invariant
			if pkgRel(fi.Pkg) == "src/parser/ordered_map" {
				r.Ex(key, ta.Pos(), "data holds alternating (key, value) pairs: all writers append/insert pairs (closed writer set checked by R20.3), so parity determines the dynamic type")
				return true
			}
			// (i) callee returns only that type
			if call, ok := ast.Unparen(ta.X).(*ast.CallExpr); ok {
				if fn := Callee(info, call); fn != nil {
					if cf := L.Funcs[fn]; cf != nil && cf.Decl.Body != nil {
						all, any := true, false
						ast.Inspect(cf.Decl.Body, func(m ast.Node) bool {
							if _, ok := m.(*ast.FuncLit); ok {
								return false
							}
							if ret, ok := m.(*ast.ReturnStmt); ok && len(ret.Results) == 1 {
								any = true
								if !types.Identical(cf.Pkg.TypesInfo.TypeOf(ret.Results[0]), target) {
									all = false
								}
							}
							return true
						})
						if all && any {
							r.OK(key, ta.Pos(), "every return of "+fn.Name()+" has static type "+L.Src(ta.Type))
							return true
						}
					}
				}
			}
			// (ii) dominated by a comma-ok / type-switch case on the same expression
			xs := L.Src(ta.X)
			for i := len(stack) - 2; i >= 0; i-- {
				switch p := stack[i].(type) {
				case *ast.IfStmt:
					if as, ok := p.Init.(*ast.AssignStmt); ok && len(as.Rhs) == 1 {
						if ta2, ok := ast.Unparen(as.Rhs[0]).(*ast.TypeAssertExpr); ok && ta2.Type != nil && L.Src(ta2.X) == xs && types.Identical(info.TypeOf(ta2.Type), target) && p.Body.Pos() <= ta.Pos() && ta.Pos() < p.Body.End() {
							r.OK(key, ta.Pos(), "inside the positive branch of a comma-ok test of the same expression")
							return true
						}
					}
				}
			}
			// (iii) normalised operand under the matching Is* guard
			guardFor := map[string]string{"ListType": "IsList", "StructType": "IsStruct", "PrimitiveType": "IsPrimitive", "TypeDef": "IsTypeDef"}
			if nt, ok := derefNamed(target); ok && nt.Obj().Pkg() != nil && nameIs(nt.Obj().Pkg(), "ddptypes") {
				if g, ok := guardFor[nt.Obj().Name()]; ok {
					if okn, why := normalisedOperand(L, fi, ta.X, 0); okn {
						guarded := false
						for i := len(stack) - 2; i >= 0; i-- {
							var cond ast.Expr
							var body *ast.BlockStmt
							switch p := stack[i].(type) {
							case *ast.IfStmt:
								cond, body = p.Cond, p.Body
							case *ast.ForStmt:
								cond, body = p.Cond, p.Body
							}
							if cond == nil || !(body.Pos() <= ta.Pos() && ta.Pos() < body.End()) {
								continue
							}
							ast.Inspect(cond, func(m ast.Node) bool {
								if call, ok := m.(*ast.CallExpr); ok {
									if fn := Callee(info, call); fn != nil && fn.Name() == g && fn.Pkg() != nil && nameIs(fn.Pkg(), "ddptypes") {
										guarded = true
									}
								}
								return true
							})
						}
						if guarded {
							r.OK(key, ta.Pos(), "normalised operand ("+why+") under "+g)
							return true
						}
					}
				}
			}
			// (iv) the operand is the attachment GetMetadataByKind found for the asserted type's kind (wherever the lookup lives)
			if id, ok := ast.Unparen(ta.X).(*ast.Ident); ok {
				if call, idx := tupleDef(info, fi.Decl.Body, info.Uses[id]); call != nil && idx == 0 {
					if fn := Callee(info, call); fn != nil && nameIs(fn, "GetMetadataByKind") && len(call.Args) == 2 {
						if kindMatches(L, info, call.Args[1], target) {
							r.OK(key, ta.Pos(), "the operand was looked up by the kind that "+types.TypeString(target, nil)+".Kind() returns, and GetMetadataByKind filters by it")
							return true
						}
					}
				}
			}
			if why, ok := c03AssertTable[key]; ok {
				r.Ex(key, ta.Pos(), why)
				return true
			}
			r.Bad(key, ta.Pos(), "single-value type assertion that is not discharged by the callee's return types, a dominating comma-ok test or a normalised operand under its Is* guard: malformed (or alias-typed) input reaching it crashes the frontend")
			return true
		})
	})
}

// kindMatches: kindArg is a constant, and the Kind() method of the asserted type returns exactly that constant on every path.
func kindMatches(L *Loaded, info *types.Info, kindArg ast.Expr, target types.Type) bool {
	var want types.Object
	switch k := ast.Unparen(kindArg).(type) {
	case *ast.Ident:
		want = info.Uses[k]
	case *ast.SelectorExpr:
		want = info.Uses[k.Sel]
	}
	if _, isConst := want.(*types.Const); !isConst {
		return false
	}
	m, _, _ := types.LookupFieldOrMethod(target, true, want.Pkg(), "Kind")
	fn, ok := m.(*types.Func)
	if !ok {
		return false
	}
	fi := L.Funcs[fn]
	if fi == nil || fi.Decl.Body == nil {
		return false
	}
	rets, okAll := 0, true
	ast.Inspect(fi.Decl.Body, func(n ast.Node) bool {
		ret, ok := n.(*ast.ReturnStmt)
		if !ok {
			return true
		}
		rets++
		if len(ret.Results) != 1 {
			okAll = false
			return true
		}
		var got types.Object
		switch r := ast.Unparen(ret.Results[0]).(type) {
		case *ast.Ident:
			got = fi.Pkg.TypesInfo.Uses[r]
		case *ast.SelectorExpr:
			got = fi.Pkg.TypesInfo.Uses[r.Sel]
		}
		if got != want {
			okAll = false
		}
		return true
	})
	return rets > 0 && okAll
}

func derefNamed(t types.Type) (*types.Named, bool) {
	if p, ok := t.(*types.Pointer); ok {
		t = p.Elem()
	}
	nt, ok := t.(*types.Named)
	return nt, ok
}

// ---------------- R3.4 ----------------

const bAdv = 1

type advSummary struct {
	must      bool // every return path advanced at least once (unless at EOF)
	onTrue    bool // returns bool; a true result implies it advanced
	needsArgs bool // summary assumes a non-empty variadic argument list
	computed  bool
}

func checkLoopProgress(c *Check) {
	L := c.L
	pp := L.ByRel["src/parser"]
	info := pp.TypesInfo
	r := c.Rule("R3.4", "every cursor loop of the parser advances on every path back to its head", 30)
	rb := c.Rule("R3.4b", "every cursor loop leaves at EOF (advance is a no-op there)", 30)
	adv := L.Fn("src/parser.(*parser).advance")
	atEnd := L.Fn("src/parser.(*parser).atEnd")
	if adv == nil || atEnd == nil {
		r.Und("parser primitives", token.NoPos, "advance/atEnd not found")
		return
	}
	isParserMethod := func(fn *types.Func) bool {
		fi := L.Funcs[fn]
		return fi != nil && fi.Pkg == pp && fi.Decl.Recv != nil && strings.HasPrefix(shortName(fn), "(*parser).")
	}
	sums := map[*types.Func]*advSummary{}
	var summary func(fn *types.Func) *advSummary
	// facts(cond, truth): ADV known when cond evaluates to truth
	var facts func(e ast.Expr, truth bool) uint32
	facts = func(e ast.Expr, truth bool) uint32 {
		e = ast.Unparen(e)
		switch x := e.(type) {
		case *ast.UnaryExpr:
			if x.Op == token.NOT {
				return facts(x.X, !truth)
			}
		case *ast.BinaryExpr:
			switch x.Op {
			case token.LAND:
				if truth {
					return facts(x.X, true) | facts(x.Y, true)
				}
				return facts(x.X, false) & (facts(x.X, true) | facts(x.Y, false))
			case token.LOR:
				if !truth {
					return facts(x.X, false) | facts(x.Y, false)
				}
				return facts(x.X, true) & (facts(x.X, false) | facts(x.Y, true))
			}
		case *ast.CallExpr:
			if fn := Callee(info, x); fn != nil && isParserMethod(fn) {
				s := summary(fn)
				if s.needsArgs && (len(x.Args) == 0 || x.Ellipsis.IsValid()) {
					return 0
				}
				if s.must || (truth && s.onTrue) {
					return bAdv
				}
			}
		}
		return 0
	}
	transfer := func(n ast.Node, s uint32, isCond bool) uint32 {
		if isCond {
			return s
		}
		// calls inside short-circuit operands of a statement are not certain to run: skip them
		skip := map[ast.Node]bool{}
		ast.Inspect(n, func(m ast.Node) bool {
			if be, ok := m.(*ast.BinaryExpr); ok && (be.Op == token.LAND || be.Op == token.LOR) {
				ast.Inspect(be.Y, func(k ast.Node) bool { skip[k] = true; return true })
			}
			return true
		})
		callsIn(n, func(call *ast.CallExpr) {
			if skip[call] {
				return
			}
			if fn := Callee(info, call); fn != nil && isParserMethod(fn) {
				if sm := summary(fn); fn == adv.Obj || (sm.must && !(sm.needsArgs && (len(call.Args) == 0 || call.Ellipsis.IsValid()))) {
					s |= bAdv
				}
			}
		})
		return s
	}
	// runFlow: forward must-analysis of "cursor advanced" starting at block start with state 0. When loop is non-nil, only blocks
	// inside that loop are traversed and the states on edges back into start are met into `back`.
	runFlow := func(g *cfg.CFG, start *cfg.Block, loop *ast.ForStmt, variadic types.Object) (in map[*cfg.Block]uint32, back uint32, sawBack bool) {
		const top = ^uint32(0)
		in = map[*cfg.Block]uint32{}
		for _, b := range g.Blocks {
			in[b] = top
		}
		in[start] = 0
		back = top
		backState := map[*cfg.Block]uint32{}
		inside := func(b *cfg.Block) bool {
			if loop == nil {
				return true
			}
			if b.Stmt == nil {
				return false
			}
			if b.Stmt == ast.Stmt(loop) {
				return b.Kind != cfg.KindForDone
			}
			return loop.Pos() <= b.Stmt.Pos() && b.Stmt.End() <= loop.End()
		}
		changed := true
		for changed {
			changed = false
			for _, b := range g.Blocks {
				if !b.Live || in[b] == top {
					continue
				}
				s := in[b]
				hasCond := len(b.Succs) == 2 && len(b.Nodes) > 0
				for i, n := range b.Nodes {
					_, isExpr := n.(ast.Expr)
					s = transfer(n, s, hasCond && i == len(b.Nodes)-1 && isExpr)
				}
				for i, succ := range b.Succs {
					t := s
					if hasCond {
						if cond, ok := b.Nodes[len(b.Nodes)-1].(ast.Expr); ok {
							t |= facts(cond, i == 0)
						}
					}
					if loop != nil && succ == start {
						back &= t
						sawBack = true
						continue
					}
					if !inside(succ) {
						continue
					}
					// `for range <variadic parameter>`: under the assumption of a non-empty argument list (checked at the call
					// sites) the loop is left only after at least one iteration - the entry edge does not flow to the exit.
					if variadic != nil && b.Kind == cfg.KindRangeLoop && i == 1 {
						if rs, ok := b.Stmt.(*ast.RangeStmt); ok {
							if id, ok := ast.Unparen(rs.X).(*ast.Ident); ok && info.Uses[id] == variadic {
								if bs, ok := backState[b]; ok {
									t = bs
								} else {
									continue
								}
							}
						}
					}
					if rs, isRange := succ.Stmt.(*ast.RangeStmt); isRange && succ.Kind == cfg.KindRangeLoop && rs.Body.Pos() <= posOf(b) && posOf(b) < rs.Body.End() {
						if old, ok := backState[succ]; !ok || old&t != old {
							if ok {
								backState[succ] = old & t
							} else {
								backState[succ] = t
							}
							changed = true
						}
					}
					if nw := in[succ] & t; nw != in[succ] {
						in[succ] = nw
						changed = true
					}
				}
			}
		}
		return
	}
	summary = func(fn *types.Func) *advSummary {
		if s, ok := sums[fn]; ok {
			return s
		}
		s := &advSummary{}
		sums[fn] = s // recursion: pessimistic
		fi := L.Funcs[fn]
		if fi == nil || fi.Decl.Body == nil {
			return s
		}
		if fn == adv.Obj {
			s.must, s.computed = true, true
			return s
		}
		g := L.CFG(fi)
		if len(g.Blocks) == 0 {
			return s
		}
		var variadic types.Object
		if sig := fi.Obj.Type().(*types.Signature); sig.Variadic() {
			variadic = sig.Params().At(sig.Params().Len() - 1)
			s.needsArgs = true
		}
		in, _, _ := runFlow(g, g.Blocks[0], nil, variadic)
		must, onTrue, any := true, true, false
		retBool := fi.Obj.Type().(*types.Signature).Results().Len() == 1 && types.Identical(fi.Obj.Type().(*types.Signature).Results().At(0).Type(), types.Typ[types.Bool])
		for _, b := range g.Blocks {
			if !b.Live || in[b] == ^uint32(0) && b != g.Blocks[0] {
				continue
			}
			st := in[b]
			for _, n := range b.Nodes {
				if ret, ok := n.(*ast.ReturnStmt); ok {
					any = true
					if st&bAdv == 0 {
						must = false
						if retBool && len(ret.Results) == 1 {
							if L.Src(ret.Results[0]) != "false" {
								onTrue = false
							}
						} else {
							onTrue = false
						}
					}
				}
				st = transfer(n, st, false)
			}
			if len(b.Succs) == 0 && !endsInReturn(b) {
				any = true
				if st&bAdv == 0 && !endsInNoReturn(L, fi, b) {
					must, onTrue = false, false
				}
			}
		}
		s.must = must && any
		s.onTrue = retBool && onTrue && any
		if os.Getenv("VERIF_DEBUG") != "" {
			fmt.Println("summary", fn.Name(), "must", s.must, "onTrue", s.onTrue, "needsArgs", s.needsArgs, in)
		}
		s.computed = true
		return s
	}

	c03LoopExempt := map[string]string{
		"parser.(*parser).parse":          "main loop: progress of declaration() is a global property of the descent (every production consumes or enters panic mode, synchronize then skips); decided only as far as a may-advance call exists on every path",
		"parser.(*parser).blockStatement": "same argument as the main loop (body is checkedDeclaration)",
		"parser.(*parser).synchronize":    "leaves as soon as a statement start is seen, otherwise advances",
	}
	L.ForEachFunc([]string{"src/parser"}, func(fi *FuncInfo) {
		q := L.QName(fi.Obj)
		var bodies []*ast.BlockStmt
		ast.Inspect(fi.Decl.Body, func(n ast.Node) bool {
			if fl, ok := n.(*ast.FuncLit); ok {
				bodies = append(bodies, fl.Body)
			}
			return true
		})
		ast.Inspect(fi.Decl.Body, func(n ast.Node) bool {
			loop, ok := n.(*ast.ForStmt)
			if !ok {
				return true
			}
			// the innermost function body containing the loop
			body := fi.Decl.Body
			for _, b := range bodies {
				if b.Pos() <= loop.Pos() && loop.End() <= b.End() && b.Pos() >= body.Pos() {
					body = b
				}
			}
			g := L.CFGBody(fi.Pkg, body)
			// does the loop depend on the cursor? (condition or body mentions a parser method)
			usesCursor := false
			check := func(e ast.Node) {
				if e == nil {
					return
				}
				ast.Inspect(e, func(m ast.Node) bool {
					if call, ok := m.(*ast.CallExpr); ok {
						if fn := Callee(info, call); fn != nil && isParserMethod(fn) {
							usesCursor = true
						}
					}
					return true
				})
			}
			if loop.Cond != nil {
				check(loop.Cond)
			}
			if loop.Post != nil {
				check(loop.Post)
			}
			if !usesCursor {
				return true
			}
			key := q + "|for " + trunc(L.Src(condOrTrue(loop)), 60)
			// find the loop head block
			var head *cfg.Block
			for _, b := range g.Blocks {
				if b.Stmt == ast.Stmt(loop) && (b.Kind == cfg.KindForLoop) {
					head = b
				}
			}
			if head == nil {
				// loops without condition have their body as head
				for _, b := range g.Blocks {
					if b.Stmt == ast.Stmt(loop) && b.Kind == cfg.KindForBody {
						head = b
					}
				}
			}
			if head == nil {
				r.Und(key, loop.Pos(), "loop head not found in the control-flow graph")
				return true
			}
			_, back, sawBack := runFlow(g, head, loop, nil)
			// a head condition that implies consumption when true makes every re-entry an advance
			if loop.Cond != nil {
				back |= facts(loop.Cond, true)
				if id, ok := ast.Unparen(loop.Cond).(*ast.Ident); ok && loop.Post != nil {
					if as, ok := loop.Post.(*ast.AssignStmt); ok && len(as.Lhs) == 1 && len(as.Rhs) == 1 {
						if lid, ok := as.Lhs[0].(*ast.Ident); ok && info.Uses[lid] == info.Uses[id] {
							back |= facts(as.Rhs[0], true)
						}
					}
				}
			}
			// the post statement runs on the back edge; it is part of the flow already (go/cfg has a for.post block)
			switch {
			case !sawBack:
				r.OK(key, loop.Pos(), "no path returns to the loop head")
			case back&bAdv != 0:
				r.OK(key, loop.Pos(), "every path back to the head advanced the cursor")
			default:
				if why, ok := c03LoopExempt[q]; ok {
					// necessary condition still checked: some may-advance call on the path is required - approximate by body containing a parser call
					r.Ex(key, loop.Pos(), why)
				} else {
					r.Bad(key, loop.Pos(), "a path through the loop body returns to the head without having advanced the cursor: on input that takes this path the parser spins forever (and keeps allocating)")
				}
			}
			// R3.4b: leaves at EOF
			eofOK := false
			if loop.Cond != nil {
				var conj []ast.Expr
				var split func(e ast.Expr)
				split = func(e ast.Expr) {
					e = ast.Unparen(e)
					if be, ok := e.(*ast.BinaryExpr); ok && be.Op == token.LAND {
						split(be.X)
						split(be.Y)
						return
					}
					conj = append(conj, e)
				}
				split(loop.Cond)
				for _, cj := range conj {
					if u, ok := cj.(*ast.UnaryExpr); ok && u.Op == token.NOT {
						if call, ok := ast.Unparen(u.X).(*ast.CallExpr); ok && Callee(info, call) == atEnd.Obj {
							eofOK = true
						}
					}
					if facts(cj, true)&bAdv != 0 {
						eofOK = true // a true condition implies a token was consumed, impossible at EOF
					}
					// loop variable fed by a match in the post statement: `for ok := true; ok; ok = p.matchAny(..)`
					if id, ok := cj.(*ast.Ident); ok && loop.Post != nil {
						if as, ok := loop.Post.(*ast.AssignStmt); ok && len(as.Lhs) == 1 && len(as.Rhs) == 1 {
							if lid, ok := as.Lhs[0].(*ast.Ident); ok && info.Uses[lid] == info.Uses[id] && facts(as.Rhs[0], true)&bAdv != 0 {
								eofOK = true
							}
						}
					}
				}
			}
			rb.Decide(eofOK, key, loop.Pos(), "the condition is false at EOF", "the loop condition can stay true at EOF, where advance() no longer moves the cursor: the loop never ends on truncated input")
			return true
		})
	})
}

func condOrTrue(l *ast.ForStmt) ast.Node {
	if l.Cond != nil {
		return l.Cond
	}
	return &ast.Ident{Name: "true"}
}

func endsInReturn(b *cfg.Block) bool {
	if len(b.Nodes) == 0 {
		return false
	}
	_, ok := b.Nodes[len(b.Nodes)-1].(*ast.ReturnStmt)
	return ok
}

func endsInNoReturn(L *Loaded, fi *FuncInfo, b *cfg.Block) bool {
	if len(b.Nodes) == 0 {
		return false
	}
	found := false
	callsIn(b.Nodes[len(b.Nodes)-1], func(call *ast.CallExpr) {
		if L.noReturn(fi.Pkg, call) {
			found = true
		}
	})
	return found
}

// ---------------- R3.5 ----------------

var c03SCCAnchors = map[string]string{
	"ddptypes.GetUnderlying":                              "structural recursion on type terms (finite trees: a Kombination mentions only previously declared types)",
	"ddptypes.TrueUnderlying":                             "structural recursion on type terms",
	"ddptypes.getTrueListUnderlying":                      "structural recursion on type terms",
	"ddptypes.ListTrueUnderlying":                         "structural recursion on type terms",
	"ddptypes.GetNestedListElementType":                   "structural recursion on type terms",
	"ddptypes.CastDeeplyNestedGenerics":                   "structural recursion on type terms",
	"ddptypes.StructurallyEqual":                          "structural recursion on type terms",
	"ddptypes.GetInstantiatedStructType":                  "structural recursion on type terms (instantiation of field types)",
	"ddptypes.GetInstantiatedType":                        "structural recursion on type terms",
	"ddptypes.UnifyGenericType":                           "structural recursion on type terms",
	"ddptypes.(ListType).String":                          "structural recursion on type terms",
	"ddptypes.(*StructType).String":                       "structural recursion on type terms",
	"ddptypes.(*InstantiatedGenericType).Gender":          "structural recursion on type terms",
	"ddptypes.(*InstantiatedGenericType).String":          "structural recursion on type terms",
	"ddptypes.(ParameterType).String":                     "structural recursion on type terms",
	"ast.(*Indexing).GetRange":                            "structural recursion on AST nodes",
	"ast.(*FieldAccess).GetRange":                         "structural recursion on AST nodes",
	"ast.(*CastExpr).Token":                               "structural recursion on AST nodes",
	"ast.(*CastAssigneable).Token":                        "structural recursion on AST nodes",
	"ast.(*Indexing).Token":                               "structural recursion on AST nodes",
	"ast.(*FieldAccess).Token":                            "structural recursion on AST nodes",
	"annotators.doesReferenceVarMutable":                  "structural recursion on AST nodes",
	"typechecker.isAssignable":                            "structural recursion on AST nodes",
	"typechecker.isBinaryExprAssignable":                  "structural recursion on AST nodes",
	"typechecker.IsPublicType":                            "structural recursion on type terms",
	"ast.(*BasicSymbolTable).LookupDecl":                  "walk up the finite scope chain",
	"ast.(*BasicSymbolTable).LookupType":                  "walk up the finite scope chain",
	"ast.iterateModuleImportsRec":                         "module DAG with a visited set",
	"ddperror.printIndentedError":                         "finite tree of wrapped errors",
	"parser.(*parser).parseType":                          "consumes '(' before recursing",
	"parser.(*parser).parseReferenceType":                 "consumes '(' before recursing",
	"annotators.(*ConstFuncParamAnnotator).VisitFuncDecl": "recurses only into instantiations, which are not generic",
	"alias_trie.copyNode":                                 "structural recursion on the trie",
	"alias_trie.(*Trie).Search":                           "structural recursion on the trie (searchImpl descends one level per call)",
	"alias_trie.(*Trie).prettyPrintImpl":                  "structural recursion on the trie",
	"parser.(*parser).expression":                         "the recursive-descent/visitor knot: terminates by token consumption (R3.4) plus the re-entry edges below",
}

func checkRecursion(c *Check) {
	L := c.L
	r := c.Rule("R3.5", "recursion in the frontend is classified; parser re-entries are memoised before recursing, with one key", 10)
	cg := L.CallGraph()
	// nodes: functions declared in frontend packages (incl. closures)
	inScope := func(fn *ssa.Function) bool {
		for f := fn; f != nil; f = f.Parent() {
			if f.Pkg != nil {
				rel := strings.TrimPrefix(f.Pkg.Pkg.Path(), modPath)
				for _, p := range c03Pkgs {
					if p == rel {
						return true
					}
				}
				return false
			}
			if f.Origin() != nil && f.Origin() != f {
				f = f.Origin()
				if f.Pkg != nil {
					rel := strings.TrimPrefix(f.Pkg.Pkg.Path(), modPath)
					for _, p := range c03Pkgs {
						if p == rel {
							return true
						}
					}
				}
				return false
			}
		}
		return false
	}
	var nodes []*ssa.Function
	for fn := range cg.Nodes {
		if fn != nil && inScope(fn) {
			nodes = append(nodes, fn)
		}
	}
	sort.Slice(nodes, func(i, j int) bool { return nodes[i].String() < nodes[j].String() })
	// Tarjan
	index := map[*ssa.Function]int{}
	low := map[*ssa.Function]int{}
	on := map[*ssa.Function]bool{}
	var st []*ssa.Function
	idx := 0
	var sccs [][]*ssa.Function
	var strong func(v *ssa.Function)
	strong = func(v *ssa.Function) {
		index[v], low[v] = idx, idx
		idx++
		st = append(st, v)
		on[v] = true
		for _, e := range cg.Nodes[v].Out {
			w := e.Callee.Func
			if !inScope(w) {
				continue
			}
			if _, seen := index[w]; !seen {
				strong(w)
				if low[w] < low[v] {
					low[v] = low[w]
				}
			} else if on[w] && index[w] < low[v] {
				low[v] = index[w]
			}
		}
		if low[v] == index[v] {
			var comp []*ssa.Function
			for {
				w := st[len(st)-1]
				st = st[:len(st)-1]
				on[w] = false
				comp = append(comp, w)
				if w == v {
					break
				}
			}
			self := false
			for _, e := range cg.Nodes[v].Out {
				if e.Callee.Func == v {
					self = true
				}
			}
			if len(comp) > 1 || self {
				sccs = append(sccs, comp)
			}
		}
	}
	for _, n := range nodes {
		if _, seen := index[n]; !seen {
			strong(n)
		}
	}
	short := func(fn *ssa.Function) string {
		if o := fn.Origin(); o != nil {
			fn = o
		}
		if fn.Parent() != nil && fn.Parent().Origin() != nil {
			if obj, ok := fn.Parent().Origin().Object().(*types.Func); ok && obj != nil {
				return L.QName(obj) + "$" + strings.TrimPrefix(fn.Name(), fn.Parent().Name()+"$")
			}
		}
		if obj, ok := fn.Object().(*types.Func); ok && obj != nil {
			return L.QName(obj)
		}
		if fn.Parent() != nil {
			if obj, ok := fn.Parent().Object().(*types.Func); ok && obj != nil {
				return L.QName(obj) + "$" + strings.TrimPrefix(fn.Name(), fn.Parent().Name()+"$")
			}
		}
		return fn.String()
	}
	big := 0
	for _, comp := range sccs {
		var names []string
		reason := ""
		for _, fn := range comp {
			n := short(fn)
			names = append(names, n)
			if why, ok := c03SCCAnchors[n]; ok && reason == "" {
				reason = why
			}
			if i := strings.Index(n, "$"); i > 0 {
				if why, ok := c03SCCAnchors[n[:i]]; ok && reason == "" {
					reason = why
				}
			}
			// instantiations of generic functions: match by origin name
			if i := strings.Index(n, "["); i > 0 {
				if why, ok := c03SCCAnchors[n[:i]]; ok && reason == "" {
					reason = why
				}
			}
		}
		sort.Strings(names)
		if len(comp) > big {
			big = len(comp)
		}
		key := "SCC{" + trunc(strings.Join(names, ","), 100) + "}"
		pos := token.NoPos
		if comp[0].Syntax() != nil {
			pos = comp[0].Syntax().Pos()
		}
		if reason != "" {
			r.OK(key, pos, fmt.Sprintf("%d functions: %s", len(comp), reason))
		} else if len(comp) == 1 && comp[0].Parent() != nil {
			r.Info(key, pos, "self-recursive closure "+names[0])
		} else {
			r.Bad(key, pos, fmt.Sprintf("unclassified recursion among %d functions (%s): no recorded reason why it terminates on every input", len(comp), trunc(strings.Join(names, ", "), 160)))
		}
	}
	c.extra["recursive_sccs"] = len(sccs)
	c.extra["largest_scc"] = big

	// re-entry edges: nested parsers. Every `&parser{...}` literal and every call of parser.Parse inside package parser.
	pp := L.ByRel["src/parser"]
	info := pp.TypesInfo
	reentry := map[string]string{
		"parser.newParser": "constructor used by Parse",
		"parser.(*parser).InstantiateGenericFunction": "memo: the instantiation is registered before its body is parsed (checked below)",
		"parser.(*parser).alias":                      "argument sub-parser over tokens[exprStart:cur]; no memo (see finding)",
		"parser.(*parser).checkAlias":                 "argument sub-parser over the tokens of one alias argument; no memo (see finding)",
	}
	L.ForEachFunc([]string{"src/parser"}, func(fi *FuncInfo) {
		q := L.QName(fi.Obj)
		ast.Inspect(fi.Decl.Body, func(n ast.Node) bool {
			switch x := n.(type) {
			case *ast.CompositeLit:
				if nt, ok := info.TypeOf(x).(*types.Named); ok && nameIs(nt.Obj(), "parser") && nt.Obj().Pkg() == pp.Types {
					if why, ok := reentry[q]; ok {
						if strings.Contains(why, "no memo") {
							r.Bad(q+"|nested parser", x.Pos(), "nested parser over a token span that is not provably shorter than the enclosing match, without a memo: alias → checkAlias → expression → alias can recurse without consuming (unrecoverable stack overflow)")
						} else {
							r.OK(q+"|nested parser", x.Pos(), why)
						}
					} else {
						r.Bad(q+"|nested parser", x.Pos(), "new parser re-entry edge that is not in the reviewed table: unbounded recursion through a nested parser is possible")
					}
				}
			case *ast.CallExpr:
				if fn := Callee(info, x); fn != nil && L.QName(fn) == "parser.Parse" {
					guarded := false
					for _, s := range nestedParseSites(L) {
						if s.call == x {
							guarded = s.guarded
						}
					}
					if guarded {
						r.OK(q+"|Parse", x.Pos(), "memo: the module map gets a nil placeholder before the nested Parse; a hit on the placeholder reports the cycle")
					} else {
						r.Bad(q+"|Parse", x.Pos(), "call of Parse from inside the parser without the nil placeholder in the module map on every path to it")
					}
				}
			}
			return true
		})
	})
	checkInstantiationMemo(c, r, "R3.5")
	checkImportMemo(c, r)
}

// checkInstantiationMemo (shared with C15): all index expressions on Generic.Instantiations in InstantiateGenericFunction use one key,
// and the registration dominates the parse of the body.
func checkInstantiationMemo(c *Check, r *Rule, prefix string) {
	L := c.L
	pp := L.ByRel["src/parser"]
	info := pp.TypesInfo
	fi := L.Fn("src/parser.(*parser).InstantiateGenericFunction")
	if fi == nil {
		r.Und("parser.(*parser).InstantiateGenericFunction", token.NoPos, "function not found")
		return
	}
	q := L.QName(fi.Obj)
	type use struct {
		key    string
		pos    token.Pos
		extern bool
	}
	var uses []use
	var stack []ast.Node
	ast.Inspect(fi.Decl.Body, func(n ast.Node) bool {
		if n == nil {
			stack = stack[:len(stack)-1]
			return true
		}
		stack = append(stack, n)
		ix, ok := n.(*ast.IndexExpr)
		if !ok {
			return true
		}
		if v := fieldOf(info, ix.X); v != nil && nameIs(v, "Instantiations") {
			ext := false
			for _, s := range stack {
				if is, ok := s.(*ast.IfStmt); ok && condCalls(info, fi.Decl.Body, is.Cond, "src/ast", "IsExternFunc") && is.Body.Pos() <= ix.Pos() && ix.Pos() < is.Body.End() {
					ext = true
				}
			}
			uses = append(uses, use{L.Src(ix.Index), ix.Pos(), ext})
		}
		return true
	})
	if len(uses) < 3 {
		r.Und(q+"|Instantiations memo", fi.Decl.Pos(), "fewer than 3 accesses of the instantiation memo found")
		return
	}
	// majority key among non-extern uses is the reference
	cnt := map[string]int{}
	for _, u := range uses {
		if !u.extern {
			cnt[u.key]++
		}
	}
	ref, best := "", 0
	for k, n := range cnt {
		if n > best {
			ref, best = k, n
		}
	}
	for _, u := range uses {
		k := q + "|Instantiations[" + u.key + "]"
		if u.extern {
			k += " (extern arm)"
		}
		switch {
		case u.key == ref:
			r.OK(k, u.pos, "memo accessed with the function's one key")
		case u.extern:
			r.Ex(k, u.pos, "extern generic functions have no body and share one C symbol; reading the list under another module's key only forgets earlier instantiations (no observable consequence found)")
		default:
			r.Bad(k, u.pos, "the instantiation memo is read and written under different keys ("+ref+" vs "+u.key+"): an instantiation registered under one key is not found under the other, so a recursive generic function instantiates itself without end when the keys differ")
		}
	}
	// registration before the body parse
	g := L.CFG(fi)
	mf := &mustFlow{G: g, Init: 0, Transfer: func(n ast.Node, s uint32) uint32 {
		if as, ok := n.(*ast.AssignStmt); ok && len(as.Lhs) == 1 {
			if ix, ok := as.Lhs[0].(*ast.IndexExpr); ok {
				if v := fieldOf(info, ix.X); v != nil && nameIs(v, "Instantiations") && strings.Contains(L.Src(as.Rhs[0]), "append(") {
					return s | 1
				}
			}
		}
		return s
	}}
	mf.Run()
	found := false
	for _, b := range g.Blocks {
		for i, n := range b.Nodes {
			callsIn(n, func(call *ast.CallExpr) {
				if fn := Callee(info, call); fn != nil && nameIs(fn, "blockStatement") {
					found = true
					r.Decide(mf.StateAt(b, i)&1 != 0, q+"|memo registered before the body is parsed", call.Pos(), "the instantiation is appended to the memo on every path to the body parse", "the body of the instantiation is parsed before the instantiation is registered: a recursive generic function instantiates itself without end")
				}
			})
		}
	}
	if !found {
		r.Und(q+"|body parse", fi.Decl.Pos(), "call of blockStatement not found")
	}
}

// nestedParseSites: every call of parser.Parse from inside the parser package, with the body (function declaration or
// innermost function literal) it sits in and whether, on every path of that body to the call, the module map was given
// its nil placeholder (predefinedModules[k] = nil).
type nestedParse struct {
	fi      *FuncInfo
	call    *ast.CallExpr
	guarded bool
}

func nestedParseSites(L *Loaded) []nestedParse {
	pp := L.ByRel["src/parser"]
	info := pp.TypesInfo
	isPlaceholder := func(n ast.Node) bool {
		if as, ok := n.(*ast.AssignStmt); ok && len(as.Lhs) == 1 && len(as.Rhs) == 1 {
			if ix, ok := as.Lhs[0].(*ast.IndexExpr); ok {
				if v := fieldOf(info, ix.X); v != nil && nameIs(v, "predefinedModules") && info.Types[as.Rhs[0]].IsNil() {
					return true
				}
			}
		}
		return false
	}
	var out []nestedParse
	L.ForEachFunc([]string{"src/parser"}, func(fi *FuncInfo) {
		ast.Inspect(fi.Decl.Body, func(n ast.Node) bool {
			call, ok := n.(*ast.CallExpr)
			if !ok {
				return true
			}
			if fn := Callee(info, call); fn == nil || L.QName(fn) != "parser.Parse" {
				return true
			}
			body := fi.Decl.Body
			if fl := enclosingFuncLit(fi.Decl.Body, call); fl != nil {
				body = fl.Body
			}
			g := L.CFGBody(fi.Pkg, body)
			mf := &mustFlow{G: g, Init: 0, Transfer: func(n ast.Node, s uint32) uint32 {
				if isPlaceholder(n) {
					return s | 1
				}
				return s
			}}
			mf.Run()
			guarded := false
			for _, b := range g.Blocks {
				for i, nd := range b.Nodes {
					callsIn(nd, func(c2 *ast.CallExpr) {
						if c2 == call {
							guarded = mf.StateAt(b, i)&1 != 0
						}
					})
				}
			}
			out = append(out, nestedParse{fi, call, guarded})
			return true
		})
	})
	return out
}

func checkImportMemo(c *Check, r *Rule) {
	L := c.L
	sites := nestedParseSites(L)
	if len(sites) == 0 {
		r.Und("parser|nested Parse", token.NoPos, "no call of Parse from inside the parser found")
		return
	}
	for _, s := range sites {
		q := L.QName(s.fi.Obj)
		r.Decide(s.guarded, q+"|placeholder before nested Parse", s.call.Pos(), "the module map gets its nil placeholder on every path to the nested Parse", "the nested Parse of an imported module runs without the nil placeholder in the module map: modules that import each other recurse until the stack is exhausted")
		// the hit arm on a nil placeholder reports MISC_INCLUDE_ERROR
		rep := false
		ast.Inspect(s.fi.Decl.Body, func(n ast.Node) bool {
			if sel, ok := n.(*ast.SelectorExpr); ok && sel.Sel.Name == "MISC_INCLUDE_ERROR" {
				rep = true
			}
			return true
		})
		r.Decide(rep, q+"|cycle reported", s.fi.Decl.Pos(), "a hit on the placeholder is reported as an include error", "circular imports are no longer reported")
	}
}

// checkMayNil is defined in c03nil.go

func posOf(b *cfg.Block) token.Pos {
	if len(b.Nodes) > 0 {
		return b.Nodes[0].Pos()
	}
	if b.Stmt != nil {
		return b.Stmt.Pos()
	}
	return token.NoPos
}
