package main

import (
	"fmt"
	"go/ast"
	"go/constant"
	"go/token"
	"go/types"
	"golang.org/x/tools/go/packages"
	"sort"
	"strings"

	"golang.org/x/tools/go/cfg"
)

func init() { registry["C13"] = checkC13 }

const eofRune = -1

// runeSet: accepted set of a rune predicate, as list of inclusive intervals over [-1, 0x10FFFF].
type runeSet [][2]int64

func (s runeSet) has(r int64) bool {
	for _, iv := range s {
		if iv[0] <= r && r <= iv[1] {
			return true
		}
	}
	return false
}
func (s runeSet) String() string {
	var p []string
	for _, iv := range s {
		if iv[0] == iv[1] {
			p = append(p, fmt.Sprintf("%q", rune(iv[0])))
		} else {
			p = append(p, fmt.Sprintf("%q-%q", rune(iv[0]), rune(iv[1])))
		}
	}
	return "{" + strings.Join(p, ",") + "}"
}

// predSet extracts the accepted set of a one-parameter rune predicate `func(r rune) bool { return <formula> }`
// by partitioning the rune domain at the constants of the formula and evaluating the formula's syntax tree once
// per elementary interval. Returns ok=false when the body is not such a formula.
// predSet: the set of runes a one-parameter predicate accepts. A single boolean formula over comparisons is decided
// directly; any other body (switch statements, guard clauses, ...) is evaluated by engine E2 at the breakpoints, provided
// the parameter is only ever compared with constants or handed to another predicate (so that the outcome is uniform
// between neighbouring constants).
func predSet(L *Loaded, fi *FuncInfo, memo map[*types.Func]runeSet) (runeSet, bool) {
	if s, ok := memo[fi.Obj]; ok {
		return s, s != nil
	}
	if s, ok := predSetFormula(L, fi, memo); ok {
		return s, true
	}
	delete(memo, fi.Obj)
	if s, ok := predSetEval(L, fi, memo); ok {
		memo[fi.Obj] = s
		return s, true
	}
	memo[fi.Obj] = nil
	return nil, false
}

func predSetEval(L *Loaded, fi *FuncInfo, memo map[*types.Func]runeSet) (runeSet, bool) {
	d := fi.Decl
	if d.Body == nil || d.Type.Params == nil || len(d.Type.Params.List) != 1 || len(d.Type.Params.List[0].Names) != 1 {
		return nil, false
	}
	info := fi.Pkg.TypesInfo
	param := info.Defs[d.Type.Params.List[0].Names[0]]
	memo[fi.Obj] = nil // recursion guard
	var consts []int64
	ok := true
	var stack []ast.Node
	ast.Inspect(d.Body, func(n ast.Node) bool {
		if n == nil {
			stack = stack[:len(stack)-1]
			return true
		}
		stack = append(stack, n)
		if e, isExpr := n.(ast.Expr); isExpr {
			if v, isC := constInt(info, e); isC {
				consts = append(consts, v)
			}
		}
		id, isId := n.(*ast.Ident)
		if !isId || info.Uses[id] != param || len(stack) < 2 {
			return true
		}
		parent := stack[len(stack)-2]
		if pe, isParen := parent.(*ast.ParenExpr); isParen && len(stack) >= 3 {
			_ = pe
			parent = stack[len(stack)-3]
		}
		switch p := parent.(type) {
		case *ast.BinaryExpr:
			switch p.Op {
			case token.EQL, token.NEQ, token.LSS, token.LEQ, token.GTR, token.GEQ:
				other := p.X
				if ast.Unparen(p.X) == ast.Expr(id) {
					other = p.Y
				}
				if _, isC := constInt(info, other); !isC {
					ok = false
				}
			default:
				ok = false
			}
		case *ast.SwitchStmt:
			if p.Tag == nil || ast.Unparen(p.Tag) != ast.Expr(id) {
				ok = false
			}
		case *ast.CallExpr:
			fn := Callee(info, p)
			cf := L.Funcs[fn]
			if fn == nil || cf == nil || len(p.Args) != 1 {
				ok = false
				break
			}
			if cf != fi {
				cs, cok := predSet(L, cf, memo)
				if !cok {
					ok = false
					break
				}
				for _, iv := range cs {
					consts = append(consts, iv[0], iv[1])
				}
			}
		default:
			ok = false
		}
		return true
	})
	if !ok {
		return nil, false
	}
	// case constants of a switch over the parameter are constants of the body too (collected above)
	pts := map[int64]bool{-1: true, 0: true, 0x10FFFF: true}
	for _, c := range consts {
		for _, dd := range []int64{-1, 0, 1} {
			if c+dd >= -1 && c+dd <= 0x10FFFF {
				pts[c+dd] = true
			}
		}
	}
	var sorted []int64
	for p := range pts {
		sorted = append(sorted, p)
	}
	sort.Slice(sorted, func(i, j int) bool { return sorted[i] < sorted[j] })
	in := NewInterp(L)
	good := true
	at := func(r int64) bool {
		var res Val
		runs, _ := in.RunAll(2, func() {
			res = in.CallFunc(fi, nil, []Val{ConstV{V: constant.MakeInt64(r), T: types.Typ[types.Int32]}})
		})
		t, known := truth(res)
		if runs != 1 || !known {
			good = false
		}
		return t
	}
	set := runeSet{}
	addIv := func(lo, hi int64) {
		if n := len(set); n > 0 && set[n-1][1]+1 == lo {
			set[n-1][1] = hi
		} else {
			set = append(set, [2]int64{lo, hi})
		}
	}
	for i, p := range sorted {
		if at(p) {
			addIv(p, p)
		}
		if i+1 < len(sorted) && sorted[i+1] > p+1 {
			if at(p + 1) {
				addIv(p+1, sorted[i+1]-1)
			}
		}
	}
	if !good {
		return nil, false
	}
	return set, true
}

func predSetFormula(L *Loaded, fi *FuncInfo, memo map[*types.Func]runeSet) (runeSet, bool) {
	memo[fi.Obj] = nil
	d := fi.Decl
	if d.Type.Params == nil || len(d.Type.Params.List) != 1 || len(d.Type.Params.List[0].Names) != 1 || len(d.Body.List) != 1 {
		return nil, false
	}
	ret, ok := d.Body.List[0].(*ast.ReturnStmt)
	if !ok || len(ret.Results) != 1 {
		return nil, false
	}
	info := fi.Pkg.TypesInfo
	param := info.Defs[d.Type.Params.List[0].Names[0]]
	var consts []int64
	good := true
	ast.Inspect(ret.Results[0], func(n ast.Node) bool {
		if e, ok := n.(ast.Expr); ok {
			if v, ok := constInt(info, e); ok {
				consts = append(consts, v)
				return false
			}
		}
		return true
	})
	// constants of called predicates are breakpoints too
	ast.Inspect(ret.Results[0], func(n ast.Node) bool {
		if call, ok := n.(*ast.CallExpr); ok {
			if fn := Callee(info, call); fn != nil {
				if cf := L.Funcs[fn]; cf != nil && cf != fi {
					if s, ok := predSet(L, cf, memo); ok {
						for _, iv := range s {
							consts = append(consts, iv[0], iv[1])
						}
					}
				}
			}
		}
		return true
	})
	var eval func(e ast.Expr, r int64) bool
	eval = func(e ast.Expr, r int64) bool {
		e = ast.Unparen(e)
		switch x := e.(type) {
		case *ast.BinaryExpr:
			switch x.Op {
			case token.LOR:
				return eval(x.X, r) || eval(x.Y, r)
			case token.LAND:
				return eval(x.X, r) && eval(x.Y, r)
			}
			val := func(e ast.Expr) (int64, bool) {
				if v, ok := constInt(info, e); ok {
					return v, true
				}
				if id, ok := ast.Unparen(e).(*ast.Ident); ok && info.Uses[id] == param {
					return r, true
				}
				return 0, false
			}
			a, ok1 := val(x.X)
			b, ok2 := val(x.Y)
			if !ok1 || !ok2 {
				good = false
				return false
			}
			switch x.Op {
			case token.EQL:
				return a == b
			case token.NEQ:
				return a != b
			case token.LSS:
				return a < b
			case token.LEQ:
				return a <= b
			case token.GTR:
				return a > b
			case token.GEQ:
				return a >= b
			}
		case *ast.UnaryExpr:
			if x.Op == token.NOT {
				return !eval(x.X, r)
			}
		case *ast.CallExpr:
			if fn := Callee(info, x); fn != nil && len(x.Args) == 1 {
				if id, ok := ast.Unparen(x.Args[0]).(*ast.Ident); ok && info.Uses[id] == param {
					if cf := L.Funcs[fn]; cf != nil {
						if s, ok := predSet(L, cf, memo); ok {
							return s.has(r)
						}
					}
				}
			}
		}
		good = false
		return false
	}
	// breakpoints
	pts := map[int64]bool{-1: true, 0: true, 0x10FFFF: true}
	for _, c := range consts {
		for _, d := range []int64{-1, 0, 1} {
			if c+d >= -1 && c+d <= 0x10FFFF {
				pts[c+d] = true
			}
		}
	}
	var sorted []int64
	for p := range pts {
		sorted = append(sorted, p)
	}
	sort.Slice(sorted, func(i, j int) bool { return sorted[i] < sorted[j] })
	// every maximal interval between consecutive breakpoints is uniform; evaluate at each breakpoint and at gaps' left end
	set := runeSet{}
	addIv := func(lo, hi int64) {
		if n := len(set); n > 0 && set[n-1][1]+1 == lo {
			set[n-1][1] = hi
		} else {
			set = append(set, [2]int64{lo, hi})
		}
	}
	for i, p := range sorted {
		if eval(&ast.ParenExpr{X: ret.Results[0]}, p) {
			addIv(p, p)
		}
		if i+1 < len(sorted) && sorted[i+1] > p+1 {
			if eval(&ast.ParenExpr{X: ret.Results[0]}, p+1) {
				addIv(p+1, sorted[i+1]-1)
			}
		}
	}
	if !good {
		return nil, false
	}
	memo[fi.Obj] = set
	return set, true
}

func checkC13(c *Check) {
	L := c.L
	c.Expl = "Structural clauses of 'the token stream is a faithful, positioned partition': who writes the scanner's cursor/position fields and how tokens are built (R13.1); every advance over a possible line break is preceded by the line accounting (R13.2, must-dataflow on go/cfg of package scanner with interprocedural summaries); exactly-one-EOF and the UTF-8 gate (R13.3); keyword/token-string tables complete, ASCII spellings present, no ambiguous case-folding (R13.4, R13.5); rune-class predicates equal the lexical classes (R13.6). Not decided: kinds of number/identifier tokens beyond the class predicates, indentation counting, value-level column arithmetic."
	sp := L.ByRel["src/scanner"]
	info := sp.TypesInfo
	isScannerField := func(name string) func(v *types.Var) bool {
		return func(v *types.Var) bool { return isField(v, "scanner", "Scanner", name) }
	}

	// ---------------- R13.1 ----------------
	r1 := c.Rule("R13.1", "scanner state has single writers; tokens are built only from src[start:cur] and currentRange()", 12)
	allowed := map[string][]string{
		"start":       {"scanner.(*Scanner).NextToken", "scanner.New"},
		"startLine":   {"scanner.(*Scanner).NextToken", "scanner.New"},
		"startColumn": {"scanner.(*Scanner).NextToken", "scanner.New"},
		"cur":         {"scanner.(*Scanner).advance", "scanner.New"},
		"line":        {"scanner.(*Scanner).increaseLineBeforeAdvance", "scanner.New", "scanner.ScanAlias"},
		"column":      {"scanner.(*Scanner).advance", "scanner.(*Scanner).increaseLineBeforeAdvance", "scanner.New", "scanner.ScanAlias"},
		"src":         {"scanner.New"},
	}
	fields := []string{"start", "startLine", "startColumn", "cur", "line", "column", "src"}
	for _, f := range fields {
		ws := L.FieldWrites(isScannerField(f))
		if len(ws) == 0 {
			r1.Und("scanner.Scanner."+f, token.NoPos, "no writer of field found (field renamed?)")
		}
		for _, w := range ws {
			q := L.QName(w.Fn.Obj)
			ok := false
			for _, a := range allowed[f] {
				if a == q {
					ok = true
				}
			}
			r1.Decide(ok, q+"|write "+f, w.Node.Pos(), "writer is in the single-writer table", "field Scanner."+f+" written outside its single-writer set "+strings.Join(allowed[f], ", ")+" - token positions/literals can drift from the source")
		}
	}
	// token.Token literals only in newToken/errorToken, with Literal = string(src[start:cur]) and Range = currentRange()
	L.ForEachFunc([]string{"src/scanner"}, func(fi *FuncInfo) {
		ast.Inspect(fi.Decl.Body, func(n ast.Node) bool {
			cl, ok := n.(*ast.CompositeLit)
			if !ok {
				return true
			}
			tv := info.Types[cl]
			nt, ok := tv.Type.(*types.Named)
			if !ok || !nameIs(nt.Obj(), "Token") || !nameIs(nt.Obj().Pkg(), "token") {
				return true
			}
			q := L.QName(fi.Obj)
			switch q {
			case "scanner.(*Scanner).newToken":
				for _, el := range cl.Elts {
					kv, ok := el.(*ast.KeyValueExpr)
					if !ok {
						r1.Bad(q+"|Token literal", el.Pos(), "positional Token literal")
						continue
					}
					k := kv.Key.(*ast.Ident).Name
					switch k {
					case "Literal":
						r1.Decide(isSrcSlice(info, kv.Value), q+"|Token.Literal", kv.Pos(), "Literal is string(s.src[s.start:s.cur])", "token Literal is not the source substring src[start:cur]: "+L.Src(kv.Value))
					case "Range":
						call, ok := kv.Value.(*ast.CallExpr)
						r1.Decide(ok && L.IsCallTo(sp, call, "scanner.(*Scanner).currentRange"), q+"|Token.Range", kv.Pos(), "Range is s.currentRange()", "token Range is not currentRange(): "+L.Src(kv.Value))
					case "Indent":
						r1.Decide(isField(fieldOf(info, kv.Value), "scanner", "Scanner", "indent"), q+"|Token.Indent", kv.Pos(), "Indent is s.indent", "token Indent is not s.indent")
					}
				}
			case "scanner.(*Scanner).errorToken":
				r1.OK(q+"|Token literal", cl.Pos(), "error token constructor")
			default:
				r1.Bad(q+"|Token literal", cl.Pos(), "token.Token built outside newToken/errorToken - literal/range not derived from the cursor")
			}
			return true
		})
	})
	// currentRange: Start = (startLine,startColumn), End = (line,column)
	if fi := L.Fn("src/scanner.(*Scanner).currentRange"); fi != nil {
		got := map[string]string{}
		ast.Inspect(fi.Decl.Body, func(n ast.Node) bool {
			if kv, ok := n.(*ast.KeyValueExpr); ok {
				if v := fieldOf(info, kv.Value); v != nil {
					// path: Start/End . Line/Column found through parents: record by position order
					got[fmt.Sprint(len(got))+kv.Key.(*ast.Ident).Name] = v.Name()
				}
			}
			return true
		})
		want := map[string]string{"0Line": "startLine", "1Column": "startColumn", "2Line": "line", "3Column": "column"}
		ok := len(got) == 4
		for k, v := range want {
			if got[k] != v {
				ok = false
			}
		}
		// also Start must be first key
		first := ""
		ast.Inspect(fi.Decl.Body, func(n ast.Node) bool {
			if kv, ok := n.(*ast.KeyValueExpr); ok && first == "" {
				first = kv.Key.(*ast.Ident).Name
			}
			return true
		})
		r1.Decide(ok && first == "Start", "scanner.(*Scanner).currentRange|fields", fi.Decl.Pos(), "Start=(startLine,startColumn) End=(line,column)", fmt.Sprintf("currentRange does not map Start=(startLine,startColumn), End=(line,column): %v", got))
	} else {
		r1.Und("scanner.(*Scanner).currentRange", token.NoPos, "function not found")
	}
	// NextToken: the token start is recorded after skipWhitespace and before anything advances
	if fi := L.Fn("src/scanner.(*Scanner).NextToken"); fi != nil {
		g := L.CFG(fi)
		entry := g.Blocks[0]
		stage := 0 // 0 = before skipWhitespace, 1 = after skipWhitespace, 2 = after start assignment
		okOrder := true
		var assignPos token.Pos
		for _, n := range entry.Nodes {
			if as, ok := n.(*ast.AssignStmt); ok && len(as.Lhs) == 3 && len(as.Rhs) == 3 {
				pairs := [][2]string{{"start", "cur"}, {"startLine", "line"}, {"startColumn", "column"}}
				m := true
				for i, p := range pairs {
					if !isField(fieldOf(info, as.Lhs[i]), "scanner", "Scanner", p[0]) || !isField(fieldOf(info, as.Rhs[i]), "scanner", "Scanner", p[1]) {
						m = false
					}
				}
				if m && stage == 1 {
					stage = 2
					assignPos = as.Pos()
					continue
				}
			}
			callsIn(n, func(call *ast.CallExpr) {
				switch {
				case L.IsCallTo(sp, call, "scanner.(*Scanner).skipWhitespace"):
					if stage == 0 {
						stage = 1
					}
				case L.IsCallTo(sp, call, "scanner.(*Scanner).advance"):
					if stage < 2 {
						okOrder = false
					}
				}
			})
		}
		r1.Decide(stage == 2 && okOrder, "scanner.(*Scanner).NextToken|start := cur after skipWhitespace", assignPos, "start/startLine/startColumn := cur/line/column directly after skipWhitespace, before any advance", "NextToken does not record (start,startLine,startColumn) := (cur,line,column) between skipWhitespace and the first advance")
	} else {
		r1.Und("scanner.(*Scanner).NextToken", token.NoPos, "function not found")
	}
	// advance: cur += decoded width, column++ exactly once on every path
	if fi := L.Fn("src/scanner.(*Scanner).advance"); fi != nil {
		g := L.CFG(fi)
		var widthVar types.Object
		curOK, colOK := false, false
		for _, n := range g.Blocks[0].Nodes {
			switch s := n.(type) {
			case *ast.AssignStmt:
				if len(s.Rhs) == 1 && len(s.Lhs) == 2 {
					if call, ok := s.Rhs[0].(*ast.CallExpr); ok {
						if fn := Callee(info, call); fn != nil && fn.Pkg().Path() == "unicode/utf8" && nameIs(fn, "DecodeRune") && len(call.Args) == 1 {
							if sl, ok := call.Args[0].(*ast.SliceExpr); ok && isField(fieldOf(info, sl.X), "scanner", "Scanner", "src") && isField(fieldOf(info, sl.Low), "scanner", "Scanner", "cur") && sl.High == nil {
								if id, ok := s.Lhs[1].(*ast.Ident); ok {
									widthVar = info.Defs[id]
								}
							}
						}
					}
				}
				if s.Tok == token.ADD_ASSIGN && len(s.Lhs) == 1 && isField(fieldOf(info, s.Lhs[0]), "scanner", "Scanner", "cur") {
					if id, ok := s.Rhs[0].(*ast.Ident); ok && widthVar != nil && info.Uses[id] == widthVar {
						curOK = true
					}
				}
			case *ast.IncDecStmt:
				if s.Tok == token.INC && isField(fieldOf(info, s.X), "scanner", "Scanner", "column") {
					colOK = true
				}
			}
		}
		nw := 0
		for _, w := range L.FieldWrites(func(v *types.Var) bool {
			return isField(v, "scanner", "Scanner", "cur") || isField(v, "scanner", "Scanner", "column")
		}) {
			if w.Fn == fi {
				nw++
			}
		}
		r1.Decide(curOK && colOK && nw == 2, "scanner.(*Scanner).advance|cur += width; column++", fi.Decl.Pos(), "advance moves cur by the decoded UTF-8 width and column by exactly one, unconditionally", "advance does not (unconditionally, exactly once) do cur += width-of-DecodeRune(src[cur:]) and column++ : positions are no longer code-point counts")
	} else {
		r1.Und("scanner.(*Scanner).advance", token.NoPos, "function not found")
	}
	// increaseLineBeforeAdvance: line++ and column = 0
	if fi := L.Fn("src/scanner.(*Scanner).increaseLineBeforeAdvance"); fi != nil {
		lineOK, colOK := false, false
		for _, st := range fi.Decl.Body.List {
			switch s := st.(type) {
			case *ast.IncDecStmt:
				if s.Tok == token.INC && isField(fieldOf(info, s.X), "scanner", "Scanner", "line") {
					lineOK = true
				}
			case *ast.AssignStmt:
				if len(s.Lhs) == 1 && s.Tok == token.ASSIGN && isField(fieldOf(info, s.Lhs[0]), "scanner", "Scanner", "column") {
					if v, ok := constInt(info, s.Rhs[0]); ok && v == 0 {
						colOK = true
					}
				}
			}
		}
		r1.Decide(lineOK && colOK, "scanner.(*Scanner).increaseLineBeforeAdvance|line++; column=0", fi.Decl.Pos(), "line++ and column = 0 unconditionally", "increaseLineBeforeAdvance does not do line++ and column = 0 at top level")
	} else {
		r1.Und("scanner.(*Scanner).increaseLineBeforeAdvance", token.NoPos, "function not found")
	}

	// ---------------- R13.6 rune classes ----------------
	r6 := c.Rule("R13.6", "rune-class predicates accept exactly the lexical classes of DDP", 5)
	memo := map[*types.Func]runeSet{}
	umlauts := "ßäÄöÖüÜ"
	mk := func(ivs ...[2]int64) runeSet {
		sort.Slice(ivs, func(i, j int) bool { return ivs[i][0] < ivs[j][0] })
		var out runeSet
		for _, iv := range ivs {
			if n := len(out); n > 0 && out[n-1][1]+1 >= iv[0] {
				if iv[1] > out[n-1][1] {
					out[n-1][1] = iv[1]
				}
			} else {
				out = append(out, iv)
			}
		}
		return out
	}
	single := func(s string) [][2]int64 {
		var o [][2]int64
		for _, r := range s {
			o = append(o, [2]int64{int64(r), int64(r)})
		}
		return o
	}
	alpha := mk(append(single(umlauts+"_"), [2]int64{'a', 'z'}, [2]int64{'A', 'Z'})...)
	refs := map[string]runeSet{
		"isDigit":        mk([2]int64{'0', '9'}),
		"isAlpha":        alpha,
		"isAlphaNumeric": mk(append(append([][2]int64{}, alpha...), [2]int64{'0', '9'})...),
		"isSpace":        mk(single(" \r\n\t")...),
		"isUpper":        mk(append(single("ÄÖÜ"), [2]int64{'A', 'Z'})...),
	}
	names := []string{"isDigit", "isAlpha", "isAlphaNumeric", "isSpace", "isUpper"}
	for _, nme := range names {
		fi := L.Fn("src/scanner." + nme)
		if fi == nil {
			r6.Und("scanner."+nme, token.NoPos, "predicate not found")
			continue
		}
		s, ok := predSet(L, fi, memo)
		if !ok {
			r6.Und("scanner."+nme, fi.Decl.Pos(), "predicate body is not a boolean formula over rune comparisons")
			continue
		}
		r6.Decide(s.String() == refs[nme].String(), "scanner."+nme+"|accepted set", fi.Decl.Pos(), "accepts "+s.String(), "accepts "+s.String()+" but the lexical class is "+refs[nme].String())
	}

	// ---------------- R13.2 newline accounting ----------------
	checkNewlineAccounting(c, memo)

	// ---------------- R13.3 ----------------
	r3 := c.Rule("R13.3", "ScanAll ends with exactly one EOF token; New refuses invalid UTF-8 before any token", 2)
	if fi := L.Fn("src/scanner.(*Scanner).ScanAll"); fi != nil {
		// decided by evaluating ScanAll (engine E2) against a scripted NextToken that yields k ordinary tokens and then EOF for
		// ever, k = 0..3: the result must be those k tokens followed by exactly one EOF token (whatever form the loop has)
		var eofV, otherV Val = Unk{"EOF"}, Unk{"IDENTIFIER"}
		if tp := L.ByRel["src/token"]; tp != nil {
			if cst, ok := tp.Types.Scope().Lookup("EOF").(*types.Const); ok {
				eofV = ConstV{V: cst.Val(), T: cst.Type(), Name: "EOF"}
			}
			if cst, ok := tp.Types.Scope().Lookup("IDENTIFIER").(*types.Const); ok {
				otherV = ConstV{V: cst.Val(), T: cst.Type(), Name: "IDENTIFIER"}
			}
		}
		var problems []string
		und := ""
		for k := 0; k <= 3; k++ {
			in := NewInterp(L)
			served := 0
			in.Models["scanner.(*Scanner).NextToken"] = func(in *Interp, pkg *packages.Package, call *ast.CallExpr, recv Val, args []Val) (Val, bool) {
				t := newObj("token.Token")
				if served < k {
					t.set("Type", otherV)
				} else {
					t.set("Type", eofV)
				}
				served++
				if served > k+8 {
					in.event("panic", "ScanAll keeps asking for tokens after EOF", call.Pos())
					return abortV{}, true
				}
				return t, true
			}
			var res Val
			runs, _ := in.RunAll(4, func() {
				served = 0
				res = in.CallFunc(fi, newObj("scanner.Scanner"), nil)
			})
			sl, ok := res.(SliceV)
			if runs != 1 || !ok {
				und = fmt.Sprintf("ScanAll could not be evaluated for %d tokens before EOF (%v)", k, res)
				for _, ev := range in.Events {
					if ev.Kind == "panic" {
						problems = append(problems, ev.Msg)
					}
				}
				continue
			}
			eofs, lastIsEOF := 0, false
			for i, e := range sl.Elems {
				isEOF := false
				if o, ok := e.(*Obj); ok {
					if t, known := eqVal(o.get("Type"), eofV); known && t {
						isEOF = true
					}
				}
				if isEOF {
					eofs++
					lastIsEOF = i == len(sl.Elems)-1
				}
			}
			if len(sl.Elems) != k+1 || eofs != 1 || !lastIsEOF {
				problems = append(problems, fmt.Sprintf("for %d tokens followed by EOF, ScanAll returns %d tokens with %d EOF token(s) (EOF last: %v)", k, len(sl.Elems), eofs, lastIsEOF))
			}
		}
		if und != "" && len(problems) == 0 {
			r3.Und("scanner.(*Scanner).ScanAll|one EOF", fi.Decl.Pos(), und)
		} else {
			r3.Decide(len(problems) == 0, "scanner.(*Scanner).ScanAll|one EOF", fi.Decl.Pos(), "for 0..3 tokens before the end: all of them, then exactly one EOF token", strings.Join(uniq(problems), "; ")+": the parser relies on one terminating EOF token")
		}
	} else {
		r3.Und("scanner.(*Scanner).ScanAll", token.NoPos, "function not found")
	}
	if fi := L.Fn("src/scanner.New"); fi != nil {
		// every path from entry to the assignment scan.src = src passes the false edge of !utf8.Valid(src) whose true edge returns an error
		g := L.CFG(fi)
		mf := &mustFlow{G: g, Init: 0,
			Transfer: func(n ast.Node, s uint32) uint32 { return s },
			Edge: func(b *cfg.Block, i int, s uint32) uint32 {
				if len(b.Nodes) == 0 {
					return s
				}
				cond, ok := b.Nodes[len(b.Nodes)-1].(ast.Expr)
				if !ok {
					return s
				}
				neg := false
				cond = ast.Unparen(cond)
				if u, ok := cond.(*ast.UnaryExpr); ok && u.Op == token.NOT {
					neg = true
					cond = ast.Unparen(u.X)
				}
				if call, ok := cond.(*ast.CallExpr); ok {
					if fn := Callee(info, call); fn != nil && fn.Pkg().Path() == "unicode/utf8" && nameIs(fn, "Valid") {
						if (i == 0) != neg { // edge on which Valid(...) is true
							return s | 1
						}
					}
				}
				return s
			}}
		mf.Run()
		found := false
		okGate := true
		for _, b := range g.Blocks {
			for idx, n := range b.Nodes {
				if as, ok := n.(*ast.AssignStmt); ok && len(as.Lhs) == 1 && isField(fieldOf(info, as.Lhs[0]), "scanner", "Scanner", "src") {
					found = true
					if mf.StateAt(b, idx)&1 == 0 {
						okGate = false
					}
				}
			}
		}
		r3.Decide(found && okGate, "scanner.New|utf8 gate", fi.Decl.Pos(), "scan.src is set only on the utf8.Valid edge", "the source is installed into the scanner on a path that did not pass utf8.Valid(src)")
	} else {
		r3.Und("scanner.New", token.NoPos, "function not found")
	}

	// ---------------- R13.4 / R13.5 keyword tables ----------------
	checkKeywordTables(c)
}

func isSrcSlice(info *types.Info, e ast.Expr) bool {
	e = ast.Unparen(e)
	if call, ok := e.(*ast.CallExpr); ok && len(call.Args) == 1 {
		if tv, ok := info.Types[call.Fun]; ok && tv.IsType() {
			e = ast.Unparen(call.Args[0])
		}
	}
	sl, ok := e.(*ast.SliceExpr)
	return ok && isField(fieldOf(info, sl.X), "scanner", "Scanner", "src") && isField(fieldOf(info, sl.Low), "scanner", "Scanner", "start") && isField(fieldOf(info, sl.High), "scanner", "Scanner", "cur")
}

// ---- R13.2 ----

const (
	bSafe     = 1 << 0 // the next rune (what peek() returns) is known not to be '\n', or the line counter was already bumped for it
	bNextSafe = 1 << 1 // the rune after next (peekNext()) is known not to be '\n'
	bAlias0   = 1 << 2 // local variable #k still equals peek()
)

type nlSummary struct {
	mayAdvance   bool
	ensuresSafe  bool        // with entry state unknown
	ensuresSafeS bool        // with entry state safe
	unsafe0      []token.Pos // advances unsafe when the entry state is unknown
	unsafe1      []token.Pos // advances unsafe even when the entry state is safe
	needsSafe    bool
}

func checkNewlineAccounting(c *Check, memo map[*types.Func]runeSet) {
	L := c.L
	sp := L.ByRel["src/scanner"]
	info := sp.TypesInfo
	r := c.Rule("R13.2", "every advance() over a possible line break is preceded by increaseLineBeforeAdvance()", 15)
	adv := L.Fn("src/scanner.(*Scanner).advance")
	inc := L.Fn("src/scanner.(*Scanner).increaseLineBeforeAdvance")
	peek := L.Fn("src/scanner.(*Scanner).peek")
	peekNext := L.Fn("src/scanner.(*Scanner).peekNext")
	atEnd := L.Fn("src/scanner.(*Scanner).atEnd")
	if adv == nil || inc == nil || peek == nil || peekNext == nil || atEnd == nil {
		r.Und("scanner primitives", token.NoPos, "advance/increaseLineBeforeAdvance/peek/peekNext/atEnd not all found")
		return
	}
	sums := map[*types.Func]*nlSummary{}
	var analyse func(fi *FuncInfo) *nlSummary
	type siteState struct {
		fi    *FuncInfo
		call  *ast.CallExpr
		safe  bool
		calle *types.Func
	}
	var callStates []siteState

	// constant values a parameter takes over all call sites in root packages (nil = unknown)
	paramConsts := func(fi *FuncInfo, obj types.Object) []int64 {
		idx := -1
		k := 0
		for _, f := range fi.Decl.Type.Params.List {
			for _, n := range f.Names {
				if info.Defs[n] == obj {
					idx = k
				}
				k++
			}
		}
		if idx < 0 {
			return nil
		}
		sites := L.CallSites(fi.Obj)
		if len(sites) == 0 {
			return nil
		}
		var vals []int64
		for _, s := range sites {
			if idx >= len(s.Call.Args) {
				return nil
			}
			v, ok := constInt(s.Fn.Pkg.TypesInfo, s.Call.Args[idx])
			if !ok {
				return nil
			}
			vals = append(vals, v)
		}
		return vals
	}

	run := func(fi *FuncInfo, entry uint32, record bool) (unsafe []token.Pos, ensures bool, mayAdv bool) {
		g := L.CFG(fi)
		tags := caseTags(fi.Decl.Body)
		aliasBit := map[types.Object]uint32{}  // local variable still equals peek()
		aliasNBit := map[types.Object]uint32{} // local variable still equals peekNext()
		nextBit := uint32(bAlias0)
		bitFor := func(m map[types.Object]uint32, obj types.Object) uint32 {
			b, ok := m[obj]
			if !ok && nextBit != 0 {
				b = nextBit
				m[obj] = b
				nextBit <<= 1
			}
			return b
		}
		// which expression denotes the next rune / the one after
		isPeekExpr := func(e ast.Expr, s uint32) int { // 1 = peek, 2 = peekNext, 0 = neither
			e = ast.Unparen(e)
			if call, ok := e.(*ast.CallExpr); ok {
				switch Callee(info, call) {
				case peek.Obj:
					return 1
				case peekNext.Obj:
					return 2
				}
			}
			if id, ok := e.(*ast.Ident); ok {
				if b, ok := aliasBit[info.Uses[id]]; ok && s&b != 0 {
					return 1
				}
				if b, ok := aliasNBit[info.Uses[id]]; ok && s&b != 0 {
					return 2
				}
			}
			return 0
		}
		// facts(cond, truth, s): bits that become known when cond evaluates to truth
		var facts func(e ast.Expr, truth bool, s uint32) uint32
		notNL := func(which int, isNotNL bool) uint32 {
			if !isNotNL {
				return 0
			}
			if which == 1 {
				return bSafe
			}
			return bNextSafe
		}
		constVals := func(e ast.Expr) []int64 {
			if v, ok := constInt(info, e); ok {
				return []int64{v}
			}
			if id, ok := ast.Unparen(e).(*ast.Ident); ok {
				if obj := info.Uses[id]; obj != nil {
					return paramConsts(fi, obj)
				}
			}
			return nil
		}
		eqFacts := func(x, y ast.Expr, equal bool, s uint32) uint32 {
			for _, p := range [][2]ast.Expr{{x, y}, {y, x}} {
				w := isPeekExpr(p[0], s)
				if w == 0 {
					continue
				}
				vals := constVals(p[1])
				if vals == nil {
					return 0
				}
				if equal { // rune ∈ vals
					for _, v := range vals {
						if v == '\n' {
							return 0
						}
					}
					return notNL(w, true)
				}
				// rune ∉ vals (only usable when there is exactly one value and it is '\n')
				if len(vals) == 1 && vals[0] == '\n' {
					return notNL(w, true)
				}
				return 0
			}
			return 0
		}
		facts = func(e ast.Expr, truth bool, s uint32) uint32 {
			e = ast.Unparen(e)
			if tag, ok := tags[e]; ok { // case expression
				return eqFacts(tag, e, truth, s)
			}
			switch x := e.(type) {
			case *ast.UnaryExpr:
				if x.Op == token.NOT {
					return facts(x.X, !truth, s)
				}
			case *ast.BinaryExpr:
				switch x.Op {
				case token.LAND:
					if truth {
						return facts(x.X, true, s) | facts(x.Y, true, s)
					}
					return facts(x.X, false, s) & facts(x.Y, false, s)
				case token.LOR:
					if !truth {
						return facts(x.X, false, s) | facts(x.Y, false, s)
					}
					return facts(x.X, true, s) & facts(x.Y, true, s)
				case token.EQL:
					return eqFacts(x.X, x.Y, truth, s)
				case token.NEQ:
					return eqFacts(x.X, x.Y, !truth, s)
				}
			case *ast.CallExpr:
				fn := Callee(info, x)
				if fn == atEnd.Obj && truth {
					return bSafe | bNextSafe // peek()/peekNext() yield eof at the end, never a line break
				}
				if fn != nil && len(x.Args) == 1 {
					if w := isPeekExpr(x.Args[0], s); w != 0 {
						if pf := L.Funcs[fn]; pf != nil {
							if set, ok := predSet(L, pf, memo); ok {
								if truth {
									return notNL(w, !set.has('\n'))
								}
								return notNL(w, set.has('\n'))
							}
						}
					}
				}
			}
			return 0
		}
		transferCall := func(call *ast.CallExpr, s uint32, onAdvance func(call *ast.CallExpr, s uint32)) uint32 {
			fn := Callee(info, call)
			switch {
			case fn == nil:
				return s
			case fn == adv.Obj:
				mayAdv = true
				if onAdvance != nil {
					onAdvance(call, s)
				}
				ns := uint32(0)
				if s&bNextSafe != 0 {
					ns = bSafe
				}
				// what was the rune after next is the next rune now: a variable holding peekNext() holds peek()
				for obj, nb := range aliasNBit {
					if s&nb != 0 {
						ns |= bitFor(aliasBit, obj)
					}
				}
				return ns // other aliases invalid, nextSafe unknown
			case fn == inc.Obj:
				return s | bSafe
			}
			if cf := L.Funcs[fn]; cf != nil && cf.Pkg == sp && cf != fi {
				sm := analyse(cf)
				if sm.mayAdvance {
					mayAdv = true
					if record {
						callStates = append(callStates, siteState{fi, call, s&bSafe != 0, fn})
					}
					if s&bSafe != 0 && sm.ensuresSafeS || sm.ensuresSafe {
						return bSafe
					}
					return 0
				}
			}
			return s
		}
		transfer := func(n ast.Node, s uint32, onAdvance func(call *ast.CallExpr, s uint32)) uint32 {
			callsIn(n, func(call *ast.CallExpr) { s = transferCall(call, s, onAdvance) })
			// alias tracking: v := s.peek() / v = s.peek()
			if as, ok := n.(*ast.AssignStmt); ok {
				for i, l := range as.Lhs {
					id, ok := l.(*ast.Ident)
					if !ok {
						continue
					}
					obj := info.Defs[id]
					if obj == nil {
						obj = info.Uses[id]
					}
					if obj == nil {
						continue
					}
					if b, ok := aliasBit[obj]; ok {
						s &^= b
					}
					if b, ok := aliasNBit[obj]; ok {
						s &^= b
					}
					if len(as.Rhs) == len(as.Lhs) {
						if call, ok := ast.Unparen(as.Rhs[i]).(*ast.CallExpr); ok {
							switch Callee(info, call) {
							case peek.Obj:
								s |= bitFor(aliasBit, obj)
							case peekNext.Obj:
								s |= bitFor(aliasNBit, obj)
							}
						}
					}
				}
			}
			return s
		}
		mf := &mustFlow{G: g, Init: entry,
			Transfer: func(n ast.Node, s uint32) uint32 { return transfer(n, s, nil) },
			Edge: func(b *cfg.Block, i int, s uint32) uint32 {
				if len(b.Nodes) == 0 {
					return s
				}
				cond, ok := b.Nodes[len(b.Nodes)-1].(ast.Expr)
				if !ok {
					return s
				}
				return s | facts(cond, i == 0, s)
			}}
		// two passes so alias bits are allocated before the fixpoint relies on them
		mf.Run()
		mf.Run()
		ensures = true
		sawExit := false
		for _, b := range g.Blocks {
			if !b.Live {
				continue
			}
			s := mf.In[b]
			for _, n := range b.Nodes {
				s = transfer(n, s, func(call *ast.CallExpr, st uint32) {
					if st&bSafe == 0 {
						unsafe = append(unsafe, call.Pos())
					}
				})
			}
			if len(b.Succs) == 0 {
				// exit block (return or fallthrough end). A block ending in a no-return call is not live-succ'd; accept.
				sawExit = true
				if s&bSafe == 0 {
					ensures = false
				}
			}
		}
		if !sawExit {
			ensures = false
		}
		return
	}
	analyse = func(fi *FuncInfo) *nlSummary {
		if sm, ok := sums[fi.Obj]; ok {
			return sm
		}
		sm := &nlSummary{}
		sums[fi.Obj] = sm // recursion guard: pessimistic defaults (no advance would be unsound) -> mark mayAdvance
		sm.mayAdvance = true
		u0, e0, m0 := run(fi, 0, true)
		u1, e1, _ := run(fi, bSafe, false)
		sm.mayAdvance, sm.ensuresSafe, sm.ensuresSafeS, sm.unsafe0, sm.unsafe1 = m0, e0, e1, u0, u1
		sm.needsSafe = len(u0) > len(u1)
		return sm
	}
	var fis []*FuncInfo
	L.ForEachFunc([]string{"src/scanner"}, func(fi *FuncInfo) {
		if fi != adv && fi != inc {
			fis = append(fis, fi)
		}
	})
	for _, fi := range fis {
		analyse(fi)
	}
	// report advances
	for _, fi := range fis {
		sm := sums[fi.Obj]
		q := L.QName(fi.Obj)
		in1 := map[token.Pos]bool{}
		for _, p := range sm.unsafe1 {
			in1[p] = true
		}
		in0 := map[token.Pos]bool{}
		for _, p := range sm.unsafe0 {
			in0[p] = true
		}
		n := 0
		ast.Inspect(fi.Decl.Body, func(nd ast.Node) bool {
			call, ok := nd.(*ast.CallExpr)
			if !ok || Callee(info, call) != adv.Obj {
				return true
			}
			n++
			switch {
			case in1[call.Pos()]:
				r.Bad(q+"|advance", call.Pos(), "advance() may step over a '\\n' without increaseLineBeforeAdvance(): following tokens get a wrong line/column")
			case in0[call.Pos()]:
				// safe only if every caller establishes safety; decided at call sites below
				r.OK(q+"|advance", call.Pos(), "safe provided callers enter with a non-newline rune ahead (checked at each call site)")
			default:
				r.OK(q+"|advance", call.Pos(), "next rune proven not to be a line break, or line accounting precedes")
			}
			return true
		})
	}
	for _, cs := range callStates {
		sm := sums[cs.calle]
		if !sm.needsSafe {
			continue
		}
		q := L.QName(cs.fi.Obj)
		callers := L.CallSites(cs.calle)
		_ = callers
		r.Decide(cs.safe, q+"|call "+cs.calle.Name(), cs.call.Pos(), "callee advances immediately; the rune ahead is proven not to be a line break here", "calls "+cs.calle.Name()+", which advances at once, while the rune ahead may be a line break")
	}
	// functions that need a safe entry but are exported or never called inside the package
	for _, fi := range fis {
		sm := sums[fi.Obj]
		if sm.needsSafe && (fi.Obj.Exported() || len(L.CallSites(fi.Obj)) == 0) {
			r.Bad(L.QName(fi.Obj)+"|entry", fi.Decl.Pos(), "advances over an unchecked rune at entry and can be called from outside")
		}
	}
}

// ---- R13.4 / R13.5 ----

func checkKeywordTables(c *Check) {
	L := c.L
	tp := L.ByRel["src/token"]
	info := tp.TypesInfo
	r4 := c.Rule("R13.4", "every TokenType has a string; every keyword token type is reachable from a KeywordMap spelling; case folding is unambiguous", 100)
	r5 := c.Rule("R13.5", "every keyword with ä/ö/ü/ß also has its ASCII spelling (ae/oe/ue/ss) with the same token type", 8)
	consts := constsOfType(tp, "TokenType")
	if len(consts) < 100 {
		r4.Und("token.TokenType", token.NoPos, fmt.Sprintf("only %d TokenType constants found", len(consts)))
		return
	}
	// tokenStrings
	ts, _ := findPkgVarValue(tp, "tokenStrings").(*ast.CompositeLit)
	km, _ := findPkgVarValue(tp, "KeywordMap").(*ast.CompositeLit)
	if ts == nil || km == nil {
		r4.Und("token.tokenStrings/KeywordMap", token.NoPos, "tables not found")
		return
	}
	strOf := map[types.Object]string{}
	for _, el := range ts.Elts {
		kv, ok := el.(*ast.KeyValueExpr)
		if !ok {
			r4.Und("token.tokenStrings", el.Pos(), "unkeyed element")
			continue
		}
		if id, ok := kv.Key.(*ast.Ident); ok {
			s, _ := constString(info, kv.Value)
			strOf[info.Uses[id]] = s
		}
	}
	// array length covers all constants: the array type is [...]string so len = max index + 1
	for _, cst := range consts {
		s, ok := strOf[cst]
		r4.Decide(ok && s != "", "token."+cst.Name()+"|tokenStrings", cst.Pos(), "has a string", "TokenType "+cst.Name()+" has no tokenStrings entry (String() panics or prints empty)")
	}
	valOf := map[string]types.Object{}
	byVal := map[types.Object][]string{}
	for _, el := range km.Elts {
		kv := el.(*ast.KeyValueExpr)
		k, ok := constString(info, kv.Key)
		if !ok {
			r4.Und("token.KeywordMap", kv.Pos(), "non-constant key")
			continue
		}
		id, ok := kv.Value.(*ast.Ident)
		if !ok {
			r4.Und("token.KeywordMap|"+k, kv.Pos(), "value is not a TokenType constant")
			continue
		}
		obj := info.Uses[id]
		if _, dup := valOf[k]; dup {
			r4.Bad("token.KeywordMap|dup "+k, kv.Pos(), "duplicate key")
		}
		valOf[k] = obj
		byVal[obj] = append(byVal[obj], k)
	}
	// Keyword token types: those whose tokenStrings entry is a word (letters) and that are not literal/meta kinds.
	notKeywords := map[string]string{
		"ILLEGAL": "meta", "EOF": "meta", "IDENTIFIER": "class", "ALIAS_PARAMETER": "class", "COMMENT": "class", "SYMBOL": "class",
		"INT": "class", "FLOAT": "class", "STRING": "class", "CHAR": "class",
		"NEGATE": "the '-' sign, produced by the dispatcher", "DOT": "punctuation", "COMMA": "punctuation", "COLON": "punctuation", "LPAREN": "punctuation", "RPAREN": "punctuation", "ELIPSIS": "punctuation",
		"VONBIS": "synthesised by the parser from 'von ... bis', never scanned",
	}
	for _, cst := range consts {
		if why, ok := notKeywords[cst.Name()]; ok {
			if len(byVal[cst]) > 0 && why != "" {
				// fine as well
			}
			continue
		}
		r4.Decide(len(byVal[cst]) > 0, "token."+cst.Name()+"|KeywordMap", cst.Pos(), "spelled "+strings.Join(byVal[cst], ","), "keyword token type "+cst.Name()+" has no spelling in KeywordMap: the keyword can no longer be written")
	}
	// the tokenStrings spelling of a keyword must itself scan to that keyword (String() is what diagnostics and the formatter print)
	for _, cst := range consts {
		if _, ok := notKeywords[cst.Name()]; ok {
			continue
		}
		s := strOf[cst]
		if s == "" {
			continue
		}
		v, ok := valOf[s]
		if !ok {
			v, ok = valOf[strings.ToLower(s)]
		}
		if ok {
			r4.Decide(v == cst, "token."+cst.Name()+"|string scans back", cst.Pos(), "String() spelling maps back", fmt.Sprintf("tokenStrings[%s]=%q scans as %s", cst.Name(), s, v.Name()))
		}
	}
	// case folding: identifierType looks up the exact literal first, then its lower-case form. Two keys with equal
	// lower-case form and different values are fine only if both are reachable exactly (they are different literals).
	// The hazard is a key K whose lower-case form k is also a key with another value: an all-caps/other-case spelling of K
	// folds to k's type. That is inherent to the rule; what must not happen is a key that is unreachable: a key that is not
	// its own exact match cannot exist in a map. So check only: lower-case keys are the fold targets -> every key that
	// contains an upper-case letter must either have no lower-case sibling or a sibling of the same type, or be listed.
	keys := make([]string, 0, len(valOf))
	for k := range valOf {
		keys = append(keys, k)
	}
	sort.Strings(keys)
	for _, k := range keys {
		lk := strings.ToLower(k)
		if lk == k {
			continue
		}
		if v, ok := valOf[lk]; ok && v != valOf[k] {
			r4.Info("token.KeywordMap|fold "+k, token.NoPos, fmt.Sprintf("%q (%s) and %q (%s) differ only in case; exact match wins", k, valOf[k].Name(), lk, v.Name()))
		}
	}
	// R13.5
	repl := strings.NewReplacer("ä", "ae", "ö", "oe", "ü", "ue", "ß", "ss", "Ä", "Ae", "Ö", "Oe", "Ü", "Ue")
	for _, k := range keys {
		if !strings.ContainsAny(k, "äöüßÄÖÜ") {
			continue
		}
		a := repl.Replace(k)
		v, ok := valOf[a]
		r5.Decide(ok && v == valOf[k], "token.KeywordMap|ascii of "+k, token.NoPos, a+" present", fmt.Sprintf("keyword %q (%s) lacks its ASCII spelling %q with the same token type", k, valOf[k].Name(), a))
	}
	c.extra["keyword_map_keys"] = len(keys)
	c.extra["token_types"] = len(consts)
}
