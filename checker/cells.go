package main

import (
	"fmt"
	"go/ast"
	"go/constant"
	"go/types"
	"sort"
	"strings"

	"golang.org/x/tools/go/packages"
)

// ---- type classes used as cell coordinates ----

func dtClasses(tier string) []*DT {
	p := func(k string) *DT { return &DT{Kind: k} }
	z, k, b, w, ch, t := p("ZAHL"), p("KOMMAZAHL"), p("BYTE"), p("WAHRHEITSWERT"), p("BUCHSTABE"), p("TEXT")
	list := func(e *DT) *DT { return &DT{Kind: "LIST", Elem: e} }
	s := &DT{Kind: "STRUCT", Name: "Punkt"}
	cls := []*DT{z, k, b, w, ch, t, p("VARIABLE"), p("VOID"), list(z), list(t), s,
		{Kind: "TYPEDEF", Name: "Hausnummer", Base: z}, {Kind: "ALIAS", Name: "Ganzzahl", Base: z}, {Kind: "TYPEDEF", Name: "Name", Base: t}, {Kind: "TYPEDEF", Name: "Postleitzahl", Base: z},
		// a definition whose base is itself a definition (converts to and from that base only, not to the root type)
		{Kind: "TYPEDEF", Name: "Adressnummer", Base: &DT{Kind: "TYPEDEF", Name: "Hausnummer", Base: z}}}
	if tier == "thorough" {
		cls = append(cls, list(k), list(b), list(w), list(ch), list(p("VARIABLE")), list(s), list(list(z)),
			&DT{Kind: "ALIAS", Name: "Wort", Base: t},
			&DT{Kind: "ALIAS", Name: "ZL", Base: list(z)},
			&DT{Kind: "STRUCT", Name: "Kreis"})
	}
	return cls
}

// ---- shared models of ddptypes (the trusted model table; its shape is what C14 R14.1-R14.3b check on the real code) ----

func dtArg(v Val) (*DT, bool) {
	if tv, ok := v.(TypeV); ok {
		return tv.T, true
	}
	return nil, false
}

func installDDPTypesModels(in *Interp) {
	pred := func(f func(d *DT) bool) ModelFn {
		return func(in *Interp, pkg *packages.Package, call *ast.CallExpr, recv Val, args []Val) (Val, bool) {
			if d, ok := dtArg(args[0]); ok {
				return boolV(f(d)), true
			}
			return Unk{"predicate on unknown type"}, true
		}
	}
	kind := func(k string) ModelFn { return pred(func(d *DT) bool { return dtNorm(d).Kind == k }) }
	in.Models["ddptypes.IsList"] = kind("LIST")
	in.Models["ddptypes.IsStruct"] = kind("STRUCT")
	in.Models["ddptypes.IsAny"] = kind("VARIABLE")
	in.Models["ddptypes.IsVoid"] = kind("VOID")
	in.Models["ddptypes.IsTypeDef"] = kind("TYPEDEF")
	in.Models["ddptypes.IsGeneric"] = kind("GENERIC")
	in.Models["ddptypes.IsTypeAlias"] = pred(func(d *DT) bool { return d.Kind == "ALIAS" })
	in.Models["ddptypes.IsPrimitive"] = pred(func(d *DT) bool { return dtPrims[dtNorm(d).Kind] })
	in.Models["ddptypes.IsPrimitiveOrVoid"] = pred(func(d *DT) bool { n := dtNorm(d).Kind; return dtPrims[n] || n == "VOID" })
	in.Models["ddptypes.IsNumeric"] = pred(func(d *DT) bool { n := dtNorm(d).Kind; return n == "ZAHL" || n == "KOMMAZAHL" || n == "BYTE" })
	two := func(f func(a, b *DT) bool) ModelFn {
		return func(in *Interp, pkg *packages.Package, call *ast.CallExpr, recv Val, args []Val) (Val, bool) {
			a, ok1 := dtArg(args[0])
			b, ok2 := dtArg(args[1])
			if ok1 && ok2 {
				return boolV(f(a, b)), true
			}
			return Unk{"equality on unknown type"}, true
		}
	}
	in.Models["ddptypes.Equal"] = two(dtEqual)
	in.Models["ddptypes.DeepEqual"] = two(func(a, b *DT) bool { return dtSame(dtTrueList(a), dtTrueList(b)) })
	conv := func(f func(d *DT) *DT) ModelFn {
		return func(in *Interp, pkg *packages.Package, call *ast.CallExpr, recv Val, args []Val) (Val, bool) {
			if d, ok := dtArg(args[0]); ok {
				return TypeV{f(d)}, true
			}
			return Unk{"normaliser on unknown type"}, true
		}
	}
	in.Models["ddptypes.GetUnderlying"] = conv(dtNorm)
	in.Models["ddptypes.TrueUnderlying"] = conv(dtTrue)
	in.Models["ddptypes.GetListElementType"] = conv(func(d *DT) *DT {
		if n := dtNorm(d); n.Kind == "LIST" {
			return n.Elem
		}
		return d
	})
	in.Models["ddptypes.GetNestedListElementType"] = conv(func(d *DT) *DT {
		for dtNorm(d).Kind == "LIST" {
			d = dtNorm(d).Elem
		}
		return d
	})
	in.Models["ddptypes.ListTrueUnderlying"] = conv(func(d *DT) *DT {
		d = dtTrue(d)
		for d.Kind == "LIST" {
			d = dtTrue(d.Elem)
		}
		return d
	})
	cast := func(k string) ModelFn {
		return func(in *Interp, pkg *packages.Package, call *ast.CallExpr, recv Val, args []Val) (Val, bool) {
			if d, ok := dtArg(args[0]); ok {
				n := dtNorm(d)
				okk := n.Kind == k || (k == "PRIM" && dtPrims[n.Kind])
				if okk {
					return TupleV{TypeV{n}, boolV(true)}, true
				}
				return TupleV{Unk{"failed cast"}, boolV(false)}, true
			}
			return Unk{"cast on unknown type"}, true
		}
	}
	in.Models["ddptypes.CastList"] = cast("LIST")
	in.Models["ddptypes.CastStruct"] = cast("STRUCT")
	in.Models["ddptypes.CastTypeDef"] = cast("TYPEDEF")
	in.Models["ddptypes.CastPrimitive"] = cast("PRIM")
	in.Models["ddptypes.CastGeneric"] = cast("GENERIC")
	in.Models["ddptypes.CastGenericStructType"] = cast("GENERICSTRUCT")
	in.Models["ddptypes.CastDeeplyNestedGenerics"] = func(in *Interp, pkg *packages.Package, call *ast.CallExpr, recv Val, args []Val) (Val, bool) {
		return TupleV{NilV{}, boolV(false)}, true
	}
	noop := func(in *Interp, pkg *packages.Package, call *ast.CallExpr, recv Val, args []Val) (Val, bool) {
		return Unk{"ignored"}, true
	}
	for _, n := range []string{"fmt.Sprintf", "fmt.Errorf", "fmt.Sprint", "fmt.Println", "fmt.Printf"} {
		in.Models[n] = noop
	}
}

// ---- checker side ----

type ChkOutcome struct {
	Errs   int
	Panics []string
	Result *DT // nil when unknown
}

type ChkCell struct {
	Outcomes []ChkOutcome
	Exh      bool
	Unk      []string
}

func (c *ChkCell) Admitted() (bool, bool) { // (admitted, decided)
	if !c.Exh || len(c.Outcomes) == 0 {
		return false, false
	}
	all, none := true, true
	for _, o := range c.Outcomes {
		if len(o.Panics) > 0 {
			return false, false
		}
		if o.Errs > 0 {
			all = false
		} else {
			none = false
		}
	}
	if all {
		return true, true
	}
	if none {
		return false, true
	}
	return false, false
}
func (c *ChkCell) Result() *DT {
	var r *DT
	for _, o := range c.Outcomes {
		if o.Errs > 0 {
			continue
		}
		if o.Result == nil {
			return nil
		}
		if r != nil && !dtSame(r, o.Result) {
			return nil
		}
		r = o.Result
	}
	return r
}

func astNode(kind, name string, d *DT, g *GenT) *Obj {
	o := newObj(kind)
	o.set("name", StrV(name))
	if d != nil {
		o.set("cls", TypeV{d})
	}
	if g != nil {
		o.set("gen", g)
	}
	return o
}

func newCheckerInterp(L *Loaded) (*Interp, func() *Obj) {
	in := NewInterp(L)
	installDDPTypesModels(in)
	var tObj *Obj
	mk := func() *Obj {
		tObj = newObj("Typechecker")
		tObj.set("latestReturnedType", TypeV{&DT{Kind: "VOID"}})
		return tObj
	}
	in.Models["typechecker.(*Typechecker).Evaluate"] = func(in *Interp, pkg *packages.Package, call *ast.CallExpr, recv Val, args []Val) (Val, bool) {
		if n, ok := args[0].(*Obj); ok {
			if cv, ok := n.F["cls"]; ok {
				tObj.set("latestReturnedType", *cv)
				return *cv, true
			}
		}
		tObj.set("latestReturnedType", Unk{"evaluate of unknown node"})
		return Unk{"evaluate of unknown node"}, true
	}
	in.Models["typechecker.(*Typechecker).EvaluateSilent"] = in.Models["typechecker.(*Typechecker).Evaluate"]
	errm := func(in *Interp, pkg *packages.Package, call *ast.CallExpr, recv Val, args []Val) (Val, bool) {
		in.event("err", in.L.Src(call.Fun), call.Pos())
		return TupleV(nil), true
	}
	for _, n := range []string{"err", "errExpr", "errExpected"} {
		in.Models["typechecker.(*Typechecker)."+n] = errm
	}
	nilm := func(in *Interp, pkg *packages.Package, call *ast.CallExpr, recv Val, args []Val) (Val, bool) {
		return NilV{}, true
	}
	in.Models["typechecker.(*Typechecker).findOverload"] = nilm
	in.Models["typechecker.(*Typechecker).findOverloadCast"] = nilm
	in.Models["typechecker.IsPublicType"] = func(in *Interp, pkg *packages.Package, call *ast.CallExpr, recv Val, args []Val) (Val, bool) {
		return boolV(true), true
	}
	in.Models["ast.(*VarDecl).Public"] = func(in *Interp, pkg *packages.Package, call *ast.CallExpr, recv Val, args []Val) (Val, bool) {
		return boolV(false), true
	}
	in.Models["typechecker.(*Typechecker).visit"] = func(in *Interp, pkg *packages.Package, call *ast.CallExpr, recv Val, args []Val) (Val, bool) {
		if n, ok := args[0].(*Obj); ok {
			if cv, ok := n.F["cls"]; ok {
				tObj.set("latestReturnedType", *cv)
			}
		}
		return TupleV(nil), true
	}
	return in, mk
}

// RunChecker evaluates one visitor of the type checker on a node object.
func runChecker(L *Loaded, in *Interp, mk func() *Obj, method string, node *Obj) *ChkCell {
	fi := L.Fn("src/parser/typechecker.(*Typechecker)." + method)
	cell := &ChkCell{}
	if fi == nil {
		cell.Unk = append(cell.Unk, "method not found")
		return cell
	}
	var t *Obj
	_, exh := in.RunAll(48, func() {
		t = mk()
		in.CallFunc(fi, t, []Val{node})
		o := ChkOutcome{}
		for _, e := range in.Events {
			switch e.Kind {
			case "err":
				o.Errs++
			case "panic":
				o.Panics = append(o.Panics, e.Msg)
			}
		}
		if tv, ok := t.get("latestReturnedType").(TypeV); ok {
			o.Result = tv.T
		}
		cell.Unk = append(cell.Unk, in.Undecided...)
		cell.Outcomes = append(cell.Outcomes, o)
	})
	cell.Exh = exh
	return cell
}

// ---- generator side ----

type GenOutcome struct {
	CErr    []string
	Panics  []string
	Faults  []string
	Convs   []string
	Ret     *IRVal
	RetType *GenT
	RetTemp Val
}

type GenCell struct {
	Outcomes []GenOutcome
	Exh      bool
}

func newGeneratorInterp(L *Loaded) (*Interp, func() *Obj) {
	in := NewInterp(L)
	in.MaxDepth = 5
	installDDPTypesModels(in)
	var cObj *Obj
	mk := func() *Obj {
		c := newObj("compiler")
		for f, k := range map[string]string{"ddpinttyp": "int", "ddpfloattyp": "float", "ddpbytetyp": "byte", "ddpbooltyp": "bool", "ddpchartyp": "char", "ddpstring": "string", "ddpany": "any", "void": "void"} {
			c.set(f, &GenT{Kind: k})
		}
		for f, k := range map[string]string{"ddpintlist": "int", "ddpfloatlist": "float", "ddpbytelist": "byte", "ddpboollist": "bool", "ddpcharlist": "char", "ddpstringlist": "string", "ddpanylist": "any"} {
			c.set(f, &GenT{Kind: "list", Elem: &GenT{Kind: k}})
		}
		eb := newObj("ir.Block")
		eb.set("Term", NilV{})
		c.set("cbb", eb)
		c.set("cf", newObj("ir.Func"))
		amb := newObj("scope")
		amb.set("enclosing", newObj("scope"))
		amb.set("ambient", boolV(true))
		c.set("scp", amb)
		c.set("latestReturn", NilV{})
		c.set("latestReturnType", NilV{})
		c.set("latestIsTemp", boolV(false))
		cObj = c
		return c
	}
	in.Models["compiler.(*compiler).evaluate"] = func(in *Interp, pkg *packages.Package, call *ast.CallExpr, recv Val, args []Val) (Val, bool) {
		n, ok := args[0].(*Obj)
		if !ok {
			return Unk{"evaluate of unknown node"}, true
		}
		g, _ := n.get("gen").(*GenT)
		if g == nil {
			// synthesised node (e.g. the CastExpr built by VisitCastAssigneable): not modelled
			cObj.set("latestReturn", Unk{"evaluate"})
			cObj.set("latestReturnType", Unk{"evaluate"})
			return TupleV{Unk{"evaluate"}, Unk{"evaluate"}, Unk{"evaluate"}}, true
		}
		name, _ := n.get("name").(StrV)
		v := &IRVal{Op: "operand", Src: string(name), Class: g.irClass(), Elem: g}
		temp := n.get("temp")
		cObj.set("latestReturn", v)
		cObj.set("latestReturnType", g)
		cObj.set("latestIsTemp", temp)
		startBlock := cObj.get("cbb")
		// an operand marked multiblock stands for an expression whose code spans several basic blocks (a nested und/oder, an
		// index with its bounds check, falls …): evaluation ends in another block than it started in
		if mb, known := truth(n.get("multiblock")); known && mb {
			nb := newObj("ir.Block")
			nb.set("Term", NilV{})
			if sb, ok := startBlock.(*Obj); ok {
				t := newObj("term")
				sb.set("Term", t)
				in.event("term:NewBr", "", call.Pos(), sb, nb)
			}
			cObj.set("cbb", nb)
		}
		in.event("evaluate:"+string(name), "", call.Pos(), startBlock, v, cObj.get("scp"), cObj.get("cbb"))
		return TupleV{v, g, temp}, true
	}
	in.Models["compiler.(*compiler).err"] = func(in *Interp, pkg *packages.Package, call *ast.CallExpr, recv Val, args []Val) (Val, bool) {
		msg := ""
		if len(args) > 0 {
			if s, ok := args[0].(StrV); ok {
				msg = string(s)
			}
		}
		in.event("cerr", msg, call.Pos())
		return abortV{}, true
	}
	noop := func(in *Interp, pkg *packages.Package, call *ast.CallExpr, recv Val, args []Val) (Val, bool) {
		return TupleV(nil), true
	}
	for _, n := range []string{"commentNode", "comment"} {
		in.Models["compiler.(*compiler)."+n] = noop
	}
	in.Models["compiler.(*compiler).toIrType"] = func(in *Interp, pkg *packages.Package, call *ast.CallExpr, recv Val, args []Val) (Val, bool) {
		if d, ok := dtArg(args[0]); ok {
			return toGen(d), true
		}
		return Unk{"toIrType of unknown"}, true
	}
	in.Models["compiler.(*compiler).getListType"] = func(in *Interp, pkg *packages.Package, call *ast.CallExpr, recv Val, args []Val) (Val, bool) {
		if g, ok := args[0].(*GenT); ok {
			return &GenT{Kind: "list", Elem: g}, true
		}
		return Unk{"getListType of unknown"}, true
	}
	in.Models["compiler.(*compiler).VisitFuncCall"] = func(in *Interp, pkg *packages.Package, call *ast.CallExpr, recv Val, args []Val) (Val, bool) {
		return Unk{"overload call"}, true
	}
	in.Models["compiler.(*scope).claimTemporary"] = func(in *Interp, pkg *packages.Package, call *ast.CallExpr, recv Val, args []Val) (Val, bool) {
		in.event("claim", "", call.Pos(), args[0])
		return args[0], true
	}
	in.Models["compiler.(*scope).addTemporary"] = func(in *Interp, pkg *packages.Package, call *ast.CallExpr, recv Val, args []Val) (Val, bool) {
		in.event("addTemp", "", call.Pos(), args[0], args[1], recv, cObj.get("cbb"))
		return TupleV{args[0], args[1]}, true
	}
	in.Models["compiler.(*scope).protectTemporary"] = noop
	in.Models["compiler.(*scope).unprotectTemporary"] = noop
	in.Models["compiler.newScope"] = func(in *Interp, pkg *packages.Package, call *ast.CallExpr, recv Val, args []Val) (Val, bool) {
		sc := newObj("scope")
		sc.set("enclosing", args[0])
		in.event("newScope", "", call.Pos(), sc, cObj.get("cbb"))
		return sc, true
	}
	in.Models["compiler.(*compiler).exitScope"] = func(in *Interp, pkg *packages.Package, call *ast.CallExpr, recv Val, args []Val) (Val, bool) {
		in.event("exitScope", "", call.Pos(), args[0], cObj.get("cbb"))
		if sc, ok := args[0].(*Obj); ok {
			if e, ok := sc.get("enclosing").(*Obj); ok {
				return e, true
			}
		}
		return newObj("scope"), true
	}
	in.Models["compiler.(*compiler).NewAlloca"] = func(in *Interp, pkg *packages.Package, call *ast.CallExpr, recv Val, args []Val) (Val, bool) {
		allocaSeq++
		return &IRVal{Op: "alloca", Class: "ptr", Src: fmt.Sprint("a", allocaSeq)}, true
	}
	tyUnk := func(in *Interp, pkg *packages.Package, call *ast.CallExpr, recv Val, args []Val) (Val, bool) {
		return &IRTy{"?"}, true
	}
	in.Models["compiler.getPointeeType"] = tyUnk
	in.Models["compiler.getPointeeTypeT"] = tyUnk
	rt := func(in *Interp, pkg *packages.Package, call *ast.CallExpr, recv Val, args []Val) (Val, bool) {
		in.event("rterr", in.L.Src(call.Fun), call.Pos())
		return TupleV(nil), true
	}
	in.Models["compiler.(*compiler).runtime_error"] = rt
	in.Models["compiler.(*compiler).out_of_bounds_error"] = rt
	in.Models["compiler.(*compiler).getTypeSize"] = func(in *Interp, pkg *packages.Package, call *ast.CallExpr, recv Val, args []Val) (Val, bool) {
		return Unk{"size"}, true
	}
	in.Models["compiler.(*compiler).mangledNameType"] = func(in *Interp, pkg *packages.Package, call *ast.CallExpr, recv Val, args []Val) (Val, bool) {
		return Unk{"name"}, true
	}
	in.Models["compiler.getFieldIndex"] = func(in *Interp, pkg *packages.Package, call *ast.CallExpr, recv Val, args []Val) (Val, bool) {
		return Unk{"field index"}, true
	}
	in.Models["compiler.(*compiler).visitNode"] = func(in *Interp, pkg *packages.Package, call *ast.CallExpr, recv Val, args []Val) (Val, bool) {
		name := "?"
		if n, ok := args[0].(*Obj); ok {
			if s, ok := n.get("name").(StrV); ok {
				name = string(s)
			}
		}
		st := ""
		if tv := pkg.TypesInfo.TypeOf(call.Args[0]); tv != nil {
			st = tv.String()
		}
		in.event("visit:"+name, st, call.Pos(), cObj.get("cbb"), cObj.get("scp"))
		return TupleV(nil), true
	}
	in.Models["compiler.(*scope).lookupVar"] = func(in *Interp, pkg *packages.Package, call *ast.CallExpr, recv Val, args []Val) (Val, bool) {
		w := newObj("varwrapper")
		w.set("val", &IRVal{Op: "operand", Src: "var", Class: "ptr"})
		w.set("typ", Unk{"var type"})
		if d, ok := args[0].(*Obj); ok {
			if tv, ok := d.get("Type").(TypeV); ok {
				w.set("typ", toGen(tv.T))
			}
		}
		w.set("isRef", boolV(false))
		return w, true
	}
	in.Models["compiler.(*compiler).createIfElse"] = func(in *Interp, pkg *packages.Package, call *ast.CallExpr, recv Val, args []Val) (Val, bool) {
		in.event("ifelse-begin", "", call.Pos(), args[0])
		in.event("then-begin", "", call.Pos())
		if f, ok := args[1].(Closure); ok {
			if _, ab := in.callClosure(f, nil).(abortV); ab {
				return abortV{}, true
			}
		}
		in.event("then-end", "", call.Pos())
		in.event("else-begin", "", call.Pos())
		if f, ok := args[2].(Closure); ok {
			if _, ab := in.callClosure(f, nil).(abortV); ab {
				return abortV{}, true
			}
		}
		in.event("else-end", "", call.Pos())
		in.event("ifelse-end", "", call.Pos())
		return TupleV(nil), true
	}
	in.Models["compiler.(*compiler).createTernary"] = func(in *Interp, pkg *packages.Package, call *ast.CallExpr, recv Val, args []Val) (Val, bool) {
		var a, b Val = Unk{"ternary"}, Unk{"ternary"}
		if f, ok := args[1].(Closure); ok {
			a = in.callClosure(f, nil)
		}
		if f, ok := args[2].(Closure); ok {
			b = in.callClosure(f, nil)
		}
		av, bv := asIR(a), asIR(b)
		return &IRVal{Op: "select", Args: []*IRVal{asIR(args[0]), av, bv}, Class: av.Class}, true
	}
	in.Models["compiler.(*compiler).createFor"] = func(in *Interp, pkg *packages.Package, call *ast.CallExpr, recv Val, args []Val) (Val, bool) {
		iv := &IRVal{Op: "loopvar", Class: "i64"}
		var cond Val = Unk{"cond"}
		if f, ok := args[1].(Closure); ok {
			cond = in.callClosure(f, []Val{iv})
		}
		in.event("for-begin", "", call.Pos(), args[0], cond)
		if f, ok := args[2].(Closure); ok {
			in.callClosure(f, []Val{iv})
		}
		in.event("for-end", "", call.Pos())
		return TupleV(nil), true
	}
	in.Models["compiler.(*compiler).memcpyArr"] = func(in *Interp, pkg *packages.Package, call *ast.CallExpr, recv Val, args []Val) (Val, bool) {
		in.event("memcpyArr", "", call.Pos(), args...)
		return &IRVal{Op: "call", Class: "ptr"}, true
	}
	in.Models["compiler.(*compiler).growCapacity"] = func(in *Interp, pkg *packages.Package, call *ast.CallExpr, recv Val, args []Val) (Val, bool) {
		return &IRVal{Op: "growCapacity", Args: []*IRVal{asIR(args[0])}, Class: "i64"}, true
	}
	in.Models["compiler.(*compiler).allocateArr"] = func(in *Interp, pkg *packages.Package, call *ast.CallExpr, recv Val, args []Val) (Val, bool) {
		return &IRVal{Op: "allocateArr", Args: []*IRVal{asIR(args[1])}, Class: "ptr"}, true
	}
	in.Models["compiler.(*compiler).insertFunction"] = noop
	in.Models["compiler.(*compiler).indexArray"] = func(in *Interp, pkg *packages.Package, call *ast.CallExpr, recv Val, args []Val) (Val, bool) {
		in.event("indexArray", "", call.Pos(), args[0], args[1])
		return &IRVal{Op: "elementptr", Args: []*IRVal{asIR(args[0]), asIR(args[1])}, Class: "ptr"}, true
	}
	in.Models["compiler.(*compiler).compareAnyType"] = func(in *Interp, pkg *packages.Package, call *ast.CallExpr, recv Val, args []Val) (Val, bool) {
		return &IRVal{Op: "compareAnyType", Args: []*IRVal{asIR(args[0])}, Class: "i1"}, true
	}
	in.Models["compiler.(*compiler).deepCopyInto"] = func(in *Interp, pkg *packages.Package, call *ast.CallExpr, recv Val, args []Val) (Val, bool) {
		in.event("deepCopy", "", call.Pos(), args[0], args[1])
		return args[0], true
	}
	return in, mk
}

var allocaSeq int

func runGenerator(L *Loaded, in *Interp, mk func() *Obj, method string, node *Obj) *GenCell {
	fi := L.Fn("src/compiler.(*compiler)." + method)
	cell := &GenCell{}
	if fi == nil {
		return cell
	}
	_, exh := in.RunAll(64, func() {
		c := mk()
		in.CallFunc(fi, c, []Val{node})
		o := GenOutcome{}
		for _, e := range in.Events {
			switch e.Kind {
			case "cerr":
				o.CErr = append(o.CErr, in.L.Pos(e.Pos)+" "+e.Msg)
			case "panic":
				o.Panics = append(o.Panics, in.L.Pos(e.Pos)+" "+e.Msg)
			case "fault":
				o.Faults = append(o.Faults, in.L.Pos(e.Pos)+" "+e.Msg)
			case "conv":
				o.Convs = append(o.Convs, in.L.Pos(e.Pos)+" "+e.Msg)
			}
		}
		if v, ok := c.get("latestReturn").(*IRVal); ok {
			o.Ret = v
		}
		if g, ok := c.get("latestReturnType").(*GenT); ok {
			o.RetType = g
		}
		o.RetTemp = c.get("latestIsTemp")
		cell.Outcomes = append(cell.Outcomes, o)
	})
	cell.Exh = exh
	return cell
}

// ---- operator enumeration ----

type opInfo struct {
	Const *types.Const
	Name  string
}

func operatorConsts(L *Loaded, typeName string) []opInfo {
	ap := L.ByRel["src/ast"]
	var out []opInfo
	for _, c := range constsOfType(ap, typeName) {
		n := c.Name()
		if strings.Contains(n, "INVALID") || strings.HasSuffix(strings.ToLower(n), "_end") || n != strings.ToUpper(n) {
			continue
		}
		out = append(out, opInfo{c, n})
	}
	return out
}

func opVal(o opInfo) Val { return ConstV{V: o.Const.Val(), T: o.Const.Type(), Name: o.Name} }

// cellKey is a stable textual coordinate.
func cellKey(op string, ds ...*DT) string {
	var p []string
	for _, d := range ds {
		p = append(p, d.String())
	}
	return op + " (" + strings.Join(p, ", ") + ")"
}

// Table computation used by several properties.
type CellTables struct {
	L       *Loaded
	Classes []*DT
	// checker
	Unary                      map[string]*ChkCell
	Binary                     map[string]*ChkCell
	Ternary                    map[string]*ChkCell
	Cast                       map[string]*ChkCell
	keysU, keysB, keysT, keysC []string
	coords                     map[string][]*DT
	ops                        map[string]opInfo
}

func computeCheckerTables(L *Loaded, tier string) *CellTables {
	t := &CellTables{L: L, Classes: dtClasses(tier), Unary: map[string]*ChkCell{}, Binary: map[string]*ChkCell{}, Ternary: map[string]*ChkCell{}, Cast: map[string]*ChkCell{}, coords: map[string][]*DT{}, ops: map[string]opInfo{}}
	in, mk := newCheckerInterp(L)
	for _, op := range operatorConsts(L, "UnaryOperator") {
		for _, a := range t.Classes {
			n := newObj("ast.UnaryExpr")
			n.set("Operator", opVal(op))
			n.set("Rhs", astNode("ast.Ident", "rhs", a, nil))
			n.set("OverloadedBy", NilV{})
			k := cellKey(op.Name, a)
			t.Unary[k] = runChecker(L, in, mk, "VisitUnaryExpr", n)
			t.keysU = append(t.keysU, k)
			t.coords[k] = []*DT{a}
			t.ops[k] = op
		}
	}
	for _, op := range operatorConsts(L, "BinaryOperator") {
		if op.Name == "BIN_FIELD_ACCESS" {
			continue // operand is a field name, not a typed expression
		}
		for _, a := range t.Classes {
			for _, b := range t.Classes {
				n := newObj("ast.BinaryExpr")
				n.set("Operator", opVal(op))
				n.set("Lhs", astNode("ast.Ident", "lhs", a, nil))
				n.set("Rhs", astNode("ast.Ident", "rhs", b, nil))
				n.set("OverloadedBy", NilV{})
				k := cellKey(op.Name, a, b)
				t.Binary[k] = runChecker(L, in, mk, "VisitBinaryExpr", n)
				t.keysB = append(t.keysB, k)
				t.coords[k] = []*DT{a, b}
				t.ops[k] = op
			}
		}
	}
	// ternary: restrict the third coordinate to a small projection to keep the table cubic only where it matters
	small := t.Classes
	if len(small) > 8 && tier != "thorough" {
		small = small[:8]
	}
	for _, op := range operatorConsts(L, "TernaryOperator") {
		for _, a := range t.Classes {
			for _, b := range small {
				for _, c := range small {
					n := newObj("ast.TernaryExpr")
					n.set("Operator", opVal(op))
					n.set("Lhs", astNode("ast.Ident", "lhs", a, nil))
					n.set("Mid", astNode("ast.Ident", "mid", b, nil))
					n.set("Rhs", astNode("ast.Ident", "rhs", c, nil))
					n.set("OverloadedBy", NilV{})
					k := cellKey(op.Name, a, b, c)
					t.Ternary[k] = runChecker(L, in, mk, "VisitTernaryExpr", n)
					t.keysT = append(t.keysT, k)
					t.coords[k] = []*DT{a, b, c}
					t.ops[k] = op
				}
			}
		}
	}
	for _, target := range t.Classes {
		for _, a := range t.Classes {
			n := newObj("ast.CastExpr")
			n.set("Lhs", astNode("ast.Ident", "lhs", a, nil))
			n.set("TargetType", TypeV{target})
			n.set("OverloadedBy", NilV{})
			k := cellKey("CAST to "+target.String(), a)
			t.Cast[k] = runChecker(L, in, mk, "VisitCastExpr", n)
			t.keysC = append(t.keysC, k)
			t.coords[k] = []*DT{target, a}
		}
	}
	return t
}

// admissibility table as sorted text lines "key\tadmit|reject|undecided\tresult"
func (t *CellTables) Lines() []string {
	var out []string
	add := func(keys []string, m map[string]*ChkCell) {
		for _, k := range keys {
			c := m[k]
			adm, dec := c.Admitted()
			st := "undecided"
			if dec {
				st = "reject"
				if adm {
					st = "admit"
				}
			}
			res := "-"
			if adm {
				if r := c.Result(); r != nil {
					res = r.String()
				} else {
					res = "?"
				}
			}
			out = append(out, k+"\t"+st+"\t"+res)
		}
	}
	add(t.keysU, t.Unary)
	add(t.keysB, t.Binary)
	add(t.keysT, t.Ternary)
	add(t.keysC, t.Cast)
	sort.Strings(out)
	return out
}

func init() {
	registry["XCELLS"] = func(c *Check) {
		t := computeCheckerTables(c.L, c.Tier)
		for _, l := range t.Lines() {
			fmt.Println("CELL\t" + l)
		}
	}
}

var _ = constant.MakeBool
