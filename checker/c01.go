package main

import (
	"fmt"
	"go/ast"
	"go/token"
	"go/types"
	"sort"
	"strings"
)

func init() { registry["C01"] = checkC01 }

// reference meaning of the numeric/comparison/logic operators (DESIGN-tables T9)
type opRef struct {
	ops        []string // admissible root instructions
	preds      []string // admissible predicates (for comparisons)
	ordered    bool     // operand order matters: arg0 derives from lhs only, arg1 from rhs only
	callee     string   // for calls
	skipNonNum bool
}

var c01OpTable = map[string]opRef{
	"BIN_PLUS":        {ops: []string{"add", "fadd"}},
	"BIN_MINUS":       {ops: []string{"sub", "fsub"}, ordered: true},
	"BIN_MULT":        {ops: []string{"mul", "fmul"}},
	"BIN_DIV":         {ops: []string{"fdiv"}, ordered: true},
	"BIN_MOD":         {ops: []string{"srem", "urem"}, ordered: true},
	"BIN_POW":         {ops: []string{"call"}, callee: "pow", ordered: true},
	"BIN_LESS":        {ops: []string{"icmp", "fcmp"}, preds: []string{"IPredSLT", "IPredULT", "FPredOLT"}, ordered: true},
	"BIN_LESS_EQ":     {ops: []string{"icmp", "fcmp"}, preds: []string{"IPredSLE", "IPredULE", "FPredOLE"}, ordered: true},
	"BIN_GREATER":     {ops: []string{"icmp", "fcmp"}, preds: []string{"IPredSGT", "IPredUGT", "FPredOGT"}, ordered: true},
	"BIN_GREATER_EQ":  {ops: []string{"icmp", "fcmp"}, preds: []string{"IPredSGE", "IPredUGE", "FPredOGE"}, ordered: true},
	"BIN_EQUAL":       {ops: []string{"icmp", "fcmp", "call"}, preds: []string{"IPredEQ", "FPredOEQ", ""}},
	"BIN_LOGIC_AND":   {ops: []string{"and"}},
	"BIN_LOGIC_OR":    {ops: []string{"or"}},
	"BIN_LOGIC_XOR":   {ops: []string{"xor"}},
	"BIN_XOR":         {ops: []string{"xor"}},
	"BIN_LEFT_SHIFT":  {ops: []string{"shl"}, ordered: true},
	"BIN_RIGHT_SHIFT": {ops: []string{"lshr", "ashr"}, ordered: true},
}

func inList(s string, l []string) bool {
	for _, x := range l {
		if x == s {
			return true
		}
	}
	return false
}

func checkC01(c *Check) {
	L := c.L
	c.Expl = "Six structural clauses of 'compiled programs behave as the evaluation rules prescribe', decided on the generator's source by partial evaluation (engine E2) and table extraction: numeric conversions match operand signedness - Byte/Wahrheitswert are widened unsigned, Zahl/Buchstabe signed, comparisons of two Bytes unsigned (R1.1); for every admitted numeric/comparison/logic cell the instruction, its predicate and the operand order are those of the operator (R1.4); und/oder/falls evaluate their later operand only in the block selected by the first one and merge through a phi that takes the first operand from its own block (R1.5); the counting loop re-evaluates its bound in a loop-header block on every iteration, tests step<0 for the direction, index<=to upward and index>=to downward, and adds the step to the index (R1.6); the precedence ladder of the expression parser (R1.3). Not decided: stdout and exit status of programs; overflow, rounding, results of arithmetic; the text operators of the C runtime; statement sequencing, calls, printing."
	t := computeCheckerTables(L, c.Tier)
	cells := computeAdmittedGenCells(L, t)
	r1 := c.Rule("R1.1", "numeric conversions and comparisons match operand signedness (Byte unsigned, Zahl/Buchstabe signed)", 50)
	r4 := c.Rule("R1.4", "each admitted numeric/comparison/logic cell is lowered to the operator's instruction, predicate and operand order", 50)
	bad1, bad4 := map[string][]string{}, map[string][]string{}
	msg1, msg4 := map[string]string{}, map[string]string{}
	ok1, ok4 := 0, 0
	for _, v := range cells {
		gk := groupKey(v)
		if !v.Gen.Exh {
			continue
		}
		var convs []string
		for _, o := range v.Gen.Outcomes {
			convs = append(convs, o.Convs...)
		}
		if len(convs) > 0 {
			bad1[gk] = append(bad1[gk], v.Key)
			msg1[gk] = strings.Join(uniq(convs), "; ")
		} else {
			ok1++
		}
		ref, has := c01OpTable[v.Op]
		// no numeric or comparison operator narrows a Kommazahl operand to an integer: when one operand is a Kommazahl
		// the operation is carried out on Kommazahlen (this also covers `x zwischen a und b`, which has no table row)
		if has || v.Op == "TER_BETWEEN" {
			narrowed := ""
			for _, o := range v.Gen.Outcomes {
				if len(o.CErr) > 0 || o.Ret == nil {
					continue
				}
				var walk func(n *IRVal, depth int)
				walk = func(n *IRVal, depth int) {
					if n == nil || depth > 12 || narrowed != "" {
						return
					}
					if (n.Op == "fptosi" || n.Op == "fptoui") && len(n.Args) == 1 {
						narrowed = strings.Join(n.Args[0].prov(), "+")
					}
					for _, a := range n.Args {
						walk(a, depth+1)
					}
				}
				walk(o.Ret, 0)
			}
			if narrowed != "" {
				bad4[gk] = append(bad4[gk], v.Key)
				msg4[gk] = "the Kommazahl operand '" + narrowed + "' is truncated to an integer before the operation (the operation must be carried out on Kommazahlen when one operand is a Kommazahl)"
				continue
			}
		}
		if !has {
			continue
		}
		problem := ""
		for _, o := range v.Gen.Outcomes {
			if len(o.CErr) > 0 || o.Ret == nil {
				continue
			}
			root := o.Ret
			if v.Op == "BIN_UNEQUAL" {
				continue
			}
			if !inList(root.Op, ref.ops) {
				problem = fmt.Sprintf("result is produced by '%s', expected one of %v", root.Op, ref.ops)
				break
			}
			if root.Op == "call" && ref.callee != "" && root.Src != ref.callee {
				problem = "calls " + root.Src + ", expected " + ref.callee
				break
			}
			if len(ref.preds) > 0 && root.Op != "call" && !inList(root.Pred, ref.preds) {
				problem = "comparison predicate " + root.Pred + ", expected one of " + strings.Join(ref.preds, "/")
				break
			}
			if len(root.Args) == 2 {
				p0, p1 := strings.Join(root.Args[0].prov(), "+"), strings.Join(root.Args[1].prov(), "+")
				if ref.ordered {
					if p0 != "lhs" || p1 != "rhs" {
						problem = fmt.Sprintf("operands are (%s, %s), expected (lhs, rhs): %s", p0, p1, root)
						break
					}
				} else if !((p0 == "lhs" && p1 == "rhs") || (p0 == "rhs" && p1 == "lhs")) {
					if !(root.Op == "call") {
						problem = fmt.Sprintf("operands derive from (%s, %s), expected one from each side", p0, p1)
						break
					}
				}
			}
		}
		if problem != "" {
			bad4[gk] = append(bad4[gk], v.Key)
			msg4[gk] = problem
		} else {
			ok4++
		}
	}
	emit := func(r *Rule, bad map[string][]string, msg map[string]string, okn int, prefix string) {
		var ks []string
		for k := range bad {
			ks = append(ks, k)
		}
		sort.Strings(ks)
		for _, k := range ks {
			in := r.add(Bad, k, token.NoPos, fmt.Sprintf("%s%s [%d cell(s), e.g. %s]", prefix, msg[k], len(bad[k]), bad[k][0]))
			in.N = len(bad[k])
		}
		if okn > 0 {
			in := r.add(OK, "admitted cells", token.NoPos, "as the operator prescribes")
			in.N = okn
		}
	}
	emit(r1, bad1, msg1, ok1, "")
	emit(r4, bad4, msg4, ok4, "")
	checkShortCircuit(c)
	checkCountingLoop(c)
	checkLadder(c)
	checkContradictions(c)
}

// R1.5
func checkShortCircuit(c *Check) {
	L := c.L
	r := c.Rule("R1.5", "und/oder/falls: the later operand is evaluated only in the block the first operand selects; the phi takes each value from its block", 3)
	in, mk := newGeneratorInterp(L)
	boolT := &DT{Kind: "WAHRHEITSWERT"}
	for _, op := range operatorConsts(L, "BinaryOperator") {
		if op.Name != "BIN_AND" && op.Name != "BIN_OR" {
			continue
		}
		fi := L.Fn("src/compiler.(*compiler).VisitBinaryExpr")
		problems := []string{}
		n := 0
		for _, multi := range []bool{false, true} {
			node := genNode("ast.BinaryExpr", opVal(op), []string{"lhs", "rhs"}, []*DT{boolT, boolT})
			node.get("Lhs").(*Obj).set("multiblock", boolV(multi))
			node.get("Rhs").(*Obj).set("multiblock", boolV(multi))
			in.RunAll(16, func() {
				cobj := mk()
				in.CallFunc(fi, cobj, []Val{node})
				n++
				problems = append(problems, phiPredecessorProblems(in)...)
				var lhsBlock, rhsBlock Val
				var brTrue, brFalse Val
				var brCond *IRVal
				var lhsV Val
				phiOK := false
				for _, e := range in.Events {
					switch e.Kind {
					case "evaluate:lhs":
						lhsBlock, lhsV = e.Data[0], e.Data[1]
						if len(e.Data) > 3 {
							lhsBlock = e.Data[3] // the block the first operand's code ends in
						}
					case "evaluate:rhs":
						rhsBlock = e.Data[0]
					case "term:NewCondBr":
						if brCond == nil && len(e.Data) >= 4 {
							brCond, _ = e.Data[1].(*IRVal)
							brTrue, brFalse = e.Data[2], e.Data[3]
						}
					case "phi-incoming":
						if len(e.Data) == 2 && e.Data[0] == lhsV {
							if t, known := eqVal(e.Data[1], lhsBlock); known && t {
								phiOK = true
							}
						}
					}
				}
				want := brTrue
				if op.Name == "BIN_OR" {
					want = brFalse
				}
				if brCond == nil || strings.Join(brCond.prov(), "+") != "lhs" {
					problems = append(problems, "no conditional branch on the first operand")
					return
				}
				if t, known := eqVal(rhsBlock, want); !known || !t {
					problems = append(problems, "the second operand is not evaluated in the branch target that the first operand selects ("+map[string]string{"BIN_AND": "true", "BIN_OR": "false"}[op.Name]+" successor)")
				}
				if t, known := eqVal(rhsBlock, lhsBlock); known && t {
					problems = append(problems, "both operands are evaluated in the same block (no short circuit)")
				}
				if !phiOK {
					problems = append(problems, "the phi does not take the first operand from the block it was evaluated in")
				}
			})
		}
		key := "compiler.(*compiler).VisitBinaryExpr|" + op.Name
		r.Decide(len(problems) == 0 && n > 0, key, fi.Decl.Pos(), "short-circuit shape confirmed", strings.Join(uniq(problems), "; "))
	}
	// TER_FALLS: both value operands are evaluated in different successors of the branch on the condition
	for _, op := range operatorConsts(L, "TernaryOperator") {
		if op.Name != "TER_FALLS" {
			continue
		}
		z := &DT{Kind: "ZAHL"}
		fi := L.Fn("src/compiler.(*compiler).VisitTernaryExpr")
		problems := []string{}
		n := 0
		for _, multi := range []bool{false, true} {
			node := genNode("ast.TernaryExpr", opVal(op), []string{"lhs", "mid", "rhs"}, []*DT{z, boolT, z})
			for _, f := range []string{"Lhs", "Mid", "Rhs"} {
				node.get(f).(*Obj).set("multiblock", boolV(multi))
			}
			in.RunAll(32, func() {
				cobj := mk()
				in.CallFunc(fi, cobj, []Val{node})
				n++
				problems = append(problems, phiPredecessorProblems(in)...)
				var lhsBlock, rhsBlock, brTrue, brFalse Val
				var brCond *IRVal
				for _, e := range in.Events {
					switch e.Kind {
					case "evaluate:lhs":
						lhsBlock = e.Data[0]
					case "evaluate:rhs":
						rhsBlock = e.Data[0]
					case "term:NewCondBr":
						if brCond == nil && len(e.Data) >= 4 {
							brCond, _ = e.Data[1].(*IRVal)
							brTrue, brFalse = e.Data[2], e.Data[3]
						}
					}
				}
				if brCond == nil || strings.Join(brCond.prov(), "+") != "mid" {
					problems = append(problems, "no conditional branch on the condition operand")
					return
				}
				if t, k := eqVal(lhsBlock, brTrue); !k || !t {
					problems = append(problems, "the value for a true condition is not evaluated in the true successor")
				}
				if t, k := eqVal(rhsBlock, brFalse); !k || !t {
					problems = append(problems, "the value for a false condition is not evaluated in the false successor")
				}
			})
		}
		r.Decide(len(problems) == 0 && n > 0, "compiler.(*compiler).VisitTernaryExpr|TER_FALLS", fi.Decl.Pos(), "only the selected operand is evaluated", strings.Join(uniq(problems), "; "))
	}
}

// R1.6
func checkCountingLoop(c *Check) {
	L := c.L
	r := c.Rule("R1.6", "counting loop: bound re-evaluated per iteration in a loop header, direction by step<0, index<=to / index>=to, index+step", 3)
	fi := L.Fn("src/compiler.(*compiler).VisitForStmt")
	if fi == nil {
		r.Und("compiler.(*compiler).VisitForStmt", token.NoPos, "function not found")
		return
	}
	in, mk := newGeneratorInterp(L)
	for _, cls := range []string{"ZAHL", "KOMMAZAHL", "BYTE"} {
		d := &DT{Kind: cls}
		s := newObj("ast.ForStmt")
		ini := newObj("ast.VarDecl")
		ini.set("Type", TypeV{d})
		ini.set("name", StrV("init"))
		s.set("Initializer", ini)
		to := astNode("ast.Ident", "to", d, toGen(d))
		to.set("temp", boolV(false))
		st := astNode("ast.Ident", "step", d, toGen(d))
		st.set("temp", boolV(false))
		s.set("To", to)
		s.set("StepSize", st)
		body := newObj("ast.BlockStmt")
		body.set("name", StrV("body"))
		s.set("Body", body)
		var problems []string
		n := 0
		in.RunAll(16, func() {
			cobj := mk()
			in.CallFunc(fi, cobj, []Val{s})
			n++
			var bodyBlock Val
			var toBlocks []Val
			type br struct {
				from, t, f Val
				cond       *IRVal
			}
			var brs []br
			var adds []*IRVal
			for _, e := range in.Events {
				switch e.Kind {
				case "visit:body":
					bodyBlock = e.Data[0]
				case "evaluate:to":
					toBlocks = append(toBlocks, e.Data[0])
				case "term:NewCondBr":
					if len(e.Data) >= 4 {
						cv, _ := e.Data[1].(*IRVal)
						brs = append(brs, br{e.Data[0], e.Data[2], e.Data[3], cv})
					}
				}
			}
			if bodyBlock == nil {
				problems = append(problems, "loop body is not compiled")
				return
			}
			if len(toBlocks) == 0 {
				problems = append(problems, "the end value is never evaluated")
			}
			// every block in which `to` is evaluated ends with a conditional branch into the body whose condition compares index with to
			preds := map[string]bool{}
			for _, tb := range toBlocks {
				found := false
				for _, b := range brs {
					if t, k := eqVal(b.from, tb); k && t {
						if t2, k2 := eqVal(b.t, bodyBlock); k2 && t2 && b.cond != nil && inList("to", b.cond.prov()) {
							found = true
							preds[b.cond.Pred] = true
							if len(b.cond.Args) == 2 && inList("to", b.cond.Args[0].prov()) {
								problems = append(problems, "bound comparison has the end value on the left: "+b.cond.String())
							}
						}
					}
				}
				if !found {
					problems = append(problems, "the end value is evaluated in a block that is not a loop header (it does not end with a conditional branch into the body on index vs. end value): the bound is not re-evaluated on every iteration")
				}
			}
			up := preds["IPredSLE"] || preds["FPredOLE"] || preds["IPredULE"]
			down := preds["IPredSGE"] || preds["FPredOGE"] || preds["IPredUGE"]
			if len(toBlocks) > 0 && (!up || !down) {
				var ps []string
				for p := range preds {
					ps = append(ps, p)
				}
				sort.Strings(ps)
				problems = append(problems, "bound predicates are "+strings.Join(ps, ",")+", expected <= for counting up and >= for counting down")
			}
			// direction test on the step
			dir := false
			for _, b := range brs {
				if b.cond != nil && inList("step", b.cond.prov()) && !inList("to", b.cond.prov()) {
					if b.cond.Pred == "IPredSLT" || b.cond.Pred == "FPredOLT" {
						dir = true
					}
				}
			}
			if !dir {
				problems = append(problems, "no direction test step < 0")
			}
			_ = adds
		})
		r.Decide(len(problems) == 0 && n > 0, "compiler.(*compiler).VisitForStmt|counter "+d.String(), fi.Decl.Pos(), "loop header shape confirmed", strings.Join(uniq(problems), "; "))
	}
}

// phiPredecessorProblems: every phi must name, for each incoming value, a block that branches to the phi's block, and name every
// such block exactly once (LLVM: "PHI node entries do not match predecessors").
func phiPredecessorProblems(in *Interp) []string {
	succ := map[*Obj][]*Obj{}
	for _, e := range in.Events {
		if strings.HasPrefix(e.Kind, "term:") {
			b, _ := e.Data[0].(*Obj)
			if b == nil {
				continue
			}
			succ[b] = nil
			for _, a := range e.Data[1:] {
				if o, ok := a.(*Obj); ok && o.Kind == "ir.Block" {
					succ[b] = append(succ[b], o)
				}
			}
		}
	}
	var bad []string
	for _, e := range in.Events {
		if e.Kind != "phi" {
			continue
		}
		blk, _ := e.Data[0].(*Obj)
		if blk == nil {
			continue
		}
		preds := map[*Obj]bool{}
		for b, ss := range succ {
			for _, s := range ss {
				if s == blk {
					preds[b] = true
				}
			}
		}
		named := map[*Obj]int{}
		for i := 2; i < len(e.Data); i += 2 {
			if p, ok := e.Data[i].(*Obj); ok {
				named[p]++
				if !preds[p] {
					bad = append(bad, in.L.Pos(e.Pos)+": the phi names a block that does not branch to the phi's block (the operand's code ended in another block): LLVM rejects the module or miscompiles it")
				}
			}
		}
		for p := range preds {
			if named[p] == 0 {
				bad = append(bad, in.L.Pos(e.Pos)+": a block that branches to the phi's block has no incoming value in the phi")
			}
		}
	}
	return uniq(bad)
}

// R1.7: no test can never hold. Inside the branch taken when `X == c1` (X a variable or a field path of one, c1 a constant),
// a test `X == c2` with another constant is dead unless X was assigned in between: one of the two tests is wrong. In the
// statement parser such a test selects the operator (`Verschiebe … nach Rechts`): when it is dead, the other operator is
// compiled without any diagnostic. (Contradiction rule in the sense of Engler et al.; decided on the syntax tree with
// object identity, for the parser and the code generator.)
func checkContradictions(c *Check) {
	L := c.L
	r := c.Rule("R1.7", "no equality test is contradicted by a dominating equality test on the same unmodified value", 0)
	n := 0
	L.ForEachFunc([]string{"src/parser", "src/compiler", "src/parser/typechecker", "src/parser/resolver"}, func(fi *FuncInfo) {
		info := fi.Pkg.TypesInfo
		type fact struct {
			path string
			root types.Object
			val  string
		}
		// X == const conjuncts of a condition
		var factsOf func(e ast.Expr) []fact
		factsOf = func(e ast.Expr) []fact {
			e = ast.Unparen(e)
			be, ok := e.(*ast.BinaryExpr)
			if !ok {
				return nil
			}
			if be.Op == token.LAND {
				return append(factsOf(be.X), factsOf(be.Y)...)
			}
			if be.Op != token.EQL {
				return nil
			}
			x, k := be.X, be.Y
			if tv := info.Types[x]; tv.Value != nil {
				x, k = k, x
			}
			tv := info.Types[k]
			if tv.Value == nil || info.Types[x].Value != nil {
				return nil
			}
			// root variable of the path
			root := x
			for {
				switch y := ast.Unparen(root).(type) {
				case *ast.SelectorExpr:
					root = y.X
					continue
				case *ast.StarExpr:
					root = y.X
					continue
				}
				break
			}
			id, ok := ast.Unparen(root).(*ast.Ident)
			if !ok {
				return nil
			}
			v, ok := info.Uses[id].(*types.Var)
			if !ok || v.IsField() {
				return nil
			}
			// no calls inside the path (a method call may yield another value each time)
			hasCall := false
			ast.Inspect(x, func(m ast.Node) bool {
				if _, ok := m.(*ast.CallExpr); ok {
					hasCall = true
				}
				return true
			})
			if hasCall {
				return nil
			}
			return []fact{{normSrc(L, info, x) + "@" + v.Name(), v, tv.Value.ExactString()}}
		}
		assignedBetween := func(root types.Object, from, to token.Pos, scope ast.Node) bool {
			found := false
			ast.Inspect(scope, func(m ast.Node) bool {
				if m == nil || found {
					return false
				}
				if m.Pos() > to || m.End() < from {
					return true
				}
				switch x := m.(type) {
				case *ast.AssignStmt:
					if x.Pos() >= from && x.Pos() < to {
						for _, l := range x.Lhs {
							rl := l
							for {
								switch y := ast.Unparen(rl).(type) {
								case *ast.SelectorExpr:
									rl = y.X
									continue
								case *ast.StarExpr:
									rl = y.X
									continue
								case *ast.IndexExpr:
									rl = y.X
									continue
								}
								break
							}
							if id, ok := ast.Unparen(rl).(*ast.Ident); ok && (info.Uses[id] == root || info.Defs[id] == root) {
								found = true
							}
						}
					}
				case *ast.IncDecStmt:
					if id, ok := ast.Unparen(x.X).(*ast.Ident); ok && info.Uses[id] == root && x.Pos() >= from && x.Pos() < to {
						found = true
					}
				case *ast.UnaryExpr:
					if x.Op == token.AND && x.Pos() >= from && x.Pos() < to {
						if id, ok := ast.Unparen(x.X).(*ast.Ident); ok && info.Uses[id] == root {
							found = true
						}
					}
				}
				return true
			})
			return found
		}
		ast.Inspect(fi.Decl.Body, func(nd ast.Node) bool {
			outer, ok := nd.(*ast.IfStmt)
			if !ok {
				return true
			}
			ofacts := factsOf(outer.Cond)
			if len(ofacts) == 0 {
				return true
			}
			ast.Inspect(outer.Body, func(m ast.Node) bool {
				inner, ok := m.(*ast.IfStmt)
				if !ok {
					return true
				}
				for _, f2 := range factsOf(inner.Cond) {
					for _, f1 := range ofacts {
						if f1.path == f2.path && f1.root == f2.root && f1.val != f2.val && !assignedBetween(f1.root, outer.Body.Pos(), inner.Pos(), outer.Body) {
							n++
							r.Bad(L.QName(fi.Obj)+"|"+strings.SplitN(f1.path, "@", 2)[0]+" == "+f2.val+" under == "+f1.val, inner.Cond.Pos(), "this test can never hold: it lies in the branch where the same value equals "+f1.val+" and the value is not assigned in between - the branch it guards is dead, so whatever it selects (an operator, a node kind) is never chosen")
						}
					}
				}
				return true
			})
			return true
		})
	})
	if n == 0 {
		r.OK("parser and generator|contradicted tests", token.NoPos, "no equality test lies under a contradicting one on an unmodified value")
	}
}
