package main

// Rules over the C runtime (clang AST). Shared by C05, C06 and C12.

import (
	"fmt"
	"sort"
	"strconv"
	"strings"
)

// strip implicit casts / parens
func cstrip(n *CNode) *CNode {
	for n != nil && (n.Kind == "ImplicitCastExpr" || n.Kind == "ParenExpr" || n.Kind == "CStyleCastExpr" || n.Kind == "ConstantExpr") && len(n.Inner) > 0 {
		n = n.Inner[len(n.Inner)-1]
	}
	return n
}

func cIntValue(n *CNode) (int64, bool) {
	n = cstrip(n)
	if n == nil {
		return 0, false
	}
	switch n.Kind {
	case "IntegerLiteral":
		s := fmt.Sprint(n.Value)
		v, err := strconv.ParseInt(s, 0, 64)
		if err != nil {
			if u, err2 := strconv.ParseUint(s, 0, 64); err2 == nil {
				return int64(u), true
			}
			return 0, false
		}
		return v, true
	case "CharacterLiteral":
		if f, ok := n.Value.(float64); ok {
			return int64(f), true
		}
	case "UnaryOperator":
		if n.Opcode == "-" && len(n.Inner) == 1 {
			if v, ok := cIntValue(n.Inner[0]); ok {
				return -v, true
			}
		}
	case "BinaryOperator":
		if len(n.Inner) == 2 {
			a, ok1 := cIntValue(n.Inner[0])
			b, ok2 := cIntValue(n.Inner[1])
			if ok1 && ok2 {
				switch n.Opcode {
				case "<<":
					return a << uint(b), true
				case "-":
					return a - b, true
				case "+":
					return a + b, true
				case "*":
					return a * b, true
				}
			}
		}
	}
	return 0, false
}

// memberBase returns X for an expression that contains X->field (first one found), and the field name.
func memberOf(n *CNode, field string) (base string, found bool) {
	n.walk(func(m *CNode) bool {
		if found {
			return false
		}
		if m.Kind == "MemberExpr" && m.Name == field && len(m.Inner) == 1 {
			base = cstrip(m.Inner[0]).text()
			found = true
			return false
		}
		return true
	})
	return
}

// ---------- linear expressions over names ----------

type lin struct {
	coef map[string]int64
	k    int64
	ok   bool
}

func linOf(n *CNode) lin {
	n = cstrip(n)
	l := lin{coef: map[string]int64{}, ok: true}
	if n == nil {
		l.ok = false
		return l
	}
	if v, ok := cIntValue(n); ok {
		l.k = v
		return l
	}
	switch n.Kind {
	case "BinaryOperator":
		if len(n.Inner) == 2 && (n.Opcode == "+" || n.Opcode == "-") {
			a, b := linOf(n.Inner[0]), linOf(n.Inner[1])
			if !a.ok || !b.ok {
				l.ok = false
				return l
			}
			sign := int64(1)
			if n.Opcode == "-" {
				sign = -1
			}
			for k, v := range a.coef {
				l.coef[k] += v
			}
			for k, v := range b.coef {
				l.coef[k] += sign * v
			}
			l.k = a.k + sign*b.k
			return l
		}
	case "DeclRefExpr", "MemberExpr":
		l.coef[n.text()] = 1
		return l
	}
	l.ok = false
	return l
}

func (a lin) minus(b lin) lin {
	r := lin{coef: map[string]int64{}, ok: a.ok && b.ok, k: a.k - b.k}
	for k, v := range a.coef {
		r.coef[k] += v
	}
	for k, v := range b.coef {
		r.coef[k] -= v
	}
	for k, v := range r.coef {
		if v == 0 {
			delete(r.coef, k)
		}
	}
	return r
}

func (a lin) String() string {
	var ks []string
	for k := range a.coef {
		ks = append(ks, k)
	}
	sort.Strings(ks)
	var p []string
	for _, k := range ks {
		p = append(p, fmt.Sprintf("%+d*%s", a.coef[k], k))
	}
	return strings.Join(p, " ") + fmt.Sprintf(" %+d", a.k)
}

type cfact struct {
	a, op, b string
}

// pathFacts: comparisons (between two names) that hold on the path to target inside fn body.
func pathFacts(body *CNode, target *CNode) []cfact {
	var facts []cfact
	var rec func(n *CNode, cur []cfact) bool
	contains := func(n *CNode) bool {
		found := false
		n.walk(func(m *CNode) bool {
			if m == target {
				found = true
			}
			return !found
		})
		return found
	}
	neg := map[string]string{"==": "!=", "!=": "==", "<": ">=", ">": "<=", "<=": ">", ">=": "<"}
	condFacts := func(c *CNode, truth bool) []cfact {
		c = cstrip(c)
		if c == nil || c.Kind != "BinaryOperator" || len(c.Inner) != 2 {
			return nil
		}
		if _, ok := neg[c.Opcode]; !ok {
			return nil
		}
		a, b := cstrip(c.Inner[0]), cstrip(c.Inner[1])
		if (a.Kind != "DeclRefExpr" && a.Kind != "MemberExpr") || (b.Kind != "DeclRefExpr" && b.Kind != "MemberExpr") {
			return nil
		}
		op := c.Opcode
		if !truth {
			op = neg[op]
		}
		return []cfact{{a.text(), op, b.text()}}
	}
	rec = func(n *CNode, cur []cfact) bool {
		if n == target {
			facts = cur
			return true
		}
		if n.Kind == "IfStmt" && len(n.Inner) >= 2 {
			cond, then := n.Inner[0], n.Inner[1]
			if contains(then) {
				return rec(then, append(append([]cfact{}, cur...), condFacts(cond, true)...))
			}
			if len(n.Inner) >= 3 && contains(n.Inner[2]) {
				return rec(n.Inner[2], append(append([]cfact{}, cur...), condFacts(cond, false)...))
			}
			if contains(cond) {
				return rec(cond, cur)
			}
			return false
		}
		for _, c := range n.Inner {
			if contains(c) {
				return rec(c, cur)
			}
		}
		return false
	}
	rec(body, nil)
	return facts
}

// signOf decides the sign of a linear expression p - q (one +1, one -1 coefficient, constant 0) from facts. +1, 0, -1, or 2 unknown.
func signOf(l lin, facts []cfact) int {
	if !l.ok {
		return 2
	}
	if len(l.coef) == 0 {
		switch {
		case l.k > 0:
			return 1
		case l.k < 0:
			return -1
		}
		return 0
	}
	// byte counts and offsets are non-negative: a sum of them (plus a non-negative constant) is >= 0
	allPos := true
	for _, v := range l.coef {
		if v < 0 {
			allPos = false
		}
	}
	if allPos && l.k >= 0 {
		return 1
	}
	if len(l.coef) != 2 || l.k != 0 {
		return 2
	}
	var p, q string
	for k, v := range l.coef {
		if v == 1 {
			p = k
		} else if v == -1 {
			q = k
		}
	}
	if p == "" || q == "" {
		return 2
	}
	lt, le, gt, ge, eq, ne := false, false, false, false, false, false
	for _, f := range facts {
		a, op, b := f.a, f.op, f.b
		if a == q && b == p { // flip
			a, b = b, a
			op = map[string]string{"<": ">", ">": "<", "<=": ">=", ">=": "<=", "==": "==", "!=": "!="}[op]
		}
		if a != p || b != q {
			continue
		}
		switch op {
		case "<":
			lt = true
		case "<=":
			le = true
		case ">":
			gt = true
		case ">=":
			ge = true
		case "==":
			eq = true
		case "!=":
			ne = true
		}
	}
	switch {
	case eq:
		return 0
	case gt || (ge && ne):
		return 1
	case lt || (le && ne):
		return -1
	}
	return 2
}

// ---------- R-cap: capacity truthfulness / overlap ----------

// arms: for a node, the innermost enclosing CompoundStmt.
func enclosingCompound(body, target *CNode) *CNode {
	var best *CNode
	var rec func(n *CNode) bool
	rec = func(n *CNode) bool {
		if n == target {
			return true
		}
		for _, c := range n.Inner {
			if rec(c) {
				if best == nil && n.Kind == "CompoundStmt" {
					best = n
				}
				return true
			}
		}
		return false
	}
	rec(body)
	return best
}

func callsIn2(n *CNode, name string) []*CNode {
	var out []*CNode
	n.walk(func(m *CNode) bool {
		if m.Kind == "CallExpr" && m.calleeName() == name {
			out = append(out, m)
		}
		return true
	})
	return out
}

// assignsMember: does the subtree assign X->field (= or compound)?
func assignsMember(n *CNode, base, field string) bool {
	found := false
	n.walk(func(m *CNode) bool {
		if (m.Kind == "BinaryOperator" && m.Opcode == "=") || m.Kind == "CompoundAssignOperator" {
			if len(m.Inner) == 2 {
				l := cstrip(m.Inner[0])
				if l.Kind == "MemberExpr" && l.Name == field && cstrip(l.Inner[0]).text() == base {
					found = true
				}
				// whole-struct assignment *X = ...
				if l.Kind == "UnaryOperator" && l.Opcode == "*" && cstrip(l.Inner[0]).text() == base {
					found = true
				}
			}
		}
		return !found
	})
	return found
}

// checkCapTruth: R5.4 / R12.1 - an arm that shifts the bytes of X->str in place (memmove with source and destination in X->str)
// must also assign X->cap.
func checkCapTruth(c *Check, P *CProgram, r *Rule) {
	var names []string
	for n := range P.Funcs {
		names = append(names, n)
	}
	sort.Strings(names)
	for _, name := range names {
		f := P.Funcs[name]
		if !strings.HasPrefix(f.Unit, "lib/runtime/") {
			continue
		}
		for _, mv := range callsIn2(f.Body, "memmove") {
			a := mv.args()
			if len(a) != 3 {
				continue
			}
			bd, okd := memberOf(a[0], "str")
			bs, oks := memberOf(a[1], "str")
			if !okd || !oks || bd != bs {
				continue
			}
			// shift distance: dst - src offsets; zero shift changes nothing
			arm := enclosingCompound(f.Body, mv)
			key := "C " + f.Name + "|in-place shift of " + bd + "->str"
			pos := fmt.Sprintf("%s:%d", f.Unit, mv.line)
			if arm != nil && assignsMember(arm, bd, "cap") {
				r.AddAt(OK, key, pos, "the arm also assigns "+bd+"->cap")
			} else {
				r.AddAt(Bad, key, pos, "the bytes of "+bd+"->str are shifted in place ("+mv.text()+") but "+bd+"->cap is not updated in this arm: cap no longer equals the byte length + 1 (later frees state a wrong size, comparisons read stale bytes)")
			}
		}
	}
}

// checkOverlap: R12.5 - a write into [a, a+n) of a buffer followed in the same arm by a memmove that reads from [b, ...) of
// the same buffer with a <= b < a+n (decided from the path condition) destroys bytes before they are moved.
func checkOverlap(c *Check, P *CProgram, r *Rule) {
	var names []string
	for n := range P.Funcs {
		names = append(names, n)
	}
	sort.Strings(names)
	for _, name := range names {
		f := P.Funcs[name]
		if !strings.HasPrefix(f.Unit, "lib/runtime/") {
			continue
		}
		for _, mv := range callsIn2(f.Body, "memmove") {
			ma := mv.args()
			if len(ma) != 3 {
				continue
			}
			base, ok := memberOf(ma[1], "str")
			if !ok {
				continue
			}
			srcOff := offsetFrom(ma[1], base)
			arm := enclosingCompound(f.Body, mv)
			if arm == nil || !srcOff.ok {
				continue
			}
			for _, cp := range callsIn2(arm, "memcpy") {
				ca := cp.args()
				if len(ca) != 3 || cp.line == mv.line {
					continue
				}
				if cp.line > mv.line {
					// the tail is moved first: the bytes written afterwards must not reach into the moved tail's new place
					b2, ok := memberOf(ca[0], "str")
					mvBase, ok2 := memberOf(ma[0], "str")
					if !ok || !ok2 || b2 != base || mvBase != base {
						continue
					}
					cpDst, mvDst, n := offsetFrom(ca[0], base), offsetFrom(ma[0], base), linOf(ca[2])
					if !cpDst.ok || !mvDst.ok || !n.ok {
						continue
					}
					facts := pathFacts(f.Body, mv)
					s1 := signOf(mvDst.minus(cpDst), facts)
					end := lin{coef: map[string]int64{}, ok: true, k: cpDst.k + n.k}
					for k, v := range cpDst.coef {
						end.coef[k] += v
					}
					for k, v := range n.coef {
						end.coef[k] += v
					}
					s2 := signOf(end.minus(mvDst), facts)
					key := "C " + f.Name + "|write after move in " + base + "->str"
					pos := fmt.Sprintf("%s:%d", f.Unit, cp.line)
					switch {
					case s2 == 2 || s1 == 2:
					case s1 >= 0 && s2 > 0:
						r.AddAt(Bad, key, pos, fmt.Sprintf("%s has moved the tail to offset %s, then %s writes %s bytes at offset %s, which reach into the moved tail: its first bytes are overwritten", mv.text(), mvDst, cp.text(), n, cpDst))
					default:
						r.AddAt(OK, key, pos, "the bytes written after the move end at or before the moved tail's new place on this path")
					}
					continue
				}
				b2, ok := memberOf(ca[0], "str")
				if !ok || b2 != base {
					continue
				}
				dstOff := offsetFrom(ca[0], base)
				n := linOf(ca[2])
				if !dstOff.ok || !n.ok {
					continue
				}
				facts := pathFacts(f.Body, mv)
				// overlap iff src - dst >= 0 and (dst + n) - src > 0
				s1 := signOf(srcOff.minus(dstOff), facts)
				end := lin{coef: map[string]int64{}, ok: true, k: dstOff.k + n.k}
				for k, v := range dstOff.coef {
					end.coef[k] += v
				}
				for k, v := range n.coef {
					end.coef[k] += v
				}
				s2 := signOf(end.minus(srcOff), facts)
				key := "C " + f.Name + "|write before move in " + base + "->str"
				pos := fmt.Sprintf("%s:%d", f.Unit, mv.line)
				switch {
				case s2 == 2 || s1 == 2:
					// cannot be ordered from the path condition: not decided, not reported
				case s1 >= 0 && s2 > 0:
					r.AddAt(Bad, key, pos, fmt.Sprintf("%s writes %s bytes at offset %s, then %s moves the tail starting at offset %s, which lies inside the bytes just written on this path: the start of the tail is overwritten before it is moved", cp.text(), n, dstOff, mv.text(), srcOff))
				default:
					r.AddAt(OK, key, pos, "the moved tail starts at or behind the end of the written bytes on this path")
				}
			}
		}
	}
}

// offsetFrom: expression B->str + off  → off as linear expression
func offsetFrom(n *CNode, base string) lin {
	n = cstrip(n)
	if n == nil {
		return lin{}
	}
	if n.Kind == "MemberExpr" && n.Name == "str" {
		return lin{coef: map[string]int64{}, ok: true}
	}
	if n.Kind == "UnaryOperator" && n.Opcode == "&" && len(n.Inner) == 1 {
		in := cstrip(n.Inner[0])
		if in.Kind == "ArraySubscriptExpr" && len(in.Inner) == 2 {
			return linOf(in.Inner[1])
		}
	}
	if n.Kind == "BinaryOperator" && len(n.Inner) == 2 && (n.Opcode == "+" || n.Opcode == "-") {
		l := offsetFrom(n.Inner[0], base)
		if !l.ok {
			return l
		}
		rr := linOf(n.Inner[1])
		if !rr.ok {
			return lin{}
		}
		sign := int64(1)
		if n.Opcode == "-" {
			sign = -1
		}
		for k, v := range rr.coef {
			l.coef[k] += sign * v
		}
		l.k += sign * rr.k
		return l
	}
	return lin{}
}

// ---------- R5.3: (pointer, size) provenance ----------

func checkReallocProvenance(c *Check, P *CProgram, r *Rule) {
	var names []string
	for n := range P.Funcs {
		names = append(names, n)
	}
	sort.Strings(names)
	for _, name := range names {
		f := P.Funcs[name]
		for _, call := range callsIn2(f.Body, "ddp_reallocate") {
			a := call.args()
			if len(a) != 3 {
				continue
			}
			if v, ok := cIntValue(a[1]); ok && v == 0 {
				continue // fresh allocation
			}
			var base, field string
			for _, fld := range []string{"str", "arr"} {
				if b, ok := memberOf(a[0], fld); ok {
					base, field = b, fld
				}
			}
			if base == "" {
				continue // pointer not taken from a string/list object
			}
			capBase, ok := memberOf(a[1], "cap")
			key := "C " + f.Name + "|ddp_reallocate(" + base + "->" + field + ")"
			pos := fmt.Sprintf("%s:%d", f.Unit, call.line)
			switch {
			case ok && capBase == base:
				r.AddAt(OK, key, pos, "old size is "+base+"->cap")
			case ok:
				r.AddAt(Bad, key, pos, "the block of "+base+"->"+field+" is resized/released with the capacity of another object ("+capBase+"->cap): the stated old size is not the block's size")
			default:
				// old size from a local that was assigned from base->cap?
				txt := a[1].text()
				if strings.Contains(txt, "cap") || strings.Contains(txt, "Cap") || strings.Contains(txt, "size") {
					r.AddAt(OK, key, pos, "old size "+txt+" (capacity-derived local)")
				} else {
					r.AddAt(Bad, key, pos, "the block of "+base+"->"+field+" is resized/released with old size "+txt+", which is not its capacity")
				}
			}
		}
	}
}

// ---------- R6.3: the error exit ----------

func checkRuntimeError(c *Check, P *CProgram, r *Rule) {
	f := P.Funcs["ddp_runtime_error"]
	if f == nil {
		r.AddAt(Undecided, "C ddp_runtime_error", "-", "function not found in the parsed runtime")
		return
	}
	pos := f.Pos()
	// prints a literal starting with "\nLaufzeitfehler: " to stderr
	lit := false
	for _, call := range callsIn2(f.Body, "fprintf") {
		a := call.args()
		if len(a) >= 2 && strings.Contains(a[0].text(), "stderr") && strings.Contains(a[1].text(), "Laufzeitfehler") {
			lit = true
		}
	}
	r.AddAt(map[bool]Status{true: OK, false: Bad}[lit], "C ddp_runtime_error|message", pos, "prints 'Laufzeitfehler: ' to stderr / the run-time error no longer announces itself as 'Laufzeitfehler' on standard error")
	// exit(exit_code) is the last statement and no return statement precedes it
	exits := callsIn2(f.Body, "exit")
	hasReturn := false
	f.Body.walk(func(m *CNode) bool {
		if m.Kind == "ReturnStmt" {
			hasReturn = true
		}
		return true
	})
	okExit := len(exits) == 1 && !hasReturn && len(exits[0].args()) == 1 && cstrip(exits[0].args()[0]).text() == "exit_code"
	if okExit {
		// top-level statement of the body
		top := false
		for _, st := range f.Body.Inner {
			if st == exits[0] {
				top = true
			}
		}
		okExit = top
	}
	r.AddAt(map[bool]Status{true: OK, false: Bad}[okExit], "C ddp_runtime_error|exit", pos, "ends in exit(exit_code) on every path / ddp_runtime_error can return or exits with something other than exit_code: the program continues after a Laufzeitfehler or ends with another status")
	// all C call sites pass 1
	var names []string
	for n := range P.Funcs {
		names = append(names, n)
	}
	sort.Strings(names)
	for _, name := range names {
		g := P.Funcs[name]
		for _, call := range callsIn2(g.Body, "ddp_runtime_error") {
			a := call.args()
			v, ok := cIntValue(a[0])
			st := OK
			if !ok || v != 1 {
				st = Bad
			}
			r.AddAt(st, "C "+g.Name+"|ddp_runtime_error exit code", fmt.Sprintf("%s:%d", g.Unit, call.line), "exit status 1 / a Laufzeitfehler raised here ends the program with a status other than 1")
		}
	}
}

// ---------- R12.2: compared length = tested length ----------

func checkStringEqual(c *Check, P *CProgram, r *Rule) {
	f := P.Funcs["ddp_string_equal"]
	if f == nil {
		r.AddAt(Undecided, "C ddp_string_equal", "-", "function not found")
		return
	}
	// guard: if (Q(str1) != Q(str2)) return false;  then memcmp(str1->str, str2->str, L); locals are replaced by their initialisers
	locals := map[string]string{}
	f.Body.walk(func(m *CNode) bool {
		if m.Kind == "VarDecl" && len(m.Inner) > 0 {
			locals[m.Name] = cstrip(m.Inner[len(m.Inner)-1]).text()
		}
		return true
	})
	resolve := func(t string) string {
		if v, ok := locals[t]; ok {
			return v
		}
		return t
	}
	var guardQ string
	f.Body.walk(func(m *CNode) bool {
		if m.Kind == "IfStmt" && len(m.Inner) >= 2 {
			cnd := cstrip(m.Inner[0])
			if cnd.Kind == "BinaryOperator" && cnd.Opcode == "!=" {
				a, b := resolve(cstrip(cnd.Inner[0]).text()), resolve(cstrip(cnd.Inner[1]).text())
				if strings.ReplaceAll(a, "str1", "S") == strings.ReplaceAll(b, "str2", "S") && strings.Contains(a, "str1") {
					guardQ = strings.ReplaceAll(a, "str1", "S")
				}
			}
		}
		return true
	})
	mc := callsIn2(f.Body, "memcmp")
	if guardQ == "" || len(mc) != 1 {
		r.AddAt(Bad, "C ddp_string_equal|length guard", f.Pos(), "text equality no longer has the shape 'different length → false; otherwise compare the bytes'")
		return
	}
	L := cstrip(mc[0].args()[2]).text()
	Ln := strings.ReplaceAll(strings.ReplaceAll(resolve(L), "str1", "S"), "str2", "S")
	// locals assigned from Q(str1)
	okLen := Ln == guardQ
	if !okLen {
		f.Body.walk(func(m *CNode) bool {
			if m.Kind == "VarDecl" && m.Name == L && len(m.Inner) > 0 {
				if strings.ReplaceAll(strings.ReplaceAll(m.Inner[len(m.Inner)-1].text(), "str1", "S"), "str2", "S") == guardQ {
					okLen = true
				}
			}
			return true
		})
	}
	pos := fmt.Sprintf("%s:%d", f.Unit, mc[0].line)
	// the compared quantity must be a number of BYTES (strlen of the buffer, cap-1, or a function all of whose results are
	// such or 0), not a number of code points
	var lenExpr *CNode
	f.Body.walk(func(m *CNode) bool {
		if m.Kind == "VarDecl" && m.Name == L && len(m.Inner) > 0 {
			lenExpr = m.Inner[len(m.Inner)-1]
		}
		return true
	})
	if lenExpr == nil {
		lenExpr = mc[0].args()[2]
	}
	if okLen && !cByteLength(P, lenExpr, 0) {
		r.AddAt(Bad, "C ddp_string_equal|compared length", pos, "memcmp compares "+cstrip(lenExpr).text()+" bytes, which is not a byte count of the text (a count of code points, or unknown): texts that differ only after that many bytes compare equal")
		return
	}
	if okLen {
		r.AddAt(OK, "C ddp_string_equal|compared length", pos, "memcmp compares "+L+", the quantity the guard tested ("+guardQ+")")
	} else {
		r.AddAt(Bad, "C ddp_string_equal|compared length", pos, "the guard tests "+guardQ+" for equality but memcmp compares "+L+" bytes: when cap is not length+1 it reads past the text (and past the shorter buffer) and compares bytes that are not part of either text")
	}
}

// ---------- R12.3: UTF-8 classification tables ----------

func checkUTF8Tables(c *Check, P *CProgram, r *Rule) {
	// (mask, value) of the single-comparison predicates
	want := map[string][2]int64{
		"utf8_is_single_byte": {0x80, 0x00}, "utf8_is_double_byte": {0xe0, 0xc0}, "utf8_is_triple_byte": {0xf0, 0xe0},
		"utf8_is_quadruple_byte": {0xf8, 0xf0}, "utf8_is_continuation": {0xc0, 0x80}, "utf8_is_multibyte": {0x80, 0x80},
	}
	var names []string
	for n := range want {
		names = append(names, n)
	}
	sort.Strings(names)
	for _, name := range names {
		f := P.Funcs[name]
		if f == nil {
			r.AddAt(Undecided, "C "+name, "-", "predicate not found")
			continue
		}
		var got [][2]int64
		f.Body.walk(func(m *CNode) bool {
			if m.Kind == "BinaryOperator" && m.Opcode == "==" && len(m.Inner) == 2 {
				l := cstrip(m.Inner[0])
				if l.Kind == "BinaryOperator" && l.Opcode == "&" {
					mk, ok1 := cIntValue(l.Inner[1])
					v, ok2 := cIntValue(m.Inner[1])
					if ok1 && ok2 {
						got = append(got, [2]int64{mk, v})
					}
				}
			}
			return true
		})
		ok := len(got) == 1 && got[0] == want[name]
		st := OK
		if !ok {
			st = Bad
		}
		r.AddAt(st, "C "+name+"|mask", f.Pos(), fmt.Sprintf("tests (c & 0x%x) == 0x%x / the lead-byte test is %v, UTF-8 requires (c & 0x%x) == 0x%x: characters of that length are misclassified", want[name][0], want[name][1], got, want[name][0], want[name][1]))
	}
	// cascade of utf8_indicated_num_bytes evaluated over all byte values
	if f := P.Funcs["utf8_indicated_num_bytes"]; f != nil {
		type arm struct{ mask, val, ret int64 }
		var arms []arm
		var dflt int64 = -99
		for _, st := range f.Body.Inner {
			switch st.Kind {
			case "IfStmt":
				cnd := cstrip(st.Inner[0])
				if cnd.Kind == "BinaryOperator" && cnd.Opcode == "==" {
					l := cstrip(cnd.Inner[0])
					if l.Kind == "BinaryOperator" && l.Opcode == "&" {
						mk, _ := cIntValue(l.Inner[1])
						v, _ := cIntValue(cnd.Inner[1])
						var ret int64 = -98
						st.Inner[1].walk(func(m *CNode) bool {
							if m.Kind == "ReturnStmt" && len(m.Inner) == 1 {
								ret, _ = cIntValue(m.Inner[0])
							}
							return true
						})
						arms = append(arms, arm{mk, v, ret})
					}
				}
			case "ReturnStmt":
				if len(st.Inner) == 1 {
					dflt, _ = cIntValue(st.Inner[0])
				}
			}
		}
		bad := ""
		for b := int64(0); b < 256; b++ {
			got := dflt
			for _, a := range arms {
				if b&a.mask == a.val {
					got = a.ret
					break
				}
			}
			var wantN int64
			switch {
			case b < 0x80:
				wantN = 1
			case b >= 0xC2 && b <= 0xDF:
				wantN = 2
			case b >= 0xE0 && b <= 0xEF:
				wantN = 3
			case b >= 0xF0 && b <= 0xF4:
				wantN = 4
			default:
				continue // continuation / invalid lead bytes: not produced by valid UTF-8 at a character start
			}
			if got != wantN && bad == "" {
				bad = fmt.Sprintf("byte 0x%02x is classified as %d bytes, UTF-8 says %d", b, got, wantN)
			}
		}
		st := OK
		if bad != "" || len(arms) < 4 {
			st = Bad
			if bad == "" {
				bad = "fewer than four classification arms found"
			}
		}
		r.AddAt(st, "C utf8_indicated_num_bytes|table", f.Pos(), "lead bytes 00-7F→1, C2-DF→2, E0-EF→3, F0-F4→4 / "+bad)
	}
	// utf8_num_bytes_char thresholds
	if f := P.Funcs["utf8_num_bytes_char"]; f != nil {
		var ths []int64
		f.Body.walk(func(m *CNode) bool {
			if m.Kind == "BinaryOperator" && m.Opcode == "<=" && len(m.Inner) == 2 {
				if v, ok := cIntValue(m.Inner[1]); ok && cstrip(m.Inner[0]).Kind == "DeclRefExpr" {
					ths = append(ths, v)
				}
			}
			return true
		})
		wantT := []int64{0x7f, 0x7ff, 0xdfff, 0xffff, 0x10ffff}
		ok := fmt.Sprint(ths) == fmt.Sprint(wantT)
		st := OK
		if !ok {
			st = Bad
		}
		r.AddAt(st, "C utf8_num_bytes_char|thresholds", f.Pos(), fmt.Sprintf("1..4 byte thresholds 7F, 7FF, FFFF, 10FFFF and the surrogate gap / the encoding-length thresholds are %x, expected %x", ths, wantT))
	}
}

// ---------- R12.4: hand-written decoders ----------

// decoderChains finds expressions ((p[0] & M0) << S0) | ((p[1] & M1) << S1) | ... and checks masks and shifts.
func checkDecoderChains(unitFuncs []*CFunc, report func(f *CFunc, line int, ok bool, msg string)) int {
	n := 0
	for _, f := range unitFuncs {
		seen := map[*CNode]bool{}
		f.Body.walk(func(m *CNode) bool {
			if m.Kind != "BinaryOperator" || m.Opcode != "|" || seen[m] {
				return true
			}
			// flatten
			var ops []*CNode
			var flat func(x *CNode)
			flat = func(x *CNode) {
				x = cstrip(x)
				if x.Kind == "BinaryOperator" && x.Opcode == "|" {
					seen[x] = true
					flat(x.Inner[0])
					flat(x.Inner[1])
					return
				}
				ops = append(ops, x)
			}
			flat(m)
			type part struct{ idx, mask, shift int64 }
			var parts []part
			for _, o := range ops {
				sh := int64(0)
				if o.Kind == "BinaryOperator" && o.Opcode == "<<" {
					s, ok := cIntValue(o.Inner[1])
					if !ok {
						return true
					}
					sh = s
					o = cstrip(o.Inner[0])
				}
				if o.Kind != "BinaryOperator" || o.Opcode != "&" {
					return true
				}
				mk, ok := cIntValue(o.Inner[1])
				sub := cstrip(o.Inner[0])
				if !ok || sub.Kind != "ArraySubscriptExpr" {
					return true
				}
				ix, ok := cIntValue(sub.Inner[1])
				if !ok {
					return true
				}
				parts = append(parts, part{ix, mk, sh})
			}
			if len(parts) < 2 || len(parts) > 4 {
				return true
			}
			n++
			cnt := int64(len(parts))
			lead := map[int64]int64{2: 0x1f, 3: 0x0f, 4: 0x07}[cnt]
			bad := ""
			for _, p := range parts {
				wantMask, wantShift := int64(0x3f), 6*(cnt-1-p.idx)
				if p.idx == 0 {
					wantMask = lead
				}
				if p.mask != wantMask || p.shift != wantShift {
					bad = fmt.Sprintf("byte %d of a %d-byte sequence is combined as (b & 0x%02x) << %d, UTF-8 requires (b & 0x%02x) << %d", p.idx, cnt, p.mask, p.shift, wantMask, wantShift)
				}
			}
			report(f, m.line, bad == "", bad)
			return true
		})
	}
	return n
}

// ---------- R12.6: surrogate tests on code points ----------
// A test of the form (x & M) == 0xD800 classifies x as a surrogate. On a 32-bit code point M must keep every bit above the
// surrogate block (0xFFFFF800); the 16-bit mask 0xF800 also matches U+1D800, U+2D800, … - valid characters of planes 1-16.
// Range tests (0xD800 <= x && x <= 0xDFFF) are checked for their two bounds.
func checkSurrogateTests(fs []*CFunc, report func(f *CFunc, line int, ok bool, msg string)) int {
	n := 0
	for _, f := range fs {
		f.Body.walk(func(m *CNode) bool {
			if m.Kind != "BinaryOperator" || (m.Opcode != "==" && m.Opcode != "!=") || len(m.Inner) != 2 {
				return true
			}
			for k := 0; k < 2; k++ {
				cst, other := m.Inner[k], cstrip(m.Inner[1-k])
				v, ok := cIntValue(cst)
				if !ok || v != 0xD800 || other == nil || other.Kind != "BinaryOperator" || other.Opcode != "&" || len(other.Inner) != 2 {
					continue
				}
				mask, okm := cIntValue(other.Inner[1])
				operand := other.Inner[0]
				if !okm {
					mask, okm = cIntValue(other.Inner[0])
					operand = other.Inner[1]
				}
				if !okm {
					continue
				}
				n++
				// width of the tested value: look through integer promotions to the declared type
				op := cstrip(operand)
				qt := op.QT()
				wide := !(strings.Contains(qt, "16") || strings.Contains(qt, "short") || qt == "char" || strings.Contains(qt, "char16"))
				m32 := uint32(mask)
				switch {
				case wide && m32 == 0xFFFFF800:
					report(f, m.line, true, "surrogate test keeps every bit above the surrogate block")
				case !wide && m32&0xFFFF == 0xF800:
					report(f, m.line, true, "surrogate test on a 16-bit unit")
				default:
					report(f, m.line, false, fmt.Sprintf("the surrogate test (%s & 0x%X) == 0xD800 on a value of type %s ignores the bits above bit 15: it also matches U+1D800…U+1DFFF, U+2D800… - %d valid characters of planes 1 to 16 are treated as invalid (dropped by every operation that encodes a character)", op.text(), m32, qt, 16*2048))
				}
			}
			return true
		})
	}
	return n
}

// ---------- R12.7: encoders bound the code point before handing it to the C library ----------
// c32rtomb (glibc, UTF-8 locale) still produces the obsolete 5 and 6 byte forms for values above U+10FFFF. A runtime function
// that calls it with a caller-supplied buffer documented as "at least 5 chars" must reject such values first.
func checkEncoderRange(P *CProgram, r *Rule) {
	var names []string
	for n := range P.Funcs {
		names = append(names, n)
	}
	sort.Strings(names)
	for _, name := range names {
		f := P.Funcs[name]
		if !strings.HasPrefix(f.Unit, "lib/runtime/") {
			continue
		}
		for _, call := range callsIn2(f.Body, "c32rtomb") {
			a := call.args()
			if len(a) < 2 {
				continue
			}
			cp := cstrip(a[1]).text()
			guarded := false
			f.Body.walk(func(m *CNode) bool {
				if m.Kind != "IfStmt" || len(m.Inner) < 2 || m.line > call.line {
					return true
				}
				// a comparison of the code point with 0x10FFFF whose branch returns
				cmp := false
				m.Inner[0].walk(func(x *CNode) bool {
					if x.Kind == "BinaryOperator" && (x.Opcode == ">" || x.Opcode == ">=" || x.Opcode == "<" || x.Opcode == "<=") && len(x.Inner) == 2 {
						l, rr := cstrip(x.Inner[0]), cstrip(x.Inner[1])
						lv, lok := cIntValue(x.Inner[0])
						rv, rok := cIntValue(x.Inner[1])
						if (rok && (rv == 0x10FFFF || rv == 0x110000) && l != nil && l.text() == cp) || (lok && (lv == 0x10FFFF || lv == 0x110000) && rr != nil && rr.text() == cp) {
							cmp = true
						}
					}
					return true
				})
				if !cmp {
					return true
				}
				m.Inner[1].walk(func(x *CNode) bool {
					if x.Kind == "ReturnStmt" {
						guarded = true
					}
					return true
				})
				return true
			})
			pos := fmt.Sprintf("%s:%d", f.Unit, call.line)
			if guarded {
				r.AddAt(OK, "C "+f.Name+"|code point bounded before c32rtomb", pos, "values above U+10FFFF are rejected before the conversion")
			} else {
				r.AddAt(Bad, "C "+f.Name+"|code point bounded before c32rtomb", pos, "the code point is handed to c32rtomb without an upper bound: for values above U+10FFFF the C library writes 5 or 6 bytes (plus the terminator) into buffers the callers size for 4 - a write outside the block, and a 'character' that is not a Unicode scalar value")
			}
		}
	}
}

// cByteLength: the expression is a number of bytes of a text: strlen(...), an expression over ->cap, a constant, or a call
// of a function of the runtime all of whose returned values are such.
func cByteLength(P *CProgram, n *CNode, depth int) bool {
	n = cstrip(n)
	if n == nil || depth > 3 {
		return false
	}
	if _, ok := cIntValue(n); ok {
		return true
	}
	switch n.Kind {
	case "CallExpr":
		name := n.calleeName()
		if name == "strlen" {
			return true
		}
		if g := P.Funcs[name]; g != nil && g.Body != nil {
			all, any := true, false
			g.Body.walk(func(m *CNode) bool {
				if m.Kind == "ReturnStmt" && len(m.Inner) == 1 {
					any = true
					if !cByteLength(P, m.Inner[0], depth+1) {
						all = false
					}
				}
				return true
			})
			return all && any
		}
		return false
	case "MemberExpr":
		return n.Name == "cap"
	case "BinaryOperator":
		if len(n.Inner) == 2 && (n.Opcode == "-" || n.Opcode == "+") {
			return cByteLength(P, n.Inner[0], depth+1) && cByteLength(P, n.Inner[1], depth+1)
		}
	case "CStyleCastExpr", "ParenExpr", "ImplicitCastExpr":
		if len(n.Inner) > 0 {
			return cByteLength(P, n.Inner[len(n.Inner)-1], depth+1)
		}
	}
	return false
}

// ---------- R12.8: who may classify bytes ----------

// Bytes are classified (lead byte / continuation byte / width) only by the functions whose tables R12.3 evaluates over all
// 256 byte values. A constant from the upper half of the byte range (0x80..0xFF, also behind a cast) anywhere else in the
// runtime is a second, unverified classification - e.g. a counting loop that tests `c >= (signed char)0xBF` instead of
// asking utf8_is_continuation.
func checkByteClassOwners(c *Check, P *CProgram, r *Rule) {
	verified := map[string]bool{
		"utf8_is_single_byte": true, "utf8_is_double_byte": true, "utf8_is_triple_byte": true, "utf8_is_quadruple_byte": true,
		"utf8_is_continuation": true, "utf8_is_multibyte": true, "utf8_indicated_num_bytes": true,
	}
	var names []string
	for n := range P.Funcs {
		names = append(names, n)
	}
	sort.Strings(names)
	owners := 0
	for _, name := range names {
		f := P.Funcs[name]
		if !strings.HasPrefix(f.Unit, "lib/runtime/") || f.Body == nil {
			continue
		}
		var lines []string
		f.Body.walk(func(m *CNode) bool {
			if m.Kind == "IntegerLiteral" {
				if v, ok := cIntValue(m); ok && v >= 0x80 && v <= 0xFF {
					lines = append(lines, fmt.Sprint(m.line))
				}
			}
			return true
		})
		if len(lines) == 0 {
			continue
		}
		if verified[name] {
			owners++
			r.AddAt(OK, "C "+name+"|classifies bytes", f.Pos(), "one of the classification functions whose table is evaluated over all byte values (R12.3)")
			continue
		}
		r.AddAt(Bad, "C "+name+"|classifies bytes", f.Pos(), "compares or masks bytes with constants of the upper half of the byte range (line "+strings.Join(uniq(lines), ", ")+") outside the verified classification functions: a second classification of lead and continuation bytes that nothing checks - a boundary that is off by one miscounts or mis-splits every character containing that byte")
	}
	if owners < 5 {
		r.AddAt(Undecided, "C utf8 classification functions", "-", "fewer than 5 of the verified classification functions were found")
	}
}

// ---------- R12.9: the encode buffer after a failed encoding ----------

// utf8_char_to_string(buf, c) writes nothing into buf when c cannot be encoded (it returns (size_t)-1). A function that
// goes on after the failure (treating the character as empty) must not read buf as a C string on that path unless it
// terminated it first: enumerated over the paths of every caller (if/else paths; memcpy/memmove with an explicit length
// are not string reads).
func checkEncodeBufferAfterFailure(c *Check, P *CProgram, r *Rule) {
	var names []string
	for n := range P.Funcs {
		names = append(names, n)
	}
	sort.Strings(names)
	n := 0
	for _, name := range names {
		f := P.Funcs[name]
		if f.Body == nil || !strings.HasPrefix(f.Unit, "lib/") {
			continue
		}
		// the call `v = utf8_char_to_string(buf, ...)` with buf a local array
		buf, res := "", ""
		f.Body.walk(func(m *CNode) bool {
			if m.Kind == "VarDecl" && len(m.Inner) > 0 {
				if call := cstrip(m.Inner[len(m.Inner)-1]); call != nil && call.Kind == "CallExpr" && call.calleeName() == "utf8_char_to_string" {
					if a := call.args(); len(a) > 0 {
						if b := cstrip(a[0]); b != nil && b.Kind == "DeclRefExpr" {
							buf, res = b.text(), m.Name
						}
					}
				}
			}
			return true
		})
		if buf == "" || res == "" {
			continue
		}
		paths, decided := cEnumPaths(f, 256)
		if !decided {
			continue // loops/switches: not decided here (R5.10 covers the use of the failure value as a length)
		}
		n++
		var bad []string
		for _, p := range paths {
			failed, terminated := false, false
			for _, a := range p {
				if a.cond != nil {
					cn := cstrip(a.cond)
					if cn != nil && cn.Kind == "BinaryOperator" && len(cn.Inner) == 2 && cstrip(cn.Inner[0]) != nil && cstrip(cn.Inner[0]).text() == res {
						if k, ok := cIntValue(cn.Inner[1]); ok && k == -1 {
							if (cn.Opcode == "==" && a.truth) || (cn.Opcode == "!=" && !a.truth) {
								failed = true
							}
						}
					}
					continue
				}
				a.stmt.walk(func(m *CNode) bool {
					if m.Kind == "BinaryOperator" && m.Opcode == "=" && len(m.Inner) == 2 {
						if l := cstrip(m.Inner[0]); l != nil && (l.Kind == "ArraySubscriptExpr" || (l.Kind == "UnaryOperator" && l.Opcode == "*")) && strings.HasPrefix(l.text(), buf) {
							terminated = true
						}
					}
					if m.Kind == "CallExpr" {
						cal := m.calleeName()
						if cal == "memcpy" || cal == "memmove" || cal == "utf8_char_to_string" {
							return true
						}
						for _, arg := range m.args() {
							if b := cstrip(arg); b != nil && b.Kind == "DeclRefExpr" && b.text() == buf && failed && !terminated {
								bad = append(bad, fmt.Sprintf("line %d: %s reads %s as a string on the path where the character could not be encoded and nothing was written to it", m.line, cal, buf))
							}
						}
					}
					return true
				})
			}
		}
		st := OK
		if len(bad) > 0 {
			st = Bad
		}
		r.AddAt(st, "C "+name+"|"+buf+" after a failed encoding", f.Pos(), pickMsg(st, "the buffer is terminated before it is read as a string, or not read / "+strings.Join(uniq(bad), "; ")+": strlen runs over uninitialised stack bytes (a Text with garbage content, or a read past the 5-byte buffer)"))
	}
	if n == 0 {
		r.AddAt(Undecided, "C callers of utf8_char_to_string", "-", "no caller with a local buffer and a stored result found")
	}
}

// ---------- R12.10: DDP indices of a text are bounded by a number of code points ----------

// ddp_string_slice receives two DDP indices (code-point positions). They are clamped to 1..n; n has to be the number of code
// points of the text. With a number of BYTES (cap-1, strlen) an index between the two counts survives the clamp and the walk
// runs into the terminator: `t im Bereich von 5 bis 9` on "aä€😀" yields "" instead of "😀". Decided on the upper bound of
// every call of the clamp helper (three parameters, first compared with the second by < and with the third by >) in the
// function, looked through a local that is initialised once.
func checkSliceBoundIsCodePoints(c *Check, P *CProgram, r *Rule) {
	f := P.Funcs["ddp_string_slice"]
	if f == nil || f.Body == nil {
		r.AddAt(Undecided, "C ddp_string_slice", "-", "function not found")
		return
	}
	isClamp := func(name string) bool {
		g := P.Funcs[name]
		if g == nil || g.Body == nil {
			return false
		}
		gp := cParamNames(g)
		if len(gp) != 3 {
			return false
		}
		lo, hi := false, false
		g.Body.walk(func(m *CNode) bool {
			if m.Kind == "BinaryOperator" && len(m.Inner) == 2 {
				l, rr := cstrip(m.Inner[0]).text(), cstrip(m.Inner[1]).text()
				if (m.Opcode == "<" && rr == gp[1]) || (m.Opcode == ">" && l == gp[1]) {
					lo = true
				}
				if (m.Opcode == ">" && rr == gp[2]) || (m.Opcode == "<" && l == gp[2]) {
					hi = true
				}
			}
			return true
		})
		return lo && hi
	}
	localInit := func(name string) *CNode {
		var init *CNode
		n := 0
		f.Body.walk(func(m *CNode) bool {
			if m.Kind == "VarDecl" && m.Name == name && len(m.Inner) > 0 {
				init = m.Inner[len(m.Inner)-1]
				n++
			}
			if m.Kind == "BinaryOperator" && m.Opcode == "=" && len(m.Inner) == 2 && cstrip(m.Inner[0]).text() == name {
				n++
			}
			return true
		})
		if n == 1 {
			return init
		}
		return nil
	}
	found := 0
	f.Body.walk(func(m *CNode) bool {
		if m.Kind != "CallExpr" || !isClamp(m.calleeName()) {
			return true
		}
		a := m.args()
		if len(a) != 3 {
			return true
		}
		found++
		bound := cstrip(a[2])
		if bound.Kind == "DeclRefExpr" {
			if in := localInit(bound.text()); in != nil {
				bound = cstrip(in)
			}
		}
		pos := fmt.Sprintf("%s:%d", f.Unit, m.line)
		key := fmt.Sprintf("C ddp_string_slice|upper bound of the clamp of %s", cstrip(a[0]).text())
		if cByteLength(P, bound, 0) {
			r.AddAt(Bad, key, pos, "the index is clamped to "+bound.text()+", a number of bytes: for a text with multi-byte characters an index between the number of code points and the number of bytes is not clamped, the walk ends at the terminator and the slice is empty (or the crossed-bounds error is raised) instead of ending at the last character")
		} else {
			r.AddAt(OK, key, pos, "the upper bound ("+bound.text()+") is not a byte count of the text")
		}
		return true
	})
	if found == 0 {
		r.AddAt(Undecided, "C ddp_string_slice|clamp calls", f.Pos(), "no call of a clamp helper found in the text slice")
	}
}
