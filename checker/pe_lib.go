package main

import (
	"go/ast"
	"go/constant"
	"go/types"

	"golang.org/x/tools/go/packages"
)

// installLibModels gives the evaluator the meaning of the few library helpers that code under analysis may use in place
// of a hand-written loop (and the reverse): membership and search over a known slice.
func installLibModels(in *Interp) {
	callPred := func(in *Interp, f Val, arg Val) (bool, bool) {
		var res Val
		switch cl := f.(type) {
		case Closure:
			res = in.callClosure(cl, []Val{arg})
		case FuncRef:
			if cl.Fi == nil {
				return false, false
			}
			res = in.CallFunc(cl.Fi, cl.Recv, []Val{arg})
		default:
			return false, false
		}
		return truth(res)
	}
	index := func(pred bool) ModelFn {
		return func(in *Interp, pkg *packages.Package, call *ast.CallExpr, recv Val, args []Val) (Val, bool) {
			if len(args) != 2 {
				return nil, false
			}
			var elems []Val
			switch s := args[0].(type) {
			case SliceV:
				elems = s.Elems
			case NilV:
			default:
				return nil, false
			}
			for i, e := range elems {
				var hit, known bool
				if pred {
					hit, known = callPred(in, args[1], e)
				} else {
					hit, known = eqVal(e, args[1])
					if !known {
						hit, known = eqVal(args[1], e)
					}
				}
				if !known {
					return Unk{"membership over an unknown element"}, true
				}
				if hit {
					return ConstV{V: constant.MakeInt64(int64(i)), T: types.Typ[types.Int]}, true
				}
			}
			return ConstV{V: constant.MakeInt64(-1), T: types.Typ[types.Int]}, true
		}
	}
	contains := func(ix ModelFn) ModelFn {
		return func(in *Interp, pkg *packages.Package, call *ast.CallExpr, recv Val, args []Val) (Val, bool) {
			v, ok := ix(in, pkg, call, recv, args)
			if !ok {
				return nil, false
			}
			cv, isC := v.(ConstV)
			if !isC || cv.V == nil {
				return v, true
			}
			n, _ := constant.Int64Val(cv.V)
			return boolV(n >= 0), true
		}
	}
	in.Models["slices.Index"] = index(false)
	in.Models["slices.IndexFunc"] = index(true)
	in.Models["slices.Contains"] = contains(index(false))
	in.Models["slices.ContainsFunc"] = contains(index(true))
}

// installSearchModels: binary search and insertion over a known slice, with the library's own algorithm (so that a
// comparator that is not consistent with the slice's order misplaces the element in the model as it would at run time).
func installSearchModels(in *Interp) {
	callInt := func(in *Interp, f Val, args []Val) (int64, bool) {
		var res Val
		switch cl := f.(type) {
		case Closure:
			res = in.callClosure(cl, args)
		case FuncRef:
			if cl.Fi == nil {
				return 0, false
			}
			res = in.CallFunc(cl.Fi, cl.Recv, args)
		default:
			return 0, false
		}
		if cv, ok := res.(ConstV); ok && cv.V != nil && cv.V.Kind() == constant.Int {
			v, _ := constant.Int64Val(cv.V)
			return v, true
		}
		if t, ok := truth(res); ok {
			if t {
				return 1, true
			}
			return 0, true
		}
		return 0, false
	}
	intV := func(i int) Val { return ConstV{V: constant.MakeInt64(int64(i)), T: types.Typ[types.Int]} }
	in.Models["slices.BinarySearchFunc"] = func(in *Interp, pkg *packages.Package, call *ast.CallExpr, recv Val, args []Val) (Val, bool) {
		if len(args) != 3 {
			return nil, false
		}
		var elems []Val
		switch s := args[0].(type) {
		case SliceV:
			elems = s.Elems
		case NilV:
		default:
			return nil, false
		}
		n := len(elems)
		i, j := 0, n
		for i < j {
			h := int(uint(i+j) >> 1)
			c, ok := callInt(in, args[2], []Val{elems[h], args[1]})
			if !ok {
				return TupleV{Unk{"search"}, Unk{"search"}}, true
			}
			if c < 0 {
				i = h + 1
			} else {
				j = h
			}
		}
		found := false
		if i < n {
			c, ok := callInt(in, args[2], []Val{elems[i], args[1]})
			if !ok {
				return TupleV{Unk{"search"}, Unk{"search"}}, true
			}
			found = c == 0
		}
		return TupleV{intV(i), boolV(found)}, true
	}
	in.Models["sort.Search"] = func(in *Interp, pkg *packages.Package, call *ast.CallExpr, recv Val, args []Val) (Val, bool) {
		if len(args) != 2 {
			return nil, false
		}
		cv, ok := args[0].(ConstV)
		if !ok || cv.V == nil {
			return nil, false
		}
		n64, _ := constant.Int64Val(cv.V)
		i, j := 0, int(n64)
		for i < j {
			h := int(uint(i+j) >> 1)
			c, ok := callInt(in, args[1], []Val{intV(h)})
			if !ok {
				return Unk{"search"}, true
			}
			if c == 0 {
				i = h + 1
			} else {
				j = h
			}
		}
		return intV(i), true
	}
	in.Models["slices.Insert"] = func(in *Interp, pkg *packages.Package, call *ast.CallExpr, recv Val, args []Val) (Val, bool) {
		if len(args) < 2 {
			return nil, false
		}
		var elems []Val
		switch s := args[0].(type) {
		case SliceV:
			elems = s.Elems
		case NilV:
		default:
			return nil, false
		}
		cv, ok := args[1].(ConstV)
		if !ok || cv.V == nil {
			return nil, false
		}
		i64, _ := constant.Int64Val(cv.V)
		i := int(i64)
		if i < 0 || i > len(elems) {
			in.event("panic", "slices.Insert index out of range", call.Pos())
			return abortV{}, true
		}
		var ins []Val
		for _, a := range args[2:] {
			if sp, ok := a.(spreadV); ok {
				if sl, ok := sp.S.(SliceV); ok {
					ins = append(ins, sl.Elems...)
					continue
				}
				return nil, false
			}
			ins = append(ins, a)
		}
		out := append([]Val{}, elems[:i]...)
		out = append(out, ins...)
		out = append(out, elems[i:]...)
		return SliceV{Elems: out}, true
	}
}
