package main

import (
	"go/ast"
	"go/constant"
	"go/token"
	"go/types"
	"sort"
	"strings"

	"golang.org/x/tools/go/cfg"
	"golang.org/x/tools/go/packages"
)

// fieldOf resolves a selector expression to the struct field it denotes (nil if not a field).
func fieldOf(info *types.Info, e ast.Expr) *types.Var {
	e = ast.Unparen(e)
	sel, ok := e.(*ast.SelectorExpr)
	if !ok {
		return nil
	}
	if s, ok := info.Selections[sel]; ok && s.Kind() == types.FieldVal {
		if v, ok := s.Obj().(*types.Var); ok {
			return v
		}
	}
	return nil
}

// isField reports whether v is field `name` of the named struct type `typ` in package with name pkgName.
func isField(v *types.Var, pkgName, typ, name string) bool {
	if v == nil || !v.IsField() || canonName(v) != name || v.Pkg() == nil || v.Pkg().Name() != pkgName {
		return false
	}
	// find the named type in the package scope and compare field identity
	obj := v.Pkg().Scope().Lookup(typ)
	if obj == nil {
		return false
	}
	st, ok := obj.Type().Underlying().(*types.Struct)
	if !ok {
		return false
	}
	for i := 0; i < st.NumFields(); i++ {
		if st.Field(i) == v {
			return true
		}
	}
	return false
}

type fieldWrite struct {
	Fn    *FuncInfo
	Node  ast.Node // AssignStmt, IncDecStmt, KeyValueExpr (composite literal) or UnaryExpr (&x.f)
	Field *types.Var
	Rhs   ast.Expr // may be nil
	InLit bool
}

// FieldWrites lists all writes (assignment, inc/dec, composite-literal key, address-of) to the given field across root packages.
func (L *Loaded) FieldWrites(match func(v *types.Var) bool) []fieldWrite {
	var out []fieldWrite
	for _, fi := range L.sortedFuncs() {
		if fi.Decl.Body == nil {
			continue
		}
		info := fi.Pkg.TypesInfo
		ast.Inspect(fi.Decl.Body, func(n ast.Node) bool {
			switch s := n.(type) {
			case *ast.AssignStmt:
				for i, l := range s.Lhs {
					if v := fieldOf(info, l); v != nil && match(v) {
						var rhs ast.Expr
						if len(s.Rhs) == len(s.Lhs) {
							rhs = s.Rhs[i]
						}
						out = append(out, fieldWrite{fi, s, v, rhs, false})
					}
				}
			case *ast.IncDecStmt:
				if v := fieldOf(info, s.X); v != nil && match(v) {
					out = append(out, fieldWrite{fi, s, v, nil, false})
				}
			case *ast.UnaryExpr:
				if s.Op == token.AND {
					if v := fieldOf(info, s.X); v != nil && match(v) {
						out = append(out, fieldWrite{fi, s, v, nil, false})
					}
				}
			case *ast.CompositeLit:
				for _, el := range s.Elts {
					kv, ok := el.(*ast.KeyValueExpr)
					if !ok {
						continue
					}
					if id, ok := kv.Key.(*ast.Ident); ok {
						if v, ok := info.Uses[id].(*types.Var); ok && v.IsField() && match(v) {
							out = append(out, fieldWrite{fi, kv, v, kv.Value, true})
						}
					}
				}
			}
			return true
		})
	}
	return out
}

func (L *Loaded) sortedFuncs() []*FuncInfo {
	var fis []*FuncInfo
	for _, fi := range L.Funcs {
		fis = append(fis, fi)
	}
	sort.Slice(fis, func(i, j int) bool { return fis[i].Decl.Pos() < fis[j].Decl.Pos() })
	return fis
}

// constRune returns the constant integer value of e, if any.
func constInt(info *types.Info, e ast.Expr) (int64, bool) {
	tv, ok := info.Types[e]
	if !ok || tv.Value == nil {
		return 0, false
	}
	if tv.Value.Kind() != constant.Int {
		return 0, false
	}
	v, exact := constant.Int64Val(tv.Value)
	return v, exact
}

func constString(info *types.Info, e ast.Expr) (string, bool) {
	tv, ok := info.Types[e]
	if !ok || tv.Value == nil || tv.Value.Kind() != constant.String {
		return "", false
	}
	return constant.StringVal(tv.Value), true
}

// callsIn visits the calls of a node in evaluation (post-) order, not descending into function literals.
func callsIn(n ast.Node, f func(c *ast.CallExpr)) {
	var walk func(n ast.Node)
	walk = func(n ast.Node) {
		if n == nil {
			return
		}
		ast.Inspect(n, func(m ast.Node) bool {
			if m == n {
				return true
			}
			switch m.(type) {
			case *ast.FuncLit:
				return false
			case *ast.CallExpr:
				walk(m)
				return false
			}
			return true
		})
		if c, ok := n.(*ast.CallExpr); ok {
			f(c)
		}
	}
	if c, ok := n.(*ast.CallExpr); ok {
		walk(c)
		return
	}
	// wrap: walk children
	ast.Inspect(n, func(m ast.Node) bool {
		switch m.(type) {
		case *ast.FuncLit:
			return false
		case *ast.CallExpr:
			walk(m)
			return false
		}
		return true
	})
}

// caseTags maps every case expression of expression switches in body to the switch tag.
func caseTags(body ast.Node) map[ast.Expr]ast.Expr {
	m := map[ast.Expr]ast.Expr{}
	ast.Inspect(body, func(n ast.Node) bool {
		if sw, ok := n.(*ast.SwitchStmt); ok && sw.Tag != nil {
			for _, c := range sw.Body.List {
				for _, e := range c.(*ast.CaseClause).List {
					m[e] = sw.Tag
				}
			}
		}
		return true
	})
	return m
}

// mustFlow is a forward must-dataflow over go/cfg with a bitset state (meet = AND).
type mustFlow struct {
	G        *cfg.CFG
	Init     uint32
	Transfer func(n ast.Node, s uint32) uint32
	// Edge refines the state flowing from b to its succ index i (0 = true, 1 = false) given the block's last node.
	Edge func(b *cfg.Block, i int, s uint32) uint32
	In   map[*cfg.Block]uint32
}

func (m *mustFlow) Run() {
	m.In = map[*cfg.Block]uint32{}
	const top = ^uint32(0)
	for _, b := range m.G.Blocks {
		m.In[b] = top
	}
	if len(m.G.Blocks) == 0 {
		return
	}
	m.In[m.G.Blocks[0]] = m.Init
	changed := true
	for changed {
		changed = false
		for _, b := range m.G.Blocks {
			if !b.Live {
				continue
			}
			s := m.In[b]
			for _, n := range b.Nodes {
				s = m.Transfer(n, s)
			}
			for i, succ := range b.Succs {
				t := s
				if m.Edge != nil && len(b.Succs) == 2 {
					t = m.Edge(b, i, s)
				}
				nw := m.In[succ] & t
				if succ == m.G.Blocks[0] {
					nw = m.In[succ] & t & m.Init
				}
				if nw != m.In[succ] {
					m.In[succ] = nw
					changed = true
				}
			}
		}
	}
}

// StateBefore returns the state immediately before node idx of block b.
func (m *mustFlow) StateAt(b *cfg.Block, idx int) uint32 {
	s := m.In[b]
	for i := 0; i < idx; i++ {
		s = m.Transfer(b.Nodes[i], s)
	}
	return s
}

// callSites returns all call expressions in root packages whose static callee is fn.
func (L *Loaded) CallSites(fn *types.Func) []callSite {
	var out []callSite
	for _, fi := range L.sortedFuncs() {
		if fi.Decl.Body == nil {
			continue
		}
		ast.Inspect(fi.Decl.Body, func(n ast.Node) bool {
			if c, ok := n.(*ast.CallExpr); ok {
				if Callee(fi.Pkg.TypesInfo, c) == fn {
					out = append(out, callSite{fi, c})
				}
			}
			return true
		})
	}
	return out
}

type callSite struct {
	Fn   *FuncInfo
	Call *ast.CallExpr
}

func pkgRel(p *packages.Package) string { return strings.TrimPrefix(p.PkgPath, modPath) }

// constsOfType lists the constants of the named type declared in the package, in declaration order.
func constsOfType(p *packages.Package, typeName string) []*types.Const {
	var cs []*types.Const
	scope := p.Types.Scope()
	for _, n := range scope.Names() {
		if c, ok := scope.Lookup(n).(*types.Const); ok {
			if nt, ok := c.Type().(*types.Named); ok && nt.Obj().Name() == typeName && nt.Obj().Pkg() == p.Types {
				cs = append(cs, c)
			}
		}
	}
	sort.Slice(cs, func(i, j int) bool { return cs[i].Pos() < cs[j].Pos() })
	return cs
}

// findVarDecl returns the value expression of a package-level var.
func findPkgVarValue(p *packages.Package, name string) ast.Expr {
	for _, f := range p.Syntax {
		for _, d := range f.Decls {
			gd, ok := d.(*ast.GenDecl)
			if !ok || gd.Tok != token.VAR {
				continue
			}
			for _, s := range gd.Specs {
				vs := s.(*ast.ValueSpec)
				for i, n := range vs.Names {
					if n.Name == name && i < len(vs.Values) {
						return vs.Values[i]
					}
				}
			}
		}
	}
	return nil
}
