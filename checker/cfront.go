package main

// E5: C front end. The C sources of lib/runtime are parsed by clang (-fsyntax-only -Xclang -ast-dump=json); nothing is
// compiled or run. The JSON AST gives every function with its desugared signature and statement tree.

import (
	"encoding/json"
	"fmt"
	"os"
	"os/exec"
	"path/filepath"
	"regexp"
	"sort"
	"strings"
)

type CNode struct {
	ID    string   `json:"id"`
	Kind  string   `json:"kind"`
	Name  string   `json:"name"`
	Inner []*CNode `json:"inner"`
	Type  *struct {
		QualType  string `json:"qualType"`
		Desugared string `json:"desugaredQualType"`
	} `json:"type"`
	Opcode         string `json:"opcode"`
	Value          any    `json:"value"`
	IsArrow        bool   `json:"isArrow"`
	IsPostfix      bool   `json:"isPostfix"`
	StorageClass   string `json:"storageClass"`
	ReferencedDecl *struct {
		ID   string `json:"id"`
		Kind string `json:"kind"`
		Name string `json:"name"`
	} `json:"referencedDecl"`
	Loc   *CLoc `json:"loc"`
	Range *struct {
		Begin *CLoc `json:"begin"`
		End   *CLoc `json:"end"`
	} `json:"range"`
	CompleteDefinition bool `json:"completeDefinition"`
	Decl               *struct {
		ID   string `json:"id"`
		Name string `json:"name"`
	} `json:"decl"`
	line int
	file string
}

type CLoc struct {
	Line         int    `json:"line"`
	File         string `json:"file"`
	ExpansionLoc *CLoc  `json:"expansionLoc"`
	SpellingLoc  *CLoc  `json:"spellingLoc"`
	IncludedFrom any    `json:"includedFrom"`
}

func (n *CNode) QT() string {
	if n == nil || n.Type == nil {
		return ""
	}
	if n.Type.Desugared != "" {
		return n.Type.Desugared
	}
	return n.Type.QualType
}

type CFunc struct {
	Name   string
	Unit   string // file relative to the repo
	Line   int
	Node   *CNode
	Body   *CNode
	Ret    string   // class of the return type
	Params []string // classes of the parameter types
	PTypes []string // spelled parameter types
	RType  string
}

func (f *CFunc) Pos() string { return fmt.Sprintf("%s:%d", f.Unit, f.Line) }

type CProgram struct {
	Funcs   map[string]*CFunc // defined functions (with body) by name
	Protos  map[string]*CFunc // prototypes (from headers, incl. libc)
	Structs map[string][]CField
	Units   []string
	Failed  []string
	Macros  map[string]string // object/function-like macro bodies from the runtime headers (textual)
}

// typedefs seen in any unit: name -> underlying (spelled) type
var cTypedefs = map[string]string{}

type CField struct {
	Name  string
	Class string
	Type  string
}

// cClass maps a (desugared) C type to the IR class vocabulary of the generator.
func cClass(t string) string {
	t = strings.TrimSpace(strings.TrimPrefix(strings.TrimSpace(t), "const "))
	t = strings.ReplaceAll(t, " const", "")
	t = strings.TrimSpace(strings.ReplaceAll(t, "*const", "*"))
	for i := 0; i < 5; i++ {
		if u, ok := cTypedefs[t]; ok {
			t = strings.TrimSpace(u)
		} else {
			break
		}
	}
	if strings.HasSuffix(t, "*") || strings.Contains(t, "(*)") || strings.HasSuffix(t, "]") {
		return "ptr"
	}
	switch t {
	case "long", "long long", "unsigned long", "unsigned long long", "int64_t", "uint64_t", "size_t", "ddpint":
		return "i64"
	case "int", "unsigned int", "int32_t", "uint32_t", "ddpchar":
		return "i32"
	case "char", "unsigned char", "signed char", "uint8_t", "int8_t", "ddpbyte":
		return "i8"
	case "_Bool", "bool", "ddpbool":
		return "i1"
	case "double", "ddpfloat":
		return "double"
	case "void":
		return "void"
	case "short", "unsigned short":
		return "i16"
	}
	if strings.HasPrefix(t, "struct ") || strings.HasPrefix(t, "union ") {
		return "agg"
	}
	return "?" + t
}

func (n *CNode) walk(f func(n *CNode) bool) {
	if n == nil {
		return
	}
	if !f(n) {
		return
	}
	for _, c := range n.Inner {
		c.walk(f)
	}
}

// LoadC parses the C units of lib/runtime (and optionally lib/stdlib) with clang.
var cProgCache = map[string]*CProgram{}

func LoadC(repo string, withStdlib bool) (*CProgram, error) {
	ck := fmt.Sprint(repo, withStdlib)
	if p, ok := cProgCache[ck]; ok {
		return p, nil
	}
	P, err := loadC(repo, withStdlib)
	if err == nil {
		cProgCache[ck] = P
	}
	return P, err
}

func loadC(repo string, withStdlib bool) (*CProgram, error) {
	P := &CProgram{Funcs: map[string]*CFunc{}, Protos: map[string]*CFunc{}, Structs: map[string][]CField{}, Macros: map[string]string{}}
	type unit struct{ file, inc string }
	var units []unit
	rt := filepath.Join(repo, "lib", "runtime")
	filepath.Walk(filepath.Join(rt, "source"), func(p string, info os.FileInfo, err error) error {
		if err == nil && strings.HasSuffix(p, ".c") {
			units = append(units, unit{p, ""})
		}
		return nil
	})
	if withStdlib {
		filepath.Walk(filepath.Join(repo, "lib", "stdlib", "source"), func(p string, info os.FileInfo, err error) error {
			if err == nil && strings.HasSuffix(p, ".c") {
				units = append(units, unit{p, filepath.Join(repo, "lib", "stdlib", "include")})
			}
			return nil
		})
	}
	sort.Slice(units, func(i, j int) bool { return units[i].file < units[j].file })
	if len(units) == 0 {
		return nil, fmt.Errorf("no C units found under %s", rt)
	}
	for _, u := range units {
		args := []string{"-fsyntax-only", "-std=c11", "-D_POSIX_C_SOURCE=200809L", "-Xclang", "-ast-dump=json", "-I", filepath.Join(rt, "include")}
		if u.inc != "" {
			args = append(args, "-I", u.inc)
		}
		args = append(args, u.file)
		cmd := exec.Command("clang-14", args...)
		out, err := cmd.Output()
		rel, _ := filepath.Rel(repo, u.file)
		if err != nil || len(out) == 0 {
			P.Failed = append(P.Failed, rel)
			continue
		}
		var root CNode
		if err := json.Unmarshal(out, &root); err != nil {
			P.Failed = append(P.Failed, rel+" (json)")
			continue
		}
		P.Units = append(P.Units, rel)
		curFile, curLine := "", 0
		upd := func(l *CLoc) {
			if l == nil {
				return
			}
			if l.ExpansionLoc != nil {
				l = l.ExpansionLoc
			}
			if l.File != "" {
				curFile = l.File
			}
			if l.Line != 0 {
				curLine = l.Line
			}
		}
		var annotate func(n *CNode)
		annotate = func(n *CNode) {
			upd(n.Loc)
			if n.Range != nil {
				upd(n.Range.Begin)
			}
			n.line, n.file = curLine, curFile
			for _, c := range n.Inner {
				annotate(c)
			}
			if n.Range != nil {
				upd(n.Range.End)
			}
		}
		annotate(&root)
		for _, d := range root.Inner {
			switch d.Kind {
			case "FunctionDecl":
				var body *CNode
				var ptypes, pcls []string
				for _, in := range d.Inner {
					switch in.Kind {
					case "CompoundStmt":
						body = in
					case "ParmVarDecl":
						ptypes = append(ptypes, in.Type.QualType)
						pcls = append(pcls, cClass(in.QT()))
					}
				}
				rtype := d.Type.QualType
				if i := strings.Index(rtype, "("); i > 0 {
					rtype = strings.TrimSpace(rtype[:i])
				}
				dq := d.QT()
				rd := dq
				if i := strings.Index(dq, "("); i > 0 {
					rd = strings.TrimSpace(dq[:i])
				}
				fn := &CFunc{Name: d.Name, Unit: rel, Line: d.line, Node: d, Body: body, Ret: cClass(rd), Params: pcls, PTypes: ptypes, RType: rtype}
				if strings.HasSuffix(strings.TrimSpace(dq), "...)") {
					fn.Params = append(fn.Params, "...")
				}
				if body != nil && strings.HasSuffix(d.file, filepath.Base(u.file)) {
					fn.Line = d.line
					P.Funcs[d.Name] = fn
				} else if body == nil {
					if _, ok := P.Protos[d.Name]; !ok {
						P.Protos[d.Name] = fn
					}
				}
			case "RecordDecl":
				if !d.CompleteDefinition {
					continue
				}
				var fs []CField
				for _, in := range d.Inner {
					if in.Kind == "FieldDecl" {
						fs = append(fs, CField{in.Name, cClass(in.QT()), in.Type.QualType})
					}
				}
				if d.Name != "" {
					P.Structs[d.Name] = fs
				} else {
					P.Structs["@"+d.ID] = fs
				}
			case "TypedefDecl":
				if d.Type != nil {
					u := d.Type.Desugared
					if u == "" {
						u = d.Type.QualType
					}
					if u != d.Name {
						cTypedefs[d.Name] = u
					}
				}
				// typedef struct {...} name;  -> map name to the anonymous record
				for _, in := range d.Inner {
					if in.Kind == "ElaboratedType" {
						for _, r := range in.Inner {
							if r.Kind == "RecordType" && r.Decl != nil {
								if fs, ok := P.Structs["@"+r.Decl.ID]; ok {
									P.Structs[d.Name] = fs
								} else if fs, ok := P.Structs[r.Decl.Name]; ok && r.Decl.Name != "" {
									P.Structs[d.Name] = fs
								}
							}
						}
					}
				}
			}
		}
	}
	// macros of the runtime headers (textual; the preprocessor output no longer has them)
	re := regexp.MustCompile(`(?m)^#define\s+(\w+)(\([^)]*\))?\s+(.*(?:\\\n.*)*)$`)
	filepath.Walk(filepath.Join(rt, "include"), func(p string, info os.FileInfo, err error) error {
		if err == nil && strings.HasSuffix(p, ".h") {
			b, _ := os.ReadFile(p)
			for _, m := range re.FindAllStringSubmatch(string(b), -1) {
				P.Macros[m[1]] = strings.Join(strings.Fields(strings.ReplaceAll(m[3], "\\\n", " ")), " ")
			}
		}
		return nil
	})
	return P, nil
}

// RecordDecl of a typedef'd anonymous struct needs the "decl" field: json decoding into CNode drops it, so re-marshal is
// not enough; keep a light second pass for typedefs by raw decoding.
func init() {}

// ---- small helpers over statement trees ----

// calleeName of a CallExpr
func (n *CNode) calleeName() string {
	if n.Kind != "CallExpr" || len(n.Inner) == 0 {
		return ""
	}
	name := ""
	n.Inner[0].walk(func(m *CNode) bool {
		if m.Kind == "DeclRefExpr" && m.ReferencedDecl != nil && name == "" {
			name = m.ReferencedDecl.Name
		}
		return name == ""
	})
	return name
}

func (n *CNode) args() []*CNode {
	if n.Kind != "CallExpr" || len(n.Inner) == 0 {
		return nil
	}
	return n.Inner[1:]
}

// text renders an expression compactly (for keys and messages).
func (n *CNode) text() string {
	if n == nil {
		return ""
	}
	switch n.Kind {
	case "ImplicitCastExpr", "ParenExpr", "CStyleCastExpr", "ConstantExpr":
		if len(n.Inner) > 0 {
			return n.Inner[len(n.Inner)-1].text()
		}
	case "DeclRefExpr":
		if n.ReferencedDecl != nil {
			return n.ReferencedDecl.Name
		}
	case "MemberExpr":
		op := "."
		if n.IsArrow {
			op = "->"
		}
		return n.Inner[0].text() + op + n.Name
	case "IntegerLiteral", "FloatingLiteral", "CharacterLiteral":
		return fmt.Sprint(n.Value)
	case "StringLiteral":
		return fmt.Sprint(n.Value)
	case "BinaryOperator", "CompoundAssignOperator":
		if len(n.Inner) == 2 {
			return "(" + n.Inner[0].text() + " " + n.Opcode + " " + n.Inner[1].text() + ")"
		}
	case "UnaryOperator":
		if len(n.Inner) == 1 {
			if n.IsPostfix {
				return n.Inner[0].text() + n.Opcode
			}
			return n.Opcode + n.Inner[0].text()
		}
	case "ArraySubscriptExpr":
		if len(n.Inner) == 2 {
			return n.Inner[0].text() + "[" + n.Inner[1].text() + "]"
		}
	case "CallExpr":
		var a []string
		for _, x := range n.args() {
			a = append(a, x.text())
		}
		return n.calleeName() + "(" + strings.Join(a, ", ") + ")"
	case "UnaryExprOrTypeTraitExpr":
		return "sizeof"
	case "ConditionalOperator":
		if len(n.Inner) == 3 {
			return n.Inner[0].text() + " ? " + n.Inner[1].text() + " : " + n.Inner[2].text()
		}
	}
	var p []string
	for _, c := range n.Inner {
		p = append(p, c.text())
	}
	return n.Kind + "(" + strings.Join(p, ",") + ")"
}

func init() {
	registry["XC"] = func(c *Check) {
		P, err := LoadC(repoDirC(), true)
		if err != nil {
			fmt.Println(err)
			return
		}
		fmt.Println("units", len(P.Units), "failed", P.Failed, "funcs", len(P.Funcs), "protos", len(P.Protos))
		for _, n := range []string{"ddpstring", "ddpintlist", "ddpany", "ddpvtable", "ddpgenericlist"} {
			fmt.Println(n, P.Structs[n])
		}
		for _, n := range []string{"ddp_string_equal", "ddp_reallocate", "ddp_runtime_error", "memcmp", "pow", "utf8_string_to_char"} {
			if f := P.Funcs[n]; f != nil {
				fmt.Println("def", n, f.Ret, f.Params, f.Pos())
			} else if f := P.Protos[n]; f != nil {
				fmt.Println("proto", n, f.Ret, f.Params)
			}
		}
		fmt.Println(P.Macros["DDP_IS_SMALL_ANY"], "|", P.Macros["DDP_SMALL_ANY_BUFF_SIZE"])
	}
}
