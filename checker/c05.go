package main

import (
	"fmt"
	"go/ast"
	"go/constant"
	"go/token"
	"go/types"
	"sort"
	"strings"

	"golang.org/x/tools/go/packages"
)

func init() { registry["XC05"] = exploreC05 }

func nonPrimDT(d *DT) bool { return !toGen(d).prim() }

// ledgerTrace renders the ownership-relevant events of one evaluation.
func ledgerTrace(in *Interp) []string {
	var out []string
	for _, e := range in.Events {
		switch e.Kind {
		case "call", "addTemp", "claim", "deepCopy", "store", "rterr", "cerr", "panic", "ifelse-begin", "then-begin", "else-begin", "ifelse-end":
			var a []string
			for i, d := range e.Data {
				if e.Kind == "call" && i == 0 {
					continue
				}
				a = append(a, fmt.Sprint(d))
			}
			out = append(out, e.Kind+" "+e.Msg+"("+strings.Join(a, ", ")+")")
		}
		if strings.HasPrefix(e.Kind, "evaluate:") {
			out = append(out, e.Kind)
		}
	}
	return out
}

func exploreC05(c *Check) {
	L := c.L
	t := computeCheckerTables(L, "quick")
	in, mk := newGeneratorInterp(L)
	type job struct {
		keys   []string
		m      map[string]*ChkCell
		method string
		kind   string
		names  []string
	}
	jobs := []job{{t.keysU, t.Unary, "VisitUnaryExpr", "ast.UnaryExpr", []string{"rhs"}}, {t.keysB, t.Binary, "VisitBinaryExpr", "ast.BinaryExpr", []string{"lhs", "rhs"}}, {t.keysT, t.Ternary, "VisitTernaryExpr", "ast.TernaryExpr", []string{"lhs", "mid", "rhs"}}, {t.keysC, t.Cast, "VisitCastExpr", "ast.CastExpr", []string{"lhs"}}}
	seen := map[string]bool{}
	for _, jb := range jobs {
		for _, k := range jb.keys {
			cc := jb.m[k]
			if adm, dec := cc.Admitted(); !dec || !adm {
				continue
			}
			ds := t.coords[k]
			ops := ds
			if jb.method == "VisitCastExpr" {
				ops = ds[1:]
			}
			any := false
			for _, d := range ds {
				if d.Kind == "VOID" {
					any = false
					break
				}
				if nonPrimDT(d) {
					any = true
				}
			}
			if !any {
				continue
			}
			var npIdx []int
			for i, d := range ops {
				if nonPrimDT(d) {
					npIdx = append(npIdx, i)
				}
			}
			for mask := 0; mask < 1<<len(npIdx); mask++ {
				var node *Obj
				if jb.method == "VisitCastExpr" {
					node = genNode(jb.kind, nil, jb.names, ops)
					node.set("TargetType", TypeV{ds[0]})
				} else {
					node = genNode(jb.kind, opVal(t.ops[k]), jb.names, ops)
				}
				fields := map[string]string{"lhs": "Lhs", "mid": "Mid", "rhs": "Rhs"}
				flags := ""
				for i, nm := range jb.names {
					o := node.get(fields[nm]).(*Obj)
					tf := false
					for bi, ix := range npIdx {
						if ix == i && mask&(1<<bi) != 0 {
							tf = true
						}
					}
					o.set("temp", boolV(tf))
					flags += fmt.Sprintf(" %s.temp=%v", nm, tf)
				}
				in.RunAll(64, func() {
					cobj := mk()
					in.CallFunc(L.Fn("src/compiler.(*compiler)."+jb.method), cobj, []Val{node})
					tr := ledgerTrace(in)
					sig := jb.method + " " + strings.Join(tr, " ; ") + fmt.Sprintf(" => ret=%v temp=%v", cobj.get("latestReturn"), cobj.get("latestIsTemp"))
					gk := groupKey(cellVerdict{Key: k, Classes: ds, Op: t.ops[k].Name, Method: jb.method}) + flags
					if !seen[gk+sig] {
						seen[gk+sig] = true
						fmt.Println(gk, "::", sig)
					}
				})
			}
		}
	}
	_ = sort.Strings
}

func init() { registry["C05"] = checkC05 }

// ---- concrete ledger for R5.5 ----

type ledgerItem struct {
	name      string
	isRef     bool
	protected bool
	prim      bool
}

func mkWrapper(it ledgerItem) *Obj {
	w := newObj("varwrapper")
	w.set("val", &IRVal{Op: "operand", Src: it.name, Class: "ptr"})
	if it.prim {
		w.set("typ", &GenT{Kind: "int"})
	} else {
		w.set("typ", &GenT{Kind: "string"})
	}
	w.set("isRef", boolV(it.isRef))
	w.set("protected", boolV(it.protected))
	return w
}

func mkScope(enclosing Val, vars []ledgerItem, temps []ledgerItem) *Obj {
	s := newObj("scope")
	s.set("enclosing", enclosing)
	mv := MapV{}
	for _, it := range vars {
		d := newObj("ast.VarDecl")
		d.set("NameTok", newObj("token"))
		d.set("name", StrV(it.name))
		mv.Keys = append(mv.Keys, d)
		mv.Vals = append(mv.Vals, mkWrapper(it))
	}
	s.set("variables", mv)
	sv := SliceV{}
	for _, it := range temps {
		sv.Elems = append(sv.Elems, mkWrapper(it))
	}
	s.set("temporaries", sv)
	return s
}

// freedIn lists the operands passed to a FreeFunc call in the event stream, in order.
func freedIn(events []Event) []string {
	var out []string
	for _, e := range events {
		if e.Kind == "call" && strings.HasSuffix(e.Msg, ".FreeFunc") && len(e.Data) >= 2 {
			if v, ok := e.Data[1].(*IRVal); ok {
				out = append(out, v.String())
			}
		}
	}
	return out
}

func sameMultiset(a, b []string) bool {
	x, y := append([]string{}, a...), append([]string{}, b...)
	sort.Strings(x)
	sort.Strings(y)
	return strings.Join(x, ",") == strings.Join(y, ",")
}

func checkC05(c *Check) {
	L := c.L
	c.Expl = "Structural clauses of 'every heap block is released exactly once', decided on the code generator and the C runtime without running either: the generator's Visit* methods are partially evaluated over abstract operands (engine E2) and the stream of ownership events they emit (register/claim a temporary, deep copy, bitwise move, release, scope exit) is checked against the ledger discipline - per expression visitor and operand temporariness (R5.1), per storing statement (R5.6), per way of passing an argument incl. the -O2 copy elision and extern callees (R5.11); the scope-exit routines are evaluated on a concrete three-level ledger (R5.5); the basic-block skeleton each statement visitor emits (blocks, branches, per-block events, with the body ending in fall-through / Verlasse / Fahre fort) carries a typestate analysis of every registered value (R5.8, R5.9); primitive/non-primitive arms initialise the same destinations (R5.2); on clang's AST of the runtime and Duden C sources: (pointer, size) provenance of every resize/release (R5.3, also the generator's freeArr/growArr), capacity kept in step with in-place length changes (R5.4), the operand a concatenation function takes over ends reset or empty on every path and the generator never hands it a variable's value (R5.7), length-or-failure results are tested before use (R5.10). Not decided: leak/double-free freedom of whole programs, struct/Variable/list helper functions generated in IR other than slice and concatenation arms, the Duden library written in DDP."
	checkC05Exits(c, L)
	checkC05Ledger(c, L)
	checkC05Stores(c, L)
	checkC05Calls(c, L)
	checkC05Arms(c, L)
	checkC05Regions(c, L)
	checkC05Typestate(c, L)
	checkC05CapacityTruth(c, L)
	checkC05ListLiterals(c, L)
	checkC05FieldOfTemporary(c, L)
	checkC05SelfAssignment(c, L)
	checkC05C(c, L)
}

// R5.5: the three scope-exit routines evaluated on a concrete three-level ledger.
func checkC05Exits(c *Check, L *Loaded) {
	r := c.Rule("R5.5", "scope exits free exactly the values the ledger says they own: normal exit and break/continue skip references and protected entries, return frees everything up to and including the function scope", 5)
	in, mk := newGeneratorInterp(L)
	delete(in.Models, "compiler.(*compiler).exitScope")
	in.Models["ast.(*Ast).GetMetadataByKind"] = func(in *Interp, pkg *packages.Package, call *ast.CallExpr, recv Val, args []Val) (Val, bool) {
		return TupleV{Unk{"no metadata"}, boolV(false)}, true
	}
	build := func(cobj *Obj) (fn, s1, s2 *Obj) {
		global := mkScope(NilV{}, []ledgerItem{{name: "g1"}}, nil)
		fn = mkScope(global, []ledgerItem{{name: "p_val"}, {name: "p_ref", isRef: true}, {name: "p_prim", prim: true}}, []ledgerItem{{name: "t_fn"}})
		s1 = mkScope(fn, []ledgerItem{{name: "v1"}, {name: "v1_protected", protected: true}, {name: "v1_ref", isRef: true}, {name: "v1_prim", prim: true}}, []ledgerItem{{name: "t1"}, {name: "t1_protected", protected: true}})
		s2 = mkScope(s1, []ledgerItem{{name: "v2"}}, []ledgerItem{{name: "t2"}, {name: "t2_prim", prim: true}})
		cobj.set("scp", s2)
		cobj.set("cfscp", fn)
		cobj.set("curLoopScope", s1)
		cobj.set("optimizationLevel", ConstV{V: constant.MakeInt64(0), T: types.Typ[types.Int]})
		return
	}
	type scen struct {
		key  string
		run  func(cobj *Obj)
		want []string
		why  string
	}
	fnDecl := newObj("ast.FuncDecl")
	scens := []scen{
		{"compiler.(*compiler).exitScope|innermost scope", func(cobj *Obj) {
			in.CallFunc(L.Fn("src/compiler.(*compiler).exitScope"), cobj, []Val{cobj.get("scp")})
		}, []string{"v2", "t2"}, "leaving a block"},
		{"compiler.(*compiler).exitScope|scope with protected and reference entries", func(cobj *Obj) {
			s2 := cobj.get("scp").(*Obj)
			in.CallFunc(L.Fn("src/compiler.(*compiler).exitScope"), cobj, []Val{s2.get("enclosing")})
		}, []string{"v1", "t1"}, "leaving a block that holds a reference, a protected variable (freed by hand by its loop) and a protected temporary"},
		{"compiler.(*compiler).exitNestedScopes|break/continue out of two scopes", func(cobj *Obj) {
			in.CallFunc(L.Fn("src/compiler.(*compiler).exitNestedScopes"), cobj, []Val{cobj.get("curLoopScope")})
		}, []string{"v2", "t2", "v1", "t1"}, "Verlasse/Fahre fort from an inner block of a loop"},
		{"compiler.(*compiler).VisitReturnStmt|return without value from two nested scopes", func(cobj *Obj) {
			n := newObj("ast.ReturnStmt")
			n.set("Value", NilV{})
			n.set("Func", fnDecl)
			in.CallFunc(L.Fn("src/compiler.(*compiler).VisitReturnStmt"), cobj, []Val{n})
		}, []string{"v2", "t2", "v1", "v1_protected", "t1", "t1_protected", "p_val", "t_fn"}, "Gib zurück inside nested blocks (e.g. inside a for-each loop, whose loop variable and iterated value are protected entries)"},
		{"compiler.(*compiler).exitFuncScope|end of function", func(cobj *Obj) {
			cobj.set("scp", cobj.get("cfscp"))
			in.CallFunc(L.Fn("src/compiler.(*compiler).exitFuncScope"), cobj, []Val{fnDecl})
		}, []string{"p_val", "t_fn"}, "falling off the end of a function"},
	}
	for _, sc := range scens {
		var bad []string
		runs := 0
		in.RunAll(32, func() {
			cobj := mk()
			build(cobj)
			sc.run(cobj)
			runs++
			got := freedIn(in.Events)
			if !sameMultiset(got, sc.want) {
				bad = append(bad, fmt.Sprintf("frees %v, the ledger owns %v", got, sc.want))
			}
			for _, e := range in.Events {
				if e.Kind == "panic" || e.Kind == "fault" {
					bad = append(bad, e.Kind+": "+e.Msg)
				}
			}
		})
		if runs == 0 || len(in.Undecided) > 0 {
			r.Und(sc.key, token.NoPos, fmt.Sprint("not evaluated: ", in.Undecided))
			continue
		}
		r.Decide(len(bad) == 0, sc.key, token.NoPos, "frees exactly "+strings.Join(sc.want, ", "), strings.Join(uniq(bad), "; ")+" ("+sc.why+"): values owned by the left scopes leak, or values owned elsewhere are released twice")
	}
}

// R5.2: arms of 'if T.IsPrimitive() {A} else {B}' that write the same number (>= 1) of destinations must write the same
// destinations (store in one arm, deep copy in the other).
func checkC05Arms(c *Check, L *Loaded) {
	r := c.Rule("R5.2", "the primitive and the non-primitive arm of a generator branch initialise the same destinations", 4)
	cp := L.ByRel["src/compiler"]
	info := cp.TypesInfo
	isPrimCall := func(e ast.Expr) bool {
		e = ast.Unparen(e)
		if u, ok := e.(*ast.UnaryExpr); ok && u.Op == token.NOT {
			e = ast.Unparen(u.X)
		}
		call, ok := e.(*ast.CallExpr)
		if !ok {
			return false
		}
		sel, ok := call.Fun.(*ast.SelectorExpr)
		return ok && sel.Sel.Name == "IsPrimitive"
	}
	dests := func(b ast.Node) []string {
		var out []string
		// locals defined once inside the arm stand for their initialiser
		alias := map[types.Object]string{}
		ast.Inspect(b, func(n ast.Node) bool {
			if as, ok := n.(*ast.AssignStmt); ok && as.Tok == token.DEFINE && len(as.Lhs) == len(as.Rhs) {
				for i, l := range as.Lhs {
					if id, ok := l.(*ast.Ident); ok && info.Defs[id] != nil {
						alias[info.Defs[id]] = types.ExprString(as.Rhs[i])
					}
				}
			}
			return true
		})
		str := func(e ast.Expr) string {
			if id, ok := ast.Unparen(e).(*ast.Ident); ok {
				if a, ok := alias[info.Uses[id]]; ok {
					return a
				}
			}
			return types.ExprString(e)
		}
		ast.Inspect(b, func(n ast.Node) bool {
			if _, ok := n.(*ast.FuncLit); ok {
				return false
			}
			call, ok := n.(*ast.CallExpr)
			if !ok {
				return true
			}
			fn := Callee(info, call)
			name := ""
			if fn != nil {
				name = fn.Name()
			}
			switch {
			case name == "NewStore" && len(call.Args) == 2:
				out = append(out, str(call.Args[1]))
			case name == "deepCopyInto" && len(call.Args) == 3:
				out = append(out, str(call.Args[0]))
			case name == "claimOrCopy" && len(call.Args) == 4:
				out = append(out, str(call.Args[0]))
			case name == "NewCall" && len(call.Args) >= 3:
				if inner, ok := call.Args[0].(*ast.CallExpr); ok {
					if s, ok := inner.Fun.(*ast.SelectorExpr); ok && s.Sel.Name == "DeepCopyFunc" {
						out = append(out, str(call.Args[1]))
					}
				}
			}
			return true
		})
		return out
	}
	seen := map[string]int{}
	for _, f := range cp.Syntax {
		var encl string
		ast.Inspect(f, func(n ast.Node) bool {
			if fd, ok := n.(*ast.FuncDecl); ok {
				encl = fd.Name.Name
				if fd.Recv != nil && len(fd.Recv.List) > 0 {
					encl = "(*compiler)." + encl
				}
			}
			is, ok := n.(*ast.IfStmt)
			if !ok || is.Else == nil || !isPrimCall(is.Cond) {
				return true
			}
			a, b := dests(is.Body), dests(is.Else)
			if len(a) == 0 || len(a) != len(b) {
				return true // arms that write different numbers of destinations are not comparable
			}
			seen[encl]++
			key := "compiler." + encl + "|IsPrimitive arms"
			if seen[encl] > 1 {
				key += fmt.Sprintf(" #%d", seen[encl])
			}
			if sameMultiset(a, b) {
				r.OK(key, is.Pos(), "both arms initialise "+strings.Join(a, ", "))
			} else {
				r.Bad(key, is.Pos(), fmt.Sprintf("one arm initialises %v, the other %v: a destination is written twice (its first value leaks) and another stays uninitialised (later freed or read)", a, b))
			}
			return true
		})
	}
}

// ---- R5.1: the result register and the temporaries ledger, per expression visitor ----

type ledgerVerdict struct {
	bad []string
}

func irComponents(v *IRVal) []*IRVal {
	if v == nil {
		return nil
	}
	if v.Op == "phi" || v.Op == "select" {
		var out []*IRVal
		for _, a := range v.Args {
			out = append(out, irComponents(a)...)
		}
		return out
	}
	return []*IRVal{v}
}

// baseOperand: the operand a pointer is derived from by element/field addressing (nil if none)
func baseOperand(v *IRVal) *IRVal {
	for v != nil {
		switch v.Op {
		case "operand":
			return v
		case "elementptr", "getelementptr", "bitcast":
			if len(v.Args) == 0 {
				return nil
			}
			v = v.Args[0]
		case "load":
			// load of a pointer field (list->arr) keeps the owner
			if len(v.Args) == 1 {
				v = v.Args[0]
			} else {
				return nil
			}
		default:
			return nil
		}
	}
	return nil
}

// takenOver: field name of a concatenation function -> index of the argument it takes over (from the generator itself)
var takenOver map[string][]int

func analyseLedger(in *Interp, cobj *Obj, temps map[string]bool, opt ...func(*IRVal) bool) []string {
	var bad []string
	// opt[0]: destinations owned by someone else (a statement's target); a statement has no result register
	var isDest func(*IRVal) bool
	if len(opt) > 0 {
		isDest = opt[0]
	}
	ledger := map[*IRVal]bool{}
	operand := map[*IRVal]string{}
	owning := map[*IRVal]string{} // fresh allocas that hold an owned value: how they got it
	handed := map[*IRVal]bool{}   // given to a callee that takes the value over, or moved out
	// run-time conditional regions (branches of createIfElse, bodies of createFor): claiming a temporary removes it from the
	// scope's list at COMPILE time, i.e. for every run-time path; if the code that takes it over is emitted inside a region
	// that was opened after the value was created, the value is owned by nobody on the paths that skip the region
	// (a branch whose sibling ends the program with a run-time error is not "skipped": nothing runs after it)
	type region struct {
		loop             bool
		inElse           bool
		thenErr, elseErr bool
		begin            int
	}
	regionErr := map[int][2]bool{} // begin index of an if/else region -> (then raises, else raises)
	{
		var st []*region
		for i, e := range in.Events {
			switch e.Kind {
			case "ifelse-begin":
				st = append(st, &region{begin: i})
			case "for-begin":
				st = append(st, &region{loop: true, begin: i})
			case "else-begin":
				if len(st) > 0 {
					st[len(st)-1].inElse = true
				}
			case "rterr":
				if len(st) > 0 && !st[len(st)-1].loop {
					if st[len(st)-1].inElse {
						st[len(st)-1].elseErr = true
					} else {
						st[len(st)-1].thenErr = true
					}
				}
			case "ifelse-end", "for-end":
				if len(st) > 0 {
					top := st[len(st)-1]
					regionErr[top.begin] = [2]bool{top.thenErr, top.elseErr}
					st = st[:len(st)-1]
				}
			}
		}
	}
	var open []*region
	createdAt := map[*IRVal]int{}
	for i, e := range in.Events {
		switch e.Kind {
		case "ifelse-begin":
			open = append(open, &region{begin: i})
		case "for-begin":
			open = append(open, &region{loop: true, begin: i})
		case "else-begin":
			if len(open) > 0 {
				open[len(open)-1].inElse = true
			}
		case "ifelse-end", "for-end":
			if len(open) > 0 {
				open = open[:len(open)-1]
			}
		case "claim":
			if v, ok := e.Data[0].(*IRVal); ok {
				if d0, known := createdAt[v]; known {
					for _, rg := range open[min(d0, len(open)):] {
						errs := regionErr[rg.begin]
						siblingEnds := !rg.loop && ((rg.inElse && errs[0]) || (!rg.inElse && errs[1]))
						if !siblingEnds {
							bad = append(bad, in.L.Pos(e.Pos)+": a temporary is claimed by code that only runs under a run-time condition (inside a generated if/else or loop opened after the value was created, whose other path continues): the scope forgets it on every path, but it is taken over only when that code runs - on the other paths its blocks are never released")
							break
						}
					}
				}
			}
		}
		depth := len(open)
		switch {
		case strings.HasPrefix(e.Kind, "evaluate:"):
			if v, ok := e.Data[1].(*IRVal); ok {
				createdAt[v] = depth
				name := strings.TrimPrefix(e.Kind, "evaluate:")
				operand[v] = name
				if temps[name] {
					ledger[v] = true
				}
			}
		case e.Kind == "addTemp":
			v, _ := e.Data[0].(*IRVal)
			if g, ok := e.Data[1].(*GenT); ok && g.prim() {
				continue
			}
			if ledger[v] {
				bad = append(bad, in.L.Pos(e.Pos)+": a value that is already a registered temporary is registered again: it is released twice when the scope ends")
			}
			for _, cpt := range irComponents(v) {
				if b := baseOperand(cpt); b != nil && !temps[operand[b]] && cpt.Op != "alloca" {
					if cpt == b || cpt.Op != "operand" {
						bad = append(bad, in.L.Pos(e.Pos)+": storage of the operand "+operand[b]+", which is not a temporary (it belongs to a variable, element or field), is registered as a temporary: the scope end releases memory its owner releases again")
					}
				}
			}
			ledger[v] = true
		case e.Kind == "claim":
			v, _ := e.Data[0].(*IRVal)
			if !ledger[v] {
				bad = append(bad, in.L.Pos(e.Pos)+": claimTemporary of a value that is not a registered temporary (the compiler panics: 'attempted Value claim not found')")
			}
			delete(ledger, v)
			handed[v] = true
		case e.Kind == "deepCopy":
			if d, ok := e.Data[0].(*IRVal); ok && d.Op == "alloca" {
				owning[d] = "deep copy at " + in.L.Pos(e.Pos)
			}
		case e.Kind == "call":
			if strings.HasSuffix(e.Msg, ".FreeFunc") {
				if v, ok := e.Data[1].(*IRVal); ok {
					if ledger[v] {
						bad = append(bad, in.L.Pos(e.Pos)+": a registered temporary is released explicitly and again when its scope ends")
					} else if n, isOp := operand[v]; isOp && !temps[n] {
						bad = append(bad, in.L.Pos(e.Pos)+": the operand "+n+", which is not a temporary, is released although its owner releases it")
					}
					delete(owning, v)
				}
				continue
			}
			if strings.HasSuffix(e.Msg, ".EqualsFunc") {
				continue
			}
			for _, idx := range takenOver[e.Msg[strings.LastIndex(e.Msg, ".")+1:]] {
				if idx+1 >= len(e.Data) {
					continue
				}
				if v, ok := e.Data[idx+1].(*IRVal); ok {
					if n, isOp := operand[v]; isOp && !temps[n] {
						bad = append(bad, in.L.Pos(e.Pos)+": the operand "+n+", which is not a temporary, is handed to "+e.Msg+", which takes its buffer over and empties it: the variable it belongs to loses its value")
					}
				}
			}
			for i, a := range e.Data[1:] {
				v, ok := a.(*IRVal)
				if !ok || v.Op != "alloca" {
					continue
				}
				if i == 0 {
					if _, was := owning[v]; !was {
						owning[v] = "result of " + e.Msg + " at " + in.L.Pos(e.Pos)
					}
				} else if _, own := owning[v]; own && strings.Contains(e.Msg, "concat") {
					handed[v] = true // concatenation functions take their claimed operand over (R5.7)
				}
			}
		case e.Kind == "store":
			// store(load(x), dest): the value of x moves into dest
			if val, ok := e.Data[0].(*IRVal); ok && val.Op == "load" && len(val.Args) == 1 {
				if d, ok := e.Data[1].(*IRVal); ok {
					src := val.Args[0]
					if handed[src] || owning[src] != "" {
						handed[src] = true
						if d.Op == "alloca" {
							owning[d] = "value moved in at " + in.L.Pos(e.Pos)
						}
					}
				}
			}
		}
	}
	ret, _ := cobj.get("latestReturn").(*IRVal)
	rt, _ := cobj.get("latestReturnType").(*GenT)
	isTemp, known := truth(cobj.get("latestIsTemp"))
	if isDest != nil {
		ret, rt = nil, nil
	}
	if rt != nil && !rt.prim() && ret != nil {
		if !known {
			bad = append(bad, "latestIsTemp is not determined for a non-primitive result")
		} else if isTemp && !ledger[ret] {
			bad = append(bad, "the visitor reports its non-primitive result as a temporary, but the result is not registered in the scope's temporaries: a consumer that claims it makes the compiler panic, and nothing releases it otherwise")
		} else if !isTemp {
			// a non-temporary result must not point into a temporary operand: the temporary is released when its scope ends
			// (the end of a falls branch, of a loop iteration, of the statement) while the consumer may read the result later
			for _, cpt := range irComponents(ret) {
				if b := baseOperand(cpt); b != nil && b != ret && temps[operand[b]] && ledger[b] {
					bad = append(bad, "the visitor returns, as a non-temporary, a pointer into its temporary operand "+operand[b]+" (which stays registered and is released with its scope): the result dangles as soon as that scope ends - e.g. a field of a temporary Kombination taken inside a falls branch")
				}
			}
			for _, cpt := range irComponents(ret) {
				if how, own := owning[cpt]; own && !ledger[cpt] && !ledger[ret] && !handed[cpt] {
					bad = append(bad, "the visitor returns a freshly created value ("+how+") as a non-temporary without registering it: the consumer copies it and nothing releases the original")
				}
			}
		}
	}
	var allocs []*IRVal
	for a := range owning {
		allocs = append(allocs, a)
	}
	sort.Slice(allocs, func(i, j int) bool { return allocs[i].Src < allocs[j].Src })
	for _, a := range allocs {
		if ledger[a] || handed[a] || (isDest != nil && isDest(a)) {
			continue
		}
		inResult := false
		for _, cpt := range irComponents(ret) {
			if cpt == a {
				inResult = true
			}
		}
		if inResult && (ledger[ret] || (known && !isTemp)) {
			continue // covered above
		}
		if !inResult {
			bad = append(bad, "a value created here ("+owning[a]+") is neither registered as a temporary, handed to a callee that takes it over, nor moved: it leaks")
		}
	}
	return uniq(bad)
}

func checkC05Ledger(c *Check, L *Loaded) {
	r := c.Rule("R5.1", "expression visitors keep the temporaries ledger consistent with what they report: results flagged temporary are registered, nothing borrowed is registered or released, every value created is registered, handed over or moved", 150)
	tier := "quick"
	if c.Tier == "thorough" {
		tier = "thorough"
	}
	t := computeCheckerTables(L, tier)
	in, mk := newGeneratorInterp(L)
	type job struct {
		keys   []string
		m      map[string]*ChkCell
		method string
		kind   string
		names  []string
	}
	jobs := []job{{t.keysU, t.Unary, "VisitUnaryExpr", "ast.UnaryExpr", []string{"rhs"}}, {t.keysB, t.Binary, "VisitBinaryExpr", "ast.BinaryExpr", []string{"lhs", "rhs"}}, {t.keysT, t.Ternary, "VisitTernaryExpr", "ast.TernaryExpr", []string{"lhs", "mid", "rhs"}}, {t.keysC, t.Cast, "VisitCastExpr", "ast.CastExpr", []string{"lhs"}}}
	fields := map[string]string{"lhs": "Lhs", "mid": "Mid", "rhs": "Rhs"}
	// which argument a C concatenation function takes over is read off the C source (takenOverByC), independently of the generator
	takenOver = map[string][]int{}
	if P, err := LoadC(repoDirC(), true); err == nil {
		takenOver = takenOverByC(L, P)
	}
	c.extra["operands_taken_over_by_c_concat"] = fmt.Sprint(takenOver)
	type agg struct {
		n   int
		bad []string
	}
	groups := map[string]*agg{}
	var order []string
	for _, jb := range jobs {
		for _, k := range jb.keys {
			cc := jb.m[k]
			if adm, dec := cc.Admitted(); !dec || !adm {
				continue
			}
			ds := t.coords[k]
			ops := ds
			if jb.method == "VisitCastExpr" {
				ops = ds[1:]
			}
			any, void := false, false
			for _, d := range ds {
				if d.Kind == "VOID" {
					void = true
				}
				if nonPrimDT(d) {
					any = true
				}
			}
			if !any || void {
				continue
			}
			var npIdx []int
			for i, d := range ops {
				if nonPrimDT(d) {
					npIdx = append(npIdx, i)
				}
			}
			for mask := 0; mask < 1<<len(npIdx); mask++ {
				var node *Obj
				if jb.method == "VisitCastExpr" {
					node = genNode(jb.kind, nil, jb.names, ops)
					node.set("TargetType", TypeV{ds[0]})
				} else {
					node = genNode(jb.kind, opVal(t.ops[k]), jb.names, ops)
				}
				temps := map[string]bool{}
				var flags []string
				for i, nm := range jb.names {
					o := node.get(fields[nm]).(*Obj)
					tf := false
					for bi, ix := range npIdx {
						if ix == i && mask&(1<<bi) != 0 {
							tf = true
						}
					}
					o.set("temp", boolV(tf))
					temps[nm] = tf
					if nonPrimDT(ops[i]) {
						if tf {
							flags = append(flags, nm+" temporary")
						} else {
							flags = append(flags, nm+" not temporary")
						}
					}
				}
				gk := jb.method + " " + groupKey(cellVerdict{Key: k, Classes: ds, Op: t.ops[k].Name, Method: jb.method}) + "|" + strings.Join(flags, ", ")
				g := groups[gk]
				if g == nil {
					g = &agg{}
					groups[gk] = g
					order = append(order, gk)
				}
				in.RunAll(64, func() {
					cobj := mk()
					in.CallFunc(L.Fn("src/compiler.(*compiler)."+jb.method), cobj, []Val{node})
					for _, e := range in.Events {
						if e.Kind == "cerr" || e.Kind == "panic" {
							return // C02's business
						}
					}
					g.n++
					g.bad = append(g.bad, analyseLedger(in, cobj, temps)...)
				})
			}
		}
	}
	for _, gk := range order {
		g := groups[gk]
		if g.n == 0 {
			continue
		}
		r.Decide(len(g.bad) == 0, "compiler.(*compiler)."+gk, token.NoPos, "ledger consistent", strings.Join(uniq(g.bad), "; "))
	}
}

// ---- R5.6: statements that store a value into an owned destination ----

// storeProtocol inspects how the destination D receives its value: a deep copy, or a bitwise move of a value whose ownership
// was given up before (claimed temporary / fresh value). Returns problems; freeFirst demands a release of D before.
func storeProtocol(in *Interp, isDest func(*IRVal) bool, temps map[string]bool, freeFirst bool) (inits int, bad []string) {
	claimed := map[*IRVal]bool{}
	moved := map[*IRVal]bool{} // sources whose loaded value was moved into the destination as its owner
	operand := map[*IRVal]string{}
	type initEv struct {
		pos    string
		owning bool   // establishes ownership of a block: deep copy, or move of a claimed temporary
		alias  string // non-empty: bitwise move of a value someone else still owns
	}
	var seq []initEv
	freedSinceInit := false
	everFreed := false
	for _, e := range in.Events {
		switch {
		case strings.HasPrefix(e.Kind, "evaluate:"):
			if v, ok := e.Data[1].(*IRVal); ok {
				operand[v] = strings.TrimPrefix(e.Kind, "evaluate:")
			}
		case e.Kind == "claim":
			if v, ok := e.Data[0].(*IRVal); ok {
				claimed[v] = true
			}
		case e.Kind == "call" && strings.HasSuffix(e.Msg, ".FreeFunc"):
			if v, ok := e.Data[1].(*IRVal); ok && isDest(v) {
				if len(seq) > 0 {
					bad = append(bad, in.L.Pos(e.Pos)+": the destination is released after its new value was stored")
				}
				if everFreed {
					bad = append(bad, in.L.Pos(e.Pos)+": the destination is released twice")
				}
				everFreed, freedSinceInit = true, true
			} else if ok && moved[v] {
				bad = append(bad, in.L.Pos(e.Pos)+": the value that was moved into the destination is released afterwards: the destination keeps a released block (use after free, released again with the destination)")
			}
		case e.Kind == "deepCopy":
			if d, ok := e.Data[0].(*IRVal); ok && isDest(d) {
				seq = append(seq, initEv{pos: in.L.Pos(e.Pos), owning: true})
			}
		case e.Kind == "store":
			d, ok := e.Data[1].(*IRVal)
			if !ok || !isDest(d) {
				continue
			}
			val, _ := e.Data[0].(*IRVal)
			if val == nil || val.Op != "load" || len(val.Args) != 1 {
				continue
			}
			src := val.Args[0]
			ev := initEv{pos: in.L.Pos(e.Pos)}
			if n, isOp := operand[src]; isOp {
				if claimed[src] {
					ev.owning = true
				} else if temps[n] {
					ev.alias = "the temporary " + n + " is moved into the destination bitwise without being claimed: the scope end releases the block the destination now owns"
				} else {
					ev.alias = "the value of " + n + ", which is not a temporary, is moved into the destination bitwise instead of being copied: two owners share one block (a change through one is seen through the other, and it is released twice)"
				}
			} else {
				ev.owning = true // a fresh value built in place
			}
			if ev.owning {
				moved[src] = true
			}
			seq = append(seq, ev)
		}
	}
	_ = freedSinceInit
	inits = len(seq)
	if inits == 0 {
		return
	}
	if freeFirst && !everFreed {
		bad = append(bad, seq[0].pos+": the destination still owns its old value when the new one is stored: the old value leaks")
	}
	last := seq[len(seq)-1]
	if last.alias != "" {
		bad = append(bad, last.pos+": "+last.alias)
	}
	for _, ev := range seq[:len(seq)-1] {
		if ev.owning {
			bad = append(bad, ev.pos+": a value the destination already owns is overwritten by a later store without being released: it leaks")
		}
	}
	return
}

func checkC05Stores(c *Check, L *Loaded) {
	r := c.Rule("R5.6", "a statement that stores into an owned destination releases the old value first and then copies a non-temporary or claims and moves a temporary, exactly once", 20)
	runStoreScenarios(L, func(k string, runs int, bad []string) {
		if runs == 0 {
			r.Und(k, token.NoPos, "not evaluated")
			return
		}
		r.Decide(len(bad) == 0, k, token.NoPos, "old value released first (where there is one); copy of a non-temporary / claim and move of a temporary; once", strings.Join(uniq(bad), "; "))
	})
}

// runStoreScenarios evaluates the storing statements for every non-primitive class and temporariness and reports the problems found
// (shared by C05 R5.6 and C08 R8.1).
func runStoreScenarios(L *Loaded, report func(key string, runs int, bad []string)) {
	in, mk := newGeneratorInterp(L)
	npTypes := []*DT{{Kind: "TEXT"}, {Kind: "LIST", Elem: &DT{Kind: "ZAHL"}}, {Kind: "LIST", Elem: &DT{Kind: "TEXT"}}, {Kind: "VARIABLE"}, {Kind: "STRUCT", Name: "Punkt"}}
	type scen struct {
		name      string
		method    string
		freeFirst bool
		build     func(d *DT, temp bool) (*Obj, func(*IRVal) bool)
	}
	varIdent := func(d *DT) *Obj {
		decl := newObj("ast.VarDecl")
		decl.set("Type", TypeV{d})
		id := newObj("ast.Ident")
		id.set("Declaration", decl)
		return id
	}
	scens := []scen{
		{"VisitAssignStmt to a variable", "VisitAssignStmt", true, func(d *DT, temp bool) (*Obj, func(*IRVal) bool) {
			n := newObj("ast.AssignStmt")
			rhs := exprNode("Rhs", d)
			rhs.set("temp", boolV(temp))
			n.set("Rhs", rhs)
			n.set("Var", varIdent(d))
			n.set("VarType", TypeV{d})
			n.set("RhsType", TypeV{d})
			return n, func(v *IRVal) bool { return v.Op == "operand" && v.Src == "var" }
		}},
		{"VisitAssignStmt to a list element", "VisitAssignStmt", true, func(d *DT, temp bool) (*Obj, func(*IRVal) bool) {
			n := newObj("ast.AssignStmt")
			rhs := exprNode("Rhs", d)
			rhs.set("temp", boolV(temp))
			n.set("Rhs", rhs)
			ix := newObj("ast.Indexing")
			ix.set("Lhs", varIdent(&DT{Kind: "LIST", Elem: d}))
			ix.set("Index", exprNode("Index", &DT{Kind: "ZAHL"}))
			n.set("Var", ix)
			n.set("VarType", TypeV{d})
			n.set("RhsType", TypeV{d})
			return n, func(v *IRVal) bool { return v.Op == "elementptr" }
		}},
		{"VisitVarDecl (local)", "VisitVarDecl", false, func(d *DT, temp bool) (*Obj, func(*IRVal) bool) {
			n := newObj("ast.VarDecl")
			n.set("Type", TypeV{d})
			n.set("InitType", TypeV{d})
			iv := exprNode("InitVal", d)
			iv.set("temp", boolV(temp))
			n.set("InitVal", iv)
			n.set("name", StrV("v"))
			// the declaration's own slot is the first alloca of the run
			return n, nil
		}},
		{"VisitReturnStmt with a value", "VisitReturnStmt", false, func(d *DT, temp bool) (*Obj, func(*IRVal) bool) {
			n := newObj("ast.ReturnStmt")
			v := exprNode("Value", d)
			v.set("temp", boolV(temp))
			n.set("Value", v)
			fd := newObj("ast.FuncDecl")
			fd.set("ReturnType", TypeV{d})
			n.set("Func", fd)
			return n, func(v *IRVal) bool { return v.Op == "retparam" }
		}},
	}
	for _, sc := range scens {
		for _, d := range npTypes {
			for _, temp := range []bool{false, true} {
				var bad []string
				runs, inits := 0, 0
				in.RunAll(64, func() {
					cobj := mk()
					fobj := newObj("ir.Func")
					fobj.set("Params", SliceV{Elems: []Val{&IRVal{Op: "retparam", Class: "ptr"}}})
					cobj.set("cf", fobj)
					cobj.set("cfscp", newObj("scope"))
					node, isDest := sc.build(d, temp)
					var firstAlloca *IRVal
					if isDest == nil {
						isDest = func(v *IRVal) bool { return firstAlloca != nil && v == firstAlloca }
					}
					before := allocaSeq
					in.CallFunc(L.Fn("src/compiler.(*compiler)."+sc.method), cobj, []Val{node})
					for _, e := range in.Events {
						if e.Kind == "cerr" || e.Kind == "panic" {
							return
						}
					}
					if sc.method == "VisitVarDecl" {
						// find the first alloca created in this run (the variable's slot)
						want := fmt.Sprint("a", before+1)
						for _, e := range in.Events {
							for _, dv := range e.Data {
								if v, ok := dv.(*IRVal); ok && v.Op == "alloca" && v.Src == want {
									firstAlloca = v
								}
							}
						}
					}
					runs++
					key := "Rhs"
					switch sc.method {
					case "VisitVarDecl":
						key = "InitVal"
					case "VisitReturnStmt":
						key = "Value"
					}
					n, b := storeProtocol(in, isDest, map[string]bool{key: temp}, sc.freeFirst)
					inits += n
					bad = append(bad, b...)
					if n == 0 {
						bad = append(bad, "the destination never receives the value")
					}
					bad = append(bad, analyseLedger(in, cobj, map[string]bool{key: temp}, isDest)...)
				})
				tf := "not temporary"
				if temp {
					tf = "temporary"
				}
				k := "compiler.(*compiler)." + sc.name + "|" + toGen(d).String() + ", value " + tf
				_ = inits
				report(k, runs, bad)
			}
		}
	}
}

// R5.3 (generator side): freeArr/growArr state the capacity field of the list whose array field they release or resize.
func checkC05GoSizes(c *Check, L *Loaded, r *Rule) {
	cp := L.ByRel["src/compiler"]
	info := cp.TypesInfo
	for _, fi := range L.sortedFuncs() {
		if fi.Pkg != cp || fi.Decl.Body == nil {
			continue
		}
		// locals defined once
		alias := map[types.Object]ast.Expr{}
		ast.Inspect(fi.Decl.Body, func(n ast.Node) bool {
			if as, ok := n.(*ast.AssignStmt); ok && as.Tok == token.DEFINE && len(as.Lhs) == len(as.Rhs) {
				for i, l := range as.Lhs {
					if id, ok := l.(*ast.Ident); ok && info.Defs[id] != nil {
						alias[info.Defs[id]] = as.Rhs[i]
					}
				}
			}
			return true
		})
		resolve := func(e ast.Expr) ast.Expr {
			for i := 0; i < 4; i++ {
				id, ok := ast.Unparen(e).(*ast.Ident)
				if !ok {
					break
				}
				a, ok := alias[info.Uses[id]]
				if !ok {
					break
				}
				e = a
			}
			return e
		}
		fieldOfList := func(e ast.Expr) (base, field string, ok bool) {
			call, isCall := resolve(e).(*ast.CallExpr)
			if !isCall || len(call.Args) != 2 {
				return
			}
			if fn := Callee(info, call); fn == nil || !nameIs(fn, "loadStructField") {
				return
			}
			return types.ExprString(call.Args[0]), types.ExprString(call.Args[1]), true
		}
		n := 0
		ast.Inspect(fi.Decl.Body, func(nd ast.Node) bool {
			call, ok := nd.(*ast.CallExpr)
			if !ok {
				return true
			}
			fn := Callee(info, call)
			if fn == nil || (!nameIs(fn, "freeArr") && !nameIs(fn, "growArr")) || fn.Pkg() != cp.Types {
				return true
			}
			n++
			key := fmt.Sprintf("%s|%s", L.QName(fi.Obj), fn.Name())
			if n > 1 {
				key += fmt.Sprintf(" #%d", n)
			}
			pb, pf, ok1 := fieldOfList(call.Args[0])
			sb, sf, ok2 := fieldOfList(call.Args[1])
			switch {
			case !ok1 || !ok2:
				r.Und(key, call.Pos(), "pointer or old size is not read from a list field: "+types.ExprString(call))
			case pf == "list_arr_field_index" && sf == "list_cap_field_index" && pb == sb:
				r.OK(key, call.Pos(), "array and capacity of "+pb)
			default:
				r.Bad(key, call.Pos(), fmt.Sprintf("the array of %s (%s) is released/resized stating %s of %s as its old size: the size given to ddp_reallocate is not the size of the block", pb, pf, sf, sb))
			}
			return true
		})
	}
}

// R5.12: capacity truth in the generated list helpers. Every array that a generated list function allocates for a list
// is allocated for exactly the number of elements the function records in that list's capacity field: the allocation's
// element count is the value stored into the capacity (or a load of the capacity after it was stored). A list whose
// recorded capacity exceeds its block is written past the end by the in-place append, and released/resized with a wrong
// old size.
func checkC05CapacityTruth(c *Check, L *Loaded) {
	r := c.Rule("R5.12", "generated list helpers allocate the array for exactly the recorded capacity", 4)
	cp := L.ByRel["src/compiler"]
	idx := func(name string, def int64) int64 {
		if cst, ok := cp.Types.Scope().Lookup(name).(*types.Const); ok {
			if v, exact := constant.Int64Val(cst.Val()); exact {
				return v
			}
		}
		return def
	}
	arrIdx, capIdx := idx("list_arr_field_index", 0), idx("list_cap_field_index", 2)
	var sym func(v *IRVal, d int) string
	sym = func(v *IRVal, d int) string {
		if v == nil || d > 10 {
			return "?"
		}
		s := v.Op
		if v.Op == "operand" || v.Op == "param" {
			s = v.Src
		}
		if v.K != nil {
			s += fmt.Sprint("#", *v.K)
		}
		if v.Pred != "" {
			s += ":" + v.Pred
		}
		if len(v.Args) > 0 {
			s += "("
			for i, a := range v.Args {
				if i > 0 {
					s += ","
				}
				s += sym(a, d+1)
			}
			s += ")"
		}
		return s
	}
	// (base, field) of a destination getelementptr(base, 0, field)
	fieldOfDest := func(v *IRVal) (string, int64, bool) {
		if v == nil || v.Op != "getelementptr" || len(v.Args) < 3 || v.Args[len(v.Args)-1].K == nil {
			return "", 0, false
		}
		return sym(v.Args[0], 0), *v.Args[len(v.Args)-1].K, true
	}
	var allocs func(v *IRVal, d int) []*IRVal
	allocs = func(v *IRVal, d int) []*IRVal {
		if v == nil || d > 6 {
			return nil
		}
		if v.Op == "allocateArr" {
			return []*IRVal{v}
		}
		var out []*IRVal
		if v.Op == "select" || v.Op == "bitcast" {
			for _, a := range v.Args {
				out = append(out, allocs(a, d+1)...)
			}
		}
		return out
	}
	for _, fn := range []string{"createListFromConstants", "createListDeepCopy", "createListSlice", "createListConcats"} {
		fi := L.Fn("src/compiler.(*compiler)." + fn)
		if fi == nil {
			r.Und("compiler.(*compiler)."+fn, token.NoPos, "function not found")
			continue
		}
		for _, elem := range []*GenT{{Kind: "int"}, {Kind: "string"}} {
			in, mk := newGeneratorInterp(L)
			key := "compiler.(*compiler)." + fn + "|element " + elem.String()
			var bad []string
			runs, nAlloc := 0, 0
			in.RunAll(16, func() {
				cobj := mk()
				in.CallFunc(fi, cobj, []Val{&GenT{Kind: "list", Elem: elem}, boolV(false)})
				for _, e := range in.Events {
					if e.Kind == "cerr" || e.Kind == "panic" {
						return
					}
				}
				runs++
				type st struct {
					base string
					val  *IRVal
					pos  int
				}
				var capStores, arrStores []st
				n := 0
				for _, e := range in.Events {
					if e.Kind != "store" || len(e.Data) < 2 {
						continue
					}
					n++
					val, _ := e.Data[0].(*IRVal)
					dst, _ := e.Data[1].(*IRVal)
					base, f, ok := fieldOfDest(dst)
					if !ok || val == nil {
						continue
					}
					switch f {
					case capIdx:
						capStores = append(capStores, st{base, val, n})
					case arrIdx:
						if len(allocs(val, 0)) > 0 {
							arrStores = append(arrStores, st{base, val, n})
						}
					}
				}
				for _, as := range arrStores {
					// the capacity store of the same list that belongs to this allocation: the last one before it, else the first after it
					var cs *st
					for i := range capStores {
						if capStores[i].base == as.base && capStores[i].pos < as.pos {
							cs = &capStores[i]
						}
					}
					before := cs != nil
					if cs == nil {
						for i := range capStores {
							if capStores[i].base == as.base && capStores[i].pos > as.pos {
								cs = &capStores[i]
								break
							}
						}
					}
					for _, al := range allocs(as.val, 0) {
						nAlloc++
						if len(al.Args) == 0 {
							continue
						}
						count := al.Args[len(al.Args)-1]
						if cs == nil {
							bad = append(bad, "an array is allocated for "+as.base+" but its capacity is never recorded")
							continue
						}
						same := sym(count, 0) == sym(cs.val, 0)
						loadsCap := false
						if count.Op == "load" && len(count.Args) == 1 {
							if b, f, ok := fieldOfDest(count.Args[0]); ok && b == as.base && f == capIdx && before {
								loadsCap = true
							}
						}
						if !same && !loadsCap {
							bad = append(bad, fmt.Sprintf("the array of %s is allocated for %s elements but the capacity recorded for it is %s", as.base, count, cs.val))
						}
					}
				}
			})
			switch {
			case runs == 0:
				r.Und(key, fi.Decl.Pos(), "not evaluated")
			case len(bad) > 0:
				r.Bad(key, fi.Decl.Pos(), strings.Join(uniq(bad), "; ")+": the list states a capacity its block does not have - the in-place append writes past the end of the block, and the block is released or resized with a wrong old size")
			default:
				r.OK(key, fi.Decl.Pos(), fmt.Sprintf("%d allocation(s): each for exactly the recorded capacity", nAlloc))
			}
		}
	}
}

// R5.13: list literals keep the ledger consistent. `N Mal x` and `eine Liste, die aus a, b besteht` are evaluated for
// non-primitive element types with temporary and non-temporary values; the same ledger analysis as for the expression
// visitors applies (nothing borrowed is registered or released, nothing is released twice), plus: a temporary is never
// claimed by code that only runs under a run-time condition (the fill loop, a generated if/else).
func checkC05ListLiterals(c *Check, L *Loaded) {
	r := c.Rule("R5.13", "list literals keep the temporaries ledger consistent; no temporary is claimed under a run-time condition", 8)
	fi := L.Fn("src/compiler.(*compiler).VisitListLit")
	if fi == nil {
		r.Und("compiler.(*compiler).VisitListLit", token.NoPos, "function not found")
		return
	}
	elemTypes := []*DT{{Kind: "TEXT"}, {Kind: "LIST", Elem: &DT{Kind: "ZAHL"}}, {Kind: "VARIABLE"}, {Kind: "STRUCT", Name: "Punkt"}}
	for _, d := range elemTypes {
		if d.Kind == "LIST" {
			continue // lists of lists are not part of the language's type grammar handled here
		}
		for _, form := range []string{"repeated", "elements"} {
			for _, temp := range []bool{false, true} {
				in, mk := newGeneratorInterp(L)
				key := fmt.Sprintf("compiler.(*compiler).VisitListLit|%s of %s, value temporary=%v", form, toGen(d), temp)
				var bad []string
				runs := 0
				in.RunAll(32, func() {
					cobj := mk()
					n := newObj("ast.ListLit")
					n.set("Type", TypeV{&DT{Kind: "LIST", Elem: d}})
					temps := map[string]bool{}
					if form == "repeated" {
						n.set("Values", NilV{})
						n.set("Count", exprNode("Count", &DT{Kind: "ZAHL"}))
						v := exprNode("Value", d)
						v.set("temp", boolV(temp))
						n.set("Value", v)
						temps["Value"] = temp
					} else {
						a, b := exprNode("a", d), exprNode("b", d)
						a.set("temp", boolV(temp))
						b.set("temp", boolV(false))
						n.set("Values", SliceV{Elems: []Val{a, b}})
						n.set("Count", NilV{})
						n.set("Value", NilV{})
						temps["a"] = temp
					}
					in.CallFunc(fi, cobj, []Val{n})
					for _, e := range in.Events {
						if e.Kind == "cerr" || e.Kind == "panic" {
							return
						}
					}
					runs++
					isSlot := func(v *IRVal) bool { return v != nil && v.Op == "elementptr" }
					bad = append(bad, analyseLedger(in, cobj, temps, isSlot)...)
				})
				switch {
				case runs == 0:
					r.Und(key, fi.Decl.Pos(), "not evaluated")
				default:
					r.Decide(len(bad) == 0, key, fi.Decl.Pos(), fmt.Sprintf("%d evaluation(s): ledger consistent", runs), strings.Join(uniq(bad), "; "))
				}
			}
		}
	}
}

// R5.14: a non-primitive field taken from a Kombination. From a variable the field is lent (a pointer into the variable,
// not a temporary); from a TEMPORARY Kombination it must be moved out (the result is a registered temporary of its own and
// the field is reset), because the temporary Kombination is released with its scope - possibly before the field is used.
func checkC05FieldOfTemporary(c *Check, L *Loaded) {
	r := c.Rule("R5.14", "a non-primitive field of a temporary Kombination is moved out of it, not lent", 2)
	fi := L.Fn("src/compiler.(*compiler).VisitBinaryExpr")
	if fi == nil {
		r.Und("compiler.(*compiler).VisitBinaryExpr", token.NoPos, "function not found")
		return
	}
	var op Val
	for _, o := range operatorConsts(L, "BinaryOperator") {
		if o.Name == "BIN_FIELD_ACCESS" {
			op = opVal(o)
		}
	}
	if op == nil {
		r.Und("ast.BIN_FIELD_ACCESS", token.NoPos, "operator constant not found")
		return
	}
	for _, temp := range []bool{false, true} {
		in, mk := newGeneratorInterp(L)
		in.Models["compiler.getFieldIndex"] = func(in *Interp, pkg *packages.Package, call *ast.CallExpr, recv Val, args []Val) (Val, bool) {
			return ConstV{V: constant.MakeInt64(0), T: types.Typ[types.Int]}, true
		}
		key := fmt.Sprintf("compiler.(*compiler).VisitBinaryExpr|Text field of a Kombination, operand temporary=%v", temp)
		var bad []string
		runs := 0
		in.RunAll(32, func() {
			cobj := mk()
			n := newObj("ast.BinaryExpr")
			n.set("Operator", op)
			n.set("OverloadedBy", NilV{})
			fld := newObj("ast.Ident")
			ft := newObj("token.Token")
			ft.set("Literal", StrV("name"))
			fld.set("Literal", ft)
			fld.set("tok", ft)
			n.set("Lhs", fld)
			rhs := exprNode("rhs", &DT{Kind: "STRUCT", Name: "Punkt"})
			rhs.set("gen", &GenT{Kind: "struct", Name: "Punkt", Fields: []*GenT{{Kind: "string"}, {Kind: "int"}}})
			rhs.set("temp", boolV(temp))
			n.set("Rhs", rhs)
			in.CallFunc(fi, cobj, []Val{n})
			for _, e := range in.Events {
				if e.Kind == "cerr" || e.Kind == "panic" {
					bad = append(bad, e.Kind+": "+e.Msg)
					return
				}
			}
			runs++
			bad = append(bad, analyseLedger(in, cobj, map[string]bool{"rhs": temp})...)
		})
		if runs == 0 && len(bad) == 0 {
			r.Und(key, fi.Decl.Pos(), "not evaluated")
			continue
		}
		r.Decide(len(bad) == 0, key, fi.Decl.Pos(), fmt.Sprintf("%d evaluation(s): ledger consistent", runs), strings.Join(uniq(bad), "; "))
	}
}

// R5.15: assignment of a value that is (part of) the old value of its target. `Speichere x in x.` (or a field/element of x
// into x) evaluates the right-hand side to storage of x itself; the statement must take its copy BEFORE it releases the old
// value of the target. Decided on the event order of VisitAssignStmt evaluated with a non-temporary right-hand side: a
// release of the target that precedes the deep copy from a non-temporary operand means the copy reads released blocks
// whenever that operand is the target's own storage.
func checkC05SelfAssignment(c *Check, L *Loaded) {
	r := c.Rule("R5.15", "an assignment copies a non-temporary value before it releases the target's old value", 1)
	fi := L.Fn("src/compiler.(*compiler).VisitAssignStmt")
	if fi == nil {
		r.Und("compiler.(*compiler).VisitAssignStmt", token.NoPos, "function not found")
		return
	}
	in, mk := newGeneratorInterp(L)
	d := &DT{Kind: "TEXT"}
	releaseFirst, copied, runs := false, false, 0
	in.RunAll(32, func() {
		cobj := mk()
		n := newObj("ast.AssignStmt")
		rhs := exprNode("Rhs", d)
		rhs.set("temp", boolV(false))
		n.set("Rhs", rhs)
		decl := newObj("ast.VarDecl")
		decl.set("Type", TypeV{d})
		id := newObj("ast.Ident")
		id.set("Declaration", decl)
		n.set("Var", id)
		n.set("VarType", TypeV{d})
		n.set("RhsType", TypeV{d})
		in.CallFunc(fi, cobj, []Val{n})
		for _, e := range in.Events {
			if e.Kind == "cerr" || e.Kind == "panic" {
				return
			}
		}
		runs++
		var operand *IRVal
		released := false
		for _, e := range in.Events {
			switch {
			case e.Kind == "evaluate:Rhs":
				operand, _ = e.Data[1].(*IRVal)
			case e.Kind == "call" && strings.HasSuffix(e.Msg, ".FreeFunc"):
				if v, ok := e.Data[1].(*IRVal); ok && v.Op == "operand" && v.Src == "var" {
					released = true
				}
			case e.Kind == "deepCopy":
				if src, ok := e.Data[1].(*IRVal); ok && operand != nil && baseOperand(src) == operand {
					copied = true
					if released {
						releaseFirst = true
					}
				}
			}
		}
	})
	key := "compiler.(*compiler).VisitAssignStmt|copy of a non-temporary value vs. release of the target"
	switch {
	case runs == 0 || !copied:
		r.Und(key, fi.Decl.Pos(), "the deep copy of the non-temporary right-hand side was not observed")
	default:
		r.Decide(!releaseFirst, key, fi.Decl.Pos(), "the value is copied before the target's old value is released", "the target's old value is released before the non-temporary right-hand side is copied: when the right-hand side is the target itself or a part of it (`Speichere x in x.`), the copy reads released blocks (use after free)")
	}
}
