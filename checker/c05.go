package main

import (
	"fmt"
	"go/ast"
	"go/constant"
	"go/token"
	"go/types"
	"sort"
	"strings"

	"golang.org/x/tools/go/packages"
)

func init() { registry["XC05"] = exploreC05 }

func nonPrimDT(d *DT) bool { return !toGen(d).prim() }

// ledgerTrace renders the ownership-relevant events of one evaluation.
func ledgerTrace(in *Interp) []string {
	var out []string
	for _, e := range in.Events {
		switch e.Kind {
		case "call", "addTemp", "claim", "deepCopy", "store", "rterr", "cerr", "panic", "ifelse-begin", "then-begin", "else-begin", "ifelse-end":
			var a []string
			for i, d := range e.Data {
				if e.Kind == "call" && i == 0 {
					continue
				}
				a = append(a, fmt.Sprint(d))
			}
			out = append(out, e.Kind+" "+e.Msg+"("+strings.Join(a, ", ")+")")
		}
		if strings.HasPrefix(e.Kind, "evaluate:") {
			out = append(out, e.Kind)
		}
	}
	return out
}

func exploreC05(c *Check) {
	L := c.L
	t := computeCheckerTables(L, "quick")
	in, mk := newGeneratorInterp(L)
	type job struct {
		keys   []string
		m      map[string]*ChkCell
		method string
		kind   string
		names  []string
	}
	jobs := []job{{t.keysU, t.Unary, "VisitUnaryExpr", "ast.UnaryExpr", []string{"rhs"}}, {t.keysB, t.Binary, "VisitBinaryExpr", "ast.BinaryExpr", []string{"lhs", "rhs"}}, {t.keysT, t.Ternary, "VisitTernaryExpr", "ast.TernaryExpr", []string{"lhs", "mid", "rhs"}}, {t.keysC, t.Cast, "VisitCastExpr", "ast.CastExpr", []string{"lhs"}}}
	seen := map[string]bool{}
	for _, jb := range jobs {
		for _, k := range jb.keys {
			cc := jb.m[k]
			if adm, dec := cc.Admitted(); !dec || !adm {
				continue
			}
			ds := t.coords[k]
			ops := ds
			if jb.method == "VisitCastExpr" {
				ops = ds[1:]
			}
			any := false
			for _, d := range ds {
				if d.Kind == "VOID" {
					any = false
					break
				}
				if nonPrimDT(d) {
					any = true
				}
			}
			if !any {
				continue
			}
			var npIdx []int
			for i, d := range ops {
				if nonPrimDT(d) {
					npIdx = append(npIdx, i)
				}
			}
			for mask := 0; mask < 1<<len(npIdx); mask++ {
				var node *Obj
				if jb.method == "VisitCastExpr" {
					node = genNode(jb.kind, nil, jb.names, ops)
					node.set("TargetType", TypeV{ds[0]})
				} else {
					node = genNode(jb.kind, opVal(t.ops[k]), jb.names, ops)
				}
				fields := map[string]string{"lhs": "Lhs", "mid": "Mid", "rhs": "Rhs"}
				flags := ""
				for i, nm := range jb.names {
					o := node.get(fields[nm]).(*Obj)
					tf := false
					for bi, ix := range npIdx {
						if ix == i && mask&(1<<bi) != 0 {
							tf = true
						}
					}
					o.set("temp", boolV(tf))
					flags += fmt.Sprintf(" %s.temp=%v", nm, tf)
				}
				in.RunAll(64, func() {
					cobj := mk()
					in.CallFunc(L.Fn("src/compiler.(*compiler)."+jb.method), cobj, []Val{node})
					tr := ledgerTrace(in)
					sig := jb.method + " " + strings.Join(tr, " ; ") + fmt.Sprintf(" => ret=%v temp=%v", cobj.get("latestReturn"), cobj.get("latestIsTemp"))
					gk := groupKey(cellVerdict{Key: k, Classes: ds, Op: t.ops[k].Name, Method: jb.method}) + flags
					if !seen[gk+sig] {
						seen[gk+sig] = true
						fmt.Println(gk, "::", sig)
					}
				})
			}
		}
	}
	_ = sort.Strings
}

func init() { registry["C05"] = checkC05 }

// ---- concrete ledger for R5.5 ----

type ledgerItem struct {
	name      string
	isRef     bool
	protected bool
	prim      bool
}

func mkWrapper(it ledgerItem) *Obj {
	w := newObj("varwrapper")
	w.set("val", &IRVal{Op: "operand", Src: it.name, Class: "ptr"})
	if it.prim {
		w.set("typ", &GenT{Kind: "int"})
	} else {
		w.set("typ", &GenT{Kind: "string"})
	}
	w.set("isRef", boolV(it.isRef))
	w.set("protected", boolV(it.protected))
	return w
}

func mkScope(enclosing Val, vars []ledgerItem, temps []ledgerItem) *Obj {
	s := newObj("scope")
	s.set("enclosing", enclosing)
	mv := MapV{}
	for _, it := range vars {
		d := newObj("ast.VarDecl")
		d.set("NameTok", newObj("token"))
		d.set("name", StrV(it.name))
		mv.Keys = append(mv.Keys, d)
		mv.Vals = append(mv.Vals, mkWrapper(it))
	}
	s.set("variables", mv)
	sv := SliceV{}
	for _, it := range temps {
		sv.Elems = append(sv.Elems, mkWrapper(it))
	}
	s.set("temporaries", sv)
	return s
}

// freedIn lists the operands passed to a FreeFunc call in the event stream, in order.
func freedIn(events []Event) []string {
	var out []string
	for _, e := range events {
		if e.Kind == "call" && strings.HasSuffix(e.Msg, ".FreeFunc") && len(e.Data) >= 2 {
			if v, ok := e.Data[1].(*IRVal); ok {
				out = append(out, v.String())
			}
		}
	}
	return out
}

func sameMultiset(a, b []string) bool {
	x, y := append([]string{}, a...), append([]string{}, b...)
	sort.Strings(x)
	sort.Strings(y)
	return strings.Join(x, ",") == strings.Join(y, ",")
}

func checkC05(c *Check) {
	L := c.L
	c.Expl = "Structural clauses of 'every heap block is released exactly once', decided on the code generator and the C runtime without running either."
	checkC05Exits(c, L)
	checkC05Arms(c, L)
	checkC05Regions(c, L)
	checkC05Typestate(c, L)
	checkC05C(c, L)
}

// R5.5: the three scope-exit routines evaluated on a concrete three-level ledger.
func checkC05Exits(c *Check, L *Loaded) {
	r := c.Rule("R5.5", "scope exits free exactly the values the ledger says they own: normal exit and break/continue skip references and protected entries, return frees everything up to and including the function scope", 5)
	in, mk := newGeneratorInterp(L)
	delete(in.Models, "compiler.(*compiler).exitScope")
	in.Models["ast.(*Ast).GetMetadataByKind"] = func(in *Interp, pkg *packages.Package, call *ast.CallExpr, recv Val, args []Val) (Val, bool) {
		return TupleV{Unk{"no metadata"}, boolV(false)}, true
	}
	build := func(cobj *Obj) (fn, s1, s2 *Obj) {
		global := mkScope(NilV{}, []ledgerItem{{name: "g1"}}, nil)
		fn = mkScope(global, []ledgerItem{{name: "p_val"}, {name: "p_ref", isRef: true}, {name: "p_prim", prim: true}}, []ledgerItem{{name: "t_fn"}})
		s1 = mkScope(fn, []ledgerItem{{name: "v1"}, {name: "v1_protected", protected: true}, {name: "v1_ref", isRef: true}, {name: "v1_prim", prim: true}}, []ledgerItem{{name: "t1"}, {name: "t1_protected", protected: true}})
		s2 = mkScope(s1, []ledgerItem{{name: "v2"}}, []ledgerItem{{name: "t2"}, {name: "t2_prim", prim: true}})
		cobj.set("scp", s2)
		cobj.set("cfscp", fn)
		cobj.set("curLoopScope", s1)
		cobj.set("optimizationLevel", ConstV{V: constant.MakeInt64(0), T: types.Typ[types.Int]})
		return
	}
	type scen struct {
		key  string
		run  func(cobj *Obj)
		want []string
		why  string
	}
	fnDecl := newObj("ast.FuncDecl")
	scens := []scen{
		{"compiler.(*compiler).exitScope|innermost scope", func(cobj *Obj) {
			in.CallFunc(L.Fn("src/compiler.(*compiler).exitScope"), cobj, []Val{cobj.get("scp")})
		}, []string{"v2", "t2"}, "leaving a block"},
		{"compiler.(*compiler).exitScope|scope with protected and reference entries", func(cobj *Obj) {
			s2 := cobj.get("scp").(*Obj)
			in.CallFunc(L.Fn("src/compiler.(*compiler).exitScope"), cobj, []Val{s2.get("enclosing")})
		}, []string{"v1", "t1"}, "leaving a block that holds a reference, a protected variable (freed by hand by its loop) and a protected temporary"},
		{"compiler.(*compiler).exitNestedScopes|break/continue out of two scopes", func(cobj *Obj) {
			in.CallFunc(L.Fn("src/compiler.(*compiler).exitNestedScopes"), cobj, []Val{cobj.get("curLoopScope")})
		}, []string{"v2", "t2", "v1", "t1"}, "Verlasse/Fahre fort from an inner block of a loop"},
		{"compiler.(*compiler).VisitReturnStmt|return without value from two nested scopes", func(cobj *Obj) {
			n := newObj("ast.ReturnStmt")
			n.set("Value", NilV{})
			n.set("Func", fnDecl)
			in.CallFunc(L.Fn("src/compiler.(*compiler).VisitReturnStmt"), cobj, []Val{n})
		}, []string{"v2", "t2", "v1", "v1_protected", "t1", "t1_protected", "p_val", "t_fn"}, "Gib zurück inside nested blocks (e.g. inside a for-each loop, whose loop variable and iterated value are protected entries)"},
		{"compiler.(*compiler).exitFuncScope|end of function", func(cobj *Obj) {
			cobj.set("scp", cobj.get("cfscp"))
			in.CallFunc(L.Fn("src/compiler.(*compiler).exitFuncScope"), cobj, []Val{fnDecl})
		}, []string{"p_val", "t_fn"}, "falling off the end of a function"},
	}
	for _, sc := range scens {
		var bad []string
		runs := 0
		in.RunAll(32, func() {
			cobj := mk()
			build(cobj)
			sc.run(cobj)
			runs++
			got := freedIn(in.Events)
			if !sameMultiset(got, sc.want) {
				bad = append(bad, fmt.Sprintf("frees %v, the ledger owns %v", got, sc.want))
			}
			for _, e := range in.Events {
				if e.Kind == "panic" || e.Kind == "fault" {
					bad = append(bad, e.Kind+": "+e.Msg)
				}
			}
		})
		if runs == 0 || len(in.Undecided) > 0 {
			r.Und(sc.key, token.NoPos, fmt.Sprint("not evaluated: ", in.Undecided))
			continue
		}
		r.Decide(len(bad) == 0, sc.key, token.NoPos, "frees exactly "+strings.Join(sc.want, ", "), strings.Join(uniq(bad), "; ")+" ("+sc.why+"): values owned by the left scopes leak, or values owned elsewhere are released twice")
	}
}

// R5.2: arms of 'if T.IsPrimitive() {A} else {B}' that write the same number (>= 1) of destinations must write the same
// destinations (store in one arm, deep copy in the other).
func checkC05Arms(c *Check, L *Loaded) {
	r := c.Rule("R5.2", "the primitive and the non-primitive arm of a generator branch initialise the same destinations", 4)
	cp := L.ByRel["src/compiler"]
	info := cp.TypesInfo
	isPrimCall := func(e ast.Expr) bool {
		e = ast.Unparen(e)
		if u, ok := e.(*ast.UnaryExpr); ok && u.Op == token.NOT {
			e = ast.Unparen(u.X)
		}
		call, ok := e.(*ast.CallExpr)
		if !ok {
			return false
		}
		sel, ok := call.Fun.(*ast.SelectorExpr)
		return ok && sel.Sel.Name == "IsPrimitive"
	}
	dests := func(b ast.Node) []string {
		var out []string
		// locals defined once inside the arm stand for their initialiser
		alias := map[types.Object]string{}
		ast.Inspect(b, func(n ast.Node) bool {
			if as, ok := n.(*ast.AssignStmt); ok && as.Tok == token.DEFINE && len(as.Lhs) == len(as.Rhs) {
				for i, l := range as.Lhs {
					if id, ok := l.(*ast.Ident); ok && info.Defs[id] != nil {
						alias[info.Defs[id]] = types.ExprString(as.Rhs[i])
					}
				}
			}
			return true
		})
		str := func(e ast.Expr) string {
			if id, ok := ast.Unparen(e).(*ast.Ident); ok {
				if a, ok := alias[info.Uses[id]]; ok {
					return a
				}
			}
			return types.ExprString(e)
		}
		ast.Inspect(b, func(n ast.Node) bool {
			if _, ok := n.(*ast.FuncLit); ok {
				return false
			}
			call, ok := n.(*ast.CallExpr)
			if !ok {
				return true
			}
			fn := Callee(info, call)
			name := ""
			if fn != nil {
				name = fn.Name()
			}
			switch {
			case name == "NewStore" && len(call.Args) == 2:
				out = append(out, str(call.Args[1]))
			case name == "deepCopyInto" && len(call.Args) == 3:
				out = append(out, str(call.Args[0]))
			case name == "claimOrCopy" && len(call.Args) == 4:
				out = append(out, str(call.Args[0]))
			case name == "NewCall" && len(call.Args) >= 3:
				if inner, ok := call.Args[0].(*ast.CallExpr); ok {
					if s, ok := inner.Fun.(*ast.SelectorExpr); ok && s.Sel.Name == "DeepCopyFunc" {
						out = append(out, str(call.Args[1]))
					}
				}
			}
			return true
		})
		return out
	}
	seen := map[string]int{}
	for _, f := range cp.Syntax {
		var encl string
		ast.Inspect(f, func(n ast.Node) bool {
			if fd, ok := n.(*ast.FuncDecl); ok {
				encl = fd.Name.Name
				if fd.Recv != nil && len(fd.Recv.List) > 0 {
					encl = "(*compiler)." + encl
				}
			}
			is, ok := n.(*ast.IfStmt)
			if !ok || is.Else == nil || !isPrimCall(is.Cond) {
				return true
			}
			a, b := dests(is.Body), dests(is.Else)
			if len(a) == 0 || len(a) != len(b) {
				return true // arms that write different numbers of destinations are not comparable
			}
			seen[encl]++
			key := "compiler." + encl + "|IsPrimitive arms"
			if seen[encl] > 1 {
				key += fmt.Sprintf(" #%d", seen[encl])
			}
			if sameMultiset(a, b) {
				r.OK(key, is.Pos(), "both arms initialise "+strings.Join(a, ", "))
			} else {
				r.Bad(key, is.Pos(), fmt.Sprintf("one arm initialises %v, the other %v: a destination is written twice (its first value leaks) and another stays uninitialised (later freed or read)", a, b))
			}
			return true
		})
	}
}
