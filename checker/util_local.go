package main

import (
	"go/ast"
	"go/token"
	"go/types"
	"os"
)

// singleDef returns the expression a local variable is defined with when the variable is assigned exactly once in the
// function (its := definition or a single var declaration) and its address is never taken; nil otherwise. Rules use it
// to look through `x := f(...)` hoisting, so that a condition on x is read as a condition on f(...).
func singleDef(info *types.Info, body ast.Node, obj types.Object) ast.Expr {
	if obj == nil || body == nil {
		return nil
	}
	var def ast.Expr
	n := 0
	ast.Inspect(body, func(nd ast.Node) bool {
		switch x := nd.(type) {
		case *ast.AssignStmt:
			for i, l := range x.Lhs {
				id, ok := l.(*ast.Ident)
				if !ok {
					continue
				}
				o := info.Defs[id]
				if o == nil {
					o = info.Uses[id]
				}
				if o != obj {
					continue
				}
				n++
				if len(x.Rhs) == len(x.Lhs) && (x.Tok == token.DEFINE || x.Tok == token.ASSIGN) {
					def = x.Rhs[i]
				} else {
					n++ // tuple assignment or op-assignment: not a plain definition
				}
			}
		case *ast.ValueSpec:
			for i, id := range x.Names {
				if info.Defs[id] == obj {
					n++
					if i < len(x.Values) && len(x.Values) == len(x.Names) {
						def = x.Values[i]
					} else {
						n++
					}
				}
			}
		case *ast.IncDecStmt:
			if id, ok := x.X.(*ast.Ident); ok && info.Uses[id] == obj {
				n += 2
			}
		case *ast.UnaryExpr:
			if x.Op == token.AND {
				if id, ok := ast.Unparen(x.X).(*ast.Ident); ok && info.Uses[id] == obj {
					n += 2
				}
			}
		case *ast.RangeStmt:
			for _, e := range []ast.Expr{x.Key, x.Value} {
				if id, ok := e.(*ast.Ident); ok {
					o := info.Defs[id]
					if o == nil {
						o = info.Uses[id]
					}
					if o == obj {
						n += 2
					}
				}
			}
		}
		return true
	})
	if n == 1 {
		return def
	}
	return nil
}

// throughLocals replaces an identifier that names a once-defined local by its defining expression (repeatedly, bounded).
func throughLocals(info *types.Info, body ast.Node, e ast.Expr) ast.Expr {
	for i := 0; i < 4; i++ {
		id, ok := ast.Unparen(e).(*ast.Ident)
		if !ok {
			return e
		}
		obj := info.Uses[id]
		if _, isVar := obj.(*types.Var); !isVar {
			return e
		}
		d := singleDef(info, body, obj)
		if d == nil {
			return e
		}
		e = d
	}
	return e
}

// condCalls reports whether the condition (looked at through once-defined locals, negation and parentheses, and the
// operands of && and ||) contains a call of the named function of the given package path suffix.
func condCalls(info *types.Info, body ast.Node, cond ast.Expr, pkgSuffix, name string) bool {
	found := false
	var walk func(e ast.Expr, depth int)
	walk = func(e ast.Expr, depth int) {
		if e == nil || depth > 6 || found {
			return
		}
		e = throughLocals(info, body, e)
		ast.Inspect(e, func(n ast.Node) bool {
			switch x := n.(type) {
			case *ast.CallExpr:
				if fn := Callee(info, x); fn != nil && fn.Name() == name && fn.Pkg() != nil && hasSuffix(fn.Pkg().Path(), pkgSuffix) {
					found = true
				}
			case *ast.Ident:
				if v, ok := info.Uses[x].(*types.Var); ok && !v.IsField() {
					if d := singleDef(info, body, v); d != nil && d != e {
						walk(d, depth+1)
					}
				}
			}
			return !found
		})
	}
	walk(cond, 0)
	return found
}

func hasSuffix(s, suf string) bool {
	return len(s) >= len(suf) && s[len(s)-len(suf):] == suf
}

// isParamOf: e is an identifier naming a parameter (or the receiver) of fi.
func isParamOf(info *types.Info, fi *FuncInfo, e ast.Expr) bool {
	id, ok := ast.Unparen(e).(*ast.Ident)
	if !ok {
		return false
	}
	obj := info.Uses[id]
	if obj == nil {
		return false
	}
	lists := []*ast.FieldList{fi.Decl.Type.Params, fi.Decl.Recv}
	for _, l := range lists {
		if l == nil {
			continue
		}
		for _, f := range l.List {
			for _, n := range f.Names {
				if info.Defs[n] == obj {
					return true
				}
			}
		}
	}
	return false
}

func isFieldNamed(v *types.Var, name string) bool {
	return v != nil && v.IsField() && canonName(v) == name
}

// tupleDef: the local variable is defined exactly once, as the idx-th result of a call (`a, b := f(x)`).
func tupleDef(info *types.Info, body ast.Node, obj types.Object) (call *ast.CallExpr, idx int) {
	n := 0
	ast.Inspect(body, func(nd ast.Node) bool {
		as, ok := nd.(*ast.AssignStmt)
		if !ok {
			return true
		}
		for i, l := range as.Lhs {
			id, ok := l.(*ast.Ident)
			if !ok {
				continue
			}
			o := info.Defs[id]
			if o == nil {
				o = info.Uses[id]
			}
			if o != obj {
				continue
			}
			n++
			if len(as.Rhs) == 1 && len(as.Lhs) > 1 {
				if c, ok := ast.Unparen(as.Rhs[0]).(*ast.CallExpr); ok {
					call, idx = c, i
				}
			}
		}
		return true
	})
	if n != 1 {
		return nil, 0
	}
	return call, idx
}

// isModuleInitFunc: the expression (through once-defined locals) is the function value created by
// NewFunc(<first result of getModuleInitDisposeName(...)>, ...), i.e. the module's init function.
func isModuleInitFunc(info *types.Info, body ast.Node, e ast.Expr) bool {
	e = throughLocals(info, body, e)
	call, ok := ast.Unparen(e).(*ast.CallExpr)
	if !ok || len(call.Args) == 0 {
		return false
	}
	if fn := Callee(info, call); fn == nil || !nameIs(fn, "NewFunc") {
		return false
	}
	id, ok := ast.Unparen(call.Args[0]).(*ast.Ident)
	if !ok {
		return false
	}
	src, idx := tupleDef(info, body, info.Uses[id])
	if src == nil || idx != 0 {
		return false
	}
	// the function that yields the (init, dispose) names: takes a *ast.Module, returns two strings (whatever it is called)
	fn := Callee(info, src)
	if fn == nil {
		return false
	}
	sig, ok := fn.Type().(*types.Signature)
	if !ok || sig.Results().Len() != 2 || sig.Params().Len() != 1 {
		return false
	}
	p, isPtr := sig.Params().At(0).Type().(*types.Pointer)
	return isPtr && hasSuffix(p.Elem().String(), "/src/ast.Module")
}

// normSrc renders an expression for use in obligation keys and reviewed tables: identifiers of local variables,
// parameters and receivers are replaced by their static type, so that renaming a local does not change the key.
func normSrc(L *Loaded, info *types.Info, e ast.Expr) string {
	short := func(t types.Type) string {
		return types.TypeString(t, func(p *types.Package) string { return p.Name() })
	}
	var w func(e ast.Expr) string
	w = func(e ast.Expr) string {
		switch x := e.(type) {
		case *ast.Ident:
			o := info.Uses[x]
			if o == nil {
				o = info.Defs[x]
			}
			if v, ok := o.(*types.Var); ok && !v.IsField() && v.Pkg() != nil && v.Parent() != v.Pkg().Scope() {
				return "‹" + short(v.Type()) + "›"
			}
			return x.Name
		case *ast.SelectorExpr:
			return w(x.X) + "." + x.Sel.Name
		case *ast.ParenExpr:
			return "(" + w(x.X) + ")"
		case *ast.StarExpr:
			return "*" + w(x.X)
		case *ast.UnaryExpr:
			return x.Op.String() + w(x.X)
		case *ast.BinaryExpr:
			return w(x.X) + " " + x.Op.String() + " " + w(x.Y)
		case *ast.IndexExpr:
			return w(x.X) + "[" + w(x.Index) + "]"
		case *ast.TypeAssertExpr:
			if x.Type == nil {
				return w(x.X) + ".(type)"
			}
			return w(x.X) + ".(" + L.Src(x.Type) + ")"
		case *ast.CallExpr:
			s := w(x.Fun) + "("
			for i, a := range x.Args {
				if i > 0 {
					s += ", "
				}
				s += w(a)
			}
			return s + ")"
		}
		return L.Src(e)
	}
	return w(e)
}

// renamedObjs: functions, methods and struct fields of the repository that were recognised as pure renames of a name in
// the reference table (golden/names.json): object -> the name the rules and models know it by. Filled by Load.
var renamedObjs = map[types.Object]string{}

// nameIs compares an object's name with a name used in a rule, looking through recognised renames.
func nameIs(o interface{ Name() string }, want string) bool {
	if obj, ok := o.(types.Object); ok && len(renamedObjs) > 0 {
		switch x := obj.(type) {
		case *types.Func:
			obj = x.Origin()
		case *types.Var:
			obj = x.Origin()
		}
		if old, ok := renamedObjs[obj]; ok {
			return old == want
		}
	}
	return o.Name() == want
}

// canonName: the name the rules know the object by.
func canonName(obj types.Object) string {
	if obj == nil {
		return ""
	}
	switch x := obj.(type) {
	case *types.Func:
		obj = x.Origin()
	case *types.Var:
		obj = x.Origin()
	}
	if old, ok := renamedObjs[obj]; ok {
		return old
	}
	return obj.Name()
}

// verifHome: where the checker's own committed tables live (golden/...), independent of where evidence is written.
func verifHome() string {
	if h := os.Getenv("VERIF_HOME"); h != "" {
		return h
	}
	return "/verif"
}

// selName: the name a selector's field is known by (recognised renames looked through).
func selName(info *types.Info, x *ast.SelectorExpr) string {
	if v, ok := info.Uses[x.Sel].(*types.Var); ok && v.IsField() {
		return canonName(v)
	}
	return x.Sel.Name
}
