package main

import (
	"go/ast"
	"go/token"
	"go/types"
)

// singleDef returns the expression a local variable is defined with when the variable is assigned exactly once in the
// function (its := definition or a single var declaration) and its address is never taken; nil otherwise. Rules use it
// to look through `x := f(...)` hoisting, so that a condition on x is read as a condition on f(...).
func singleDef(info *types.Info, body ast.Node, obj types.Object) ast.Expr {
	if obj == nil || body == nil {
		return nil
	}
	var def ast.Expr
	n := 0
	ast.Inspect(body, func(nd ast.Node) bool {
		switch x := nd.(type) {
		case *ast.AssignStmt:
			for i, l := range x.Lhs {
				id, ok := l.(*ast.Ident)
				if !ok {
					continue
				}
				o := info.Defs[id]
				if o == nil {
					o = info.Uses[id]
				}
				if o != obj {
					continue
				}
				n++
				if len(x.Rhs) == len(x.Lhs) && (x.Tok == token.DEFINE || x.Tok == token.ASSIGN) {
					def = x.Rhs[i]
				} else {
					n++ // tuple assignment or op-assignment: not a plain definition
				}
			}
		case *ast.ValueSpec:
			for i, id := range x.Names {
				if info.Defs[id] == obj {
					n++
					if i < len(x.Values) && len(x.Values) == len(x.Names) {
						def = x.Values[i]
					} else {
						n++
					}
				}
			}
		case *ast.IncDecStmt:
			if id, ok := x.X.(*ast.Ident); ok && info.Uses[id] == obj {
				n += 2
			}
		case *ast.UnaryExpr:
			if x.Op == token.AND {
				if id, ok := ast.Unparen(x.X).(*ast.Ident); ok && info.Uses[id] == obj {
					n += 2
				}
			}
		case *ast.RangeStmt:
			for _, e := range []ast.Expr{x.Key, x.Value} {
				if id, ok := e.(*ast.Ident); ok {
					o := info.Defs[id]
					if o == nil {
						o = info.Uses[id]
					}
					if o == obj {
						n += 2
					}
				}
			}
		}
		return true
	})
	if n == 1 {
		return def
	}
	return nil
}

// throughLocals replaces an identifier that names a once-defined local by its defining expression (repeatedly, bounded).
func throughLocals(info *types.Info, body ast.Node, e ast.Expr) ast.Expr {
	for i := 0; i < 4; i++ {
		id, ok := ast.Unparen(e).(*ast.Ident)
		if !ok {
			return e
		}
		obj := info.Uses[id]
		if _, isVar := obj.(*types.Var); !isVar {
			return e
		}
		d := singleDef(info, body, obj)
		if d == nil {
			return e
		}
		e = d
	}
	return e
}

// condCalls reports whether the condition (looked at through once-defined locals, negation and parentheses, and the
// operands of && and ||) contains a call of the named function of the given package path suffix.
func condCalls(info *types.Info, body ast.Node, cond ast.Expr, pkgSuffix, name string) bool {
	found := false
	var walk func(e ast.Expr, depth int)
	walk = func(e ast.Expr, depth int) {
		if e == nil || depth > 6 || found {
			return
		}
		e = throughLocals(info, body, e)
		ast.Inspect(e, func(n ast.Node) bool {
			switch x := n.(type) {
			case *ast.CallExpr:
				if fn := Callee(info, x); fn != nil && fn.Name() == name && fn.Pkg() != nil && hasSuffix(fn.Pkg().Path(), pkgSuffix) {
					found = true
				}
			case *ast.Ident:
				if v, ok := info.Uses[x].(*types.Var); ok && !v.IsField() {
					if d := singleDef(info, body, v); d != nil && d != e {
						walk(d, depth+1)
					}
				}
			}
			return !found
		})
	}
	walk(cond, 0)
	return found
}

func hasSuffix(s, suf string) bool {
	return len(s) >= len(suf) && s[len(s)-len(suf):] == suf
}
