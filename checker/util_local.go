package main

import (
	"go/ast"
	"go/token"
	"go/types"
)

// singleDef returns the expression a local variable is defined with when the variable is assigned exactly once in the
// function (its := definition or a single var declaration) and its address is never taken; nil otherwise. Rules use it
// to look through `x := f(...)` hoisting, so that a condition on x is read as a condition on f(...).
func singleDef(info *types.Info, body ast.Node, obj types.Object) ast.Expr {
	if obj == nil || body == nil {
		return nil
	}
	var def ast.Expr
	n := 0
	ast.Inspect(body, func(nd ast.Node) bool {
		switch x := nd.(type) {
		case *ast.AssignStmt:
			for i, l := range x.Lhs {
				id, ok := l.(*ast.Ident)
				if !ok {
					continue
				}
				o := info.Defs[id]
				if o == nil {
					o = info.Uses[id]
				}
				if o != obj {
					continue
				}
				n++
				if len(x.Rhs) == len(x.Lhs) && (x.Tok == token.DEFINE || x.Tok == token.ASSIGN) {
					def = x.Rhs[i]
				} else {
					n++ // tuple assignment or op-assignment: not a plain definition
				}
			}
		case *ast.ValueSpec:
			for i, id := range x.Names {
				if info.Defs[id] == obj {
					n++
					if i < len(x.Values) && len(x.Values) == len(x.Names) {
						def = x.Values[i]
					} else {
						n++
					}
				}
			}
		case *ast.IncDecStmt:
			if id, ok := x.X.(*ast.Ident); ok && info.Uses[id] == obj {
				n += 2
			}
		case *ast.UnaryExpr:
			if x.Op == token.AND {
				if id, ok := ast.Unparen(x.X).(*ast.Ident); ok && info.Uses[id] == obj {
					n += 2
				}
			}
		case *ast.RangeStmt:
			for _, e := range []ast.Expr{x.Key, x.Value} {
				if id, ok := e.(*ast.Ident); ok {
					o := info.Defs[id]
					if o == nil {
						o = info.Uses[id]
					}
					if o == obj {
						n += 2
					}
				}
			}
		}
		return true
	})
	if n == 1 {
		return def
	}
	return nil
}

// throughLocals replaces an identifier that names a once-defined local by its defining expression (repeatedly, bounded).
func throughLocals(info *types.Info, body ast.Node, e ast.Expr) ast.Expr {
	for i := 0; i < 4; i++ {
		id, ok := ast.Unparen(e).(*ast.Ident)
		if !ok {
			return e
		}
		obj := info.Uses[id]
		if _, isVar := obj.(*types.Var); !isVar {
			return e
		}
		d := singleDef(info, body, obj)
		if d == nil {
			return e
		}
		e = d
	}
	return e
}

// condCalls reports whether the condition (looked at through once-defined locals, negation and parentheses, and the
// operands of && and ||) contains a call of the named function of the given package path suffix.
func condCalls(info *types.Info, body ast.Node, cond ast.Expr, pkgSuffix, name string) bool {
	found := false
	var walk func(e ast.Expr, depth int)
	walk = func(e ast.Expr, depth int) {
		if e == nil || depth > 6 || found {
			return
		}
		e = throughLocals(info, body, e)
		ast.Inspect(e, func(n ast.Node) bool {
			switch x := n.(type) {
			case *ast.CallExpr:
				if fn := Callee(info, x); fn != nil && fn.Name() == name && fn.Pkg() != nil && hasSuffix(fn.Pkg().Path(), pkgSuffix) {
					found = true
				}
			case *ast.Ident:
				if v, ok := info.Uses[x].(*types.Var); ok && !v.IsField() {
					if d := singleDef(info, body, v); d != nil && d != e {
						walk(d, depth+1)
					}
				}
			}
			return !found
		})
	}
	walk(cond, 0)
	return found
}

func hasSuffix(s, suf string) bool {
	return len(s) >= len(suf) && s[len(s)-len(suf):] == suf
}

// isParamOf: e is an identifier naming a parameter (or the receiver) of fi.
func isParamOf(info *types.Info, fi *FuncInfo, e ast.Expr) bool {
	id, ok := ast.Unparen(e).(*ast.Ident)
	if !ok {
		return false
	}
	obj := info.Uses[id]
	if obj == nil {
		return false
	}
	lists := []*ast.FieldList{fi.Decl.Type.Params, fi.Decl.Recv}
	for _, l := range lists {
		if l == nil {
			continue
		}
		for _, f := range l.List {
			for _, n := range f.Names {
				if info.Defs[n] == obj {
					return true
				}
			}
		}
	}
	return false
}

func isFieldNamed(v *types.Var, name string) bool {
	return v != nil && v.IsField() && v.Name() == name
}

// tupleDef: the local variable is defined exactly once, as the idx-th result of a call (`a, b := f(x)`).
func tupleDef(info *types.Info, body ast.Node, obj types.Object) (call *ast.CallExpr, idx int) {
	n := 0
	ast.Inspect(body, func(nd ast.Node) bool {
		as, ok := nd.(*ast.AssignStmt)
		if !ok {
			return true
		}
		for i, l := range as.Lhs {
			id, ok := l.(*ast.Ident)
			if !ok {
				continue
			}
			o := info.Defs[id]
			if o == nil {
				o = info.Uses[id]
			}
			if o != obj {
				continue
			}
			n++
			if len(as.Rhs) == 1 && len(as.Lhs) > 1 {
				if c, ok := ast.Unparen(as.Rhs[0]).(*ast.CallExpr); ok {
					call, idx = c, i
				}
			}
		}
		return true
	})
	if n != 1 {
		return nil, 0
	}
	return call, idx
}

// isModuleInitFunc: the expression (through once-defined locals) is the function value created by
// NewFunc(<first result of getModuleInitDisposeName(...)>, ...), i.e. the module's init function.
func isModuleInitFunc(info *types.Info, body ast.Node, e ast.Expr) bool {
	e = throughLocals(info, body, e)
	call, ok := ast.Unparen(e).(*ast.CallExpr)
	if !ok || len(call.Args) == 0 {
		return false
	}
	if fn := Callee(info, call); fn == nil || fn.Name() != "NewFunc" {
		return false
	}
	id, ok := ast.Unparen(call.Args[0]).(*ast.Ident)
	if !ok {
		return false
	}
	src, idx := tupleDef(info, body, info.Uses[id])
	if src == nil || idx != 0 {
		return false
	}
	fn := Callee(info, src)
	return fn != nil && fn.Name() == "getModuleInitDisposeName"
}
