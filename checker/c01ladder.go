package main

import (
	"go/ast"
	"go/token"
	"go/types"
	"strings"
)

type ladderLevel struct {
	fn     *FuncInfo
	tokens []string // operator tokens consumed by this level's loop/if (first token of a matchSeq counts with its follower)
	next   *types.Func
	rhs    []*types.Func // productions called for the right operand(s) inside the loop
}

// extractLadder follows the lhs-chain from (*parser).expression.
func extractLadder(L *Loaded) []ladderLevel {
	pp := L.ByRel["src/parser"]
	info := pp.TypesInfo
	isProduction := func(fn *types.Func) bool {
		fi := L.Funcs[fn]
		if fi == nil || fi.Pkg != pp || fi.Decl.Recv == nil {
			return false
		}
		sig := fn.Type().(*types.Signature)
		if sig.Params().Len() > 1 || (sig.Params().Len() == 1 && !strings.HasSuffix(sig.Params().At(0).Type().String(), "ast.Expression")) {
			return false
		}
		return sig.Results().Len() == 1 && strings.HasSuffix(sig.Results().At(0).Type().String(), "ast.Expression")
	}
	var out []ladderLevel
	seen := map[*types.Func]bool{}
	cur := L.Fn("src/parser.(*parser).expression")
	for cur != nil && !seen[cur.Obj] {
		seen[cur.Obj] = true
		lv := ladderLevel{fn: cur}
		// first production call in source order = the left operand / next tighter level
		var first *types.Func
		for _, st := range cur.Decl.Body.List {
			switch st.(type) {
			case *ast.IfStmt, *ast.ForStmt, *ast.SwitchStmt, *ast.RangeStmt:
				continue
			}
			ast.Inspect(st, func(n ast.Node) bool {
				if first != nil {
					return false
				}
				if _, ok := n.(*ast.FuncLit); ok {
					return false
				}
				if call, ok := n.(*ast.CallExpr); ok {
					if fn := Callee(info, call); fn != nil && isProduction(fn) && fn != cur.Obj {
						first = fn
					}
				}
				return true
			})
			if first != nil {
				break
			}
		}
		// operator tokens: arguments of matchAny/matchSeq in for/if conditions at the top level of the body
		var loops []ast.Node
		for _, st := range cur.Decl.Body.List {
			switch s := st.(type) {
			case *ast.ForStmt:
				loops = append(loops, s)
			case *ast.IfStmt:
				loops = append(loops, s)
			}
		}
		for _, lp := range loops {
			var cond ast.Expr
			var body *ast.BlockStmt
			switch s := lp.(type) {
			case *ast.ForStmt:
				cond, body = s.Cond, s.Body
			case *ast.IfStmt:
				cond, body = s.Cond, s.Body
			}
			if cond == nil {
				continue
			}
			found := false
			ast.Inspect(cond, func(n ast.Node) bool {
				if call, ok := n.(*ast.CallExpr); ok {
					if fn := Callee(info, call); fn != nil && (nameIs(fn, "matchAny") || nameIs(fn, "matchSeq")) {
						var toks []string
						for _, a := range call.Args {
							if sel, ok := a.(*ast.SelectorExpr); ok {
								toks = append(toks, sel.Sel.Name)
							}
						}
						if nameIs(fn, "matchSeq") {
							lv.tokens = append(lv.tokens, strings.Join(toks, "+"))
						} else {
							lv.tokens = append(lv.tokens, toks...)
						}
						found = true
					}
				}
				return true
			})
			if found && body != nil {
				ast.Inspect(body, func(n ast.Node) bool {
					if call, ok := n.(*ast.CallExpr); ok {
						if fn := Callee(info, call); fn != nil && isProduction(fn) {
							lv.rhs = append(lv.rhs, fn)
						}
					}
					return true
				})
			}
		}
		lv.next = first
		out = append(out, lv)
		if first == nil {
			break
		}
		cur = L.Funcs[first]
	}
	return out
}

// reference ladder, loosest first (confirmed by reading the grammar of the expression parser and the language documentation)
var c01Ladder = [][]string{
	{"COMMA+FALLS"}, {"ENTWEDER"}, {"ODER"}, {"UND"}, {"LOGISCH+ODER"}, {"LOGISCH+KONTRA"}, {"LOGISCH+UND"},
	{"GLEICH", "UNGLEICH"}, {"GRÖßER", "KLEINER", "ZWISCHEN"}, {"UM"}, {"PLUS", "MINUS", "VERKETTET"}, {"MAL", "DURCH", "MODULO"},
	{"NEGATE"}, {"HOCH"}, {"IM", "BIS", "AB"}, {"AN"}, {"VON"}, {"ALS"},
}

// right-associative levels: the right operand recurses into the same production
var c01RightAssoc = map[string]bool{"COMMA+FALLS": true, "VON": true, "NEGATE": true}

func checkLadder(c *Check) {
	L := c.L
	r := c.Rule("R1.3", "relative precedence and associativity of the operator tokens in the recursive-descent ladder", 15)
	lad := extractLadder(L)
	level := map[string]int{}
	fnOf := map[string]*ladderLevel{}
	for i := range lad {
		for _, t := range lad[i].tokens {
			if _, dup := level[t]; !dup {
				level[t] = i
				fnOf[t] = &lad[i]
			}
		}
	}
	var names []string
	for _, l := range lad {
		names = append(names, l.fn.Obj.Name()+"["+strings.Join(l.tokens, " ")+"]")
	}
	c.extra["ladder"] = names
	if len(lad) < 15 {
		r.Und("parser.(*parser).expression|ladder", token.NoPos, "fewer than 15 productions extracted from the expression ladder")
		return
	}
	prev := -1
	prevTok := ""
	for gi, grp := range c01Ladder {
		lv := -1
		for _, t := range grp {
			l, ok := level[t]
			if !ok {
				r.Bad("token "+t, token.NoPos, "operator token "+t+" is no longer consumed by any production of the expression ladder: expressions using it do not parse as operators")
				continue
			}
			if lv == -1 {
				lv = l
			} else if l != lv {
				r.Bad("group "+strings.Join(grp, "/"), fnOf[t].fn.Decl.Pos(), "operators "+strings.Join(grp, ", ")+" are no longer on one precedence level: "+t+" moved to "+fnOf[t].fn.Obj.Name())
			}
		}
		if lv == -1 {
			continue
		}
		key := "level " + strings.Join(grp, "/")
		if prev >= 0 && lv <= prev {
			r.Bad(key, lad[lv].fn.Decl.Pos(), "'"+grp[0]+"' must bind tighter than '"+prevTok+"' but is parsed by "+lad[lv].fn.Obj.Name()+", which is not below "+lad[prev].fn.Obj.Name()+" in the ladder")
		} else {
			// associativity
			right := false
			for _, f := range lad[lv].rhs {
				if f == lad[lv].fn.Obj {
					right = true
				}
			}
			if right != c01RightAssoc[grp[0]] {
				want := "left"
				if c01RightAssoc[grp[0]] {
					want = "right"
				}
				r.Bad(key+" associativity", lad[lv].fn.Decl.Pos(), "'"+grp[0]+"' should be "+want+"-associative, but the right operand of "+lad[lv].fn.Obj.Name()+" is parsed by "+funcNames(lad[lv].rhs))
			} else {
				r.OK(key, lad[lv].fn.Decl.Pos(), "parsed by "+lad[lv].fn.Obj.Name()+", below the looser levels")
			}
		}
		prev, prevTok = lv, grp[0]
		_ = gi
	}
}

func funcNames(fs []*types.Func) string {
	var s []string
	for _, f := range fs {
		s = append(s, f.Name())
	}
	return strings.Join(s, ",")
}
