/* positive example for the decoder recogniser (R12.4): one correct and one wrong hand-written UTF-8 decoder */
#include <stdint.h>
uint32_t good2(const char *s) { return ((s[0] & 0x1f) << 6) | (s[1] & 0x3f); }
uint32_t good3(const char *s) { return ((s[0] & 0x0f) << 12) | ((s[1] & 0x3f) << 6) | (s[2] & 0x3f); }
uint32_t bad2(const char *s) { return ((s[0] & 0x0f) << 6) | (s[1] & 0x3f); }

/* positive examples for the surrogate-test rule (R12.6): the first is right, the second is the 16-bit mask on a 32-bit value */
int is_surrogate_ok(int32_t c) { return ((uint32_t)c & 0xFFFFF800) == 0xD800; }
int is_surrogate_bad(int32_t c) { return (c & 0xF800) == 0xD800; }
