package main

import (
	"encoding/json"
	"fmt"
	"go/token"
	"os/exec"
	"path/filepath"
	"sort"
	"strings"
)

func init() { registry["C12"] = checkC12 }

func checkC12(c *Check) {
	c.Expl = "Structural clauses of 'a Text is a sequence of Unicode code points', decided on clang's AST of the C runtime: the UTF-8 lead-byte/continuation predicates and the length tables use exactly UTF-8's masks and thresholds (R12.3); any hand-written decoder combines bytes with UTF-8's masks and shifts, the default being delegation to the C library (R12.4); producers that change a text's byte length in place keep cap = byte length + 1 (R12.1) and never overwrite bytes before moving them (R12.5); text equality compares exactly the length its guard tested (R12.2). Not decided: indexing/slicing walks (value-dependent), conversions between Text and numbers, the generator's for-each lowering."
	P, err := LoadC(repoDirC(), false)
	if err != nil {
		c.Rule("R12.0", "C sources parse", 1).Und("lib/runtime", token.NoPos, err.Error())
		return
	}
	c.extra["c_units"] = P.Units
	if len(P.Failed) > 0 || len(P.Funcs) < 40 {
		c.Rule("R12.0", "C sources parse", 1).Und("lib/runtime", token.NoPos, fmt.Sprintf("runtime units failed to parse: %v (%d functions)", P.Failed, len(P.Funcs)))
	}
	r3 := c.Rule("R12.3", "UTF-8 classification predicates and length tables use UTF-8's masks and thresholds", 8)
	checkUTF8Tables(c, P, r3)
	r4 := c.Rule("R12.4", "code points are decoded/encoded by the C library or by byte combinations with UTF-8's masks and shifts", 2)
	for _, row := range []struct{ fn, lib string }{{"utf8_string_to_char", "mbrtoc32"}, {"utf8_char_to_string", "c32rtomb"}} {
		f := P.Funcs[row.fn]
		if f == nil {
			r4.AddAt(Undecided, "C "+row.fn, "-", "function not found")
			continue
		}
		if len(callsIn2(f.Body, row.lib)) > 0 {
			r4.AddAt(OK, "C "+row.fn+"|conversion", f.Pos(), "delegates to "+row.lib)
		} else {
			// hand-written: must contain recognisable chains, checked below
			n := checkDecoderChains([]*CFunc{f}, func(*CFunc, int, bool, string) {})
			if n == 0 {
				r4.AddAt(Undecided, "C "+row.fn+"|conversion", f.Pos(), "neither delegates to "+row.lib+" nor has a recognisable byte-combination: cannot be decided")
			} else {
				r4.AddAt(OK, "C "+row.fn+"|conversion", f.Pos(), fmt.Sprintf("hand-written, %d byte combinations checked below", n))
			}
		}
	}
	var fs []*CFunc
	var names []string
	for n := range P.Funcs {
		names = append(names, n)
	}
	sort.Strings(names)
	for _, n := range names {
		if strings.HasPrefix(P.Funcs[n].Unit, "lib/runtime/") {
			fs = append(fs, P.Funcs[n])
		}
	}
	checkDecoderChains(fs, func(f *CFunc, line int, ok bool, msg string) {
		st := OK
		if !ok {
			st = Bad
		}
		r4.AddAt(st, "C "+f.Name+"|byte combination", fmt.Sprintf("%s:%d", f.Unit, line), "UTF-8 masks and shifts / "+msg+": code points of that length decode to other values")
	})
	// self-test of the recogniser on the positive example (it has no instance on a tree that delegates to libc)
	if ok, why := decoderSelfTest(); !ok {
		r4.AddAt(Undecided, "recogniser self-test", "checker/testdata/utf8_decoder.c", why)
	} else {
		r4.AddAt(OK, "recogniser self-test", "checker/testdata/utf8_decoder.c", "finds 3 combinations, flags exactly the wrong one")
	}
	r6 := c.Rule("R12.6", "a mask test for surrogates on a code point keeps every bit above the surrogate block", 0)
	nsur := checkSurrogateTests(fs, func(f *CFunc, line int, ok bool, msg string) {
		st := OK
		if !ok {
			st = Bad
		}
		r6.AddAt(st, "C "+f.Name+"|surrogate test", fmt.Sprintf("%s:%d", f.Unit, line), msg)
	})
	if nsur == 0 {
		r6.AddAt(OK, "recogniser self-test (no mask test for surrogates in the runtime)", "checker/testdata/utf8_decoder.c", "the runtime tests surrogates by range; the recogniser finds both examples and flags exactly the 16-bit mask")
	}
	r7 := c.Rule("R12.7", "encoders reject values above U+10FFFF before the C library conversion", 1)
	checkEncoderRange(P, r7)
	r1 := c.Rule("R12.1", "in-place changes of a text's byte length keep cap = length + 1", 2)
	checkCapTruth(c, P, r1)
	r5 := c.Rule("R12.5", "bytes are not overwritten before they are moved", 1)
	checkOverlap(c, P, r5)
	checkEncodeBufferAfterFailure(c, P, c.Rule("R12.9", "the buffer of a failed character encoding is not read as a string", 2))
	checkSliceBoundIsCodePoints(c, P, c.Rule("R12.10", "the DDP indices of a text slice are clamped to a number of code points, not of bytes", 2))
	r8 := c.Rule("R12.8", "bytes are classified only by the verified UTF-8 classification functions", 5)
	checkByteClassOwners(c, P, r8)
	r2 := c.Rule("R12.2", "text equality compares exactly the length its guard tested", 1)
	checkStringEqual(c, P, r2)
}

func decoderSelfTest() (bool, string) {
	home := "/verif"
	src := filepath.Join(home, "checker", "testdata", "utf8_decoder.c")
	out, err := exec.Command("clang-14", "-fsyntax-only", "-Xclang", "-ast-dump=json", src).Output()
	if err != nil {
		return false, "clang failed on the positive example: " + err.Error()
	}
	var root CNode
	if err := json.Unmarshal(out, &root); err != nil {
		return false, err.Error()
	}
	var fs []*CFunc
	for _, d := range root.Inner {
		if d.Kind == "FunctionDecl" {
			for _, in := range d.Inner {
				if in.Kind == "CompoundStmt" {
					fs = append(fs, &CFunc{Name: d.Name, Body: in, Unit: "testdata"})
				}
			}
		}
	}
	var bad []string
	n := checkDecoderChains(fs, func(f *CFunc, line int, ok bool, msg string) {
		if !ok {
			bad = append(bad, f.Name)
		}
	})
	if n != 3 || len(bad) != 1 || bad[0] != "bad2" {
		return false, fmt.Sprintf("expected 3 combinations with exactly bad2 flagged, got %d combinations, flagged %v", n, bad)
	}
	var sbad []string
	ns := checkSurrogateTests(fs, func(f *CFunc, line int, ok bool, msg string) {
		if !ok {
			sbad = append(sbad, f.Name)
		}
	})
	if ns != 2 || len(sbad) != 1 || sbad[0] != "is_surrogate_bad" {
		return false, fmt.Sprintf("expected 2 surrogate tests with exactly is_surrogate_bad flagged, got %d, flagged %v", ns, sbad)
	}
	return true, ""
}
