package main

import (
	"fmt"
	"go/ast"
	"go/constant"
	"go/token"
	"go/types"
	"sort"
	"strings"

	"golang.org/x/tools/go/packages"
)

// ---- parameter passing: who copies, who releases (shared by C05 R5.11 and C08) ----

type callCfg struct {
	level  int
	konst  bool // the constant-parameter analysis marked the parameter
	extern bool
	temp   bool // the argument is a temporary
	ret    *DT
}

type callObs struct {
	runs         int
	passedDirect bool // the evaluated argument itself is passed
	copied       bool // a fresh slot receives a deep copy and is passed
	moved        bool // a fresh slot receives the claimed temporary and is passed
	callerFrees  bool // the caller releases the passed slot after the call
	registered   bool // the passed slot is registered as a temporary of the caller
	problems     []string
}

func callModels(in *Interp, cfg *callCfg, decl *Obj) {
	in.Models["compiler.(*compiler).mangledNameDecl"] = func(in *Interp, pkg *packages.Package, call *ast.CallExpr, recv Val, args []Val) (Val, bool) {
		return StrV("f"), true
	}
	noop := func(in *Interp, pkg *packages.Package, call *ast.CallExpr, recv Val, args []Val) (Val, bool) {
		return TupleV(nil), true
	}
	in.Models["compiler.(*compiler).VisitFuncDecl"] = noop
	in.Models["compiler.(*compiler).declareImportedFuncDecl"] = noop
	delete(in.Models, "compiler.(*compiler).VisitFuncCall")
	in.Models["ast.IsExternFunc"] = func(in *Interp, pkg *packages.Package, call *ast.CallExpr, recv Val, args []Val) (Val, bool) {
		return boolV(cfg.extern), true
	}
	in.Models["ast.IsGenericInstantiation"] = func(in *Interp, pkg *packages.Package, call *ast.CallExpr, recv Val, args []Val) (Val, bool) {
		return boolV(false), true
	}
	in.Models["ast.(*FuncDecl).Module"] = func(in *Interp, pkg *packages.Package, call *ast.CallExpr, recv Val, args []Val) (Val, bool) {
		m := newObj("ast.Module")
		m.set("Ast", newObj("ast.Ast"))
		return m, true
	}
	in.Models["ast.(*Ast).GetMetadataByKind"] = func(in *Interp, pkg *packages.Package, call *ast.CallExpr, recv Val, args []Val) (Val, bool) {
		meta := newObj("annotators.ConstFuncParamMeta")
		meta.set("IsConst", MapV{Keys: []Val{StrV("p")}, Vals: []Val{boolV(cfg.konst)}})
		return TupleV{meta, boolV(true)}, true
	}
	in.Models["compiler.(*compiler).getPossiblyGenericReturnType"] = func(in *Interp, pkg *packages.Package, call *ast.CallExpr, recv Val, args []Val) (Val, bool) {
		return toGen(cfg.ret), true
	}
}

func mkFuncDecl(paramT *DT, ret *DT) *Obj {
	decl := newObj("ast.FuncDecl")
	pn := newObj("token.Token")
	pn.set("Literal", StrV("p"))
	pt := newObj("ddptypes.ParameterType")
	pt.set("Type", TypeV{paramT})
	pt.set("IsReference", boolV(false))
	p := newObj("ast.ParameterInfo")
	p.set("Name", pn)
	p.set("Type", pt)
	decl.set("Parameters", SliceV{Elems: []Val{p}})
	decl.set("ReturnType", TypeV{ret})
	return decl
}

// observeCall evaluates VisitFuncCall for one configuration.
func observeCall(L *Loaded, in *Interp, mk func() *Obj, cfg callCfg, paramT *DT) []callObs {
	var all []callObs
	decl := mkFuncDecl(paramT, cfg.ret)
	callModels(in, &cfg, decl)
	in.RunAll(64, func() {
		ob := callObs{}
		defer func() { all = append(all, ob) }()
		cobj := mk()
		cobj.set("optimizationLevel", ConstV{V: constant.MakeInt64(int64(cfg.level)), T: types.Typ[types.Int]})
		fw := newObj("funcWrapper")
		fw.set("funcDecl", decl)
		fw.set("irFunc", &IRFuncV{Name: "callee"})
		cobj.set("functions", MapV{Keys: []Val{StrV("f")}, Vals: []Val{fw}})
		e := newObj("ast.FuncCall")
		e.set("Func", decl)
		arg := exprNode("arg", paramT)
		arg.set("temp", boolV(cfg.temp))
		e.set("Args", MapV{Keys: []Val{StrV("p")}, Vals: []Val{arg}})
		in.CallFunc(L.Fn("src/compiler.(*compiler).VisitFuncCall"), cobj, []Val{e})
		for _, ev := range in.Events {
			if ev.Kind == "cerr" || ev.Kind == "panic" {
				ob.problems = append(ob.problems, ev.Kind+": "+ev.Msg)
				return
			}
		}
		ob.runs = 1
		var operand *IRVal
		copies := map[*IRVal]string{}
		claimed := map[*IRVal]bool{}
		var passed *IRVal
		called := false
		for _, ev := range in.Events {
			switch {
			case ev.Kind == "evaluate:arg":
				operand, _ = ev.Data[1].(*IRVal)
			case ev.Kind == "claim":
				if v, ok := ev.Data[0].(*IRVal); ok {
					claimed[v] = true
				}
			case ev.Kind == "deepCopy":
				if d, ok := ev.Data[0].(*IRVal); ok {
					copies[d] = "copy"
				}
			case ev.Kind == "store":
				if val, ok := ev.Data[0].(*IRVal); ok && val.Op == "load" && len(val.Args) == 1 && val.Args[0] == operand {
					if d, ok := ev.Data[1].(*IRVal); ok {
						if claimed[operand] {
							copies[d] = "move"
						} else {
							ob.problems = append(ob.problems, "the argument is moved bitwise into the parameter slot without being claimed")
						}
					}
				}
			case ev.Kind == "addTemp":
				if v, ok := ev.Data[0].(*IRVal); ok && passed != nil && v == passed {
					ob.registered = true
				}
			case ev.Kind == "call" && ev.Msg == "callee":
				called = true
				args := ev.Data[1:]
				// the parameter is the last argument (after the out-pointer of a non-primitive result)
				if len(args) > 0 {
					passed, _ = args[len(args)-1].(*IRVal)
				}
				if passed != nil {
					// look through bitcasts
					for passed.Op == "bitcast" && len(passed.Args) == 1 {
						passed = passed.Args[0]
					}
					switch {
					case passed == operand:
						ob.passedDirect = true
					case copies[passed] == "copy":
						ob.copied = true
					case copies[passed] == "move":
						ob.moved = true
					default:
						ob.problems = append(ob.problems, "the value passed for the parameter is neither the argument nor a slot that received it: "+passed.String())
					}
				}
			case ev.Kind == "call" && strings.HasSuffix(ev.Msg, ".FreeFunc") && called:
				if v, ok := ev.Data[1].(*IRVal); ok {
					for v.Op == "bitcast" && len(v.Args) == 1 {
						v = v.Args[0]
					}
					if v == passed {
						ob.callerFrees = true
					} else if v == operand {
						ob.problems = append(ob.problems, "the caller releases the argument itself after the call")
					}
				}
			}
		}
		if !called {
			ob.problems = append(ob.problems, "no call emitted")
		}
		// registered-as-temporary check needs the slot identity after the loop too
		for _, ev := range in.Events {
			if ev.Kind == "addTemp" {
				if v, ok := ev.Data[0].(*IRVal); ok && passed != nil && v == passed && passed != operand {
					ob.registered = true
				}
			}
		}
	})
	return all
}

// calleeFrees evaluates exitFuncScope for a function with one non-reference parameter p.
func calleeFrees(L *Loaded, in *Interp, mk func() *Obj, level int, konst bool) (frees bool, decided bool) {
	delete(in.Models, "compiler.(*compiler).exitScope")
	in.Models["ast.(*FuncDecl).Module"] = func(in *Interp, pkg *packages.Package, call *ast.CallExpr, recv Val, args []Val) (Val, bool) {
		m := newObj("ast.Module")
		m.set("Ast", newObj("ast.Ast"))
		return m, true
	}
	in.Models["ast.(*Ast).GetMetadataByKind"] = func(in *Interp, pkg *packages.Package, call *ast.CallExpr, recv Val, args []Val) (Val, bool) {
		meta := newObj("annotators.ConstFuncParamMeta")
		meta.set("IsConst", MapV{Keys: []Val{StrV("p")}, Vals: []Val{boolV(konst)}})
		return TupleV{meta, boolV(true)}, true
	}
	in.Models["ast.(*VarDecl).Name"] = func(in *Interp, pkg *packages.Package, call *ast.CallExpr, recv Val, args []Val) (Val, bool) {
		if o, ok := recv.(*Obj); ok {
			return o.get("name"), true
		}
		return Unk{"name"}, true
	}
	res := map[bool]bool{}
	n := 0
	in.RunAll(16, func() {
		cobj := mk()
		cobj.set("optimizationLevel", ConstV{V: constant.MakeInt64(int64(level)), T: types.Typ[types.Int]})
		fn := mkScope(mkScope(NilV{}, nil, nil), []ledgerItem{{name: "p"}}, nil)
		cobj.set("scp", fn)
		cobj.set("cfscp", fn)
		in.CallFunc(L.Fn("src/compiler.(*compiler).exitFuncScope"), cobj, []Val{newObj("ast.FuncDecl")})
		n++
		f := false
		for _, x := range freedIn(in.Events) {
			if x == "p" {
				f = true
			}
		}
		res[f] = true
	})
	if n == 0 || len(res) != 1 {
		return false, false
	}
	return res[true], true
}

func checkC05Calls(c *Check, L *Loaded) {
	r := c.Rule("R5.11", "for every way of passing a non-Referenz argument exactly one side releases it: the caller passes a fresh copy (or the claimed temporary) exactly when the callee, or for extern functions the caller itself, releases the parameter", 20)
	in, mk := newGeneratorInterp(L)
	T := &DT{Kind: "TEXT"}
	for _, extern := range []bool{false, true} {
		for _, level := range []int{0, 1, 2} {
			for _, konst := range []bool{false, true} {
				in2, mk2 := newGeneratorInterp(L)
				cf, dec := calleeFrees(L, in2, mk2, level, konst)
				for _, temp := range []bool{false, true} {
					for _, ret := range []*DT{{Kind: "ZAHL"}, T} {
						cfg := callCfg{level: level, konst: konst, extern: extern, temp: temp, ret: ret}
						obs := observeCall(L, in, mk, cfg, T)
						key := fmt.Sprintf("compiler.(*compiler).VisitFuncCall|extern=%v -O%d constant-parameter=%v argument-temporary=%v result=%s", extern, level, konst, temp, toGen(ret))
						runs := 0
						var bad []string
						hows := map[string]bool{}
						for _, ob := range obs {
							bad = append(bad, ob.problems...)
							if ob.runs == 0 {
								continue
							}
							runs++
							fresh := ob.copied || ob.moved
							calleeReleases := cf && !extern
							releases := 0
							if calleeReleases {
								releases++
							}
							if ob.callerFrees {
								releases++
							}
							if ob.registered {
								releases++
							}
							switch {
							case fresh && ob.passedDirect:
								bad = append(bad, "the call passes both the argument and a copy")
							case fresh && releases == 0:
								bad = append(bad, "the caller passes a fresh copy but neither the callee's scope exit nor the caller releases it: the copy leaks")
							case fresh && releases > 1:
								bad = append(bad, fmt.Sprintf("the fresh copy is released %d times (callee scope exit: %v, caller after the call: %v, caller's scope end: %v)", releases, calleeReleases, ob.callerFrees, ob.registered))
							case !fresh && calleeReleases:
								bad = append(bad, "the caller passes the argument itself but the callee's scope exit releases its parameter: the caller's value is released twice (dangling afterwards)")
							case !fresh && ob.callerFrees:
								bad = append(bad, "the caller passes the argument itself and releases it after the call")
							}
							if extern && fresh && !ob.callerFrees {
								bad = append(bad, "an extern callee never releases its parameters, and the caller does not release the copy after the call")
							}
							if ob.moved && !temp {
								bad = append(bad, "a non-temporary argument is claimed")
							}
							if fresh {
								hows["fresh copy/claimed temporary passed, released once"] = true
							} else {
								hows["argument passed as is, nobody releases it through the call"] = true
							}
						}
						if runs == 0 || !dec {
							r.Und(key, token.NoPos, fmt.Sprint("not evaluated: ", bad))
							continue
						}
						var hl []string
						for h := range hows {
							hl = append(hl, h)
						}
						sort.Strings(hl)
						how := strings.Join(hl, " / ")
						r.Decide(len(bad) == 0, key, token.NoPos, how, strings.Join(uniq(bad), "; "))
					}
				}
			}
		}
	}
}

func init() {
	registry["XCALL"] = func(c *Check) {
		in, mk := newGeneratorInterp(c.L)
		T := &DT{Kind: "TEXT"}
		cfg := callCfg{level: 0, extern: true, ret: T}
		decl := mkFuncDecl(T, T)
		callModels(in, &cfg, decl)
		in.RunAll(4, func() {
			cobj := mk()
			cobj.set("optimizationLevel", ConstV{V: constant.MakeInt64(0), T: types.Typ[types.Int]})
			fw := newObj("funcWrapper")
			fw.set("funcDecl", decl)
			fw.set("irFunc", &IRFuncV{Name: "callee"})
			cobj.set("functions", MapV{Keys: []Val{StrV("f")}, Vals: []Val{fw}})
			e := newObj("ast.FuncCall")
			e.set("Func", decl)
			arg := exprNode("arg", T)
			e.set("Args", MapV{Keys: []Val{StrV("p")}, Vals: []Val{arg}})
			in.CallFunc(c.L.Fn("src/compiler.(*compiler).VisitFuncCall"), cobj, []Val{e})
			fmt.Println(strings.Join(ledgerTrace(in), "\n  "))
		})
	}
}

func constantInt(n int) constant.Value { return constant.MakeInt64(int64(n)) }
func intType() types.Type              { return types.Typ[types.Int] }
