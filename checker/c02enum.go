package main

import (
	"go/ast"
	"go/token"
	"go/types"
	"golang.org/x/tools/go/packages"
	"strings"
)

// R2.4: every operator constant has an arm in String(), in the checker's visitor and in the generator's visitor.
func checkEnumExhaustive(c *Check) {
	L := c.L
	r := c.Rule("R2.4", "every operator constant has an arm in its String() method, in the checker's and in the generator's switch", 100)
	type site struct {
		fn   string // loader name
		what string
	}
	enums := map[string][]site{
		"UnaryOperator":   {{"src/ast.(UnaryOperator).String", "String()"}, {"src/parser/typechecker.(*Typechecker).VisitUnaryExpr", "type checker"}, {"src/compiler.(*compiler).VisitUnaryExpr", "code generator"}},
		"BinaryOperator":  {{"src/ast.(BinaryOperator).String", "String()"}, {"src/parser/typechecker.(*Typechecker).VisitBinaryExpr", "type checker"}, {"src/compiler.(*compiler).VisitBinaryExpr", "code generator"}},
		"TernaryOperator": {{"src/ast.(TernaryOperator).String", "String()"}, {"src/parser/typechecker.(*Typechecker).VisitTernaryExpr", "type checker"}, {"src/compiler.(*compiler).VisitTernaryExpr", "code generator"}},
		"TypeOperator":    {{"src/ast.(TypeOperator).String", "String()"}, {"src/parser/typechecker.(*Typechecker).VisitTypeOpExpr", "type checker"}, {"src/compiler.(*compiler).VisitTypeOpExpr", "code generator"}},
	}
	pp := L.ByRel["src/parser"]
	for _, en := range []string{"UnaryOperator", "BinaryOperator", "TernaryOperator", "TypeOperator"} {
		ops := operatorConsts(L, en)
		if len(ops) == 0 {
			r.Und("ast."+en, token.NoPos, "no constants found")
			continue
		}
		// constants the parser can construct (referenced in package parser outside case clauses)
		produced := map[types.Object]bool{}
		for _, f := range pp.Syntax {
			var st []ast.Node
			ast.Inspect(f, func(n ast.Node) bool {
				if n == nil {
					st = st[:len(st)-1]
					return true
				}
				st = append(st, n)
				if id, ok := n.(*ast.Ident); ok {
					if cst, ok := pp.TypesInfo.Uses[id].(*types.Const); ok {
						inCase := false
						for i := len(st) - 1; i >= 0; i-- {
							if cc, ok := st[i].(*ast.CaseClause); ok {
								for _, e := range cc.List {
									if e.Pos() <= id.Pos() && id.End() <= e.End() {
										inCase = true
									}
								}
								break
							}
						}
						if !inCase {
							produced[cst] = true
						}
					}
				}
				return true
			})
		}
		for _, s := range enums[en] {
			fi := L.Fn(s.fn)
			if fi == nil {
				r.Und("ast."+en+"|"+s.what, token.NoPos, s.fn+" not found")
				continue
			}
			info := fi.Pkg.TypesInfo
			have := map[types.Object]bool{}
			ast.Inspect(fi.Decl.Body, func(n ast.Node) bool {
				sw, ok := n.(*ast.SwitchStmt)
				if !ok || sw.Tag == nil {
					return true
				}
				if nt, ok := info.TypeOf(sw.Tag).(*types.Named); !ok || nt.Obj().Name() != en {
					return true
				}
				for _, cl := range sw.Body.List {
					for _, e := range cl.(*ast.CaseClause).List {
						switch x := ast.Unparen(e).(type) {
						case *ast.Ident:
							have[info.Uses[x]] = true
						case *ast.SelectorExpr:
							have[info.Uses[x.Sel]] = true
						}
					}
				}
				return true
			})
			// `if e.Operator == ast.X` also counts as handling
			ast.Inspect(fi.Decl.Body, func(n ast.Node) bool {
				if be, ok := n.(*ast.BinaryExpr); ok && (be.Op == token.EQL || be.Op == token.NEQ) {
					for _, e := range []ast.Expr{be.X, be.Y} {
						if sel, ok := ast.Unparen(e).(*ast.SelectorExpr); ok {
							if cst, ok := info.Uses[sel.Sel].(*types.Const); ok {
								have[cst] = true
							}
						}
					}
				}
				return true
			})
			for _, op := range ops {
				key := "ast." + op.Name + "|" + s.what
				switch {
				case have[op.Const]:
					r.OK(key, op.Const.Pos(), "has an arm")
				case s.what != "String()" && !produced[op.Const]:
					r.Ex(key, op.Const.Pos(), "the parser never constructs a node with this operator")
				default:
					r.Bad(key, fi.Decl.Pos(), strings.TrimSpace("operator "+op.Name+" has no arm in the "+s.what+": an expression using it is "+map[string]string{"String()": "unprintable (String() panics)", "type checker": "not type checked (panic)", "code generator": "compiled to whatever its last operand left behind"}[s.what]))
				}
			}
		}
	}
}

// R2.6: (*compiler).toIrType is total over the type classes and agrees with the model the cell evaluation uses for it.
func checkToIrType(c *Check, classes []*DT) {
	L := c.L
	r := c.Rule("R2.6", "toIrType maps every type class (aliases, definitions, lists of them) to a generator type without panicking, as the model assumes", 10)
	fi := L.Fn("src/compiler.(*compiler).toIrType")
	if fi == nil {
		r.Und("compiler.(*compiler).toIrType", token.NoPos, "function not found")
		return
	}
	in, mk := newGeneratorInterp(L)
	delete(in.Models, "compiler.(*compiler).toIrType")
	// declaring a Kombination type on demand is not what this rule looks at (R2.9 does): the declaration is a no-op here
	in.Models["compiler.(*compiler).defineOrDeclareStructType"] = func(in *Interp, pkg *packages.Package, call *ast.CallExpr, recv Val, args []Val) (Val, bool) {
		return TupleV(nil), true
	}
	all := append([]*DT{}, classes...)
	for _, d := range classes {
		if d.Kind != "VOID" && d.Kind != "LIST" {
			all = append(all, &DT{Kind: "LIST", Elem: d})
		}
	}
	for _, d := range all {
		var res []Val
		var panics []string
		_, exh := in.RunAll(16, func() {
			cobj := mk()
			v := in.CallFunc(fi, cobj, []Val{TypeV{d}})
			res = append(res, v)
			for _, e := range in.Events {
				if e.Kind == "panic" {
					panics = append(panics, in.L.Pos(e.Pos)+" "+e.Msg)
				}
			}
		})
		key := "toIrType(" + d.String() + ")"
		want := toGen(d)
		switch {
		case len(panics) > 0:
			r.Bad(key, fi.Decl.Pos(), "toIrType panics for this type: "+panics[0]+" - a program using the type is accepted and then ends in 'Unerwarteter Fehler'")
		case !exh:
			r.Und(key, fi.Decl.Pos(), "evaluation not exhaustive")
		default:
			ok := true
			for _, v := range res {
				if g, isG := v.(*GenT); isG {
					if !genSame(g, want) {
						ok = false
					}
				} else if want.Kind != "struct" && !(want.Kind == "list" && want.Elem.Kind == "struct") {
					ok = false
				}
			}
			r.Decide(ok, key, fi.Decl.Pos(), "→ "+want.String(), "toIrType yields a generator type other than "+want.String()+" for this class")
		}
	}
}
